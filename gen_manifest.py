#!/usr/bin/env python3
"""Regenerates /verif/MANIFEST.json from the table below (dev helper; the manifest itself is
what the harness reads). A property appears under `checks` when CLAIMS has an entry for it and
under `not_applicable` otherwise."""
import json

BASELINE = ("cd /repo && GOFLAGS=-mod=mod GOPROXY=off GOSUMDB=off go test -json -vet=off -count=1 -timeout 25m ./...")

# id -> (level, technique, text, note, design_ref)
OTHER_NOTE = ("Level 'other': a repository-specific static analysis decides the structural clauses named in the text; each is a necessary condition of the "
              "property (breaking it breaks behaviour for some input), none is the behavioural property as a whole. Trusted: Go type checker, x/tools v0.29.0 "
              "(go/packages, go/ssa, VTA), the checker's own CFG construction, the pinned dependency parse/v2 where a rule stops at its API, the tables in checker/internal/ref.")

CLAIMS = {
 "C01": ("other",
  "type-switch exhaustiveness, precedence-table agreement with the parser's grammar, save/restore must-pass-through on the CFG, structural recursion of the side-effect predicate, guard-domination of global-name tests, dead-test detection, escape tables",
  "Decides twelve structural necessary conditions of JS behaviour preservation (R01.1-R01.12, DESIGN.md §4 C01): printer exhaustiveness over the parser's node types, "
  "operator precedence tables vs the grammar extracted from the parser and ECMA-262, restoration of printer context flags on all paths, recursion of hasSideEffects into every "
  "evaluated operand, global names only assumed when undeclared, consistency of string-literal length tests, regexp escape tables, every AST slot printed at its grammar level, BigInt literals keep their suffix and bypass number shortening, string merging only across additions, function bodies isolate the for-init flag, parameters with effectful defaults are kept. Does not decide the correctness of the algebraic rewrites.",
  OTHER_NOTE, "DESIGN.md §4 C01"),
 "C02": ("other",
  "worlds (correlated-branch) must-pass-through search on the CFG, truth tables over guard atoms, SSA store enumeration, constant tables",
  "Decides eight structural necessary conditions of capture-free renaming (R02.1-R02.8, DESIGN.md §4 C02): every printed scope is renamed first on all feasible paths; the rename switch implies "
  "¬HasWith ∧ ¬KeepVarNames; every generated name passes isReserved, which consults all keywords and all undeclared variables; only renameScope writes identifier names and never the "
  "program scope, labels, property or import/export names; hoisted names are registered in intermediate scopes; the name alphabets are valid and duplicate-free; statement lists are optimized before their scope is renamed; the rename switch is restored on all paths.",
  OTHER_NOTE, "DESIGN.md §4 C02"),
 "C03": ("other",
  "reachability under stipulated state (raw text / pre) on the CFG, finite-domain evaluation of end-tag-omission guards over token kind × trait bits, subset checks against the HTML optional-tag lists, must-pass-through for the quoting routine",
  "Decides four local clauses (R03.1-R03.4, DESIGN.md §4 C03): text inside raw-text elements and pre is never whitespace/entity rewritten; no end tag is omitted on the strength of an element the minifier has no traits for, and unconditional omissions stay within the standard's optional-tag lists; "
  "every attribute value passes html.EscapeAttrVal; the end-tag look-ahead only skips tokens that leave no trace in the output. The trait tables are decided under C17. Whitespace significance per document, optional-tag inference in every context and `</script` inside script text are not decided.",
  OTHER_NOTE, "DESIGN.md §4 C03"),
 "C04": ("other",
  "must-pass-through with a stipulated flag on the CFG of the declaration writer, default-clause and write-every-element checks",
  "Decides three structural clauses only (R04.1-R04.3, DESIGN.md §4 C04): a stripped `!important` is written back on every path; unknown grammar elements, declarations with a parse error and value lists the minifier declines are passed through token by token; first-byte tests against a non-zero digit are confined to one-byte numbers. "
  "Equivalence of numbers, colours, shorthands, unicode-range and background-position rewrites is semantic and NOT decided (tables: C17).",
  OTHER_NOTE, "DESIGN.md §4 C04"),
 "C05": ("other",
  "must-pass-through on the CFG of the path emitter, guard classification and constant evaluation of (attribute, value) pairs in the attribute-dropping conditions",
  "Decides (R05.1-R05.4, DESIGN.md §4 C05): emitting command bytes always updates the last-command state; an attribute is only dropped when already removed, when it carries a documented SVG default, or when it has a non-functional namespace prefix (xlink/xml exempt); "
  "elements are dropped only under the enumerated guards; decoded character references are re-escaped (no bare < or &). The attribute-dropping condition is evaluated over the finite domain element × attribute × value against the SVG defaults. One known finding (xml:space=\"preserve\" removed). Path geometry, lengths and colours (numeric) are not decided.",
  OTHER_NOTE, "DESIGN.md §4 C05"),
 "C06": ("other",
  "token-switch exhaustiveness against the lexer's constants, write-on-all-paths rule on the CFG, reachability under the assumed option",
  "Decides (R06.1-R06.4, DESIGN.md §4 C06): every XML token type except comments has a case that writes on all paths (only the empty CDATA section is skipped); with KeepWhitespace the tag-adjacent trim is unreachable, omitSpace is reset after start/end tags, and no whitespace-only text is singled out for dropping; decoded character references are re-escaped in text and attribute values. "
  "Entity/CDATA byte round trips and word joining across comments are not decided.",
  OTHER_NOTE, "DESIGN.md §4 C06"),
 "C07": ("other",
  "finite-domain evaluation of the number guard over all 256 byte values, assignment-site enumeration, path rules with stipulated byte tests on the CFG",
  "Decides (R07.1-R07.3, DESIGN.md §4 C07): only tokens starting with '-' or a digit enter the number rewrite and the token text is assigned nowhere else (strings, literals, punctuation are written byte-identical); KeepNumbers disables every rewrite; "
  "the leading-zero repair (\"0\" before `.5`, \"-0\" and sign drop before `-.5`) lies on every path to the write. Numeric equality is C08's subject and not decided here.",
  OTHER_NOTE, "DESIGN.md §4 C07"),
 "C08": ("other",
  "SSA store / copy / append enumeration with provenance of the destination slice, constant-byte classification",
  "Decides two shape clauses only (R08.1, R08.2, DESIGN.md §4 C08): Decimal stores nothing but '0', '1', '-' and guarded digit increments and calls nothing, so it cannot introduce an exponent; all writes of Number/Decimal go through the parameter slice or low-bound-only reslices of it (no append, no high-bounded write target, no unsafe), so they can never touch bytes outside the slice they were given. "
  "Value equality, rounding, `never longer` and panic-freedom are NOT decided (no numeric abstract interpretation available).",
  OTHER_NOTE, "DESIGN.md §4 C08"),
 "C09": ("other",
  "must-pass-through rule on the CFG of the JS statement printer per statement kind",
  "Decides three printer disciplines (R09.1, R09.3, R09.4, DESIGN.md §4 C09): every `;`-terminated statement kind and every class field requests its semicolon on all paths after emitting, so that adjacent statements cannot be glued together; BigInt literals never pass through exponent-capable number shortening; a property name after a number is only written behind the trailing-digit test. "
  "Validity of the output of the six minifiers in general, re-acceptance, and the keyword-separation typestate (R09.2, evaluated and dropped) are NOT decided.",
  OTHER_NOTE, "DESIGN.md §4 C09"),
 "C10": ("other",
  "SSA provenance of the reader argument, error-edge return analysis, limit-guard domination on the CFG",
  "Decides three structural clauses (R10.1-R10.3, DESIGN.md §4 C10): the byte/string helpers return their own parameter on error and never hand its backing array to an in-place minifier; every documented resource limit "
  "(CSS nesting, CSS value count, SVG path length, JS string merge, JS var hoisting) is checked before the guarded region and its exceeded outcome leaves at once; every constant-index access that is dominated by a length test of the same slice is consistent with the strongest such test (134 accesses). Absence of panics, bounded recursion in general and linear time are NOT decided.",
  OTHER_NOTE, "DESIGN.md §4 C10"),
 "C11": ("other",
  "call-site enumeration with resolved callees, error-discipline path rules on the CFG, constant evaluation of params / media type arguments, source classification (attribute vs element)",
  "Decides, for every call from a minifier into the registry (R11.1-R11.5, DESIGN.md §4 C11): the error is bound, other errors leave through UpdateErrorPosition with the outer input and the token offset, ErrNotExist leaves the embedded bytes unchanged and scratch output is consumed only on success; "
  "inline params exactly for attribute contexts; documented default media types per element; the type attribute is recorded before it can be skipped; the data-URI payload minifier is looked up under the media type as parsed. One known finding (DataURI discards the error). Re-escaping for the host syntax is not covered.",
  OTHER_NOTE, "DESIGN.md §4 C11"),
 "C12": ("other",
  "use-enumeration of the reader parameter (whole-stream hand-off), call routing, ordering/domination rules on the CFG of the pipe wrappers and the response writer",
  "Decides why chunking cannot matter and that the wrappers deliver output and error (R12.1-R12.5, DESIGN.md §4 C12): each minifier hands its reader whole to parse.NewInput (which only uses Bytes()/io.ReadAll) and touches it nowhere else; "
  "all convenience entry points make the one M.Minify call with the caller's media type and the response writer calls exactly what Match returns; wg.Add before go, deferred Done/pipe close, error stored, Close = close pipe, wait, read error; "
  "Content-Length is deleted before any changed body reaches the wrapped ResponseWriter; Content-Type overrides the path-extension guess before matching; middlewares always Close. Goroutine schedules themselves are not explored.",
  OTHER_NOTE, "DESIGN.md §4 C12"),
 "C13": ("other",
  "SSA store/provenance enumeration, interprocedural may-write effect summaries (fixpoint), lock domination on the CFG, VTA call-graph reachability, determinism lints",
  "Decides the structural ways the shared registry could race or become nondeterministic (R13.1-R13.6, DESIGN.md §4 C13): option structs are only written through fresh copies; shallow struct copies are not written through shared reference fields; "
  "no package-level state is stored to outside init and no package-level slice is handed to a parameter that may be written through; registry fields are only accessed under the mutex and no registrar is reachable from a minifier; "
  "package-level append bases always reallocate; no map-order, clock, random or environment dependence; objects given back to a sync.Pool do not escape and no other stateful package-level variable exists. Flows of package-level slices through struct fields, and real schedules, are not covered.",
  OTHER_NOTE, "DESIGN.md §4 C13"),
 "C14": ("other",
  "must-pass-through and domination rules on the CFG of the six Minify methods and of the pipe wrappers",
  "Decides that success is only reported after the final probe w.Write(nil) whose error is tested and returned, and only under Err()==io.EOF (js: after js.Parse's error was returned); every other exit returns an error; "
  "the writer/reader wrappers pass the error on (R14.1-R14.3, DESIGN.md §4 C14). That the dependency's lexers surface reader errors through Err() is trusted.",
  OTHER_NOTE, "DESIGN.md §4 C14"),
 "C15": ("other",
  "abstraction of the dispatch functions to a lookup plan from their CFG and comparison with the documented plan; write-site enumeration for the registry fields",
  "Decides the documented matching rules as the shape of MinifyMimetype/Match/Minify and of the registrars (R15.1-R15.4, DESIGN.md §4 C15): literal lookup first, then patterns in registration order, else ErrNotExist with the writer untouched; "
  "Match has the identical plan; parameters from parse.Mediatype are forwarded; literal registration replaces, pattern registration appends. Go map/regexp/parse.Mediatype semantics are trusted.",
  OTHER_NOTE, "DESIGN.md §4 C15"),
 "C16": ("other",
  "gate-domination with call-site lifting for version-dependent syntax, flag/field binding comparison, reachability under an assumed option value on the CFG (worlds search)",
  "Decides three structural clauses (R16.1-R16.3, DESIGN.md §4 C16): every generation site of post-ES5 syntax is pass-through or behind minVersion(c≥edition) (possibly lifted to call sites or via a boolean parameter); "
  "every CLI option flag is bound to the field it names, on the struct that is registered; for a frozen table of (option, effect) instances the effect is unreachable when the option is set (comments: the verbatim write is unavoidable), and every option field is read. "
  "`Nothing else changes` per option, precision semantics and option interactions are not decided.",
  OTHER_NOTE, "DESIGN.md §4 C16"),
 "C17": ("proof",
  "constant-table evaluation from the type-checked syntax tree, compared entry by entry with reference tables",
  "Every entry of every built-in rewrite table (entities, colours, units, tag/attribute traits, MIME types, perfect-hash files) is evaluated from "
  "the composite literal in the current source and compared with reference tables transcribed from the standards; the statement is finite, so it is "
  "decided completely (one obligation per entry, all discharged).",
  "Trusted: go/types constant evaluation, Go's html.UnescapeString, x/image/colornames, the transcribed lists in checker/internal/ref. "
  "Not covered: that each table entry is exercised through the public minifier (dynamic).",
  "DESIGN.md §4 C17"),
 "C18": ("other",
  "guard-domination and must-pass-through rules on the CFG of minify.DataURI (boundary tests of the default-type and charset cuts, length comparisons before returning the input or choosing base64), cross-listed lookup / error / decoder rules of C11, source inspection of the dependency's URL decoder",
  "Decides only the clauses of C18 whose truth is in the shape of minify.DataURI (R18.1-R18.6, DESIGN.md §4 C18): the default media type text/plain is dropped only as a whole type (end or `;` follows) and `;charset=us-ascii` only between parameter boundaries — necessary for `the same media type`; the unchanged input is returned exactly under a comparison of its length with both candidate encodings and base64 is chosen under a comparison of the two candidate lengths — necessary for `never more bytes than it was given` and `whichever is shorter`; the payload's minifier is looked up under the media type as parsed (= R11.5). "
  "Two known findings: the payload minifier's error is discarded (= R11.1), and the pinned dependency decodes `+` in a payload as a space (= R11.8). NOT decided: the payload round trip per byte value, the arithmetic of the length comparison itself, minify.Mediatype (quoted strings with escaped quotes are not recognised by it — observation).",
  OTHER_NOTE, "DESIGN.md §4 C18"),
 "C19": ("other",
  "path rules on the CFG of cmd/minify (fallback rebinding, loop-exit and counter rules), provenance classification of path arguments of mutating os calls, writer/reader agreement of the backup name",
  "Decides (R19.1-R19.7, DESIGN.md §4 C19): a failed minification writes the original bytes and reports failure; task loops never stop early, failures are counted, summed over workers and decide the exit status; only destinations and backups are ever mutated; "
  "the JS bundle separator is confined to the JS media type; the overwrite backup is created under the name it is later removed by; a failed write of the destination fails the task; the overwrite detection follows symbolic links like the open does. Destination computation over directory trees, sync copying and watch mode are not decided.",
  OTHER_NOTE, "DESIGN.md §4 C19"),
 "C20": ("other",
  "ordering / domination / must-pass-through rules on the CFG of cmd/minify.minify (function literals attributed to their try.Do call site), provenance classification of mutated paths",
  "Decides the ordering invariant behind kill-safety (R20.1-R20.6, DESIGN.md §4 C20): backup rename (error tested) before the only truncating open, inputs opened before the output, backup removed only after Close and only when the copy's own error is nil, otherwise restored; "
  "every mutating os call targets the destination or the backup; the backup's creation name equals its recognition name; file identity is tested after following links. Kill points are prefixes of this one function's call sequence; power loss (fsync) is out of scope of the property.",
  OTHER_NOTE, "DESIGN.md §4 C20"),
}

# Session-3 additions: (old fragment, new fragment) applied to the evaluated technique / text of a claim.
def _amend(pid, field, old, new):
    lvl, tech, text, note, ref = CLAIMS[pid]
    if field == "tech":
        assert old in tech, (pid, old[:40])
        tech = tech.replace(old, new, 1)
    else:
        assert old in text, (pid, old[:40])
        text = text.replace(old, new, 1)
    CLAIMS[pid] = (lvl, tech, text, note, ref)

_amend("C01", "tech", "dead-test detection, escape tables", "dead-test detection, escape tables, slot-forwarding completeness of binding-pattern traversals, exhaustive evaluation of parenthesis decisions over all pairs of precedence levels, sibling agreement of the member-suffix printers")
_amend("C01", "text", "Decides twelve structural necessary conditions of JS behaviour preservation (R01.1-R01.12,", "Decides fifteen structural necessary conditions of JS behaviour preservation (R01.1-R01.15,")
_amend("C01", "text", "parameters with effectful defaults are kept. Does not decide", "parameters with effectful defaults are kept, traversals of binding patterns reach every nested binding, parenthesis decisions depend on the two levels only through their comparison (operator exceptions live in the operator's printer; comma un-grouping uses the slot's own level), and every member suffix keeps the parentheses of an optional chain. Does not decide")
_amend("C05", "tech", "must-pass-through on the CFG of the path emitter,", "must-pass-through and stipulated-branch path rules on the CFG of the path emitter, truth tables over comparison atoms, sibling agreement of start/end tag rewrites,")
_amend("C05", "text", "Decides (R05.1-R05.4, DESIGN.md §4 C05):", "Decides (R05.1-R05.10, DESIGN.md §4 C05):")
_amend("C05", "text", "One known finding (xml:space=\"preserve\" removed). Path geometry,", "Further: the smooth-curve reflection state is cleared by every command of another family and by closepath; start and end tags are renamed together; an exponent is only written into a plain integer; id/class/href values are not rewritten as numbers; a curve is replaced by a line only if a following smooth curve keeps its control point. Known findings: xml:space=\"preserve\" removed; degenerate curve to line before a smooth curve (cubic, quadratic). Path geometry,")
_amend("C06", "tech", "reachability under the assumed option", "reachability under the assumed option, who-may-rewrite enumeration per token kind, constant evaluation of the reverse-entity tables, typestate of the in-PI flag")
_amend("C06", "text", "Decides (R06.1-R06.4, DESIGN.md §4 C06):", "Decides (R06.1-R06.7, DESIGN.md §4 C06):")
_amend("C06", "text", "decoded character references are re-escaped in text and attribute values. Entity/CDATA byte round trips and word joining across comments are not decided.", "decoded character references are re-escaped in text and attribute values, including references to white space that a parser would normalise away; only character data is ever rewritten (DOCTYPE, PIs and tags are written verbatim); omitSpace follows the data written last (no word joining after CDATA); the value-less words of a processing instruction get no `=`. CDATA byte round trips, `]]>` arising from `]]&gt;` and white space inside PI content are not decided.")
_amend("C08", "tech", "constant-byte classification", "constant-byte classification, induction-variable direction of element-wise self-moves, kill/gen path rule for the dropped dot, bounded-before-use path rule for the precision parameter")
_amend("C08", "text", "Decides two shape clauses only (R08.1, R08.2, DESIGN.md §4 C08):", "Decides five shape clauses only (R08.1-R08.5, DESIGN.md §4 C08):")
_amend("C08", "text", "so they can never touch bytes outside the slice they were given. Value equality, rounding, `never longer` and panic-freedom are NOT decided", "so they can never touch bytes outside the slice they were given; digits are moved by copy() or by loops that walk against the shift; after the fraction is cut off the slice is not extended over the dot's byte unless that byte is overwritten (no result ends in `.`); the precision is bounded before it is added to an index (no overflow panic). Value equality, rounding in general, `never longer` and panic-freedom as a whole are NOT decided")
_amend("C10", "tech", "limit-guard domination on the CFG", "limit-guard domination on the CFG, forward lower-bound dataflow for index expressions (attained-by-data bounds), reassign-before-reuse path rule for remembered positions")
_amend("C10", "text", "Decides three structural clauses (R10.1-R10.3, DESIGN.md §4 C10):", "Decides five structural clauses (R10.1-R10.5, DESIGN.md §4 C10):")
_amend("C10", "text", "is consistent with the strongest such test (134 accesses). Absence of panics,", "is consistent with the strongest such test (134 accesses); no index or slice bound can be driven below zero by the function's own arithmetic from a range key or search result (about 1400 index expressions); a remembered position is reassigned after the element it designates was deleted. Absence of panics,")
_amend("C12", "text", "Content-Type overrides the path-extension guess before matching;", "the extension fallback is computed from the request PATH (RequestURI cut at `?`); Content-Type overrides the path-extension guess before matching;")
_amend("C13", "tech", "SSA store/provenance enumeration,", "SSA store/provenance enumeration, backward origin analysis of parameter maps (interprocedural, parameters lifted to call sites),")
_amend("C13", "text", "(R13.1-R13.6, DESIGN.md §4 C13):", "(R13.1-R13.7, DESIGN.md §4 C13):")
_amend("C13", "text", "and no other stateful package-level variable exists. Flows", "and no other stateful package-level variable exists; the parameter map handed to a minifier or returned by Match never originates in memory that outlives the call (package-level variables, the registry, sync.Map / sync.Pool results). Flows")
_amend("C14", "tech", "and of the pipe wrappers", "and of the pipe wrappers, discarded-result enumeration for writes to io.Writer parameters")
_amend("C14", "text", "the writer/reader wrappers pass the error on (R14.1-R14.3, DESIGN.md §4 C14).", "the writer/reader wrappers pass the error on; outside the probing minifiers and their helpers no write to an io.Writer parameter drops its error (R14.1-R14.4, DESIGN.md §4 C14).")
_amend("C16", "text", "Decides three structural clauses (R16.1-R16.3, DESIGN.md §4 C16):", "Decides four structural clauses (R16.1-R16.4, DESIGN.md §4 C16):")
_amend("C16", "text", "and every option field is read. `Nothing else", "and every option field is read; nested minification (conditional comments, inline content) runs through the receiver's own options, never through the default-options wrapper. `Nothing else")
_amend("C19", "tech", "(fallback rebinding, loop-exit and counter rules),", "(fallback rebinding, loop-exit and counter rules), evaluation of the separator guard against the registered JavaScript pattern over a universe of media types, structural protocol of the bundle reader, loop-variable address escape under the module's language version,")
_amend("C19", "text", "Decides (R19.1-R19.7, DESIGN.md §4 C19):", "Decides (R19.1-R19.9, DESIGN.md §4 C19):")
_amend("C19", "text", "the JS bundle separator is confined to the JS media type;", "the `;\\n` bundle separator is used for exactly the media types that select the JavaScript minifier; the bundle reader delivers the pending separator suffix, arms it only between files and takes files from the front; no pointer to a per-loop variable is stored (watch-mode task map);")
_amend("C19", "text", "Destination computation over directory trees, sync copying and watch mode are not decided.", "Destination computation over directory trees and sync copying are not decided.")
# fourth pass
_amend("C01", "text", "(R01.1-R01.15,", "(R01.1-R01.17,")
_amend("C01", "text", "Decides fifteen structural", "Decides seventeen structural")
_amend("C01", "text", "keeps the parentheses of an optional chain. Does not decide", "keeps the parentheses of an optional chain, the for-init `in` exclusion is only lifted inside brackets, and the ends-in-a-jump analysis looks through blocks only. Does not decide")
_amend("C03", "text", "(R03.1-R03.4, DESIGN.md §4 C03):", "(R03.1-R03.5, DESIGN.md §4 C03):")
_amend("C03", "text", "Decides four local clauses", "Decides five local clauses")
_amend("C03", "text", "The trait tables are decided under C17.", "The look-ahead token buffer compacts before it resets its read position and no pointer into it is kept across a Peek. The trait tables are decided under C17.")
_amend("C04", "text", "(R04.1-R04.3, DESIGN.md §4 C04):", "(R04.1-R04.4, DESIGN.md §4 C04):")
_amend("C04", "text", "Decides three structural clauses only", "Decides four structural clauses only")
_amend("C04", "text", "are confined to one-byte numbers. ", "are confined to one-byte numbers; white space inside a byte string is collapsed only in comment text (custom-property values, strings and URLs stay byte-identical). ")
_amend("C05", "text", "(R05.1-R05.10,", "(R05.1-R05.12,")
_amend("C06", "text", "(R06.1-R06.7,", "(R06.1-R06.8,")
_amend("C07", "text", "(R07.1-R07.3, DESIGN.md §4 C07):", "(R07.1-R07.7, DESIGN.md §4 C07):")
_amend("C07", "text", "Numeric equality is C08's subject and not decided here.", "The shape rules of minify.Number that numeric equality depends on (overlap-safe digit moves, no trailing dot, bounded precision, overflow guard of the exponent sum) are listed here too (R07.4-R07.7 = R08.3-R08.6); numeric equality as such is not decided.")
_amend("C08", "text", "(R08.1-R08.5,", "(R08.1-R08.6,")
_amend("C08", "text", "Decides five shape clauses only", "Decides six shape clauses only")
_amend("C09", "text", "(R09.1, R09.3, R09.4, DESIGN.md §4 C09):", "(R09.1, R09.3-R09.6, DESIGN.md §4 C09):")
_amend("C09", "text", "Decides three printer disciplines", "Decides five printer disciplines")
_amend("C09", "text", "is only written behind the trailing-digit test. ", "is only written behind the trailing-digit test; no generated name is a reserved word (= R02.3); `in` loses its parentheses in a for-init only inside brackets (= R01.16). ")
_amend("C10", "text", "(R10.1-R10.5,", "(R10.1-R10.6,")
_amend("C10", "text", "Decides five structural clauses", "Decides six structural clauses")
_amend("C12", "text", "(R12.1-R12.5,", "(R12.1-R12.6,")
_amend("C14", "text", "(R14.1-R14.4,", "(R14.1-R14.5,")
_amend("C19", "text", "(R19.1-R19.9,", "(R19.1-R19.10,")
_amend("C20", "text", "(R20.1-R20.6", "(R20.1-R20.7")

# fifth pass
_amend("C01", "text", "(R01.1-R01.17,", "(R01.1-R01.18,")
_amend("C01", "text", "Decides seventeen structural", "Decides eighteen structural")
_amend("C01", "text", "and the ends-in-a-jump analysis looks through blocks only. Does not decide", "the ends-in-a-jump analysis looks through blocks only, two evaluations are merged into one only for plain variables, and an assignment is folded into a `var` statement only for a `var`-declared name. Does not decide")
_amend("C03", "text", "(R03.1-R03.5, DESIGN.md §4 C03):", "(R03.1-R03.7, DESIGN.md §4 C03):")
_amend("C03", "text", "Decides five local clauses", "Decides seven local clauses")
_amend("C03", "text", "The trait tables are decided under C17.", "The value of an <input> is dropped only when it equals what the control has without it; attribute values are minified as a media type only for the attributes that hold one. The trait tables are decided under C17.")
_amend("C04", "tech", "default-clause and write-every-element checks", "default-clause and write-every-element checks, position/distance typing of index arithmetic (linear terms), scratch-buffer alias analysis, consumed-length use of numeric parses")
_amend("C04", "text", "(R04.1-R04.4, DESIGN.md §4 C04):", "(R04.1-R04.8, DESIGN.md §4 C04):")
_amend("C04", "text", "Decides four structural clauses only", "Decides eight structural clauses only")
_amend("C04", "text", "(custom-property values, strings and URLs stay byte-identical). ", "(custom-property values, strings and URLs stay byte-identical); an index into the value list is a position, not a distance; a scratch buffer is not handed out twice while its first content is still referenced; a numeric parse whose consumed length is ignored does not stand for the whole token; a remembered deletion index is not reused after the list changed (= R10.5). ")
_amend("C05", "text", "(R05.1-R05.12,", "(R05.1-R05.14,")
_amend("C07", "text", "(R07.1-R07.7, DESIGN.md §4 C07):", "(R07.1-R07.11, DESIGN.md §4 C07):")
_amend("C07", "text", "numeric equality as such is not de", "the byte that restores the leading zero is added only after a test of the saved input (never longer); numeric equality as such is not de")
_amend("C07", "text", "(R07.4-R07.7 = R08.3-R08.6)", "(R07.4-R07.10 = R08.3-R08.9)")
_amend("C08", "tech", "bounded-before-use path rule for the precision parameter", "bounded-before-use path rule for the precision parameter, guard-before-move/guard-before-write rule for the parsed exponent, linear-inequality entailment (dominating branch outcomes + reaching definitions) for the rounding index, stale-scan-cursor liveness rule")
_amend("C08", "text", "(R08.1-R08.6,", "(R08.1-R08.9,")
_amend("C08", "text", "Decides six shape clauses only", "Decides nine shape clauses only")
_amend("C09", "text", "(R09.1, R09.3-R09.6, DESIGN.md §4 C09):", "(R09.1, R09.3-R09.8, DESIGN.md §4 C09):")
_amend("C09", "text", "Decides five printer disciplines", "Decides seven printer disciplines")
_amend("C10", "text", "(R10.1-R10.6,", "(R10.1-R10.8,")
_amend("C10", "text", "Decides six structural clauses", "Decides eight structural clauses")
_amend("C12", "text", "(R12.1-R12.6,", "(R12.1-R12.7,")
_amend("C14", "text", "(R14.1-R14.5,", "(R14.1-R14.6,")
_amend("C16", "text", "(R16.1-R16.4,", "(R16.1-R16.5,")
_amend("C16", "text", "Decides four structural clauses", "Decides five structural clauses")
_amend("C19", "text", "(R19.1-R19.10,", "(R19.1-R19.12,")
_amend("C20", "text", "(R20.1-R20.7", "(R20.1-R20.8")

# sixth pass
_amend("C03", "text", "(R03.1-R03.7, DESIGN.md §4 C03):", "(R03.1-R03.7 incl. R03.5c, DESIGN.md §4 C03):")
_amend("C04", "text", "(R04.1-R04.8, DESIGN.md §4 C04):", "(R04.1-R04.10, DESIGN.md §4 C04):")
_amend("C04", "text", "Decides eight structural clauses only", "Decides ten structural clauses only")
_amend("C04", "text", "a remembered deletion index is not reused after the list changed (= R10.5). ", "a remembered deletion index is not reused after the list changed (= R10.5); Token.Equal — the licence to drop a repeated shorthand component — holds only for equal bytes; the separator before an attribute selector flag depends on the token alone and covers exactly i I s S. ")
_amend("C05", "text", "(R05.1-R05.14,", "(R05.1-R05.15,")
_amend("C07", "text", "(R07.1-R07.11, DESIGN.md §4 C07):", "(R07.1-R07.13, DESIGN.md §4 C07):")
_amend("C07", "text", "(R07.4-R07.10 = R08.3-R08.9)", "(R07.4-R07.10 = R08.3-R08.9, R07.13 = R08.10; R07.12: the saved lexeme is a copy and belongs to the current token)")
_amend("C08", "text", "(R08.1-R08.9,", "(R08.1-R08.10,")
_amend("C08", "text", "Decides nine shape clauses only", "Decides ten shape clauses only")
_amend("C09", "text", "(R09.1, R09.3-R09.8, DESIGN.md §4 C09):", "(R09.1, R09.3-R09.11, DESIGN.md §4 C09):")
_amend("C09", "text", "Decides seven printer disciplines", "Decides ten printer disciplines")
_amend("C11", "text", "(R11.1-R11.5, DESIGN.md §4 C11)", "(R11.1-R11.7, DESIGN.md §4 C11; R11.6/7 = R09.8/9: a data URI rewritten inside url() is still one URL token)")
_amend("C16", "text", "(R16.1-R16.5,", "(R16.1-R16.7,")
_amend("C16", "text", "Decides five structural clauses", "Decides seven structural clauses")
_amend("C19", "text", "(R19.1-R19.12,", "(R19.1-R19.14,")
_amend("C20", "text", "(R20.1-R20.8", "(R20.1-R20.9")
_amend("C20", "tech", "provenance classification of mutated paths", "provenance classification of mutated paths, typestate witness rule for the backup cleanup (variables assigned only after the backup rename)")

# after the sixth pass
_amend("C01", "text", "(R01.1-R01.18,", "(R01.1-R01.19,")
_amend("C01", "text", "Decides eighteen structural", "Decides nineteen structural")
_amend("C01", "text", "an assignment is folded into a `var` statement only for a `var`-declared name. Does not decide", "an assignment is folded into a `var` statement only for a `var`-declared name, and a destructuring item is moved to the front of a var list only past items without initializer. Does not decide")
_amend("C02", "text", "(R02.1-R02.8, DESIGN.md §4 C02)", "(R02.1-R02.9, DESIGN.md §4 C02; R02.9 reports one known finding: `with` in a nested function does not stop the renaming of the enclosing functions' locals)")
_amend("C03", "text", "(R03.1-R03.7 incl. R03.5c, DESIGN.md §4 C03):", "(R03.1-R03.9 incl. R03.5c, DESIGN.md §4 C03):")
_amend("C03", "text", "Decides seven local clauses", "Decides nine local clauses")
_amend("C03", "text", "The trait tables are decided under C17.", "End tags are dropped without look-ahead only where nothing but a closing sibling can follow (not rt/rp); the body start tag and the colgroup tags are dropped only after a look-ahead at the next element. The trait tables are decided under C17.")
_amend("C05", "text", "(R05.1-R05.15,", "(R05.1-R05.16,")
_amend("C10", "text", "(R10.1-R10.8,", "(R10.1-R10.9,")
_amend("C10", "text", "Decides eight structural clauses", "Decides nine structural clauses")
_amend("C19", "text", "(R19.1-R19.14,", "(R19.1-R19.15,")

_amend("C01", "text", "(R01.1-R01.19,", "(R01.1-R01.22,")
_amend("C01", "text", "Decides nineteen structural", "Decides twenty-two structural")
_amend("C01", "text", "only past items without initializer. Does not decide", "only past items without initializer; the zero test of numeric literals knows the digits of each literal kind; a lone class declaration is dropped only when defining it has no side effects (one known finding, R01.22: `return a,b,void 0` at the end of a function keeps returning b — pinned by the suite). Does not decide")
_amend("C09", "text", "(R09.1, R09.3-R09.11, DESIGN.md §4 C09):", "(R09.1, R09.3-R09.12, DESIGN.md §4 C09; R09.12 reports two known findings: an optional chain through a tagged template, pinned by the suite):")

# seventh pass
_amend("C01", "text", "(R01.1-R01.22,", "(R01.1-R01.24,")
_amend("C01", "text", "Decides twenty-two structural", "Decides twenty-four structural")
_amend("C03", "text", "(R03.1-R03.9 incl. R03.5c, DESIGN.md §4 C03):", "(R03.1-R03.10 incl. R03.5c-e, DESIGN.md §4 C03):")
_amend("C03", "text", "Decides nine local clauses", "Decides ten local clauses")
_amend("C10", "text", "(R10.1-R10.9,", "(R10.1-R10.10,")
_amend("C10", "text", "Decides nine structural clauses", "Decides ten structural clauses")
_amend("C19", "text", "(R19.1-R19.15,", "(R19.1-R19.16,")

_amend("C17", "text", "(one obligation per entry, all discharged).", "(one obligation per entry, all discharged). In addition the HTML attribute writer is shown to take `boolean` from that table alone (R17.boolwriter: the guard of the `=value` write is built from len(value) and Traits&booleanAttr only).")
_amend("C02", "text", "(R02.1-R02.9, DESIGN.md §4 C02; R02.9 reports one known finding:", "(R02.1-R02.10, DESIGN.md §4 C02; R02.10 reports a known finding: bindings of a dissolved else-block clash where names are kept; R02.9 reports one known finding:")
_amend("C03", "text", "(R03.1-R03.10 incl. R03.5c-e, DESIGN.md §4 C03):", "(R03.1-R03.11 incl. R03.5c-e, DESIGN.md §4 C03):")
_amend("C03", "text", "Decides ten local clauses", "Decides eleven local clauses")
_amend("C11", "text", "(R11.1-R11.7, DESIGN.md §4 C11;", "(R11.1-R11.8, DESIGN.md §4 C11; R11.8 reports a known finding in the pinned dependency: `+` in a data URI payload is decoded as a space;")
_amend("C19", "text", "(R19.1-R19.16,", "(R19.1-R19.17,")
_amend("C20", "text", "(R20.1-R20.9", "(R20.1-R20.10")
# eighth pass
_amend("C03", "text", "(R03.1-R03.11 incl. R03.5c-e, DESIGN.md §4 C03):", "(R03.1-R03.13 incl. R03.5c-e, DESIGN.md §4 C03):")
_amend("C03", "text", "Decides eleven local clauses", "Decides thirteen local clauses")
_amend("C04", "text", "(R04.1-R04.10, DESIGN.md §4 C04):", "(R04.1-R04.11, DESIGN.md §4 C04):")
_amend("C04", "text", "Decides ten structural clauses only", "Decides eleven structural clauses only")
_amend("C09", "text", "(R09.1, R09.3-R09.12, DESIGN.md §4 C09;", "(R09.1, R09.3-R09.14, DESIGN.md §4 C09;")
_amend("C10", "text", "(R10.1-R10.10,", "(R10.1-R10.11,")
_amend("C10", "text", "Decides ten structural clauses", "Decides eleven structural clauses")

# ninth pass
_amend("C01", "text", "Decides twenty-four structural necessary conditions of JS behaviour preservation (R01.1-R01.24,", "Decides twenty-five structural necessary conditions of JS behaviour preservation (R01.1-R01.25,")
_amend("C01", "text", "Does not decide the correctness of the algebraic rewrites.", "optimizeCondExpr leaves an operand of a conditional out only behind a licence for that operand (isEqualExpr on it, a literal flag, a constant condition). Does not decide the correctness of the algebraic rewrites.")
_amend("C03", "text", "Decides thirteen local clauses (R03.1-R03.13 incl. R03.5c-e, DESIGN.md §4 C03):", "Decides sixteen local clauses (R03.1-R03.16 incl. R03.5c-e, DESIGN.md §4 C03):")
_amend("C03", "text", "The trait tables are decided under C17.", "Table-section end tags are omitted only in front of a tag that closes the section, option end tags and the text around options only inside select, the script/template veto looks past comments, a colgroup start tag stays while a colgroup is open, and code in style/on* attributes is decoded before and re-escaped after its minifier (= R11.9). The trait tables are decided under C17.")
_amend("C04", "text", "(R04.1-R04.11, DESIGN.md §4 C04):", "(R04.1-R04.17, DESIGN.md §4 C04; R04.17 reports a known finding: a quoted font family that spells a keyword loses its quotes, pinned by the suite):")
_amend("C04", "text", "Decides eleven structural clauses only", "Decides seventeen structural clauses only")
_amend("C04", "text", "Equivalence of numbers, colours, shorthands,", "Further: zero-unit and colour tables (= R17.units, R17.colors); a hex colour is compacted only when every digit pair is equal; hsl() is converted only for percentage saturation and lightness; the URL of an @import is taken over whole. Equivalence of numbers, colours, shorthands,")
_amend("C05", "text", "Decides (R05.1-R05.16, DESIGN.md §4 C05):", "Decides (R05.1-R05.21, DESIGN.md §4 C05):")
_amend("C05", "text", "Known findings: xml:space", "Hex colours are compacted only with all pairs equal and a colour value changes only by a table entry or that compaction; the text of a style element is not white-space-collapsed; the `>` of `]]>` stays escaped in character data. Known findings: whole attribute values that look like numbers are rewritten as numbers (R05.20); xml:space")
_amend("C06", "text", "Decides (R06.1-R06.8, DESIGN.md §4 C06):", "Decides (R06.1-R06.9, DESIGN.md §4 C06):")
_amend("C06", "text", "CDATA byte round trips, `]]>` arising from `]]&gt;` and white space inside PI content are not decided.", "The data of text tokens and the text that replaces a CDATA section pass the escaper that keeps the `>` of `]]>` escaped. CDATA byte round trips and white space inside PI content are not decided.")
_amend("C08", "text", "Decides ten shape clauses only (R08.1-R08.10,", "Decides eleven shape clauses only (R08.1-R08.11,")
_amend("C08", "text", "Value equality, rounding in general,", "Every comparison between sums of indices into num and counts relates like with like (same position degree on both sides). Value equality, rounding in general,")
_amend("C09", "text", "(R09.1, R09.3-R09.14, DESIGN.md §4 C09;", "(R09.1, R09.3-R09.17, DESIGN.md §4 C09;")
_amend("C09", "text", "Validity of the output of the six minifiers in general,", "Every grammar position printed with a constant level gets at least the level of its ECMA-262 production (33 positions); XML and SVG character data never contains `]]>` (= R06.9, R05.21). Validity of the output of the six minifiers in general,")
_amend("C10", "text", "(R10.1-R10.11,", "(R10.1-R10.12,")
_amend("C10", "text", "Decides eleven structural clauses", "Decides twelve structural clauses")
_amend("C10", "text", "Absence of panics, bounded recursion in general and linear time are NOT decided.", "Every directly recursive function of the non-JS packages is depth-guarded or listed with the reason its depth is bounded. Absence of panics and linear time in general are NOT decided.")
_amend("C11", "text", "(R11.1-R11.8, DESIGN.md §4 C11;", "(R11.1-R11.10, DESIGN.md §4 C11;")
_amend("C11", "text", "Re-escaping for the host syntax is not covered.", "Code in an HTML attribute is decoded before and its ampersands escaped after its minifier; SVG style text reaches the CSS minifier without white space collapse. Re-escaping for the host syntax beyond that is not covered.")
_amend("C18", "text", "(R18.1-R18.6, DESIGN.md §4 C18):", "(R18.1-R18.8, DESIGN.md §4 C18):")
_amend("C18", "text", "minify.Mediatype (quoted strings with escaped quotes are not recognised by it — observation).", "Of minify.Mediatype two clauses are decided: a quote toggles the in-string state only behind an escape flag (quoted-pair), and every lowercased span is given in input coordinates; its output as a whole is not.")
_amend("C19", "text", "(R19.1-R19.17,", "(R19.1-R19.22,")
_amend("C19", "text", "Destination computation over directory trees and sync copying are not decided.", "Outputs are compared with the inputs and with each other as absolute paths and only without --bundle; no successful exit skips the cleanup of the backup; selection and type inference derive the file extension the same way. Destination computation over directory trees and sync copying are not decided.")
_amend("C20", "text", "(R20.1-R20.10", "(R20.1-R20.11")

NOT_APPLICABLE = {
}

PENDING = "static rules designed in DESIGN.md §4 but not built yet in this revision of /verif"

def main():
    ids = ["C%02d" % i for i in range(1, 21)]
    checks, na = [], []
    for pid in ids:
        if pid in CLAIMS:
            level, tech, text, note, ref = CLAIMS[pid]
            checks.append({
                "property_id": pid,
                "quick_cmd": "./check.sh %s quick" % pid,
                "thorough_cmd": "./check.sh %s thorough" % pid,
                "evidence_file": "/verif/evidence/%s.json" % pid,
                "replay_cmd_template": "./check.sh %s --replay {path}" % pid,
                "engine": "minverif",
                "level_claimed": {"category": level, "text": text, "design_ref": ref},
                "level_note": note,
                "technique": "static analysis: " + tech,
            })
        else:
            na.append({"property_id": pid, "reason": NOT_APPLICABLE.get(pid, PENDING)})
    m = {
        "version": 1,
        "setup_cmd": "./check.sh build",
        "hooks": {
            "guard": "verif",
            "enable": "none needed: static analysis reads /repo's sources; no instrumentation is compiled in",
            "baseline_off_cmd": BASELINE,
            "source_commits": [],
            "add_only": True,
        },
        "engines": [{
            "name": "minverif",
            "path": "/verif/checker",
            "serves_properties": sorted(CLAIMS),
            "kind_free_text": "repository-specific static analyser (go/packages + go/types + own CFG with split conditions + go/ssa + VTA call graph, x/tools v0.29.0 vendored); "
                              "never builds or runs minify",
        }],
        "checks": checks,
        "not_applicable": na,
        "notes": "Technique family: static analysis only. Except C17 every claim is level 'other': the check decides named structural clauses that are "
                 "necessary for the property (see DESIGN.md §4), not the behavioural property as a whole. known_findings.json lists genuine defects "
                 "(fixed in /repo by 'fix:' commits, or recorded).",
    }
    json.dump(m, open("/verif/MANIFEST.json", "w"), indent=1)
    open("/verif/MANIFEST.json", "a").write("\n")


# tenth pass
_amend("C01", "text", "Decides twenty-five structural necessary conditions of JS behaviour preservation (R01.1-R01.25,", "Decides twenty-eight structural necessary conditions of JS behaviour preservation (R01.1-R01.28; R01.28 reports three known findings, the Math.trunc / Math.abs / isNaN rewrites, pinned by the suite;")
_amend("C03", "text", "Decides sixteen local clauses (R03.1-R03.16 incl. R03.5c-e,", "Decides seventeen local clauses (R03.1-R03.17 incl. R03.5c-f,")
_amend("C09", "text", "(R09.1, R09.3-R09.17, DESIGN.md §4 C09;", "(R09.1, R09.3-R09.18, DESIGN.md §4 C09;")
_amend("C10", "text", "(R10.1-R10.12,", "(R10.1-R10.15,")
_amend("C10", "text", "Decides twelve structural clauses", "Decides fifteen structural clauses")
_amend("C10", "text", "Absence of panics and linear time in general are NOT decided.", "Temporary files are removed before the function that made them returns; the HTML minifier re-enters itself for iframe content only behind a depth bound; look-ahead loops with a growing index end at the error token. Absence of panics and linear time in general are NOT decided.")
_amend("C17", "text", "is built from len(value) and Traits&booleanAttr only).", "is built from len(value) and Traits&booleanAttr only), and the token slots that carry the traits to the minifier are fully rewritten by TokenBuffer.read on every path (R17.tokentraits = clause (f) of the token buffer rule): a text, svg or math token never inherits the traits of the tag that used its slot before.")
_amend("C09", "text", "(R09.1, R09.3-R09.18, DESIGN.md §4 C09;", "(R09.1, R09.3-R09.20, DESIGN.md §4 C09;")
_amend("C06", "text", "Decides (R06.1-R06.9, DESIGN.md §4 C06):", "Decides (R06.1-R06.10, DESIGN.md §4 C06):")
_amend("C06", "text", "CDATA byte round trips and white space inside PI content are not decided.", "The quoted words of a processing instruction are not entity-decoded. CDATA byte round trips and white space inside PI content are not decided.")
_amend("C03", "text", "Decides seventeen local clauses (R03.1-R03.17 incl. R03.5c-f,", "Decides eighteen local clauses (R03.1-R03.18 incl. R03.5c-f,")
_amend("C04", "text", "(R04.1-R04.17, DESIGN.md §4 C04;", "(R04.1-R04.18, DESIGN.md §4 C04;")
_amend("C04", "text", "Decides seventeen structural clauses only", "Decides eighteen structural clauses only")

# eleventh pass
_amend("C01", "text", "(R01.1-R01.28;", "(R01.1-R01.29;")
_amend("C01", "text", "Decides twenty-eight structural", "Decides twenty-nine structural")
_amend("C04", "text", "(R04.1-R04.18, DESIGN.md §4 C04;", "(R04.1-R04.20, DESIGN.md §4 C04;")
_amend("C04", "text", "Decides eighteen structural clauses only", "Decides twenty structural clauses only")
_amend("C10", "text", "(R10.1-R10.15,", "(R10.1-R10.17,")
_amend("C10", "text", "Decides fifteen structural clauses", "Decides seventeen structural clauses")
_amend("C10", "text", "Absence of panics and linear time in general are NOT decided.", "The output buffer of the byte-slice entry point shares no allocation with the input copy (SSA), and the helper that folds statements into a comma expression extends its accumulator in place. Absence of panics and linear time in general are NOT decided.")
_amend("C11", "text", "(R11.1-R11.10, DESIGN.md §4 C11;", "(R11.1-R11.10 with R11.9a-d, DESIGN.md §4 C11;")
_amend("C19", "text", "(R19.1-R19.22,", "(R19.1-R19.23,")
_amend("C11", "text", "Code in an HTML attribute is decoded before and its ampersands escaped after its minifier;", "Code in an HTML attribute is decoded before and its ampersands escaped after its minifier, the in-place decoder works on a copy of the token's bytes and the escaper decides each ampersand from the byte that follows it alone;")
_amend("C12", "text", "(R12.1-R12.7, DESIGN.md §4 C12)", "(R12.1-R12.8, DESIGN.md §4 C12)")
_amend("C12", "text", "middlewares always Close.", "middlewares always Close; the output buffer of M.Bytes has no base allocation in common with the input copy it reads (SSA).")
_amend("C12", "tech", "ordering/domination rules", "SSA base-allocation (alias) comparison of the writer's and the reader's buffers, ordering/domination rules")
_amend("C14", "text", "(R14.1-R14.6, DESIGN.md §4 C14)", "(R14.1-R14.7, DESIGN.md §4 C14); a buffered writer the library puts in front of the destination is flushed and the flush's error kept")
_amend("C17", "text", "never inherits the traits of the tag that used its slot before.", "never inherits the traits of the tag that used its slot before, and the traits assigned are the table entry of the token's own name (no borrowing from a related name).")
_amend("C18", "text", "(R18.1-R18.8, DESIGN.md §4 C18):", "(R18.1-R18.9, DESIGN.md §4 C18):")
_amend("C18", "text", "Two known findings:", "The base64 text is encoded into freshly allocated memory (SSA: every base of the destination is a make in DataURI). Two known findings:")
_amend("C18", "tech", "cross-listed lookup", "SSA base-allocation check of the base64 destination, cross-listed lookup")
_amend("C01", "text", "(R01.1-R01.29;", "(R01.1-R01.34;")
_amend("C01", "text", "Decides twenty-nine structural", "Decides thirty-four structural")
_amend("C04", "text", "(R04.1-R04.20, DESIGN.md §4 C04;", "(R04.1-R04.21, DESIGN.md §4 C04;")
_amend("C04", "text", "Decides twenty structural clauses only", "Decides twenty-one structural clauses only")
_amend("C09", "text", "(R09.1, R09.3-R09.20, DESIGN.md §4 C09;", "(R09.1, R09.3-R09.21, DESIGN.md §4 C09;")
_amend("C05", "text", "Decides (R05.1-R05.21, DESIGN.md §4 C05):", "Decides (R05.1-R05.22, DESIGN.md §4 C05; path data that contains a character reference is not parsed):")
_amend("C01", "text", "(R01.1-R01.34;", "(R01.1-R01.37;")
_amend("C01", "text", "Decides thirty-four structural", "Decides thirty-seven structural")
_amend("C04", "text", "(R04.1-R04.21, DESIGN.md §4 C04;", "(R04.1-R04.22, DESIGN.md §4 C04;")
_amend("C04", "text", "Decides twenty-one structural clauses only", "Decides twenty-two structural clauses only")
_amend("C09", "text", "(R09.1, R09.3-R09.21, DESIGN.md §4 C09;", "(R09.1, R09.3-R09.23, DESIGN.md §4 C09;")
# twelfth pass
_amend("C01", "text", "(R01.1-R01.37;", "(R01.1-R01.41;")
_amend("C01", "text", "Decides thirty-seven structural", "Decides forty-one structural")
_amend("C02", "text", "DESIGN.md §4 C02", "DESIGN.md §4 C02; R02.11: every binding of a scope takes its name from the generator")
_amend("C04", "text", "(R04.1-R04.22, DESIGN.md §4 C04;", "(R04.1-R04.24, DESIGN.md §4 C04; R04.24 reports a known finding, `initial` next to other border colours, pinned by the suite;")
_amend("C08", "text", "Decides eleven shape clauses only (R08.1-R08.11,", "Decides twelve shape clauses only (R08.1-R08.12,")
_amend("C10", "text", "(R10.1-R10.17,", "(R10.1-R10.19,")
_amend("C10", "text", "Decides seventeen structural clauses", "Decides nineteen structural clauses")
_amend("C11", "text", "(R11.1-R11.10 with R11.9a-d, DESIGN.md §4 C11;", "(R11.1-R11.11 with R11.9a-d, DESIGN.md §4 C11;")
_amend("C14", "text", "(R14.1-R14.7, DESIGN.md §4 C14)", "(R14.1-R14.8, DESIGN.md §4 C14)")
_amend("C18", "text", "(R18.1-R18.9, DESIGN.md §4 C18):", "(R18.1-R18.11, DESIGN.md §4 C18):")
_amend("C02", "text", "R02.11: every binding of a scope takes its name from the generator", "R02.11: every binding of a scope takes its name from the generator; R02.12 reports a known finding in the pinned parser: the name of a class expression is in no scope")
_amend("C03", "text", "Decides eighteen local clauses (R03.1-R03.18 incl. R03.5c-f,", "Decides nineteen local clauses (R03.1-R03.19 incl. R03.5c-f,")
_amend("C19", "text", "(R19.1-R19.23,", "(R19.1-R19.24,")
# thirteenth pass
_amend("C04", "text", "(R04.1-R04.24,", "(R04.1-R04.25,")
_amend("C05", "text", "Decides (R05.1-R05.22,", "Decides (R05.1-R05.23,")
_amend("C08", "text", "Decides twelve shape clauses only (R08.1-R08.12,", "Decides thirteen shape clauses only (R08.1-R08.13,")
_amend("C10", "text", "(R10.1-R10.19,", "(R10.1-R10.21,")
_amend("C10", "text", "Decides nineteen structural clauses", "Decides twenty-one structural clauses")
_amend("C11", "text", "(R11.1-R11.11 with R11.9a-d,", "(R11.1-R11.12 with R11.9a-d,")
_amend("C17", "text", "(no borrowing from a related name).", "(no borrowing from a related name); no write goes through bytes that belong to a package-level table (R17.tablestate = R13.2, SSA).")
_amend("C01", "text", "(R01.1-R01.41;", "(R01.1-R01.44;")
_amend("C01", "text", "Decides forty-one structural", "Decides forty-four structural")
_amend("C09", "text", "(R09.1, R09.3-R09.23, DESIGN.md §4 C09;", "(R09.1, R09.3-R09.25, DESIGN.md §4 C09;")

_amend("C01", "text", "(R01.1-R01.44;", "(R01.1-R01.47; R01.46(c) reports a known finding, an else block dissolved into a scope with kept names, K17;")
_amend("C01", "text", "Decides forty-four structural", "Decides forty-seven structural")
_amend("C01", "text", "Does not decide the correctness of the algebraic rewrites.", "A `!` in front of a function, class or let[ operand is written only where the operand is the whole statement (three-valued evaluation of the dominating tests under prec != js.OpExpr); a block is merged into its parent scope only behind a comparison of its declarations with the names the parent uses and, for the global scope, declares; only an unlabelled jump is removed from the end of a list. Does not decide the correctness of the algebraic rewrites.")
_amend("C02", "text", "(R02.1-R02.10,", "(R02.1-R02.10 and R02.13 = R01.46, whose clause (c) reports the known finding K17,")
_amend("C03", "text", "Decides nineteen local clauses (R03.1-R03.19", "Decides twenty local clauses (R03.1-R03.20; R03.20: html, head and body tags are not dropped in front of a comment that is kept; R03.18 = R09.20 now also for octal escapes, regular expression classes and `<!--`")
_amend("C05", "text", "(R05.1-R05.23,", "(R05.1-R05.25,")
_amend("C05", "text", "xml:space=\"preserve\" removed; degenerate curve to line before a smooth curve (cubic, quadratic). Path geometry,", "xml:space=\"preserve\" removed. The degenerate-curve findings are repaired (look-ahead at the command that follows, R05.25: the field is set before every copyInstruction call, a dropped zero-length line restores the control point state and is kept in front of a smooth curve); a DOCTYPE with an internal subset is recognised behind white space (R05.24); a dropped processing instruction does not reset the `]` count. Path geometry,")
_amend("C09", "text", "(R09.1, R09.3-R09.25, DESIGN.md §4 C09;", "(R09.1, R09.3-R09.25 with R09.20(b)-(d): octal escapes, regular expression classes and `<!--` in script text, DESIGN.md §4 C09;")
_amend("C12", "text", "(R12.1-R12.8, DESIGN.md §4 C12)", "(R12.1-R12.9, DESIGN.md §4 C12; R12.9: the goroutine releases the wait group only after everything that touches the destination or the error)")
_amend("C13", "text", "(R13.1-R13.7, DESIGN.md §4 C13)", "(R13.1-R13.9, DESIGN.md §4 C13; R13.2 also reports an append to a reslice of a value that may be a package-level slice; R13.9: every minifier that creates a parse.Input restores it)")
_amend("C16", "text", "for a frozen table of (option, effect) instances", "for a frozen table of (option, effect) instances (the value of on/off and button inputs counts as a default attribute value)")
_amend("C18", "text", "(R18.1-R18.11, DESIGN.md §4 C18)", "(R18.1-R18.12, DESIGN.md §4 C18; R18.12: a length computed from the payload is not read after the payload was assigned again)")

_amend("C20", "text", "DESIGN.md §4 C20", "DESIGN.md §4 C20; R20.12: the backup name of an in-place task is compared with the other tasks' inputs and outputs when the plan is made")
_amend("C04", "text", "DESIGN.md §4 C04", "DESIGN.md §4 C04; R04.26: zeros leave a box-shadow by position only when no item is var(), attr() or env()")

_amend("C01", "text", "(R01.1-R01.47;", "(R01.1-R01.50; K18: isOptionalGroup looks at the outermost link only, K19: joined strings printed as a directive, both pinned by the suite;")
_amend("C01", "text", "Decides forty-seven structural", "Decides fifty structural")
_amend("C02", "text", "(R02.1-R02.10 and R02.13", "(R02.1-R02.10, R02.14: the top-level renamer consults HasWith, and R02.13")
_amend("C03", "text", "Decides twenty local clauses (R03.1-R03.20;", "Decides twenty-one local clauses (R03.1-R03.21; R03.21: a ruby part's end tag is omitted only in front of a start tag that closes it, sixteen pairs evaluated;")
_amend("C04", "text", "R04.26: zeros leave a box-shadow", "R04.27: an escaped space is not trimmed from an @import url(); R04.26: zeros leave a box-shadow")
_amend("C05", "text", "(R05.1-R05.25,", "(R05.1-R05.26; R05.26: no coordinate that is not finite is formatted,")
_amend("C09", "text", "(R09.1, R09.3-R09.25 with R09.20(b)-(d)", "(R09.1, R09.3-R09.28 — R09.26 = R01.48 with the known finding K18, R09.27 = R05.26, R09.28 = R04.27 — with R09.20(b)-(e)")
_amend("C16", "text", "(the value of on/off and button inputs counts as a default attribute value)", "(the value of on/off and button inputs counts as a default attribute value; with KeepEndTags no html, head, body or colgroup tag pair is removed)")

_amend("C03", "text", "Decides twenty-one local clauses (R03.1-R03.21;", "Decides twenty-two local clauses (R03.1-R03.22; R03.22: no boolean that records an open table part is cleared by a table tag, tables nest;")
_amend("C04", "text", "R04.27: an escaped space", "R04.28 = R16.8: minify.Decimal sees no number with an exponent; R04.29: a negative hue is wrapped before HSL2RGB; R04.27: an escaped space")
_amend("C18", "text", "(R18.1-R18.12, DESIGN.md §4 C18;", "(R18.1-R18.13, DESIGN.md §4 C18; R18.13: the length count and parse.EncodeURL use the same escape table;")
_amend("C16", "text", "Decides seven structural clauses (R16.1-R16.7,", "Decides eight structural clauses (R16.1-R16.8; R16.8 = R04.28: with KeepCSS2 no number with an exponent reaches minify.Decimal;")

_amend("C01", "text", "(R01.1-R01.50;", "(R01.1-R01.53; R01.51 = R02.15: global-name tests on the resolved variable, R01.52 = R13.1 for package js, R01.53: no var initialiser is discarded;")
_amend("C01", "text", "Decides fifty structural", "Decides fifty-three structural")
_amend("C02", "text", "(R02.1-R02.10, R02.14:", "(R02.1-R02.10, R02.15 = R01.51, R02.14:")
_amend("C03", "text", "Decides twenty-two local clauses (R03.1-R03.22;", "Decides twenty-four local clauses (R03.1-R03.24; R03.23: the colgroup end tag stays in front of colgroup and col, R03.24 = R13.1 for package html;")
_amend("C04", "text", "R04.28 = R16.8:", "R04.30 = R13.1 for package css; R04.28 = R16.8 (b: no number is handed back unminified):")
_amend("C06", "text", "Decides (R06.1-R06.10, DESIGN.md §4 C06):", "Decides (R06.1-R06.11, DESIGN.md §4 C06; R06.11 = R13.1 for package xml: no state of the minifier survives a call):")
_amend("C09", "text", "R09.28 = R04.27 —", "R09.28 = R04.27, R09.29 = R01.38 —")
_amend("C12", "text", "(R12.1-R12.9, DESIGN.md §4 C12;", "(R12.1-R12.10, DESIGN.md §4 C12; R12.10: the bytes a Read returned are used before its error decides;")
_amend("C13", "text", "(R13.1-R13.9, DESIGN.md §4 C13;", "(R13.1-R13.9, DESIGN.md §4 C13; R13.6 also follows the memory a method of a pooled object returns;")
_amend("C16", "text", "Decides eight structural clauses (R16.1-R16.8;", "Decides nine structural clauses (R16.1-R16.9; R16.9: no escape is decoded into a raw U+2028 / U+2029 in a string literal;")
_amend("C19", "text", "(R19.1-R19.24, DESIGN.md §4 C19)", "(R19.1-R19.25, DESIGN.md §4 C19; R19.25: the hidden-name test of the walk spares the directory named on the command line)")

_amend("C04", "text", "R04.30 = R13.1 for package css;", "R04.31: the properties of one case clause have values of one shape (reference table); R04.30 = R13.1 for package css;")
_amend("C13", "text", "(R13.1-R13.9, DESIGN.md §4 C13;", "(R13.1-R13.10, DESIGN.md §4 C13; R13.10: no format package assigns to a field of the registry;")
_amend("C14", "text", "DESIGN.md §4 C14", "DESIGN.md §4 C14; R14.9: the command minifier probes its writer")
_amend("C19", "text", "(R19.1-R19.25, DESIGN.md §4 C19;", "(R19.1-R19.26, DESIGN.md §4 C19; R19.26: no loop over a map reads a map it assigns to;")

_amend("C01", "text", "(R01.1-R01.53;", "(R01.1-R01.55; R01.54: the preceding expression statement moves only into a head that is evaluated first, once, in the list's scope (reference table), R01.55: the truth of a negated number is decided by isFalsy;")
_amend("C01", "text", "Decides fifty-three structural", "Decides fifty-five structural")
_amend("C03", "text", "Decides twenty-four local clauses (R03.1-R03.24;", "Decides twenty-six local clauses (R03.1-R03.26; R03.25: every decoder call hands over a reverse map with the bytes the parser normalises (CR), R03.26: a comment dropped behind the pre start tag does not hand its newline to the first-newline rule;")
_amend("C04", "text", "R04.31: the properties of one case clause", "R04.32: the property tests of minifyTokens see the name behind a vendor prefix; R04.31: the properties of one case clause")
_amend("C09", "text", "R09.29 = R01.38 —", "R09.29 = R01.38, R09.30: the parentheses around the identifiers let and async stay —")

_amend("C01", "text", "(R01.1-R01.55;", "(R01.1-R01.56; R01.56: node lists are sorted with a stable sort;")
_amend("C01", "text", "Decides fifty-five structural", "Decides fifty-six structural")
_amend("C04", "text", "R04.32: the property tests of minifyTokens", "R04.33: the cases of a unit conversion agree on its direction and use the units' factors (reference table); R04.32: the property tests of minifyTokens")
_amend("C09", "text", "R09.30: the parentheses around the identifiers let and async stay —", "R09.30: the parentheses around the identifiers let and async stay, R09.31 = R11.9 (the escaper of ampersands in attribute code) —")
_amend("C13", "text", "R13.10: no format package assigns to a field of the registry;", "R13.10: no format package assigns to a field of the registry; R13.11: no function stores into a params map parameter;")

_amend("C08", "text", "R08.1-R08.13", "R08.1-R08.14")
_amend("C07", "text", "R07.1-R07.13", "R07.1-R07.15")

_amend("C01", "text", "(R01.1-R01.56;", "(R01.1-R01.57; R01.57: an operand negated by De Morgan's rewrite is grouped for every level below the unary level (exhaustive evaluation);")
_amend("C01", "text", "Decides fifty-six structural", "Decides fifty-seven structural")
_amend("C03", "text", "Decides twenty-six local clauses (R03.1-R03.26;", "Decides twenty-seven local clauses (R03.1-R03.27; R03.27: only attributes with a missing-value default are dropped for having it (reference table);")
_amend("C03", "text", "the colgroup end tag stays in front of colgroup and col,", "the colgroup end tag stays in front of colgroup, col and template,")

_amend("C04", "text", "R04.33: the cases of a unit conversion", "R04.34: the alpha of an eight-digit hex colour is dropped or replaced only behind equalities on both of its digits; R04.33: the cases of a unit conversion")
_amend("C03", "text", "Decides twenty-seven local clauses (R03.1-R03.27;", "Decides twenty-eight local clauses (R03.1-R03.28; R03.28: a condition that looks for a line feed answers alike for a carriage return (truth table);")
_amend("C01", "text", "(R01.1-R01.57;", "(R01.1-R01.57; R01.33 decides both spellings of the exponent marker (e-, E-);")

_amend("C02", "text", "R02.11: every binding of a scope takes its name from the generator", "R02.2 also demands that the save of the rename switch dominates every other store to it (the caller's value comes back); R02.11: every binding of a scope takes its name from the generator")

if __name__ == "__main__":
    main()
