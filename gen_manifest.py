#!/usr/bin/env python3
"""Regenerates /verif/MANIFEST.json from the table below (dev helper; the manifest itself is
what the harness reads). A property appears under `checks` when CLAIMS has an entry for it and
under `not_applicable` otherwise."""
import json

BASELINE = ("cd /repo && GOFLAGS=-mod=mod GOPROXY=off GOSUMDB=off go test -json -vet=off -count=1 -timeout 25m ./...")

# id -> (level, technique, text, note, design_ref)
CLAIMS = {
 "C17": ("proof",
  "constant-table evaluation from the type-checked syntax tree, compared entry by entry with reference tables",
  "Every entry of every built-in rewrite table (entities, colours, units, tag/attribute traits, MIME types, perfect-hash files) is evaluated from "
  "the composite literal in the current source and compared with reference tables transcribed from the standards; the statement is finite, so it is "
  "decided completely (one obligation per entry, all discharged).",
  "Trusted: go/types constant evaluation, Go's html.UnescapeString, x/image/colornames, the transcribed lists in checker/internal/ref. "
  "Not covered: that each table entry is exercised through the public minifier (dynamic).",
  "DESIGN.md §4 C17"),
}

NOT_APPLICABLE = {
 "C18": "DataURI/Mediatype correctness is about decoded byte values and length comparisons between encodings; no structural clause separates a right "
        "from a wrong version (the structural neighbours are checked under C10 R10.1, C11 R11.1, C13 R13.4).",
}

PENDING = "static rules designed in DESIGN.md §4 but not built yet in this revision of /verif"

def main():
    ids = ["C%02d" % i for i in range(1, 21)]
    checks, na = [], []
    for pid in ids:
        if pid in CLAIMS:
            level, tech, text, note, ref = CLAIMS[pid]
            checks.append({
                "property_id": pid,
                "quick_cmd": "./check.sh %s quick" % pid,
                "thorough_cmd": "./check.sh %s thorough" % pid,
                "evidence_file": "/verif/evidence/%s.json" % pid,
                "replay_cmd_template": "./check.sh %s --replay {path}" % pid,
                "engine": "minverif",
                "level_claimed": {"category": level, "text": text, "design_ref": ref},
                "level_note": note,
                "technique": "static analysis: " + tech,
            })
        else:
            na.append({"property_id": pid, "reason": NOT_APPLICABLE.get(pid, PENDING)})
    m = {
        "version": 1,
        "setup_cmd": "./check.sh build",
        "hooks": {
            "guard": "verif",
            "enable": "none needed: static analysis reads /repo's sources; no instrumentation is compiled in",
            "baseline_off_cmd": BASELINE,
            "source_commits": [],
            "add_only": True,
        },
        "engines": [{
            "name": "minverif",
            "path": "/verif/checker",
            "serves_properties": sorted(CLAIMS),
            "kind_free_text": "repository-specific static analyser (go/packages + go/types + own CFG with split conditions + go/ssa + VTA call graph, x/tools v0.29.0 vendored); "
                              "never builds or runs minify",
        }],
        "checks": checks,
        "not_applicable": na,
        "notes": "Technique family: static analysis only. Except C17 every claim is level 'other': the check decides named structural clauses that are "
                 "necessary for the property (see DESIGN.md §4), not the behavioural property as a whole. known_findings.json lists genuine defects "
                 "(fixed in /repo by 'fix:' commits, or recorded).",
    }
    json.dump(m, open("/verif/MANIFEST.json", "w"), indent=1)
    open("/verif/MANIFEST.json", "a").write("\n")

if __name__ == "__main__":
    main()
