#!/bin/sh
# usage: ./check.sh <property-id> <quick|thorough>        decide the property on /repo's working tree
#        ./check.sh <property-id> --replay <report.json>  re-evaluate the obligations of a report
#        ./check.sh build                                 (re)build bin/minverif from /verif/checker
# Static analysis only: the checker loads and type-checks /repo's current sources
# (go/packages) and never builds or runs minify itself.
set -u
HERE=$(cd "$(dirname "$0")" && pwd)
REPO=${VERIF_REPO:-/repo}
export GOPROXY=off GOSUMDB=off GOTOOLCHAIN=local GOWORK=off CGO_ENABLED=0
unset GOFLAGS
build() {
	(cd "$HERE/checker" && GOFLAGS=-mod=vendor go build -o "$HERE/bin/minverif" ./cmd/minverif) || {
		echo "checker build failed" >&2
		exit 2
	}
}
if [ "${1:-}" = build ]; then build; exit 0; fi
ID=${1:?property id}
MODE=${2:-${VERIF_TIER:-quick}}
build
if [ "$MODE" = "--replay" ]; then
	exec "$HERE/bin/minverif" -repo "$REPO" -verif "$HERE" -property "$ID" -tier quick -no-evidence -replay "${3:?report file}"
fi
exec "$HERE/bin/minverif" -repo "$REPO" -verif "$HERE" -property "$ID" -tier "$MODE"
