#!/usr/bin/env python3
# validates MANIFEST.json and evidence/*.json against the schemas in /root/.vp (dev helper)
import json, sys, glob, jsonschema
ok = True
def v(path, schema):
    global ok
    try:
        jsonschema.validate(json.load(open(path)), json.load(open(schema)))
    except Exception as e:
        ok = False
        print("INVALID", path, str(e)[:300])
v('/verif/MANIFEST.json', '/root/.vp/MANIFEST.schema.json')
for f in sorted(glob.glob('/verif/evidence/*.json')):
    v(f, '/root/.vp/EVIDENCE.schema.json')
print("valid" if ok else "FAILED")
sys.exit(0 if ok else 1)
