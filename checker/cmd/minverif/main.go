// minverif decides structural clauses of the properties in /verif/properties.jsonl by
// static analysis of the working tree of /repo.
package main

import (
	"encoding/json"
	"flag"
	"fmt"
	"os"
	"os/exec"
	"path/filepath"
	"runtime/debug"
	"sort"
	"strconv"
	"strings"
	"sync"
	"time"

	"verif/checker/internal/load"
	"verif/checker/internal/neutral"
	"verif/checker/internal/report"
	"verif/checker/internal/rules"
)

func main() {
	var (
		prop    = flag.String("property", "", "property id (C01..C20)")
		tier    = flag.String("tier", "quick", "quick | thorough")
		repo    = flag.String("repo", "/repo", "repository root")
		verif   = flag.String("verif", "/verif", "verification directory (evidence/, reports/, known_findings.json)")
		mutant  = flag.String("mutant", "", "run one self-test mutant by name and report whether it is flagged")
		patch   = flag.String("overlay", "", "JSON file {relative file: content} applied as overlay (self-test of seeded changes)")
		verbose = flag.Bool("v", false, "print discharged obligations")
		list    = flag.Bool("list", false, "list properties and mutants")
		replay  = flag.String("replay", "", "re-evaluate and print only the obligations named in a report file")
		noEv    = flag.Bool("no-evidence", false, "do not write evidence / report files")
		dumpLoc = flag.String("dump-locals", "", "dev: write the table of local names of the current tree (internal/load/locals.json) to this file and exit")
	)
	flag.Parse()
	if *dumpLoc != "" {
		pr, err := load.Load(load.Config{Dir: *repo, RawNames: true})
		if err != nil {
			fmt.Fprintln(os.Stderr, err)
			os.Exit(2)
		}
		if err := os.WriteFile(*dumpLoc, pr.DumpLocals(), 0644); err != nil {
			fmt.Fprintln(os.Stderr, err)
			os.Exit(2)
		}
		return
	}
	if os.Getenv("MINVERIF_DEV") == "dimension-survey" {
		prog, err := load.Load(load.Config{Dir: *repo})
		if err != nil {
			fmt.Fprintln(os.Stderr, err)
			os.Exit(2)
		}
		rules.NewCtx(prog, report.New("C08"), "quick").DimensionSurvey()
		return
	}
	if *list {
		for _, id := range rules.IDs() {
			fmt.Println(id)
			for _, m := range rules.MutantsFor(id) {
				fmt.Printf("  mutant %s -> %s %s\n", m.Name, m.Rule, m.Construct)
			}
		}
		return
	}
	p := rules.Registry[*prop]
	if p == nil {
		fmt.Fprintf(os.Stderr, "unknown property %q\n", *prop)
		os.Exit(2)
	}
	seed, _ := strconv.Atoi(os.Getenv("VERIF_SEED"))
	start := time.Now()

	if *mutant != "" {
		os.Exit(runMutant(*repo, p, *mutant))
	}

	var overlay map[string][]byte
	if *patch != "" {
		b, err := os.ReadFile(*patch)
		if err != nil {
			fatal(p.ID, *verif, "overlay: "+err.Error())
		}
		var m map[string]string
		if err := json.Unmarshal(b, &m); err != nil {
			fatal(p.ID, *verif, "overlay: "+err.Error())
		}
		overlay = map[string][]byte{}
		for k, v := range m {
			overlay[filepath.Join(*repo, k)] = []byte(v)
		}
	}

	configs := []load.Config{{Dir: *repo, Overlay: overlay}}
	if *tier == "thorough" {
		configs = append(configs,
			load.Config{Dir: *repo, Overlay: overlay, GOOS: "windows"},
			load.Config{Dir: *repo, Overlay: overlay, GOARCH: "386"})
	}
	var total *report.Result
	var labels, deps []string
	for _, cfg := range configs {
		res, d, err := runOnce(cfg, p, *tier)
		if err != nil {
			fatal(p.ID, *verif, fmt.Sprintf("load (%s): %v", cfg.Label(), err))
		}
		labels = append(labels, cfg.Label())
		if total == nil {
			total, deps = res, d
		} else {
			total.Merge(res)
		}
	}
	findings, err := report.LoadFindings(filepath.Join(*verif, "known_findings.json"))
	if err != nil {
		fatal(p.ID, *verif, err.Error())
	}
	total.ApplyFindings(findings)

	var selftest interface{}
	if *tier == "thorough" && overlay == nil {
		st := runMutants(p, *repo)
		selftest = st
		for _, m := range st.Results {
			if m.Outcome == "missed" {
				total.Unres("selftest", "mutant/"+m.Name, "-", "the checker did not flag a seeded breakage of "+m.Rule+" "+m.Construct+": "+m.Detail)
			}
		}
	}

	// robustness self-test: behaviour-preserving rewrites of the whole module must not change the verdict
	var neutralRes interface{}
	if *tier == "thorough" && overlay == nil {
		type nres struct {
			Mode     string   `json:"mode"`
			Rewrites int      `json:"rewrites"`
			NewFails []string `json:"new_alarms"`
		}
		var all []nres
		base := map[string]bool{}
		for _, o := range total.Obls {
			if o.Status == report.Violated || o.Status == report.Unresolved || o.Status == report.Known {
				base[o.Rule+" "+o.Construct] = true
			}
		}
		for _, mode := range []string{"rename", "flip", "swap", "nest"} {
			ov, n, err := neutral.Overlay(*repo, mode, nil)
			r := nres{Mode: mode, Rewrites: n}
			if err != nil {
				total.Unres("selftest", "neutral/"+mode, "-", "could not build the rewritten tree: "+err.Error())
			} else if res, _, err := runOnce(load.Config{Dir: *repo, Overlay: ov}, p, "quick"); err != nil {
				total.Unres("selftest", "neutral/"+mode, "-", "the rewritten tree does not load: "+oneLine(err.Error()))
			} else {
				res.ApplyFindings(findings)
				for _, o := range res.Obls {
					if (o.Status == report.Violated || o.Status == report.Unresolved) && !base[o.Rule+" "+o.Construct] {
						r.NewFails = append(r.NewFails, o.Rule+" "+o.Construct)
					}
				}
				if len(r.NewFails) > 0 {
					total.Unres("selftest", "neutral/"+mode, "-", fmt.Sprintf("the checks raise %d alarm(s) on a behaviour-preserving rewrite (%s) of the tree: %s", len(r.NewFails), mode, strings.Join(r.NewFails, "; ")))
				} else {
					total.OK("selftest", "neutral/"+mode, "-", fmt.Sprintf("same verdict on the tree with %d %s rewrites", n, mode))
				}
			}
			all = append(all, r)
		}
		neutralRes = all
	}

	if *replay != "" {
		os.Exit(doReplay(total, *replay))
	}
	reportPath := filepath.Join(*verif, "reports", p.ID+".json")
	if !*noEv {
		if _, err := total.WriteReport(filepath.Join(*verif, "reports")); err != nil {
			fmt.Fprintln(os.Stderr, "write report:", err)
		}
		meta := report.Meta{
			Tier: *tier, Seed: seed, Level: p.Level, WallS: time.Since(start).Seconds(),
			Cmd:        "./check.sh " + p.ID + " " + *tier,
			Trusted:    trusted(p),
			Configs:    labels,
			Deps:       deps,
			Selftest:   map[string]interface{}{"mutants": selftest, "neutral_rewrites": neutralRes},
			Exhaustive: true,
			Explain:    p.Explain,
		}
		if err := total.WriteEvidence(filepath.Join(*verif, "evidence"), meta); err != nil {
			fmt.Fprintln(os.Stderr, "write evidence:", err)
			os.Exit(1)
		}
	}
	os.Exit(total.Print(reportPath, *verbose))
}

func runOnce(cfg load.Config, p *rules.Property, tier string) (res *report.Result, deps []string, err error) {
	prog, err := load.Load(cfg)
	if err != nil {
		return nil, nil, err
	}
	res = report.New(p.ID)
	res.Config = cfg.Label()
	if prog.Renamed > 0 {
		res.Note("%d renamed local variable(s) were given their recorded names before the rules ran (internal/load/canon.go)", prog.Renamed)
	}
	for _, n := range prog.CanonNotes {
		res.Note("local names: %s", n)
	}
	ctx := rules.NewCtx(prog, res, tier)
	func() {
		defer func() {
			if r := recover(); r != nil {
				res.Unres("internal", "panic", "-", fmt.Sprintf("checker panicked: %v\n%s", r, debug.Stack()))
			}
		}()
		p.Run(ctx)
	}()
	return res, prog.SortedDeps(), nil
}

func fatal(id, verif, msg string) {
	fmt.Println("unresolved: load " + msg)
	r := report.New(id)
	r.Unres("load", "load", "-", msg)
	path, _ := r.WriteReport(filepath.Join(verif, "reports"))
	fmt.Printf("VIOLATION property=%s replay=%s\n", id, path)
	os.Exit(1)
}

func doReplay(total *report.Result, file string) int {
	b, err := os.ReadFile(file)
	if err != nil {
		fmt.Fprintln(os.Stderr, err)
		return 2
	}
	var rep struct {
		Failures []report.Obl `json:"failures"`
	}
	if err := json.Unmarshal(b, &rep); err != nil {
		fmt.Fprintln(os.Stderr, err)
		return 2
	}
	want := map[string]bool{}
	for _, f := range rep.Failures {
		want[f.Key()] = true
	}
	code := 0
	for _, o := range total.Obls {
		if !want[o.Key()] {
			continue
		}
		delete(want, o.Key())
		fmt.Printf("%s: %s %s at %s: %s\n", o.Status, o.Rule, o.Construct, o.Pos, o.Detail)
		if o.Status == report.Violated || o.Status == report.Unresolved {
			code = 1
		}
	}
	var gone []string
	for k := range want {
		gone = append(gone, k)
	}
	sort.Strings(gone)
	for _, k := range gone {
		fmt.Printf("no longer produced: %s\n", k)
	}
	if code == 1 {
		fmt.Printf("VIOLATION property=%s replay=%s\n", total.Property, file)
	}
	return code
}

// ---------------------------------------------------------------------------
// self-test mutants

func runMutant(repo string, p *rules.Property, name string) int {
	var m *rules.Mutant
	for _, x := range rules.MutantsFor(p.ID) {
		if x.Name == name {
			m = x
		}
	}
	if m == nil {
		fmt.Println("MUTANT", name, "unknown")
		return 2
	}
	file := filepath.Join(repo, m.File)
	src, err := os.ReadFile(file)
	if err != nil {
		fmt.Println("MUTANT", name, "skipped: cannot read", m.File)
		return 4
	}
	if strings.Count(string(src), m.Old) != 1 {
		fmt.Printf("MUTANT %s skipped: search text occurs %d times in %s\n", name, strings.Count(string(src), m.Old), m.File)
		return 4
	}
	mutated := strings.Replace(string(src), m.Old, m.New, 1)
	if m.Old2 != "" {
		if strings.Count(mutated, m.Old2) != 1 {
			fmt.Printf("MUTANT %s skipped: second search text occurs %d times in %s\n", name, strings.Count(mutated, m.Old2), m.File)
			return 4
		}
		mutated = strings.Replace(mutated, m.Old2, m.New2, 1)
	}
	for i, sp := range m.More {
		if strings.Count(mutated, sp[0]) != 1 {
			fmt.Printf("MUTANT %s skipped: search text #%d occurs %d times in %s\n", name, i+3, strings.Count(mutated, sp[0]), m.File)
			return 4
		}
		mutated = strings.Replace(mutated, sp[0], sp[1], 1)
	}
	res, _, err := runOnce(load.Config{Dir: repo, Overlay: map[string][]byte{file: []byte(mutated)}}, p, "quick")
	if err != nil {
		fmt.Printf("MUTANT %s skipped: mutant does not type-check: %v\n", name, oneLine(err.Error()))
		return 4
	}
	for _, o := range res.Obls {
		if (o.Status == report.Violated || o.Status == report.Unresolved) && o.Rule == m.Rule && strings.Contains(o.Construct, m.Construct) {
			fmt.Printf("MUTANT %s flagged: %s %s: %s\n", name, o.Rule, o.Construct, oneLine(o.Detail))
			return 0
		}
	}
	fmt.Printf("MUTANT %s MISSED: expected %s %s\n", name, m.Rule, m.Construct)
	return 3
}

func oneLine(s string) string { return strings.Join(strings.Fields(s), " ") }

type mutantResult struct {
	Name      string `json:"name"`
	Rule      string `json:"rule"`
	Construct string `json:"construct"`
	Outcome   string `json:"outcome"` // flagged | missed | skipped
	Detail    string `json:"detail"`
}

type selftestResult struct {
	Tried   int            `json:"mutants_tried"`
	Flagged int            `json:"flagged"`
	Skipped int            `json:"skipped"`
	Missed  int            `json:"missed"`
	Results []mutantResult `json:"results"`
}

func runMutants(p *rules.Property, repo string) selftestResult {
	ms := rules.MutantsFor(p.ID)
	out := selftestResult{Results: make([]mutantResult, len(ms))}
	self, _ := os.Executable()
	sem := make(chan struct{}, 6)
	var wg sync.WaitGroup
	for i, m := range ms {
		wg.Add(1)
		go func(i int, m *rules.Mutant) {
			defer wg.Done()
			sem <- struct{}{}
			defer func() { <-sem }()
			args := []string{"-property", p.ID, "-mutant", m.Name, "-repo", repo}
			cmd := exec.Command(self, args...)
			b, err := cmd.CombinedOutput()
			r := mutantResult{Name: m.Name, Rule: m.Rule, Construct: m.Construct, Detail: lastLine(string(b))}
			code := 0
			if ee, ok := err.(*exec.ExitError); ok {
				code = ee.ExitCode()
			} else if err != nil {
				code = 4
			}
			switch code {
			case 0:
				r.Outcome = "flagged"
			case 4:
				r.Outcome = "skipped"
			default:
				r.Outcome = "missed"
			}
			out.Results[i] = r
		}(i, m)
	}
	wg.Wait()
	for _, r := range out.Results {
		out.Tried++
		switch r.Outcome {
		case "flagged":
			out.Flagged++
		case "skipped":
			out.Skipped++
		default:
			out.Missed++
		}
	}
	return out
}

func lastLine(s string) string {
	lines := strings.Split(strings.TrimSpace(s), "\n")
	for i := len(lines) - 1; i >= 0; i-- {
		if strings.HasPrefix(lines[i], "MUTANT") {
			return lines[i]
		}
	}
	if len(lines) > 0 {
		return lines[len(lines)-1]
	}
	return ""
}

func trusted(p *rules.Property) []string {
	if len(p.Trusted) > 0 {
		return p.Trusted
	}
	return []string{
		"Go type checker and go/packages loader (x/tools v0.29.0)",
		"the checker's own statement-level CFG with split conditions (internal/flow), go/ssa and the VTA call graph where a rule uses them",
		"the pinned dependency github.com/tdewolff/parse/v2 wherever a rule stops at its API",
		"reference tables in checker/internal/ref transcribed from the standards",
	}
}
