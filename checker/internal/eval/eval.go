// Package eval evaluates table-like Go expressions (composite literals of constants,
// []byte("…") conversions, references to other package-level variables) from the
// type-checked syntax tree, without running any code of the analysed program.
package eval

import (
	"fmt"
	"go/ast"
	"go/constant"
	"go/token"
	"go/types"

	"golang.org/x/tools/go/packages"
)

// Value is one of: string (string constant), []byte, int64, uint64, float64, bool,
// *Map, *List, *Struct, nil.
type Value interface{}

type Entry struct {
	Key   Value
	Value Value
	KeyX  ast.Expr
	ValX  ast.Expr
}

type Map struct {
	Entries []Entry
}

func (m *Map) Get(k Value) (Value, bool) {
	for _, e := range m.Entries {
		if Equal(e.Key, k) {
			return e.Value, true
		}
	}
	return nil, false
}

type List struct {
	Elems []Value
	Exprs []ast.Expr
	// Len is the array length when indices were used (sparse arrays); otherwise len(Elems)
}

type Struct struct {
	Type   string
	Fields map[string]Value
}

func Equal(a, b Value) bool {
	switch x := a.(type) {
	case []byte:
		y, ok := b.([]byte)
		return ok && string(x) == string(y)
	default:
		return a == b
	}
}

type Evaluator struct {
	// Pkgs resolves package-level variables: types.Object -> initializer.
	pkgs  map[string]*packages.Package
	depth int
}

func New(all map[string]*packages.Package) *Evaluator {
	return &Evaluator{pkgs: all}
}

func (ev *Evaluator) infoFor(pkgPath string) *packages.Package { return ev.pkgs[pkgPath] }

// Expr evaluates e, which belongs to package pk.
func (ev *Evaluator) Expr(pk *packages.Package, e ast.Expr) (Value, error) {
	ev.depth++
	defer func() { ev.depth-- }()
	if ev.depth > 50 {
		return nil, fmt.Errorf("evaluation too deep")
	}
	info := pk.TypesInfo
	if tv, ok := info.Types[e]; ok && tv.Value != nil {
		return constVal(tv.Value, tv.Type), nil
	}
	switch x := e.(type) {
	case *ast.ParenExpr:
		return ev.Expr(pk, x.X)
	case *ast.Ident:
		if x.Name == "nil" {
			return nil, nil
		}
		return ev.object(info.Uses[x], x)
	case *ast.SelectorExpr:
		if obj, ok := info.Uses[x.Sel]; ok {
			if _, isPkg := info.Uses[identOf(x.X)].(*types.PkgName); isPkg {
				return ev.object(obj, x)
			}
		}
		return nil, fmt.Errorf("unsupported selector %s", types.ExprString(x))
	case *ast.CallExpr:
		// conversions: []byte("lit"), T(const)
		if tv, ok := info.Types[x.Fun]; ok && tv.IsType() && len(x.Args) == 1 {
			v, err := ev.Expr(pk, x.Args[0])
			if err != nil {
				return nil, err
			}
			if sl, ok := tv.Type.Underlying().(*types.Slice); ok {
				if b, ok := sl.Elem().Underlying().(*types.Basic); ok && b.Kind() == types.Uint8 {
					if s, ok := v.(string); ok {
						return []byte(s), nil
					}
				}
			}
			return v, nil
		}
		return nil, fmt.Errorf("unsupported call %s", types.ExprString(x))
	case *ast.UnaryExpr:
		if x.Op == token.AND {
			return ev.Expr(pk, x.X)
		}
	case *ast.CompositeLit:
		return ev.composite(pk, x, info.Types[x].Type)
	}
	return nil, fmt.Errorf("unsupported expression %s (%T)", types.ExprString(e), e)
}

func identOf(e ast.Expr) *ast.Ident {
	id, _ := e.(*ast.Ident)
	return id
}

func (ev *Evaluator) object(obj types.Object, at ast.Expr) (Value, error) {
	switch o := obj.(type) {
	case *types.Const:
		return constVal(o.Val(), o.Type()), nil
	case *types.Var:
		if o.Pkg() == nil || o.Parent() != o.Pkg().Scope() {
			return nil, fmt.Errorf("%s is not a package-level variable", o.Name())
		}
		pk := ev.infoFor(o.Pkg().Path())
		if pk == nil {
			return nil, fmt.Errorf("package %s not loaded", o.Pkg().Path())
		}
		init := varInit(pk, o.Name())
		if init == nil {
			return nil, fmt.Errorf("no initializer for %s.%s", o.Pkg().Path(), o.Name())
		}
		return ev.Expr(pk, init)
	case *types.Nil:
		return nil, nil
	}
	return nil, fmt.Errorf("cannot evaluate %s", types.ExprString(at))
}

func varInit(pk *packages.Package, name string) ast.Expr {
	for _, f := range pk.Syntax {
		for _, d := range f.Decls {
			gd, ok := d.(*ast.GenDecl)
			if !ok || gd.Tok != token.VAR {
				continue
			}
			for _, s := range gd.Specs {
				vs := s.(*ast.ValueSpec)
				for i, n := range vs.Names {
					if n.Name == name && i < len(vs.Values) {
						return vs.Values[i]
					}
				}
			}
		}
	}
	return nil
}

func constVal(v constant.Value, t types.Type) Value {
	switch v.Kind() {
	case constant.String:
		return constant.StringVal(v)
	case constant.Bool:
		return constant.BoolVal(v)
	case constant.Int:
		if i, ok := constant.Int64Val(v); ok {
			return i
		}
		if u, ok := constant.Uint64Val(v); ok {
			return u
		}
	case constant.Float:
		f, _ := constant.Float64Val(v)
		return f
	}
	return v.ExactString()
}

func (ev *Evaluator) composite(pk *packages.Package, cl *ast.CompositeLit, t types.Type) (Value, error) {
	if t == nil {
		return nil, fmt.Errorf("untyped composite literal")
	}
	if p, ok := t.Underlying().(*types.Pointer); ok {
		t = p.Elem()
	}
	switch u := t.Underlying().(type) {
	case *types.Map:
		m := &Map{}
		for _, el := range cl.Elts {
			kv, ok := el.(*ast.KeyValueExpr)
			if !ok {
				return nil, fmt.Errorf("map element without key")
			}
			k, err := ev.Expr(pk, kv.Key)
			if err != nil {
				return nil, err
			}
			v, err := ev.elem(pk, kv.Value, u.Elem())
			if err != nil {
				return nil, err
			}
			m.Entries = append(m.Entries, Entry{k, v, kv.Key, kv.Value})
		}
		return m, nil
	case *types.Slice, *types.Array:
		var et types.Type
		if s, ok := u.(*types.Slice); ok {
			et = s.Elem()
		} else {
			et = u.(*types.Array).Elem()
		}
		// byte slices written as {'a','b'}
		l := &List{}
		idx := int64(0)
		for _, el := range cl.Elts {
			vx := el
			if kv, ok := el.(*ast.KeyValueExpr); ok {
				k, err := ev.Expr(pk, kv.Key)
				if err != nil {
					return nil, err
				}
				ki, ok := k.(int64)
				if !ok {
					return nil, fmt.Errorf("non-integer array index")
				}
				idx = ki
				vx = kv.Value
			}
			v, err := ev.elem(pk, vx, et)
			if err != nil {
				return nil, err
			}
			for int64(len(l.Elems)) <= idx {
				l.Elems = append(l.Elems, nil)
				l.Exprs = append(l.Exprs, nil)
			}
			l.Elems[idx] = v
			l.Exprs[idx] = vx
			idx++
		}
		if arr, ok := u.(*types.Array); ok {
			for int64(len(l.Elems)) < arr.Len() {
				l.Elems = append(l.Elems, nil)
				l.Exprs = append(l.Exprs, nil)
			}
		}
		if b, ok := et.Underlying().(*types.Basic); ok && b.Kind() == types.Uint8 {
			out := make([]byte, len(l.Elems))
			for i, e := range l.Elems {
				if e == nil {
					continue
				}
				n, ok := e.(int64)
				if !ok {
					return l, nil
				}
				out[i] = byte(n)
			}
			return out, nil
		}
		return l, nil
	case *types.Struct:
		s := &Struct{Type: types.TypeString(t, nil), Fields: map[string]Value{}}
		for i, el := range cl.Elts {
			if kv, ok := el.(*ast.KeyValueExpr); ok {
				name := kv.Key.(*ast.Ident).Name
				var ft types.Type
				for j := 0; j < u.NumFields(); j++ {
					if u.Field(j).Name() == name {
						ft = u.Field(j).Type()
					}
				}
				v, err := ev.elem(pk, kv.Value, ft)
				if err != nil {
					return nil, err
				}
				s.Fields[name] = v
			} else {
				v, err := ev.elem(pk, el, u.Field(i).Type())
				if err != nil {
					return nil, err
				}
				s.Fields[u.Field(i).Name()] = v
			}
		}
		return s, nil
	}
	return nil, fmt.Errorf("unsupported composite type %s", t)
}

// elem evaluates an element whose composite type may be elided.
func (ev *Evaluator) elem(pk *packages.Package, e ast.Expr, t types.Type) (Value, error) {
	if cl, ok := e.(*ast.CompositeLit); ok && cl.Type == nil {
		return ev.composite(pk, cl, t)
	}
	return ev.Expr(pk, e)
}

// PackageVar evaluates a package-level variable by name.
func (ev *Evaluator) PackageVar(pk *packages.Package, name string) (Value, ast.Expr, error) {
	if pk == nil {
		return nil, nil, fmt.Errorf("package not loaded")
	}
	init := varInit(pk, name)
	if init == nil {
		return nil, nil, fmt.Errorf("package-level variable %s.%s with initializer not found", pk.PkgPath, name)
	}
	v, err := ev.Expr(pk, init)
	return v, init, err
}
