package ref
