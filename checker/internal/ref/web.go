// Package ref holds the frozen reference tables (the trusted base) transcribed from the
// standards. Each table names the document and section it was taken from.
package ref

import "strings"

func set(s string) map[string]bool {
	m := map[string]bool{}
	for _, f := range strings.Fields(s) {
		m[f] = true
	}
	return m
}

// CSS Values and Units 4, §6 (absolute / font-relative / viewport-relative lengths, incl.
// small/large/dynamic viewport and container query units) and §7.1 (angles). A zero of
// these dimensions may lose its unit where the grammar allows <length>.
// Time (s ms), frequency (hz khz), resolution (dpi dpcm dppx x), flex (fr) and
// percentages are deliberately absent. So are the angle units: CSS Values 4 §7.1 — "For legacy
// reasons, some uses of <angle> allow a bare 0 to mean 0deg. This is not true in general" — the
// legacy uses are arguments of transform and gradient functions, and the table is consulted for
// values outside functions only (`rotate:0deg`, `font-style:oblique 0deg`, `offset-rotate`,
// `image-orientation`), where `0` is not an <angle> and the declaration is dropped.
var CSSLengthUnits = set(`
 px mm q cm in pt pc
 em rem ex rex cap rcap ch rch ic ric lh rlh
 vw vh vi vb vmin vmax svw svh svi svb svmin svmax lvw lvh lvi lvb lvmin lvmax dvw dvh dvi dvb dvmin dvmax
 cqw cqh cqi cqb cqmin cqmax`)

// CSS Color 4 §6.1 named colours = the SVG 1.1 list (golang.org/x/image/colornames)
// plus rebeccapurple; values added in ExtraCSSColors.
var ExtraCSSColors = map[string][3]uint8{
	"rebeccapurple": {0x66, 0x33, 0x99},
}

// HTML Living Standard, "Attributes" index: attributes whose value type is "Boolean
// attribute", plus the boolean attributes of HTML 4.01 / obsolete features (§16.2) that
// user agents still treat as boolean.
var HTMLBooleanAttrs = set(`
 allowfullscreen async autofocus autoplay checked controls default defer disabled
 formnovalidate inert ismap itemscope loop multiple muted nomodule novalidate open
 playsinline readonly required reversed selected shadowrootclonable
 shadowrootdelegatesfocus shadowrootserializable
 allowpaymentrequest disablepictureinpicture disableremoteplayback
 compact declare nohref noresize noshade nowrap scoped seamless sortable truespeed typemustmatch`)

// HTML Living Standard, "Attributes" index: value type "Valid (non-empty) URL potentially
// surrounded by spaces" (and the obsolete URL-valued attributes of §16.2 / HTML 4.01 %URI),
// plus xmlns (a namespace name, i.e. a URI reference, Namespaces in XML 1.0 §3).
var HTMLURLAttrs = set(`
 action cite data formaction href itemid manifest poster src
 background classid codebase longdesc profile icon
 xmlns`)

// HTML Living Standard, "Attributes" index: attributes whose value type is "Text", "Regular
// expression matching the JavaScript Pattern production", "CSS declarations", "event handler
// content attribute" (on*, matched by prefix in the rule) or "The source of an iframe srcdoc
// document": every white space character of the value is part of it, so collapsing runs of white
// space or trimming the ends changes the value.
var HTMLWhitespaceSignificantAttrs = set(`
 abbr alt content dirname download label name pattern placeholder prompt srcdoc standby style
 summary title value`)

// HTML Living Standard §13.1.2: raw text elements (script, style) and escapable raw text
// elements (textarea, title); §13.2.6.4.7 elements parsed with the generic raw text
// algorithm (iframe, noembed, noframes, xmp, noscript with scripting, plaintext).
// svg and math are tokenised as a whole by the parse/v2 HTML lexer (SvgToken / MathToken).
var HTMLRawTextElements = set(`script style textarea title iframe noembed noframes xmp noscript plaintext svg math`)

// … of which the *raw text* elements proper (HTML §13.1.2, §13.2.5.2-5: raw text, script data and
// PLAINTEXT states): no character references, no markup — `&amp;` is the five characters `&amp;`.
// (title and textarea are escapable raw text: references are decoded there.)
var HTMLRawTextNoReferences = set(`script style xmp iframe noembed noframes plaintext`)

// HTML Living Standard §15 (Rendering): elements whose boundary makes adjacent
// inter-element whitespace insignificant for rendering.
//
//	§15.3.3 flow content, §15.3.7 sections/headings, §15.3.8 lists: display block / list-item
//	§15.3.10 tables: display table, table-caption, table-*-group, table-row, table-cell, table-column(-group)
//	§15.3.1 hidden elements: display none
//	§15.3.2 the page: html, body
//	§15.5 details (block), summary (list-item / block), fieldset (block), legend (block)
//	§15.5.16/17 select: option / optgroup are rendered by the list box, not as flow text
//	br: forced line break; frameset/frame: not flow content
// Elements that are not rendered but may stand between words (script, style, template, noscript, link, meta, area,
// datalist, param, noembed, noframes) are deliberately absent: white space on both sides of them collapses to one
// space, it does not vanish — `a <style>…</style> b` must not become `a<style>…</style>b`. head, title and base only
// occur where inter-element white space is not rendered.
var HTMLBlockLike = set(`
 address blockquote center dialog div figure figcaption footer form header hr legend listing main p plaintext pre search xmp
 article aside h1 h2 h3 h4 h5 h6 hgroup nav section
 dir dd dl dt menu ol ul li
 table caption colgroup col thead tbody tfoot tr td th
 head title base
 html body
 details summary fieldset
 option optgroup
 br frameset frame`)

// HTML Living Standard §13.1.2.4 optional tags: "A p element's end tag can be omitted if
// the p element is immediately followed by an … element".
// Without `table`: the list is a conformance rule for documents in no-quirks mode. The parser (§13.2.6.4.7,
// "A start tag whose tag name is table") closes an open p element only "if the Document is not set to quirks mode" —
// and a minifier does not know the mode of the document (no doctype, a legacy doctype: quirks), so `</p>` in front
// of `<table>` is the one case of the list in which the omission changes the tree of a real-world document.
var HTMLPClosers = set(`
 address article aside blockquote details dialog div dl fieldset figcaption figure footer form
 h1 h2 h3 h4 h5 h6 header hgroup hr main menu nav ol p pre search section ul`)

// … "or if there is no more content in the parent element and the parent element is an
// HTML element that is not an a, audio, del, ins, map, noscript, or video element, or an
// autonomous custom element".
// Plus canvas and slot: both have a transparent content model (a p as their last child is conforming) and neither is
// in the tree builder's "special" category, so their end tag is ignored while a p is open (§13.2.6.4.7 "any other
// end tag") exactly as for the seven the standard names.
// HTML Rendering §15.4 / §15.5: elements that are rendered as one atomic box in the inline flow
// (replaced elements and widgets, CSS 2 §9.2.2 "atomic inline-level boxes"): white space on
// either side of them separates them from the neighbouring text like it separates two words.
// audio is rendered (as a control bar) when it has the controls attribute.
var HTMLAtomicInline = set(`audio button canvas embed iframe img input meter object progress select svg textarea video`)

var HTMLPKeepParents = set(`a audio canvas del ins map noscript slot video`)

// HTML Living Standard §13.1.2.4: elements whose end tag may be omitted (in a suitable context).
var HTMLOptionalEndTag = set(`
 html head body li dt dd p rt rp optgroup option colgroup caption thead tbody tfoot tr td th
 rb rtc`)

// … and of those, the elements after whose end tag a conforming document has nothing but an element
// that closes them anyway, or the end of the parent (§4.9, §4.4.5-4.4.11, §4.10.10: the content models
// of table, thead/tbody/tfoot, tr, ul/ol/menu, dl, select/optgroup contain no text and no other flow
// content besides script-supporting elements, which R03.11 handles separately) — only for these may the end tag be dropped without looking at what follows. Not among them:
// p (flow content follows), rt/rp/rb/rtc (ruby holds base text between the annotations:
// `<ruby>漢<rt>kan</rt>字<rt>ji</rt></ruby>`), html/head/body (comments, white space).
// Not thead/tbody/tfoot either: a `tr` may follow them directly (the start tag of the tbody it belongs to is
// optional, §4.9.5-4.9.7), and with the end tag gone that row is parsed into the section before it; and not optgroup
// (an option may follow outside the group) or colgroup (another colgroup may follow) — those need a look at the next tag.
// option only inside select: in a datalist (phrasing content as fallback) text can follow an option.
var HTMLEndTagOmissibleBlind = set(`li dt dd caption tr td th`)

// … elements whose end tag can be dropped blindly only inside the named ancestor.
var HTMLEndTagOmissibleBlindIn = map[string]string{"option": "select"}

// HTML §13.2.6.4.7 "in body": a start tag rb or rtc generates all implied end tags (rb, rp, rt, rtc among them); a start tag
// rp or rt generates implied end tags "except for rtc elements". HTMLRubyClosers[next] = the open ruby parts that a start
// tag `next` closes.
var HTMLRubyClosers = map[string]map[string]bool{
	"rb":  set(`rb rp rt rtc`),
	"rtc": set(`rb rp rt rtc`),
	"rt":  set(`rb rp rt`),
	"rp":  set(`rb rp rt`),
}

// HTML §13.2.6.4.13 "in table body": the start tags that pop the current thead/tbody/tfoot.
var HTMLTableSectionClosers = set(`caption col colgroup tbody tfoot thead`)

// … whose start AND end tag may be omitted when the element has no attributes.
var HTMLOptionalBothTags = set(`html head body colgroup tbody`)

// WHATWG MIME Sniffing §4.6 "JavaScript MIME type essence match".
var JSMimeTypes = set(`
 application/ecmascript application/javascript application/x-ecmascript application/x-javascript
 text/ecmascript text/javascript text/javascript1.0 text/javascript1.1 text/javascript1.2
 text/javascript1.3 text/javascript1.4 text/javascript1.5 text/jscript text/livescript
 text/x-ecmascript text/x-javascript`)

// SVG 1.1 / SVG 2 properties whose value is <color> or <paint>.
var SVGColorAttrs = set(`color fill stroke stop-color flood-color lighting-color solid-color viewport-fill`)

// XML 1.0 §4.6 predefined entities.
var XMLPredefinedEntities = map[string]string{"lt": "<", "gt": ">", "amp": "&", "apos": "'", "quot": "\""}

// SVG 1.1 (second edition) attribute defaults relevant to the minifier's default-value
// removal: §5.1.2 the svg element (x, y default "0"; version; baseProfile "none";
// contentScriptType "application/ecmascript"; contentStyleType "text/css"),
// §7.8 preserveAspectRatio default "xMidYMid meet", §6.2 style element type (default is
// contentStyleType, i.e. "text/css"), XML 1.0 §2.10 xml:space default "default".
var SVGDefaultAttrValues = map[string]string{
	// "<element> <attribute>": default; "*" = on every element
	"svg x": "0", "svg y": "0", "svg version": "1.1", "svg baseProfile": "none",
	"svg contentScriptType": "application/ecmascript", "svg contentStyleType": "text/css",
	"svg preserveAspectRatio": "xMidYMid meet", "style type": "text/css", "* xml:space": "default",
	// SVG 1.1 §9.2 rect, §5.7 image, §5.6 use, §23.3 foreignObject: x, y "If the attribute is not specified, the effect is as if a value of 0 were specified."
	"rect x": "0", "rect y": "0", "image x": "0", "image y": "0", "use x": "0", "use y": "0", "foreignObject x": "0", "foreignObject y": "0",
}

var SVGDefaultWhy = map[string]string{
	"xml:space": "xml:space=\"preserve\" switches white-space handling of text content; the default is \"default\"",
}

// ECMA-262 (2023) grammar: the production an AST field of the parser's syntax tree stands for, as the lowest
// precedence level an expression in that position may have without parentheses. Keys are "<node type>.<field>"
// ("[]" for the elements of a list field); values name constants of the parser's OpPrec type.
//   Expression → OpExpr (comma allowed); AssignmentExpression → OpAssign; ShortCircuitExpression → OpCoalesce;
//   LeftHandSideExpression → OpLHS.
// §14.7.5 for-in/of: `for (LeftHandSideExpression in Expression)`, `for (LeftHandSideExpression of AssignmentExpression)`;
// §13.14 ConditionalExpression: ShortCircuitExpression ? AssignmentExpression : AssignmentExpression;
// §13.2.4/5 array elements, property values and initialisers, computed names; §13.3.8 arguments; §15.4.5 YieldExpression;
// §15.7 ClassHeritage: extends LeftHandSideExpression; §16.2.3 export default AssignmentExpression; §13.16 comma operands.
var JSGrammarMinLevel = map[string]string{
	"ExprStmt.Value": "OpExpr", "IfStmt.Cond": "OpExpr", "DoWhileStmt.Cond": "OpExpr", "WhileStmt.Cond": "OpExpr",
	"ForStmt.Init": "OpExpr", "ForStmt.Cond": "OpExpr", "ForStmt.Post": "OpExpr",
	"ForInStmt.Init": "OpLHS", "ForInStmt.Value": "OpExpr",
	"ForOfStmt.Init": "OpLHS", "ForOfStmt.Value": "OpAssign",
	"SwitchStmt.Init": "OpExpr", "CaseClause.Cond": "OpExpr", "WithStmt.Cond": "OpExpr",
	"ThrowStmt.Value": "OpExpr", "ReturnStmt.Value": "OpExpr",
	"ExportStmt.Decl": "OpAssign", "Arg.Value": "OpAssign", "Field.Init": "OpAssign",
	"PropertyName.Computed": "OpAssign", "Property.Value": "OpAssign", "Property.Init": "OpAssign",
	"BindingElement.Default": "OpAssign", "ClassDecl.Extends": "OpLHS",
	"CondExpr.Cond": "OpCoalesce", "CondExpr.X": "OpAssign", "CondExpr.Y": "OpAssign",
	"Element.Value": "OpAssign", "CommaExpr.List[]": "OpAssign", "TemplatePart.Expr": "OpExpr",
	"GroupExpr.X": "OpExpr", "IndexExpr.Y": "OpExpr", "YieldExpr.X": "OpAssign",
}

// CSSValueShape groups the properties whose values have the same shape as far as a rewrite that works on value positions is
// concerned (CSS Backgrounds 3, Box 4, Color 4, Flexbox 1, UI 4): properties of one group may share the code that rewrites
// them, properties of different groups may not — `background-position-x: right 10px` is an edge and an offset on one axis,
// in `background-position` the same two components are a horizontal and a vertical position.
var CSSValueShape = func() map[string]string {
	groups := map[string]string{
		"sides":         `margin padding border-width scroll-margin scroll-padding inset`,
		"line":          `border border-top border-right border-bottom border-left border-block border-inline border-block-start border-block-end border-inline-start border-inline-end outline column-rule`,
		"color":         `color background-color border-top-color border-right-color border-bottom-color border-left-color border-block-start-color border-block-end-color border-inline-start-color border-inline-end-color text-decoration-color text-emphasis-color caret-color outline-color column-rule-color accent-color flood-color lighting-color stop-color fill stroke`,
		"number":        `order flex-grow flex-shrink z-index orphans widows`,
		"position":      `background-position mask-position object-position`,
		"position-axis": `background-position-x background-position-y`,
	}
	out := map[string]string{}
	for g, names := range groups {
		for n := range set(names) {
			out[n] = g
		}
	}
	return out
}()

// HTML §13.2.3.5 (preprocessing the input stream): U+000D is normalised to U+000A when it stands literally in the document; the
// character references &#13; / &#xD; give U+000D. A decoder that writes the byte changes the text.
var HTMLLiteralReadDifferently = []byte{'\r'}

// CSS Values and Units 4 §6–§7: the units of the dimensions with fixed ratios, as the factor that converts a value in the unit into
// the canonical unit of its dimension (deg, s, hz, dppx, px).
var CSSCanonicalUnit = map[string]string{"angle": "deg", "time": "s", "frequency": "hz", "resolution": "dppx", "length": "px"}
var CSSUnitFactor = map[string]map[string]float64{
	"angle":      {"deg": 1, "grad": 0.9, "rad": 180 / 3.141592653589793, "turn": 360},
	"time":       {"s": 1, "ms": 0.001},
	"frequency":  {"hz": 1, "khz": 1000},
	"resolution": {"dppx": 1, "dpi": 1.0 / 96, "dpcm": 2.54 / 96},
	"length":     {"px": 1, "in": 96, "cm": 96 / 2.54, "mm": 96 / 25.4, "q": 96 / 101.6, "pt": 96.0 / 72, "pc": 16},
}

// HTML: the attributes whose missing-value default makes `attr=default` equal to leaving the attribute out: type (script, style,
// link, input, button), method and enctype (form), colspan / rowspan (td, th), span (col, colgroup), shape (area), media (style,
// link). formmethod / formenctype (§4.10.18.6) have no default: absent, the form owner's method / enctype applies.
var HTMLAttrsWithDefault = set(`type method enctype colspan rowspan span shape media`)
