package ref

// BinOp gives, as names of parse/v2/js OpPrec constants, the grammar level of a binary
// operator production of ECMA-262 (2022) §13.6–§13.16: the level of the production itself,
// the minimum level of its left operand and the level of its right operand.
type BinOp struct{ Own, MinLeft, Right string }

// JSBinaryOps: ECMA-262 §13.15 (assignment, incl. the logical assignment operators of
// ES2021), §13.10 relational, §13.11 equality, §13.13 binary logical (CoalesceExpression
// takes BitwiseOR operands; its head may itself be a CoalesceExpression), §13.6
// exponentiation (left operand is an UpdateExpression), §13.7 multiplicative, §13.8
// additive, §13.9 shift, §13.12 bitwise.
var JSBinaryOps = map[string]BinOp{}

func init() {
	for _, t := range []string{"EqToken", "MulEqToken", "DivEqToken", "ModEqToken", "ExpEqToken", "AddEqToken", "SubEqToken",
		"LtLtEqToken", "GtGtEqToken", "GtGtGtEqToken", "BitAndEqToken", "BitXorEqToken", "BitOrEqToken",
		"AndEqToken", "OrEqToken", "NullishEqToken"} {
		JSBinaryOps[t] = BinOp{"OpAssign", "OpLHS", "OpAssign"}
	}
	for _, t := range []string{"LtToken", "LtEqToken", "GtToken", "GtEqToken", "InToken", "InstanceofToken"} {
		JSBinaryOps[t] = BinOp{"OpCompare", "OpCompare", "OpShift"}
	}
	for _, t := range []string{"EqEqToken", "NotEqToken", "EqEqEqToken", "NotEqEqToken"} {
		JSBinaryOps[t] = BinOp{"OpEquals", "OpEquals", "OpCompare"}
	}
	JSBinaryOps["AndToken"] = BinOp{"OpAnd", "OpAnd", "OpBitOr"}
	JSBinaryOps["OrToken"] = BinOp{"OpOr", "OpOr", "OpAnd"}
	JSBinaryOps["NullishToken"] = BinOp{"OpCoalesce", "OpBitOr", "OpBitOr"}
	JSBinaryOps["ExpToken"] = BinOp{"OpExp", "OpUpdate", "OpExp"}
	for _, t := range []string{"MulToken", "DivToken", "ModToken"} {
		JSBinaryOps[t] = BinOp{"OpMul", "OpMul", "OpExp"}
	}
	for _, t := range []string{"AddToken", "SubToken"} {
		JSBinaryOps[t] = BinOp{"OpAdd", "OpAdd", "OpMul"}
	}
	for _, t := range []string{"LtLtToken", "GtGtToken", "GtGtGtToken"} {
		JSBinaryOps[t] = BinOp{"OpShift", "OpShift", "OpAdd"}
	}
	JSBinaryOps["BitAndToken"] = BinOp{"OpBitAnd", "OpBitAnd", "OpEquals"}
	JSBinaryOps["BitXorToken"] = BinOp{"OpBitXor", "OpBitXor", "OpBitAnd"}
	JSBinaryOps["BitOrToken"] = BinOp{"OpBitOr", "OpBitOr", "OpBitXor"}
}

// UnOp: level of the unary production and of its operand (ECMA-262 §13.4 update
// expressions, §13.5 unary operators, §15.8 await).
type UnOp struct{ Own, Operand string }

var JSUnaryOps = map[string]UnOp{
	"PostIncrToken": {"OpUpdate", "OpLHS"},
	"PostDecrToken": {"OpUpdate", "OpLHS"},
	"PreIncrToken":  {"OpUpdate", "OpUnary"},
	"PreDecrToken":  {"OpUpdate", "OpUnary"},
	"NotToken":      {"OpUnary", "OpUnary"},
	"BitNotToken":   {"OpUnary", "OpUnary"},
	"TypeofToken":   {"OpUnary", "OpUnary"},
	"VoidToken":     {"OpUnary", "OpUnary"},
	"DeleteToken":   {"OpUnary", "OpUnary"},
	"PosToken":      {"OpUnary", "OpUnary"},
	"NegToken":      {"OpUnary", "OpUnary"},
	"AwaitToken":    {"OpUnary", "OpUnary"},
}

// JSDeferredFields: parts of a node that are NOT evaluated when the node itself is
// evaluated (ECMA-262 §15.2 function definitions, §15.3 arrow functions, §15.4 methods:
// parameters and body run at call time). Computed method names, `extends`, static field
// initialisers and static blocks DO run at class definition time (§15.7.14).
var JSDeferredFields = map[string]string{
	"FuncDecl.Params":   "§15.2: evaluated on call",
	"FuncDecl.Body":     "§15.2: evaluated on call",
	"ArrowFunc.Params":  "§15.3: evaluated on call",
	"ArrowFunc.Body":    "§15.3: evaluated on call",
	"MethodDecl.Params": "§15.4: evaluated on call",
	"MethodDecl.Body":   "§15.4: evaluated on call",
}

// ES2022 Pattern grammar (§22.2.1). Characters X for which `\X` outside a character class
// means something other than the literal X, or where the bare X is a syntax character:
// SyntaxCharacter, '/', ControlEscape (f n r t v), CharacterClassEscape (d D s S w W p P),
// assertions (b B), c x u k, DecimalEscape / \0.
// ',' is no syntax character, but between braces it separates the bounds of a quantifier: in Annex B `a{1\,2}` matches the text
// `a{1,2}` (a `{` that does not start a quantifier is literal), without the backslash it is a quantifier.
const RegexpMustKeepOutside = "^$\\.*+?()[]{}|/" + "," + "fnrtv" + "dDsSwWpP" + "bB" + "cxuk" + "0123456789"

// Inside a class: ClassEscape (b, CharacterClassEscape, CharacterEscape) plus '\' and ']'.
// '-' and '^' are positional and decided by code, not by the table.
const RegexpMustKeepInClass = "\\]" + "fnrtv" + "dDsSwWpP" + "b" + "cxu" + "0123456789"

// ECMA-262 (2022) §12.7.2 reserved words, strict-mode reserved words, and contextual
// words that are not safe as a generated binding name everywhere. (`eval` and `arguments` are
// restricted identifiers, not reserved words; a generated name of that length is out of reach.)
var JSReservedWords = set(`
 await break case catch class const continue debugger default delete do else enum export extends false finally for
 function if import in instanceof new null return super switch this throw true try typeof var void while with yield
 let static implements interface package private protected public`)

// JSSlotMinPrec: the minimum grammar level at which the printer must print the expression
// in a given AST slot, i.e. the non-terminal ECMA-262 (2022) has at that position:
// Expression → OpExpr; AssignmentExpression → OpAssign; ShortCircuitExpression → OpCoalesce;
// LeftHandSideExpression → OpLHS; MemberExpression | CallExpression → OpCall;
// NewExpression operand → OpNew. Printing a slot with a LOWER level than the grammar's
// drops parentheses the reader needs (`[(a,b)]` → `[a,b]`); a higher level only adds some.
// Keys are "<struct type of parse/v2/js>.<field>".
var JSSlotMinPrec = map[string]string{
	"ExprStmt.Value":         "OpExpr", // §14.5 ExpressionStatement: Expression
	"IfStmt.Cond":            "OpExpr", // §14.6
	"ReturnStmt.Value":       "OpExpr", // §14.10
	"WithStmt.Cond":          "OpExpr", // §14.11
	"DoWhileStmt.Cond":       "OpExpr", // §14.7.2
	"WhileStmt.Cond":         "OpExpr", // §14.7.3
	"ForStmt.Init":           "OpExpr", // §14.7.4 for ( Expression[~In]opt ;
	"ForStmt.Cond":           "OpExpr",
	"ForStmt.Post":           "OpExpr",
	"ForInStmt.Init":         "OpLHS",  // §14.7.5 for ( LeftHandSideExpression in
	"ForInStmt.Value":        "OpExpr", //          in Expression )
	"ForOfStmt.Init":         "OpLHS",
	"ForOfStmt.Value":        "OpAssign", //          of AssignmentExpression )
	"SwitchStmt.Init":        "OpExpr",   // §14.12
	"CaseClause.Cond":        "OpExpr",
	"ThrowStmt.Value":        "OpExpr",   // §14.14
	"ExportStmt.Decl":        "OpAssign", // §16.2.3 export default AssignmentExpression
	"Arg.Value":              "OpAssign", // §13.3 ArgumentList
	"Element.Value":          "OpAssign", // §13.2.4 ElementList
	"Property.Value":         "OpAssign", // §13.2.5 PropertyDefinition
	"Property.Init":          "OpAssign", //          CoverInitializedName
	"PropertyName.Computed":  "OpAssign", //         ComputedPropertyName
	"BindingElement.Default": "OpAssign", // §14.3.3 Initializer
	"Field.Init":             "OpAssign", // §15.7 FieldDefinition Initializer
	"ClassDecl.Extends":      "OpLHS",    // §15.7 ClassHeritage: LeftHandSideExpression
	"TemplatePart.Expr":      "OpExpr",   // §13.2.8 TemplateMiddleList: Expression
	"TemplateExpr.Tag":       "OpCall",   // §13.3 MemberExpression / CallExpression TemplateLiteral
	"NewExpr.X":              "OpNew",    // §13.3 new NewExpression / new MemberExpression Arguments
	"YieldExpr.X":            "OpAssign", // §15.5 yield AssignmentExpression
	"CallExpr.X":             "OpCall",
	"DotExpr.X":              "OpCall",
	"IndexExpr.X":            "OpCall",
	"IndexExpr.Y":            "OpExpr",     // [ Expression ]
	"CondExpr.Cond":          "OpCoalesce", // §13.14 ShortCircuitExpression ? … : …
	"CondExpr.X":             "OpAssign",
	"CondExpr.Y":             "OpAssign",
	"CommaExpr.List":         "OpAssign", // §13.16 Expression , AssignmentExpression
	"GroupExpr.X":            "OpExpr",   // ( Expression )
}

// JSLookaheadIdents are the identifiers on which ECMA-262 (§14.5 ExpressionStatement, §14.7.4 for, §14.7.5 for-in / for-of)
// places a look-ahead restriction: `let [`, `let`, `async of`. Parenthesised, they may start those productions.
var JSLookaheadIdents = []string{"let", "async"}

// JSTokenEdition: the binary and assignment operators that are newer than ES5, by the name of their token constant in
// parse/v2/js, with the edition of ECMA-262 that introduced them (`**` ES2016 §13.6; `??` ES2020 §13.13; `&&=` `||=` `??=`
// ES2021 §13.15).
var JSTokenEdition = map[string]int64{
	"ExpToken": 2016, "ExpEqToken": 2016,
	"NullishToken": 2020,
	"AndEqToken":   2021, "OrEqToken": 2021, "NullishEqToken": 2021,
}

// JSHeadEvaluatedFirst: the slots of the statement nodes of parse/v2/js, as NodeType.Field, whose expression is evaluated before
// anything else of the statement, exactly once, and in the scope that contains the statement (ECMA-262 §14). An expression
// statement in front of the statement can be moved into such a slot with the comma operator.
var JSHeadEvaluatedFirst = map[string]string{
	"ExprStmt.Value":   "§14.5",
	"ReturnStmt.Value": "§14.10",
	"ThrowStmt.Value":  "§14.14",
	"IfStmt.Cond":      "§14.6",
	"SwitchStmt.Init":  "§14.12: the discriminant is evaluated before the block scope of the cases is created",
	"WithStmt.Cond":    "§14.11",
	"ForStmt.Init":     "§14.7.4: without a lexical declaration the init is evaluated in the enclosing scope",
}
