// Package report collects obligations produced by rules and renders evidence,
// violation reports and the VIOLATION / KNOWN-FINDING lines.
package report

import (
	"encoding/json"
	"fmt"
	"os"
	"path/filepath"
	"sort"
	"strings"
)

type Status string

const (
	Discharged Status = "discharged"
	Violated   Status = "violated"
	Known      Status = "known-finding"
	Unresolved Status = "unresolved"
)

type Obl struct {
	Rule       string `json:"rule"`
	Construct  string `json:"construct"`
	Pos        string `json:"pos"`
	Status     Status `json:"status"`
	Detail     string `json:"detail,omitempty"`
	Config     string `json:"config,omitempty"`
	nontrivial bool
}

func (o Obl) Key() string { return o.Rule + "|" + o.Construct }

type RuleDoc struct {
	ID   string `json:"id"`
	Text string `json:"text"`
	N    int    `json:"obligations"`
}

type Result struct {
	Property string
	Config   string // build configuration label being analysed
	rules    []*RuleDoc
	ruleIdx  map[string]*RuleDoc
	Obls     []Obl
	Evals    int
	Funcs    map[string]bool
	Pkgs     map[string]bool
	Sites    int
	Notes    []string
	Assume   []string
	// Alias maps a rule id to the id under which it is listed for the property being decided
	// (a rule that is a necessary condition of two properties runs under both, see rules.alias).
	Alias map[string]string
	// Keep, when set, drops the obligations (and rule texts) it rejects: used to run only part of another property's rules
	Keep func(rule, construct string) bool
}

func New(property string) *Result {
	return &Result{Property: property, ruleIdx: map[string]*RuleDoc{}, Funcs: map[string]bool{}, Pkgs: map[string]bool{}}
}

// Rule registers the text of a rule (for the evidence file).
func (r *Result) Rule(id, text string) {
	if r.Keep != nil && !r.Keep(id, "") {
		return
	}
	if a, ok := r.Alias[id]; ok {
		text = "(= " + id + ", also a necessary condition of this property) " + text
		id = a
	}
	if _, ok := r.ruleIdx[id]; ok {
		return
	}
	d := &RuleDoc{ID: id, Text: text}
	r.rules = append(r.rules, d)
	r.ruleIdx[id] = d
}

func (r *Result) add(rule, construct, pos string, st Status, nontrivial bool, detail string) {
	if r.Keep != nil && !r.Keep(rule, construct) {
		return
	}
	if a, ok := r.Alias[rule]; ok {
		rule = a
	}
	for _, o := range r.Obls {
		if o.Rule == rule && o.Construct == construct && o.Status == st && o.Config == r.Config {
			return // same obligation reached through a second syntactic route
		}
	}
	if d, ok := r.ruleIdx[rule]; ok {
		d.N++
	} else {
		r.Rule(rule, "")
		r.ruleIdx[rule].N++
	}
	r.Obls = append(r.Obls, Obl{Rule: rule, Construct: construct, Pos: pos, Status: st, Detail: detail, Config: r.Config, nontrivial: nontrivial})
	r.Evals++
}

// OK records a discharged obligation whose decision needed an analysis (not mere existence).
func (r *Result) OK(rule, construct, pos, detail string) {
	r.add(rule, construct, pos, Discharged, true, detail)
}

// Exists records a discharged existence-only obligation (counted as trivial).
func (r *Result) Exists(rule, construct, pos, detail string) {
	r.add(rule, construct, pos, Discharged, false, detail)
}

func (r *Result) Bad(rule, construct, pos, detail string) {
	r.add(rule, construct, pos, Violated, true, detail)
}

func (r *Result) Unres(rule, construct, pos, detail string) {
	r.add(rule, construct, pos, Unresolved, true, detail)
}

// Check is OK when cond holds, else Bad.
func (r *Result) Check(cond bool, rule, construct, pos, okDetail, badDetail string) bool {
	if cond {
		r.OK(rule, construct, pos, okDetail)
	} else {
		r.Bad(rule, construct, pos, badDetail)
	}
	return cond
}

// Floor fails the rule as unresolved when fewer than min instances were matched.
func (r *Result) Floor(rule, what string, got, min int) {
	if got < min {
		r.Unres(rule, "floor/"+what, "-", fmt.Sprintf("matched %d instances of %s, at least %d were confirmed by hand on the pinned tree; the rule would pass vacuously", got, what, min))
	} else {
		r.Exists(rule, "floor/"+what, "-", fmt.Sprintf("%d instances (floor %d)", got, min))
	}
}

func (r *Result) Note(format string, a ...interface{}) {
	r.Notes = append(r.Notes, fmt.Sprintf(format, a...))
}
func (r *Result) Assumption(s string) {
	for _, a := range r.Assume {
		if a == s {
			return
		}
	}
	r.Assume = append(r.Assume, s)
}
func (r *Result) Func(name string) { r.Funcs[name] = true }
func (r *Result) Pkg(name string)  { r.Pkgs[name] = true }

// Merge appends the obligations of another configuration's run, deduplicating
// identical (rule, construct, status) triples.
func (r *Result) Merge(o *Result) {
	seen := map[string]bool{}
	for _, x := range r.Obls {
		seen[x.Key()+"|"+string(x.Status)] = true
	}
	for _, x := range o.Obls {
		if seen[x.Key()+"|"+string(x.Status)] {
			continue
		}
		r.Obls = append(r.Obls, x)
	}
	r.Evals += o.Evals
	for k := range o.Funcs {
		r.Funcs[k] = true
	}
	for k := range o.Pkgs {
		r.Pkgs[k] = true
	}
	r.Sites += o.Sites
	r.Notes = append(r.Notes, o.Notes...)
	for _, a := range o.Assume {
		r.Assumption(a)
	}
	for _, d := range o.rules {
		if _, ok := r.ruleIdx[d.ID]; !ok {
			r.Rule(d.ID, d.Text)
		}
	}
}

// ---------------------------------------------------------------------------

type Finding struct {
	Property  string `json:"property"`
	Rule      string `json:"rule"`
	Construct string `json:"construct"`
	Status    string `json:"status"` // known | fixed
	Commit    string `json:"commit,omitempty"`
	Input     string `json:"input,omitempty"`
	What      string `json:"what"`
}

func LoadFindings(path string) ([]Finding, error) {
	b, err := os.ReadFile(path)
	if err != nil {
		if os.IsNotExist(err) {
			return nil, nil
		}
		return nil, err
	}
	var fs []Finding
	if err := json.Unmarshal(b, &fs); err != nil {
		return nil, fmt.Errorf("%s: %v", path, err)
	}
	return fs, nil
}

// ApplyFindings turns violations listed as known into known-findings.
func (r *Result) ApplyFindings(fs []Finding) {
	for i := range r.Obls {
		o := &r.Obls[i]
		if o.Status != Violated {
			continue
		}
		for _, f := range fs {
			if f.Status == "known" && f.Property == r.Property && f.Rule == o.Rule && f.Construct == o.Construct {
				o.Status = Known
				o.Detail = f.What + " [" + o.Detail + "]"
			}
		}
	}
}

type Summary struct {
	Obligations, Discharged, Violated, Known, Unresolved, Nontrivial int
}

func (r *Result) Summary() Summary {
	var s Summary
	distinct := map[string]bool{}
	for _, o := range r.Obls {
		s.Obligations++
		switch o.Status {
		case Discharged:
			s.Discharged++
		case Violated:
			s.Violated++
		case Known:
			s.Known++
		case Unresolved:
			s.Unresolved++
		}
		if o.nontrivial && !distinct[o.Key()] {
			distinct[o.Key()] = true
			s.Nontrivial++
		}
	}
	return s
}

func sortedKeys(m map[string]bool) []string {
	var out []string
	for k := range m {
		out = append(out, k)
	}
	sort.Strings(out)
	return out
}

type Meta struct {
	Tier       string
	Seed       int
	Level      string
	WallS      float64
	Cmd        string
	Trusted    []string
	Configs    []string
	Deps       []string
	Selftest   interface{}
	Exhaustive bool
	Explain    string
}

// WriteEvidence writes evidence/<id>.json.
func (r *Result) WriteEvidence(dir string, m Meta) error {
	s := r.Summary()
	var samples []Obl
	perRule := map[string]int{}
	for _, o := range r.Obls {
		if o.Status != Discharged || perRule[o.Rule] < 2 {
			if len(samples) < 40 {
				samples = append(samples, o)
			}
			perRule[o.Rule]++
		}
	}
	var ruleTexts []string
	for _, d := range r.rules {
		ruleTexts = append(ruleTexts, fmt.Sprintf("%s [%d obligations]: %s", d.ID, d.N, d.Text))
	}
	cov := map[string]interface{}{
		"explanation":         m.Explain,
		"obligations":         s.Obligations,
		"discharged":          s.Discharged + s.Known,
		"known_findings":      s.Known,
		"unresolved":          s.Unresolved,
		"evaluations":         r.Evals,
		"distinct_nontrivial": s.Nontrivial,
		"rule":                "cases are obligations = (rule, construct) pairs enumerated from the type-checked source of /repo on this run; an obligation is non-trivial when its decision needed a table evaluation, a path search, a truth table or a provenance slice (mere existence checks and instance-count floors are not counted); distinct = distinct (rule, construct) keys",
		"rules":               ruleTexts,
		"samples":             samples,
		"packages":            sortedKeys(r.Pkgs),
		"functions_analysed":  len(r.Funcs),
		"functions":           sortedKeys(r.Funcs),
		"call_sites":          r.Sites,
		"build_configs":       m.Configs,
		"dependency_versions": m.Deps,
		"notes":               r.Notes,
		"checker_cmd":         m.Cmd,
		"trusted_base":        m.Trusted,
		"exhaustive":          m.Exhaustive,
	}
	if m.Selftest != nil {
		cov["selftest"] = m.Selftest
	}
	ev := map[string]interface{}{
		"property_id": r.Property,
		"tier":        m.Tier,
		"seed":        m.Seed,
		"level":       m.Level,
		"coverage":    cov,
		"assumptions": r.Assume,
		"wall_s":      m.WallS,
		"violations":  s.Violated + s.Unresolved,
	}
	if r.Assume == nil {
		ev["assumptions"] = []string{}
	}
	b, err := json.MarshalIndent(ev, "", " ")
	if err != nil {
		return err
	}
	if err := os.MkdirAll(dir, 0o755); err != nil {
		return err
	}
	return os.WriteFile(filepath.Join(dir, r.Property+".json"), append(b, '\n'), 0o644)
}

// WriteReport writes reports/<id>.json with every non-discharged obligation.
func (r *Result) WriteReport(dir string) (string, error) {
	var bad []Obl
	for _, o := range r.Obls {
		if o.Status == Violated || o.Status == Unresolved {
			bad = append(bad, o)
		}
	}
	if err := os.MkdirAll(dir, 0o755); err != nil {
		return "", err
	}
	path := filepath.Join(dir, r.Property+".json")
	b, _ := json.MarshalIndent(map[string]interface{}{"property": r.Property, "failures": bad}, "", " ")
	return path, os.WriteFile(path, append(b, '\n'), 0o644)
}

// Print writes the human-readable lines; returns the exit code.
func (r *Result) Print(reportPath string, verbose bool) int {
	s := r.Summary()
	for _, o := range r.Obls {
		switch o.Status {
		case Known:
			fmt.Printf("KNOWN-FINDING: property=%s rule=%s construct=%s at %s: %s\n", r.Property, o.Rule, o.Construct, o.Pos, oneLine(o.Detail))
		case Violated:
			fmt.Printf("violated: %s %s at %s: %s\n", o.Rule, o.Construct, o.Pos, oneLine(o.Detail))
		case Unresolved:
			fmt.Printf("unresolved: %s %s at %s: %s\n", o.Rule, o.Construct, o.Pos, oneLine(o.Detail))
		default:
			if verbose {
				fmt.Printf("ok: %s %s at %s: %s\n", o.Rule, o.Construct, o.Pos, oneLine(o.Detail))
			}
		}
	}
	fmt.Printf("%s: %d obligations, %d discharged, %d known findings, %d violated, %d unresolved (%d distinct non-trivial)\n",
		r.Property, s.Obligations, s.Discharged, s.Known, s.Violated, s.Unresolved, s.Nontrivial)
	if s.Violated+s.Unresolved > 0 {
		fmt.Printf("VIOLATION property=%s replay=%s\n", r.Property, reportPath)
		return 1
	}
	return 0
}

func oneLine(s string) string { return strings.Join(strings.Fields(s), " ") }
