// Package flow builds a statement-level control-flow graph of a Go function body
// in which short-circuit conditions are split into one node per leaf condition and
// every branch outcome is an explicit edge node. Rules use it for dominance,
// must-pass-through and correlated ("worlds") path searches.
//
// Differences from golang.org/x/tools/go/cfg (which was evaluated first): `a && b`,
// `a || b`, `!a` in branch position become separate condition nodes; switch cases
// carry their tag; type-switch cases are nodes; each condition outcome is a node of
// kind KTrue / KFalse, so "the true edge of c dominates s" is ordinary node
// dominance.
package flow

import (
	"fmt"
	"go/ast"
	"go/token"
	"go/types"
)

type Kind int

const (
	KEntry    Kind = iota
	KExit          // normal return (explicit or falling off the end)
	KStmt          // simple statement (assign, expr, incdec, send, go, defer, return, var spec)
	KCond          // leaf boolean condition in branch position
	KCase          // switch case test Tag == Expr
	KTypeCase      // type switch case test Tag.(Expr)
	KRange         // range loop head: true = next iteration, false = done
	KSelect        // select head (nondeterministic successors)
	KTrue          // outcome node
	KFalse         // outcome node
	KJoin          // virtual
	KAbort         // panic / os.Exit: path ends, not an exit
)

func (k Kind) String() string {
	return [...]string{"entry", "exit", "stmt", "cond", "case", "typecase", "range", "select", "true", "false", "join", "abort"}[k]
}

type Node struct {
	ID     int
	Kind   Kind
	Stmt   ast.Stmt        // KStmt, KRange (the RangeStmt), KSelect
	Spec   *ast.ValueSpec  // KStmt for a `var` declaration
	Expr   ast.Expr        // KCond: condition; KCase: case expression; KTypeCase: type expression
	Tag    ast.Expr        // KCase: switch tag; KTypeCase: asserted expression
	Of     *Node           // KTrue / KFalse: the test node
	Clause *ast.CaseClause // KCase / KTypeCase
	Succs  []*Node
	Preds  []*Node
}

// Ast returns the syntax node carried by n (nil for virtual nodes).
func (n *Node) Ast() ast.Node {
	switch {
	case n.Spec != nil:
		return n.Spec
	case n.Stmt != nil:
		return n.Stmt
	case n.Expr != nil:
		return n.Expr
	}
	return nil
}

func (n *Node) Pos() token.Pos {
	if a := n.Ast(); a != nil {
		return a.Pos()
	}
	if n.Of != nil {
		return n.Of.Pos()
	}
	return token.NoPos
}

type Graph struct {
	Name  string
	Body  *ast.BlockStmt
	Info  *types.Info
	Nodes []*Node
	Entry *Node
	Exit  *Node
	// Defers lists defer statements in the body (run at every exit).
	Defers []*ast.DeferStmt

	idom    []int
	domDone bool
	consts  map[string]string
}

type targets struct {
	tail                         *targets
	brk, cont, fallthru          *Node
	isSwitch, isLoop, isSelectOK bool
}

type lblock struct{ gotoN, brk, cont *Node }

type builder struct {
	g      *Graph
	cur    *Node // node from which the next one will be linked; nil = unreachable
	tg     *targets
	labels map[string]*lblock
	noRet  func(*ast.CallExpr) bool
}

func (b *builder) newNode(k Kind) *Node {
	n := &Node{ID: len(b.g.Nodes), Kind: k}
	b.g.Nodes = append(b.g.Nodes, n)
	return n
}

func link(a, c *Node) {
	if a == nil || c == nil {
		return
	}
	a.Succs = append(a.Succs, c)
	c.Preds = append(c.Preds, a)
}

// emit appends node n after the current point.
func (b *builder) emit(n *Node) *Node {
	link(b.cur, n)
	b.cur = n
	return n
}

func (b *builder) join() *Node { return b.newNode(KJoin) }

// Build constructs the graph of a function body. noReturn reports calls that never return.
func Build(name string, body *ast.BlockStmt, info *types.Info) *Graph {
	g := &Graph{Name: name, Body: body, Info: info}
	b := &builder{g: g, labels: map[string]*lblock{}}
	b.noRet = func(c *ast.CallExpr) bool { return isNoReturn(c, info) }
	g.Entry = b.newNode(KEntry)
	g.Exit = b.newNode(KExit)
	b.cur = g.Entry
	b.stmtList(body.List)
	link(b.cur, g.Exit)
	return g
}

func isNoReturn(c *ast.CallExpr, info *types.Info) bool {
	switch f := c.Fun.(type) {
	case *ast.Ident:
		if f.Name == "panic" {
			if _, ok := info.Uses[f].(*types.Builtin); ok {
				return true
			}
		}
	case *ast.SelectorExpr:
		if o, ok := info.Uses[f.Sel].(*types.Func); ok && o.Pkg() != nil {
			switch o.Pkg().Path() + "." + o.Name() {
			case "os.Exit", "log.Fatal", "log.Fatalf", "log.Fatalln", "log.Panic", "log.Panicf", "runtime.Goexit":
				return true
			}
		}
	}
	return false
}

func (b *builder) stmtList(l []ast.Stmt) {
	for _, s := range l {
		b.stmt(s, nil)
	}
}

func (b *builder) simple(s ast.Stmt) *Node {
	n := b.newNode(KStmt)
	n.Stmt = s
	return b.emit(n)
}

func (b *builder) stmt(s ast.Stmt, label *lblock) {
	switch s := s.(type) {
	case *ast.BadStmt, *ast.SendStmt, *ast.IncDecStmt, *ast.GoStmt, *ast.AssignStmt:
		b.simple(s)
	case *ast.EmptyStmt:
	case *ast.DeferStmt:
		b.simple(s)
		b.g.Defers = append(b.g.Defers, s)
	case *ast.ExprStmt:
		b.simple(s)
		if call, ok := s.X.(*ast.CallExpr); ok && b.noRet(call) {
			a := b.newNode(KAbort)
			b.emit(a)
			b.cur = nil
		}
	case *ast.DeclStmt:
		if d, ok := s.Decl.(*ast.GenDecl); ok && d.Tok == token.VAR {
			for _, sp := range d.Specs {
				if vs, ok := sp.(*ast.ValueSpec); ok {
					n := b.newNode(KStmt)
					n.Spec = vs
					b.emit(n)
				}
			}
		}
	case *ast.LabeledStmt:
		lb := b.label(s.Label.Name)
		link(b.cur, lb.gotoN)
		b.cur = lb.gotoN
		b.stmt(s.Stmt, lb)
	case *ast.ReturnStmt:
		b.simple(s)
		link(b.cur, b.g.Exit)
		b.cur = nil
	case *ast.BranchStmt:
		b.branch(s)
	case *ast.BlockStmt:
		b.stmtList(s.List)
	case *ast.IfStmt:
		if s.Init != nil {
			b.stmt(s.Init, nil)
		}
		then, els, done := b.join(), b.join(), b.join()
		b.cond(s.Cond, then, els)
		b.cur = then
		b.stmt(s.Body, nil)
		link(b.cur, done)
		b.cur = els
		if s.Else != nil {
			b.stmt(s.Else, nil)
		}
		link(b.cur, done)
		b.cur = done
	case *ast.SwitchStmt:
		b.switchStmt(s, label)
	case *ast.TypeSwitchStmt:
		b.typeSwitch(s, label)
	case *ast.SelectStmt:
		b.selectStmt(s, label)
	case *ast.ForStmt:
		b.forStmt(s, label)
	case *ast.RangeStmt:
		b.rangeStmt(s, label)
	default:
		panic(fmt.Sprintf("flow: unexpected statement %T", s))
	}
}

func (b *builder) label(name string) *lblock {
	lb := b.labels[name]
	if lb == nil {
		lb = &lblock{gotoN: b.join()}
		b.labels[name] = lb
	}
	return lb
}

func (b *builder) branch(s *ast.BranchStmt) {
	var target *Node
	switch s.Tok {
	case token.BREAK:
		if s.Label != nil {
			target = b.label(s.Label.Name).brk
		} else {
			for t := b.tg; t != nil; t = t.tail {
				if t.brk != nil {
					target = t.brk
					break
				}
			}
		}
	case token.CONTINUE:
		if s.Label != nil {
			target = b.label(s.Label.Name).cont
		} else {
			for t := b.tg; t != nil; t = t.tail {
				if t.cont != nil {
					target = t.cont
					break
				}
			}
		}
	case token.FALLTHROUGH:
		for t := b.tg; t != nil; t = t.tail {
			if t.fallthru != nil {
				target = t.fallthru
				break
			}
		}
	case token.GOTO:
		target = b.label(s.Label.Name).gotoN
	}
	n := b.simple(s)
	if target != nil {
		link(n, target)
	}
	b.cur = nil
}

// cond emits the evaluation of e in branch position with targets t and f.
func (b *builder) cond(e ast.Expr, t, f *Node) {
	if b.cur == nil {
		return
	}
	switch x := e.(type) {
	case *ast.ParenExpr:
		b.cond(x.X, t, f)
		return
	case *ast.UnaryExpr:
		if x.Op == token.NOT {
			b.cond(x.X, f, t)
			return
		}
	case *ast.BinaryExpr:
		switch x.Op {
		case token.LAND:
			mid := b.join()
			b.cond(x.X, mid, f)
			b.cur = mid
			b.cond(x.Y, t, f)
			return
		case token.LOR:
			mid := b.join()
			b.cond(x.X, t, mid)
			b.cur = mid
			b.cond(x.Y, t, f)
			return
		}
	}
	n := b.newNode(KCond)
	n.Expr = e
	b.emit(n)
	b.outcomes(n, t, f)
}

func (b *builder) outcomes(n, t, f *Node) {
	tn := b.newNode(KTrue)
	tn.Of = n
	fn := b.newNode(KFalse)
	fn.Of = n
	link(n, tn)
	link(n, fn)
	link(tn, t)
	link(fn, f)
	b.cur = nil
}

func (b *builder) switchStmt(s *ast.SwitchStmt, label *lblock) {
	if s.Init != nil {
		b.stmt(s.Init, nil)
	}
	if s.Tag != nil {
		// evaluation of the tag
		n := b.newNode(KStmt)
		n.Stmt = &ast.ExprStmt{X: s.Tag}
		b.emit(n)
	}
	done := b.join()
	if label != nil {
		label.brk = done
	}
	n := len(s.Body.List)
	bodies := make([]*Node, n+1)
	for i := range bodies {
		bodies[i] = b.join()
	}
	var defIdx = -1
	for i, cl := range s.Body.List {
		cc := cl.(*ast.CaseClause)
		if cc.List == nil {
			defIdx = i
			continue
		}
		for _, ce := range cc.List {
			next := b.join()
			if s.Tag == nil {
				b.cond(ce, bodies[i], next)
			} else if b.cur != nil {
				t := b.newNode(KCase)
				t.Expr, t.Tag, t.Clause = ce, s.Tag, cc
				b.emit(t)
				b.outcomes(t, bodies[i], next)
			}
			b.cur = next
		}
	}
	// no case matched
	if defIdx >= 0 {
		link(b.cur, bodies[defIdx])
	} else {
		link(b.cur, done)
	}
	for i, cl := range s.Body.List {
		cc := cl.(*ast.CaseClause)
		b.cur = bodies[i]
		var ft *Node
		if i+1 < n {
			ft = bodies[i+1]
		} else {
			ft = done
		}
		b.tg = &targets{tail: b.tg, brk: done, fallthru: ft}
		b.stmtList(cc.Body)
		b.tg = b.tg.tail
		link(b.cur, done)
	}
	b.cur = done
}

func (b *builder) typeSwitch(s *ast.TypeSwitchStmt, label *lblock) {
	if s.Init != nil {
		b.stmt(s.Init, nil)
	}
	var tag ast.Expr
	switch a := s.Assign.(type) {
	case *ast.AssignStmt:
		if ta, ok := a.Rhs[0].(*ast.TypeAssertExpr); ok {
			tag = ta.X
		}
	case *ast.ExprStmt:
		if ta, ok := a.X.(*ast.TypeAssertExpr); ok {
			tag = ta.X
		}
	}
	n := b.newNode(KStmt)
	n.Stmt = s.Assign
	b.emit(n)
	done := b.join()
	if label != nil {
		label.brk = done
	}
	var def *ast.CaseClause
	type pending struct {
		cc   *ast.CaseClause
		body *Node
	}
	var bodies []pending
	for _, cl := range s.Body.List {
		cc := cl.(*ast.CaseClause)
		if cc.List == nil {
			def = cc
			continue
		}
		body := b.join()
		for _, te := range cc.List {
			next := b.join()
			if b.cur != nil {
				t := b.newNode(KTypeCase)
				t.Expr, t.Tag, t.Clause = te, tag, cc
				b.emit(t)
				b.outcomes(t, body, next)
			}
			b.cur = next
		}
		bodies = append(bodies, pending{cc, body})
	}
	if def != nil {
		body := b.join()
		link(b.cur, body)
		bodies = append(bodies, pending{def, body})
	} else {
		link(b.cur, done)
	}
	for _, p := range bodies {
		b.cur = p.body
		b.tg = &targets{tail: b.tg, brk: done}
		b.stmtList(p.cc.Body)
		b.tg = b.tg.tail
		link(b.cur, done)
	}
	b.cur = done
}

func (b *builder) selectStmt(s *ast.SelectStmt, label *lblock) {
	head := b.newNode(KSelect)
	head.Stmt = s
	b.emit(head)
	done := b.join()
	if label != nil {
		label.brk = done
	}
	for _, cl := range s.Body.List {
		cc := cl.(*ast.CommClause)
		b.cur = head
		if cc.Comm != nil {
			b.stmt(cc.Comm, nil)
		} else {
			j := b.join()
			b.emit(j)
		}
		b.tg = &targets{tail: b.tg, brk: done}
		b.stmtList(cc.Body)
		b.tg = b.tg.tail
		link(b.cur, done)
	}
	if len(s.Body.List) == 0 {
		b.cur = nil // blocks forever
		return
	}
	b.cur = done
}

func (b *builder) forStmt(s *ast.ForStmt, label *lblock) {
	if s.Init != nil {
		b.stmt(s.Init, nil)
	}
	loop, body, post, done := b.join(), b.join(), b.join(), b.join()
	if label != nil {
		label.brk, label.cont = done, post
	}
	link(b.cur, loop)
	b.cur = loop
	if s.Cond != nil {
		b.cond(s.Cond, body, done)
	} else {
		link(b.cur, body)
	}
	b.cur = body
	b.tg = &targets{tail: b.tg, brk: done, cont: post}
	b.stmt(s.Body, nil)
	b.tg = b.tg.tail
	link(b.cur, post)
	b.cur = post
	if s.Post != nil {
		b.stmt(s.Post, nil)
	}
	link(b.cur, loop)
	b.cur = done
}

func (b *builder) rangeStmt(s *ast.RangeStmt, label *lblock) {
	head := b.newNode(KRange)
	head.Stmt = s
	head.Expr = s.X
	pre := b.join()
	b.emit(pre)
	b.emit(head)
	body, done := b.join(), b.join()
	b.outcomes(head, body, done)
	if label != nil {
		label.brk, label.cont = done, pre
	}
	b.cur = body
	b.tg = &targets{tail: b.tg, brk: done, cont: pre}
	b.stmt(s.Body, nil)
	b.tg = b.tg.tail
	link(b.cur, pre)
	b.cur = done
}
