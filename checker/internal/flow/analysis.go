package flow

import (
	"go/ast"
	"go/token"
	"go/types"
	"sort"
	"strings"
)

// ---------------------------------------------------------------------------
// Dominators (iterative, Cooper/Harvey/Kennedy) on the node graph.

func (g *Graph) computeDom() {
	if g.domDone {
		return
	}
	g.domDone = true
	n := len(g.Nodes)
	// reverse postorder from entry
	order := make([]int, 0, n)
	rpoNum := make([]int, n)
	for i := range rpoNum {
		rpoNum[i] = -1
	}
	seen := make([]bool, n)
	var dfs func(x *Node)
	dfs = func(x *Node) {
		seen[x.ID] = true
		for _, s := range x.Succs {
			if !seen[s.ID] {
				dfs(s)
			}
		}
		order = append(order, x.ID)
	}
	dfs(g.Entry)
	for i, j := 0, len(order)-1; i < j; i, j = i+1, j-1 {
		order[i], order[j] = order[j], order[i]
	}
	for i, id := range order {
		rpoNum[id] = i
	}
	idom := make([]int, n)
	for i := range idom {
		idom[i] = -1
	}
	idom[g.Entry.ID] = g.Entry.ID
	intersect := func(a, b int) int {
		for a != b {
			for rpoNum[a] > rpoNum[b] {
				a = idom[a]
			}
			for rpoNum[b] > rpoNum[a] {
				b = idom[b]
			}
		}
		return a
	}
	for changed := true; changed; {
		changed = false
		for _, id := range order[1:] {
			nd := g.Nodes[id]
			newIdom := -1
			for _, p := range nd.Preds {
				if rpoNum[p.ID] < 0 || idom[p.ID] < 0 {
					continue
				}
				if newIdom < 0 {
					newIdom = p.ID
				} else {
					newIdom = intersect(p.ID, newIdom)
				}
			}
			if newIdom >= 0 && idom[id] != newIdom {
				idom[id] = newIdom
				changed = true
			}
		}
	}
	g.idom = idom
}

// Reachable reports whether n is reachable from the entry.
func (g *Graph) Reachable(n *Node) bool {
	g.computeDom()
	return g.idom[n.ID] >= 0
}

// Dominates reports whether every path from entry to b passes a (a == b counts).
func (g *Graph) Dominates(a, b *Node) bool {
	g.computeDom()
	if g.idom[b.ID] < 0 {
		return false
	}
	x := b.ID
	for {
		if x == a.ID {
			return true
		}
		if x == g.Entry.ID {
			return false
		}
		x = g.idom[x]
	}
}

// Fact is a branch outcome known to hold on a path: Expr evaluated to Value.
type Fact struct {
	Test  *Node // the KCond / KCase / KTypeCase / KRange node
	Value bool
}

// InitFacts returns the valuation of trackable conditions established by the branch outcomes dominating n, as far as
// no statement between the test and n (on the dominator chain) assigns to a variable of the condition.
func (g *Graph) InitFacts(n *Node, fields bool) map[string]bool {
	g.computeDom()
	out := map[string]bool{}
	if g.idom[n.ID] < 0 {
		return out
	}
	// walk up the dominator chain, remembering what gets written below each test
	var chain []*Node
	for x := n.ID; x != g.Entry.ID; x = g.idom[x] {
		chain = append(chain, g.Nodes[x])
	}
	// from the top down: apply facts, invalidate through assignments on the chain. Statements off the chain (inside
	// branches that rejoin) can also write: be conservative and drop every key whose variable is assigned anywhere
	// between — approximated by: assigned in any node dominated by the test and not dominating n is ignored only when
	// no such assignment exists in the function at all besides those on the chain.
	assignedOffChain := map[string]bool{}
	assignedObjs := map[types.Object]bool{}
	objOf := func(id *ast.Ident) types.Object {
		if g.Info == nil {
			return nil
		}
		if o := g.Info.Defs[id]; o != nil {
			return o
		}
		return g.Info.Uses[id]
	}
	onChain := map[int]bool{}
	for _, c := range chain {
		onChain[c.ID] = true
	}
	for _, y := range g.Nodes {
		if onChain[y.ID] {
			continue
		}
		switch s := y.Stmt.(type) {
		case *ast.AssignStmt:
			if y.Kind == KStmt {
				for _, l := range s.Lhs {
					if id, ok := ast.Unparen(l).(*ast.Ident); ok {
						assignedOffChain[id.Name] = true
						if o := objOf(id); o != nil {
							assignedObjs[o] = true
						}
					}
				}
			}
		case *ast.IncDecStmt:
			if id, ok := ast.Unparen(s.X).(*ast.Ident); ok && y.Kind == KStmt {
				assignedOffChain[id.Name] = true
				if o := objOf(id); o != nil {
					assignedObjs[o] = true
				}
			}
		}
	}
	// the variables each key was built from (a shadowing variable of the same name is another variable)
	keyObjs := map[string]map[string]types.Object{}
	for i := len(chain) - 1; i >= 0; i-- {
		nd := chain[i]
		if (nd.Kind == KTrue || nd.Kind == KFalse) && nd.Of.Kind == KCond {
			if key, neg, ok := g.CondKeyOf(nd.Of, fields); ok {
				out[key] = (nd.Kind == KTrue) != neg
				m := map[string]types.Object{}
				ast.Inspect(nd.Of.Expr, func(x ast.Node) bool {
					if id, ok := x.(*ast.Ident); ok {
						if o := objOf(id); o != nil {
							m[id.Name] = o
						}
					}
					return true
				})
				keyObjs[key] = m
			}
		}
		if len(out) > 0 {
			g.invalidate(nd, out, nil)
		}
	}
	for k := range out {
		for w := range assignedOffChain {
			if !mentions(k, w) {
				continue
			}
			if o, known := keyObjs[k][w]; known && !assignedObjs[o] {
				continue // a different variable of the same name is assigned
			}
			delete(out, k)
			break
		}
	}
	return out
}

// DomFacts returns the branch outcomes that dominate n (nearest first).
func (g *Graph) DomFacts(n *Node) []Fact {
	g.computeDom()
	var out []Fact
	if g.idom[n.ID] < 0 {
		return nil
	}
	x := n.ID
	for x != g.Entry.ID {
		nd := g.Nodes[x]
		if nd.Kind == KTrue || nd.Kind == KFalse {
			out = append(out, Fact{nd.Of, nd.Kind == KTrue})
		}
		x = g.idom[x]
	}
	return out
}

// ---------------------------------------------------------------------------
// Node lookup

// NodeOf returns the graph node whose statement / condition contains the syntax node x
// (the innermost simple statement or leaf condition).
func (g *Graph) NodeOf(x ast.Node) *Node {
	var best *Node
	var bestLen token.Pos
	for _, n := range g.Nodes {
		a := n.Ast()
		if a == nil || n.Kind == KRange || n.Kind == KSelect {
			if n.Kind == KRange {
				rs := n.Stmt.(*ast.RangeStmt)
				if rs.X.Pos() <= x.Pos() && x.End() <= rs.X.End() {
					return n
				}
				if rs.Key != nil && rs.Key.Pos() <= x.Pos() && x.End() <= rs.Key.End() {
					return n
				}
				if rs.Value != nil && rs.Value.Pos() <= x.Pos() && x.End() <= rs.Value.End() {
					return n
				}
			}
			continue
		}
		if a.Pos() <= x.Pos() && x.End() <= a.End() {
			l := a.End() - a.Pos()
			if best == nil || l < bestLen {
				best, bestLen = n, l
			}
		}
	}
	return best
}

// Find returns all nodes (in ID order) whose syntax satisfies pred somewhere inside
// (function literals are not entered).
func (g *Graph) Find(pred func(ast.Node) bool) []*Node {
	var out []*Node
	for _, n := range g.Nodes {
		a := n.Ast()
		if a == nil {
			continue
		}
		if n.Kind == KRange {
			a = n.Expr
		}
		if n.Kind == KSelect {
			continue
		}
		if Contains(a, pred) {
			out = append(out, n)
		}
	}
	return out
}

// Contains reports whether pred holds for a or any node inside a, not entering function literals.
func Contains(a ast.Node, pred func(ast.Node) bool) bool {
	found := false
	ast.Inspect(a, func(x ast.Node) bool {
		if found || x == nil {
			return false
		}
		if _, ok := x.(*ast.FuncLit); ok {
			return false
		}
		if pred(x) {
			found = true
			return false
		}
		return true
	})
	return found
}

// ---------------------------------------------------------------------------
// Path search with correlated conditions ("worlds")

// Search describes a path query. A path starts at any node of From (exclusive: the
// search starts at their successors unless IncludeFrom), never enters a node for which
// Avoid holds, and succeeds on the first node for which Goal holds.
type Search struct {
	From        []*Node
	IncludeFrom bool
	Goal        func(*Node) bool
	Avoid       func(*Node) bool
	// Assume fixes the truth value of leaf conditions by canonical key (see CondKey);
	// outcome nodes contradicting it are not traversed.
	Assume map[string]bool
	// Track enables correlation of repeated tests of the same trackable condition
	// along a path (worlds); conditions are invalidated by assignments to their variables.
	Track bool
	// TrackFields also tracks selector conditions such as o.KeepX / x.f == c; they are
	// invalidated by an assignment to the same selector path (not by calls).
	TrackFields bool
	// AssumeRaw stipulates the outcome of leaf conditions by their exact source text
	// (types.ExprString), also for conditions that are not trackable (index expressions, calls).
	// It is only sound for conditions whose operands are not modified between the tests the
	// rule relates; each use states why.
	AssumeRaw map[string]bool
	// Init is the valuation known at the start nodes (for instance the branch outcomes dominating them, see
	// InitFacts); unlike Assume it is forgotten, flipped or fixed by assignments along the path. Needs Track.
	Init      map[string]bool
	MaxStates int
}

type state struct {
	n   *Node
	val string // canonical valuation
}

// Path finds a feasible path; nil if none. The returned slice lists the nodes visited.
func (g *Graph) Path(q Search) []*Node {
	if q.MaxStates == 0 {
		q.MaxStates = 200000
	}
	type item struct {
		st   state
		prev int
	}
	var queue []item
	seen := map[state]bool{}
	initVal := encodeVal(q.Assume)
	push := func(n *Node, val map[string]bool, prev int) {
		s := state{n, encodeVal(val)}
		if seen[s] {
			return
		}
		seen[s] = true
		queue = append(queue, item{s, prev})
	}
	_ = initVal
	start := func(n *Node) {
		v := map[string]bool{}
		for k, b := range q.Init {
			v[k] = b
		}
		for k, b := range q.Assume {
			v[k] = b
		}
		push(n, v, -1)
	}
	for _, f := range q.From {
		if q.IncludeFrom {
			start(f)
		} else {
			for _, s := range f.Succs {
				start(s)
			}
		}
	}
	for i := 0; i < len(queue); i++ {
		if len(queue) > q.MaxStates {
			panic("flow: worlds limit exceeded in " + g.Name)
		}
		it := queue[i]
		n := it.st.n
		if q.Avoid != nil && q.Avoid(n) {
			continue
		}
		val := decodeVal(it.st.val)
		// apply node effect on valuation / feasibility
		if (n.Kind == KTrue || n.Kind == KFalse) && n.Of.Kind == KCond && q.AssumeRaw != nil {
			if want, ok := q.AssumeRaw[types.ExprString(n.Of.Expr)]; ok && want != (n.Kind == KTrue) {
				continue
			}
		}
		if n.Kind == KTrue || n.Kind == KFalse {
			if key, neg, ok := g.CondKeyOf(n.Of, q.TrackFields); ok {
				want := (n.Kind == KTrue) != neg
				if have, known := val[key]; known {
					if have != want {
						continue // infeasible
					}
				} else if q.Track || isAssumedKey(q.Assume, key) {
					// x == K1 and x == K2 cannot both hold for distinct constants K1, K2
					if want && g.eqContradicts(val, key) {
						continue // infeasible
					}
					val[key] = want
				}
			}
		}
		if q.Goal(n) {
			var path []*Node
			for j := i; j >= 0; j = queue[j].prev {
				path = append(path, queue[j].st.n)
			}
			for a, b := 0, len(path)-1; a < b; a, b = a+1, b-1 {
				path[a], path[b] = path[b], path[a]
			}
			return path
		}
		if len(val) > 0 {
			g.invalidate(n, val, q.Assume)
		}
		for _, s := range n.Succs {
			push(s, val, i)
		}
	}
	return nil
}

func isAssumedKey(m map[string]bool, k string) bool { _, ok := m[k]; return ok }

// eqContradicts: key is "X == K" with K a constant, and val already holds "X == K'" as true for another constant K'.
func (g *Graph) eqContradicts(val map[string]bool, key string) bool {
	i := strings.Index(key, " == ")
	if i < 0 {
		return false
	}
	lhs, rhs := key[:i], key[i+4:]
	kv, ok := g.constText(rhs)
	if !ok {
		return false
	}
	for k, v := range val {
		if !v || k == key || !strings.HasPrefix(k, lhs+" == ") {
			continue
		}
		if ov, ok := g.constText(k[len(lhs)+4:]); ok && ov != kv {
			return true
		}
	}
	return false
}

// constText: the exact value of the constant expression with the given source text, looked up among the condition
// operands of the graph (cached).
func (g *Graph) constText(text string) (string, bool) {
	if g.consts == nil {
		g.consts = map[string]string{}
		for _, n := range g.Nodes {
			if (n.Kind != KCond && n.Kind != KCase) || n.Expr == nil || g.Info == nil {
				continue
			}
			ast.Inspect(n.Expr, func(x ast.Node) bool {
				if e, ok := x.(ast.Expr); ok {
					if tv, ok := g.Info.Types[e]; ok && tv.Value != nil {
						g.consts[types.ExprString(e)] = tv.Value.ExactString()
					}
				}
				return true
			})
		}
	}
	v, ok := g.consts[text]
	return v, ok
}

func encodeVal(v map[string]bool) string {
	if len(v) == 0 {
		return ""
	}
	keys := make([]string, 0, len(v))
	for k := range v {
		keys = append(keys, k)
	}
	sort.Strings(keys)
	var sb strings.Builder
	for _, k := range keys {
		if v[k] {
			sb.WriteString("+")
		} else {
			sb.WriteString("-")
		}
		sb.WriteString(k)
		sb.WriteString("\x00")
	}
	return sb.String()
}

func decodeVal(s string) map[string]bool {
	v := map[string]bool{}
	for _, part := range strings.Split(s, "\x00") {
		if part == "" {
			continue
		}
		v[part[1:]] = part[0] == '+'
	}
	return v
}

// CondKeyOf returns a canonical key for the test node, whether the key is the negation
// of the test, and whether the test is trackable (its value is a function of local
// variables / selector paths only, no calls).
func (g *Graph) CondKeyOf(t *Node, fields bool) (key string, neg bool, ok bool) {
	switch t.Kind {
	case KCond:
		return CondKey(t.Expr, g.Info, fields)
	case KCase:
		if !pureExpr(t.Tag, g.Info, fields) || !pureExpr(t.Expr, g.Info, fields) {
			return "", false, false
		}
		return types.ExprString(t.Tag) + " == " + types.ExprString(t.Expr), false, true
	}
	return "", false, false
}

// CondKey canonicalises a leaf condition: `x != y` becomes the negation of `x == y`,
// `!x` the negation of x.
func CondKey(e ast.Expr, info *types.Info, fields bool) (key string, neg bool, ok bool) {
	e = ast.Unparen(e)
	if u, isU := e.(*ast.UnaryExpr); isU && u.Op == token.NOT {
		k, n, ok := CondKey(u.X, info, fields)
		return k, !n, ok
	}
	if !pureExpr(e, info, fields) {
		return "", false, false
	}
	if b, isB := e.(*ast.BinaryExpr); isB {
		switch b.Op {
		case token.NEQ:
			return types.ExprString(b.X) + " == " + types.ExprString(b.Y), true, true
		case token.EQL:
			return types.ExprString(b.X) + " == " + types.ExprString(b.Y), false, true
		}
	}
	return types.ExprString(e), false, true
}

// pureExpr: built from local identifiers, constants, selectors (if fields), comparison
// and arithmetic operators, len() — no other calls, no index, no deref.
func pureExpr(e ast.Expr, info *types.Info, fields bool) bool {
	ok := true
	ast.Inspect(e, func(x ast.Node) bool {
		if !ok || x == nil {
			return false
		}
		switch x := x.(type) {
		case *ast.Ident, *ast.BasicLit, *ast.ParenExpr, *ast.BinaryExpr, *ast.UnaryExpr:
			if u, isU := x.(*ast.UnaryExpr); isU && (u.Op == token.AND || u.Op == token.ARROW) {
				ok = false
			}
		case *ast.SelectorExpr:
			if !fields {
				// allow qualified constants pkg.Const
				if id, isId := x.X.(*ast.Ident); isId && info != nil {
					if _, isPkg := info.Uses[id].(*types.PkgName); isPkg {
						if _, isConst := info.Uses[x.Sel].(*types.Const); isConst {
							return false
						}
					}
				}
				ok = false
			}
		case *ast.CallExpr:
			if id, isId := x.Fun.(*ast.Ident); isId && id.Name == "len" && fields {
				return true
			}
			ok = false
		default:
			ok = false
		}
		return ok
	})
	return ok
}

// invalidate removes valuations that mention a variable or selector path assigned by n.
func (g *Graph) invalidate(n *Node, val map[string]bool, keep map[string]bool) {
	var written []string
	add := func(e ast.Expr) {
		e = ast.Unparen(e)
		switch x := e.(type) {
		case *ast.Ident:
			written = append(written, x.Name)
		case *ast.SelectorExpr:
			written = append(written, types.ExprString(x))
		case *ast.IndexExpr:
			written = append(written, types.ExprString(x.X))
		case *ast.StarExpr:
			written = append(written, types.ExprString(x.X))
		}
	}
	switch n.Kind {
	case KStmt:
		if n.Spec != nil {
			for _, nm := range n.Spec.Names {
				written = append(written, nm.Name)
			}
		}
		switch s := n.Stmt.(type) {
		case *ast.AssignStmt:
			for _, l := range s.Lhs {
				add(l)
			}
		case *ast.IncDecStmt:
			add(s.X)
		}
		// address-taken locals passed to calls: &x
		if a := n.Ast(); a != nil {
			ast.Inspect(a, func(x ast.Node) bool {
				if u, ok := x.(*ast.UnaryExpr); ok && u.Op == token.AND {
					add(u.X)
				}
				return true
			})
		}
	case KRange:
		rs := n.Stmt.(*ast.RangeStmt)
		if rs.Key != nil {
			add(rs.Key)
		}
		if rs.Value != nil {
			add(rs.Value)
		}
	}
	if len(written) == 0 {
		return
	}
	// `x = !x` flips and `x = true|false` fixes a known valuation of the flag x itself instead of forgetting it
	flipped := ""
	if as, ok := n.Stmt.(*ast.AssignStmt); ok && n.Kind == KStmt && as.Tok == token.ASSIGN && len(as.Lhs) == 1 && len(as.Rhs) == 1 {
		if id, ok := as.Lhs[0].(*ast.Ident); ok {
			if old, known := val[id.Name]; known {
				switch r := ast.Unparen(as.Rhs[0]).(type) {
				case *ast.UnaryExpr:
					if rid, ok := ast.Unparen(r.X).(*ast.Ident); ok && r.Op == token.NOT && rid.Name == id.Name {
						val[id.Name] = !old
						flipped = id.Name
					}
				case *ast.Ident:
					if r.Name == "true" || r.Name == "false" {
						val[id.Name] = r.Name == "true"
						flipped = id.Name
					}
				}
			}
		}
	}
	for k := range val {
		if k == flipped {
			continue
		}
		if _, stipulated := keep[k]; stipulated {
			// an assumption stipulates the outcome of every test of that condition (the rules
			// using it separately establish that the tested option is never written)
			continue
		}
		for _, w := range written {
			if mentions(k, w) {
				delete(val, k)
				break
			}
		}
	}
}

// mentions reports whether key k refers to variable/selector path w as a whole token.
func mentions(k, w string) bool {
	for i := 0; ; {
		j := strings.Index(k[i:], w)
		if j < 0 {
			return false
		}
		j += i
		before := j == 0 || !isIdentChar(k[j-1]) && k[j-1] != '.'
		afterIdx := j + len(w)
		after := afterIdx == len(k) || !isIdentChar(k[afterIdx])
		if before && after {
			return true
		}
		i = j + 1
		if i >= len(k) {
			return false
		}
	}
}

func isIdentChar(c byte) bool {
	return c == '_' || c >= '0' && c <= '9' || c >= 'a' && c <= 'z' || c >= 'A' && c <= 'Z'
}

// ---------------------------------------------------------------------------
// Convenience queries

// MustPassBefore: does every (feasible) path from entry to `to` pass a node satisfying hit?
// Returns a counterexample path when not.
func (g *Graph) MustPassBefore(to *Node, hit func(*Node) bool, q Search) []*Node {
	q.From = []*Node{g.Entry}
	q.IncludeFrom = true
	prevAvoid := q.Avoid
	q.Avoid = func(n *Node) bool { return n != to && hit(n) || prevAvoid != nil && prevAvoid(n) }
	q.Goal = func(n *Node) bool { return n == to }
	return g.Path(q)
}

// MustPassAfter: does every (feasible) path from `from` to the exit pass a node satisfying hit?
func (g *Graph) MustPassAfter(from *Node, hit func(*Node) bool, q Search) []*Node {
	q.From = []*Node{from}
	prevAvoid := q.Avoid
	q.Avoid = func(n *Node) bool { return hit(n) || prevAvoid != nil && prevAvoid(n) }
	q.Goal = func(n *Node) bool { return n.Kind == KExit }
	return g.Path(q)
}

// ReachableUnder reports a path from entry to `to` that is feasible under the assumption.
func (g *Graph) ReachableUnder(to *Node, assume map[string]bool, fields bool) []*Node {
	return g.Path(Search{From: []*Node{g.Entry}, IncludeFrom: true, Goal: func(n *Node) bool { return n == to }, Assume: assume, TrackFields: fields})
}

// DescribePath renders a path compactly for reports: the conditions taken.
func (g *Graph) DescribePath(fset *token.FileSet, path []*Node) string {
	var parts []string
	for _, n := range path {
		switch n.Kind {
		case KTrue, KFalse:
			var s string
			switch n.Of.Kind {
			case KCond:
				s = types.ExprString(n.Of.Expr)
			case KCase:
				s = types.ExprString(n.Of.Tag) + "==" + types.ExprString(n.Of.Expr)
			case KTypeCase:
				s = "type " + types.ExprString(n.Of.Expr)
			case KRange:
				s = "range"
			}
			if len(s) > 60 {
				s = s[:57] + "..."
			}
			if n.Kind == KFalse {
				s = "!(" + s + ")"
			}
			parts = append(parts, s)
		case KExit:
			parts = append(parts, "EXIT")
		case KStmt:
			if r, ok := n.Stmt.(*ast.ReturnStmt); ok {
				parts = append(parts, "return@"+itoa(fset.Position(r.Pos()).Line))
			}
		}
	}
	if len(parts) > 14 {
		parts = append(parts[:6], append([]string{"..."}, parts[len(parts)-7:]...)...)
	}
	return strings.Join(parts, " -> ")
}

func itoa(i int) string {
	if i == 0 {
		return "0"
	}
	var b []byte
	for i > 0 {
		b = append([]byte{byte('0' + i%10)}, b...)
		i /= 10
	}
	return string(b)
}

// ValuationAlong returns the valuation of trackable conditions that the outcomes on a path establish (later
// assignments on the path to variables of a condition drop it again).
func (g *Graph) ValuationAlong(path []*Node, fields bool) map[string]bool {
	val := map[string]bool{}
	for _, n := range path {
		if (n.Kind == KTrue || n.Kind == KFalse) && n.Of != nil {
			if key, neg, ok := g.CondKeyOf(n.Of, fields); ok {
				val[key] = (n.Kind == KTrue) != neg
			}
		}
		if len(val) > 0 {
			g.invalidate(n, val, nil)
		}
	}
	return val
}
