package rules

import (
	"fmt"
	"go/ast"
	"go/constant"
	"go/token"
	"go/types"
	"sort"
	"strconv"
	"strings"

	"golang.org/x/tools/go/packages"

	"verif/checker/internal/eval"
	"verif/checker/internal/flow"
	"verif/checker/internal/load"
	"verif/checker/internal/ref"
)

// R01.14: parenthesis decisions of the JS printer.
func (c *Ctx) r0114(pk *packages.Package) {
	const rule = "R01.14"
	c.R.Rule(rule, "(a) every boolean expression of package js that relates the context level `prec` (a js.OpPrec parameter) to the level of an inner expression (a local defined from exprPrec(…) or a precedence table) — the GroupExpr printer, groupExpr, needsGroup — depends on the two levels only through the comparison inner < prec: evaluated for all pairs of js.OpPrec constants and all values of its other atoms, it is either constant or equals the no-parentheses value exactly where inner ≥ prec. A special case for one pair of levels cannot be right here, because the same pair occurs under other operators (`(a??b)|c` → `a??b|c`); what an operator tolerates belongs to that operator's printer. "+
		"(b) where a grouped comma expression is un-grouped in an operand slot ((a,b)&&c → a,b&&c; (a,b)?c:d → a,b?c:d) the guard K ≤ exprPrec(last) uses the level the slot is printed at: K is that level's variable, or a constant ≥ every value the level can take. "+
		"(c) the levels passed for the two operands of a BinaryExpr are their table values (binaryLeftPrecMap / binaryRightPrecMap of the operator) except for the enumerated lowerings: js.OpExpr under the comma un-grouping guard, js.OpCoalesce for a `??` operand under expr.Op == js.NullishToken")
	info := pk.TypesInfo
	ops := c.opPrec()
	var levels []int64
	for _, v := range ops {
		levels = append(levels, v)
	}
	sort.Slice(levels, func(i, j int) bool { return levels[i] < levels[j] })
	if len(levels) < 15 {
		c.R.Unres(rule, "parse/js.OpPrec", "-", "precedence constants not found")
		return
	}
	isOpPrec := func(t types.Type) bool { return namedTypeName(t) == pjs+".OpPrec" }
	// (a)
	nA := 0
	for _, fd := range load.FuncDecls(pk) {
		if fd.Body == nil {
			continue
		}
		// prec parameters
		precParams := map[types.Object]bool{}
		for _, f := range fd.Type.Params.List {
			for _, nm := range f.Names {
				if o := info.Defs[nm]; o != nil && isOpPrec(o.Type()) {
					precParams[o] = true
				}
			}
		}
		if len(precParams) == 0 {
			continue
		}
		// inner-level locals: defined from exprPrec(...) or a *PrecMap[...] lookup
		inner := map[types.Object]bool{}
		ast.Inspect(fd.Body, func(x ast.Node) bool {
			as, ok := x.(*ast.AssignStmt)
			if !ok || as.Tok != token.DEFINE || len(as.Lhs) != 1 || len(as.Rhs) != 1 {
				return true
			}
			id, _ := as.Lhs[0].(*ast.Ident)
			if id == nil || info.Defs[id] == nil || !isOpPrec(info.Defs[id].Type()) {
				return true
			}
			r := ast.Unparen(as.Rhs[0])
			if call, isCall := r.(*ast.CallExpr); isCall && calleeName(info, call) == load.Mod+"/js.exprPrec" {
				inner[info.Defs[id]] = true
			}
			if ix, isIx := r.(*ast.IndexExpr); isIx && strings.HasSuffix(str(ix.X), "PrecMap") {
				inner[info.Defs[id]] = true
			}
			return true
		})
		if len(inner) == 0 {
			continue
		}
		check := func(cond ast.Expr, at ast.Node) {
			var pName, iName string
			ast.Inspect(cond, func(x ast.Node) bool {
				if id, ok := x.(*ast.Ident); ok {
					if precParams[info.Uses[id]] {
						pName = id.Name
					}
					if inner[info.Uses[id]] {
						iName = id.Name
					}
				}
				return true
			})
			if pName == "" || iName == "" {
				return
			}
			nA++
			// free atoms: leaves that mention neither level
			var atoms []string
			var leaves func(e ast.Expr)
			leaves = func(e ast.Expr) {
				e = ast.Unparen(e)
				switch x := e.(type) {
				case *ast.BinaryExpr:
					if x.Op == token.LAND || x.Op == token.LOR {
						leaves(x.X)
						leaves(x.Y)
						return
					}
				case *ast.UnaryExpr:
					if x.Op == token.NOT {
						leaves(x.X)
						return
					}
				}
				mentions := flow.Contains(e, func(q ast.Node) bool {
					id, ok := q.(*ast.Ident)
					return ok && (id.Name == pName || id.Name == iName)
				})
				if !mentions {
					k := nospace(str(e))
					for _, a := range atoms {
						if a == k {
							return
						}
					}
					atoms = append(atoms, k)
				}
			}
			leaves(cond)
			construct := fmt.Sprintf("js.%s/parenthesis decision %s", load.FuncName(fd), str0(cond))
			if len(atoms) > 6 {
				c.R.Unres(rule, construct, c.pos(at), "too many free atoms to enumerate")
				return
			}
			lo, hi := levels[0], levels[len(levels)-1]
			var bad []string
			undecided := false
			for mask := 0; mask < 1<<len(atoms); mask++ {
				env := map[string]int64{}
				for k, a := range atoms {
					env[a] = int64(mask >> k & 1)
				}
				env[pName], env[iName] = lo, hi
				v0, ok := evalIntExpr(info, cond, env)
				if !ok {
					undecided = true
					break
				}
				constant := true
				var firstBad string
				for _, p := range levels {
					for _, i := range levels {
						env[pName], env[iName] = p, i
						v, ok := evalIntExpr(info, cond, env)
						if !ok {
							undecided = true
							continue
						}
						if v != v0 {
							constant = false
						}
						want := v0
						if i < p {
							want = 1 - v0
						}
						if v != want && firstBad == "" {
							firstBad = fmt.Sprintf("%s=%s, %s=%s", pName, levelName(ops, p), iName, levelName(ops, i))
						}
					}
				}
				if !constant && firstBad != "" {
					bad = append(bad, firstBad)
				}
			}
			if undecided {
				c.R.Unres(rule, construct, c.pos(at), "the condition could not be evaluated over the level constants")
				return
			}
			c.R.Check(len(bad) == 0, rule, construct, c.pos(at), fmt.Sprintf("depends on the levels only through %s < %s (%d×%d pairs, %d other atoms)", iName, pName, len(levels), len(levels), len(atoms)),
				"the decision deviates from the comparison "+iName+" < "+pName+" at "+strings.Join(bad, "; ")+": a pair of levels is special-cased although the same pair occurs under operators for which the parentheses are required")
		}
		ast.Inspect(fd.Body, func(x ast.Node) bool {
			switch s := x.(type) {
			case *ast.IfStmt:
				check(s.Cond, s)
			case *ast.AssignStmt:
				if len(s.Rhs) == 1 && len(s.Lhs) == 1 {
					if t := info.TypeOf(s.Rhs[0]); t != nil {
						if b, ok := t.Underlying().(*types.Basic); ok && b.Kind() == types.Bool || ok && b.Kind() == types.UntypedBool {
							check(s.Rhs[0], s)
						}
					}
				}
			}
			return true
		})
	}
	c.R.Floor(rule, "parenthesis decisions", nA, 3)

	// print level of an operand slot: the level argument of m.minifyExpr(<v>.<field>, L) inside the
	// minifyExpr clause of the node type
	mfd := c.fn(rule, pk, "jsMinifier.minifyExpr")
	if mfd == nil {
		return
	}
	var mts *typeSwitchInfo
	for _, t := range c.jsTypeSwitches(pk) {
		if t.fd == mfd && t.iface == "IExpr" {
			mts = t
		}
	}
	if mts == nil {
		c.R.Unres(rule, "js.jsMinifier.minifyExpr/switch", c.pos(mfd), "type switch not found")
		return
	}
	slotLevel := func(tname, field string) (ast.Expr, bool) {
		cc := mts.cases[tname]
		if cc == nil {
			return nil, false
		}
		var lvl ast.Expr
		ast.Inspect(cc, func(x ast.Node) bool {
			call, ok := x.(*ast.CallExpr)
			if !ok || len(call.Args) != 2 || calleeName(info, call) != load.Mod+"/js.(jsMinifier).minifyExpr" {
				return true
			}
			if sel, isSel := ast.Unparen(call.Args[0]).(*ast.SelectorExpr); isSel && sel.Sel.Name == field {
				lvl = call.Args[1]
			}
			return true
		})
		return lvl, lvl != nil
	}
	maxOf := func(table string) (int64, bool) {
		m, _ := c.constMap(rule, pk, table)
		if m == nil {
			return 0, false
		}
		var mx int64 = -1
		for _, v := range m {
			if v > mx {
				mx = v
			}
		}
		return mx, true
	}
	// (b)
	nB := 0
	for _, fd := range load.FuncDecls(pk) {
		if fd.Body == nil {
			continue
		}
		ast.Inspect(fd.Body, func(x ast.Node) bool {
			be, ok := x.(*ast.BinaryExpr)
			if !ok || be.Op != token.LEQ {
				return true
			}
			call, isCall := ast.Unparen(be.Y).(*ast.CallExpr)
			if !isCall || calleeName(info, call) != load.Mod+"/js.exprPrec" || !strings.Contains(nospace(str(call.Args[0])), ".List[len(") {
				return true
			}
			// the comma variable and the slot it was taken from: comma := group.X.(*js.CommaExpr); group := S.(*js.GroupExpr)
			commaId := rootIdent(call.Args[0])
			if commaId == nil {
				return true
			}
			slot := c.groupedSlot(pk, fd, info.Uses[commaId])
			if slot == nil {
				return true
			}
			nB++
			tname, field := slot[0], slot[1]
			construct := fmt.Sprintf("js.%s/comma un-grouping in %s.%s", load.FuncName(fd), tname, field)
			lvl, ok := slotLevel(tname, field)
			if !ok {
				c.R.Unres(rule, construct, c.pos(be), "the printing call for the slot was not found in minifyExpr")
				return true
			}
			// required level
			var need int64
			var needWhat string
			if k, isK := intConst(info, lvl); isK {
				need, needWhat = k, levelName(ops, k)
			} else if id, isId := ast.Unparen(lvl).(*ast.Ident); isId {
				// same variable?
				if kid, isKid := ast.Unparen(be.X).(*ast.Ident); isKid && info.Uses[kid] == info.Uses[id] {
					c.R.OK(rule, construct, c.pos(be), "guard uses the slot's own level variable "+id.Name)
					return true
				}
				// its initial definition must be a table lookup
				def := singleInit(info, mfd, info.Uses[id])
				ix, isIx := ast.Unparen(def).(*ast.IndexExpr)
				if def == nil || !isIx {
					c.R.Unres(rule, construct, c.pos(be), "level variable "+id.Name+" has no table initialisation")
					return true
				}
				mx, okm := maxOf(str(ix.X))
				if !okm {
					return true
				}
				need, needWhat = mx, "max of "+str(ix.X)+" = "+levelName(ops, mx)
			} else {
				c.R.Unres(rule, construct, c.pos(be), "level expression "+str(lvl)+" not understood")
				return true
			}
			k, isK := intConst(info, be.X)
			if !isK {
				c.R.Unres(rule, construct, c.pos(be), "guard level "+str(be.X)+" is neither the slot's level variable nor a constant")
				return true
			}
			c.R.Check(k >= need, rule, construct, c.pos(be), fmt.Sprintf("guard %s ≥ slot level %s", levelName(ops, k), needWhat),
				fmt.Sprintf("the guard admits a last element of level %s but the slot is printed at up to %s: `(a,b&&c)+d` becomes `a,b&&c+d`", levelName(ops, k), needWhat))
			return true
		})
	}
	c.R.Floor(rule, "comma un-grouping guards", nB, 2)

	// (c)
	cc := mts.cases["BinaryExpr"]
	if cc == nil {
		c.R.Unres(rule, "js.jsMinifier.minifyExpr/case *js.BinaryExpr", c.pos(mfd), "clause not found")
		return
	}
	g := c.graph(pk, mfd)
	lvlVars := map[types.Object]string{} // object -> X / Y
	nOperand := map[string]int{}
	ast.Inspect(cc, func(x ast.Node) bool {
		call, ok := x.(*ast.CallExpr)
		if !ok || len(call.Args) != 2 || calleeName(info, call) != load.Mod+"/js.(jsMinifier).minifyExpr" {
			return true
		}
		sel, isSel := ast.Unparen(call.Args[0]).(*ast.SelectorExpr)
		if !isSel || sel.Sel.Name != "X" && sel.Sel.Name != "Y" {
			return true
		}
		if _, isGroupLit := ast.Unparen(call.Args[0]).(*ast.UnaryExpr); isGroupLit {
			return true
		}
		nOperand[sel.Sel.Name]++
		construct := fmt.Sprintf("js.jsMinifier.minifyExpr/case *js.BinaryExpr/level of operand %s#%d", sel.Sel.Name, nOperand[sel.Sel.Name])
		switch l := ast.Unparen(call.Args[1]).(type) {
		case *ast.Ident:
			if l.Name == "prec" && isParam(info, mfd, info.Uses[l]) {
				return true // degenerate node (X == nil): Y stands in the caller's slot
			}
			if o := info.Uses[l]; o != nil && isOpPrec(o.Type()) {
				if v, isVar := o.(*types.Var); isVar && !v.IsField() {
					if prev, seen := lvlVars[o]; seen && prev != sel.Sel.Name {
						c.R.Bad(rule, construct, c.pos(call), "the same level variable "+l.Name+" is used for both operands")
					}
					lvlVars[o] = sel.Sel.Name
					c.R.OK(rule, construct, c.pos(call), "level variable "+l.Name)
					return true
				}
			}
			c.R.Bad(rule, construct, c.pos(call), "operand printed at "+str(call.Args[1])+", not at its table level")
		case *ast.IndexExpr:
			want := "binaryLeftPrecMap"
			if sel.Sel.Name == "Y" {
				want = "binaryRightPrecMap"
			}
			c.R.Check(str(l.X) == want && nospace(str(l.Index)) == "expr.Op", rule, construct, c.pos(call), want+"[expr.Op]", "operand "+sel.Sel.Name+" printed at "+str(l)+" instead of "+want+"[expr.Op]")
		default:
			c.R.Bad(rule, construct, c.pos(call), "operand printed at "+str(call.Args[1])+", not at its table level")
		}
		return true
	})
	nC := 0
	for _, y := range g.Nodes {
		as, ok := y.Stmt.(*ast.AssignStmt)
		if !ok || y.Kind != flow.KStmt {
			continue
		}
		for i, l := range as.Lhs {
			id, isId := ast.Unparen(l).(*ast.Ident)
			if !isId {
				continue
			}
			o := info.Uses[id]
			if o == nil {
				o = info.Defs[id]
			}
			side, isLvl := lvlVars[o]
			if !isLvl || i >= len(as.Rhs) {
				continue
			}
			nC++
			rhs := ast.Unparen(as.Rhs[i])
			construct := fmt.Sprintf("js.jsMinifier.minifyExpr/case *js.BinaryExpr/%s = %s", id.Name, str(rhs))
			table := "binaryLeftPrecMap"
			operand := "expr.X"
			if side == "Y" {
				table, operand = "binaryRightPrecMap", "expr.Y"
			}
			if ix, isIx := rhs.(*ast.IndexExpr); isIx {
				c.R.Check(str(ix.X) == table, rule, construct, c.pos(as), "table value", "level of operand "+side+" taken from "+str(ix.X)+" instead of "+table)
				continue
			}
			k, isK := intConst(info, rhs)
			facts := g.DomFacts(y)
			has := func(text string) bool {
				for _, f := range facts {
					if f.Value && f.Test.Kind == flow.KCond && strings.Contains(nospace(str(f.Test.Expr)), text) {
						return true
					}
				}
				return false
			}
			switch {
			case isK && k == ops["OpExpr"]:
				c.R.Check(side == "X" && has("<=exprPrec(comma.List["), rule, construct, c.pos(as), "under the comma un-grouping guard", "operand level lowered to OpExpr outside the comma un-grouping guard")
			case isK && k == ops["OpCoalesce"]:
				c.R.Check(has("expr.Op==js.NullishToken") && has("exprPrec("+operand+")==js.OpCoalesce"), rule, construct, c.pos(as), "a ?? operand of ??", "operand level lowered to OpCoalesce without the tests expr.Op == js.NullishToken and exprPrec("+operand+") == js.OpCoalesce: a needed parenthesis is dropped under other operators")
			default:
				c.R.Bad(rule, construct, c.pos(as), "operand level set to "+str(rhs)+": not a table value and not one of the enumerated lowerings (OpExpr for an un-grouped comma, OpCoalesce for a ?? operand of ??)")
			}
		}
	}
	c.R.Floor(rule, "operand level assignments", nC, 2)
}

func levelName(ops map[string]int64, v int64) string {
	for n, x := range ops {
		if x == v {
			return n
		}
	}
	return fmt.Sprint(v)
}

// singleInit returns the RHS of the `:=` definition of o inside fd.
func singleInit(info *types.Info, fd *ast.FuncDecl, o types.Object) ast.Expr {
	var out ast.Expr
	ast.Inspect(fd.Body, func(x ast.Node) bool {
		as, ok := x.(*ast.AssignStmt)
		if !ok || as.Tok != token.DEFINE || len(as.Lhs) != len(as.Rhs) {
			return true
		}
		for i, l := range as.Lhs {
			if id, isId := l.(*ast.Ident); isId && info.Defs[id] == o {
				out = as.Rhs[i]
			}
		}
		return true
	})
	return out
}

// groupedSlot: for a variable defined by `v := G.X.(*js.CommaExpr)` with `G := S.F.(*js.GroupExpr)`
// returns {node type of S, field F}.
func (c *Ctx) groupedSlot(pk *packages.Package, fd *ast.FuncDecl, comma types.Object) []string {
	info := pk.TypesInfo
	assertedFrom := func(o types.Object) ast.Expr {
		var out ast.Expr
		ast.Inspect(fd.Body, func(x ast.Node) bool {
			as, ok := x.(*ast.AssignStmt)
			if !ok || as.Tok != token.DEFINE || len(as.Rhs) != 1 {
				return true
			}
			if id, isId := as.Lhs[0].(*ast.Ident); isId && info.Defs[id] == o {
				if ta, isTA := ast.Unparen(as.Rhs[0]).(*ast.TypeAssertExpr); isTA {
					out = ta.X
				}
			}
			return true
		})
		return out
	}
	if comma == nil {
		return nil
	}
	gx := assertedFrom(comma) // group.X
	sel, ok := gx.(*ast.SelectorExpr)
	if !ok {
		return nil
	}
	gid, ok := sel.X.(*ast.Ident)
	if !ok {
		return nil
	}
	s := assertedFrom(info.Uses[gid]) // S.F
	ssel, ok := s.(*ast.SelectorExpr)
	if !ok {
		return nil
	}
	t := info.TypeOf(ssel.X)
	if t == nil {
		return nil
	}
	n := namedTypeName(t)
	return []string{n[strings.LastIndex(n, ".")+1:], ssel.Sel.Name}
}

func isParam(info *types.Info, fd *ast.FuncDecl, o types.Object) bool {
	for _, f := range fd.Type.Params.List {
		for _, nm := range f.Names {
			if info.Defs[nm] == o {
				return true
			}
		}
	}
	return false
}

// R01.15: a parenthesised optional chain keeps its parentheses under every member suffix.
func (c *Ctx) r0115(pk *packages.Package) {
	const rule = "R01.15"
	c.R.Rule(rule, "`(a?.b).c`, `(a?.b)[c]`, `(a?.b)(c)` and (a?.b)`c` evaluate the suffix even when a is null (and throw), whereas without the parentheses the whole chain short-circuits. The node types the parser builds in its member-suffix loop are the struct types of parse/v2/js with an `Optional bool` field; in jsMinifier.minifyExpr the clause of each of them prints its object operand (first js.IExpr field) below js.OpMember — which lets the group printer drop the parentheses of an optional link, whose level is js.OpCall — only on the false outcome of a test `F(<operand>)`, where F is a function of package js that asserts its argument to *js.GroupExpr and reads .Optional of every one of those node types (sibling agreement: what the DotExpr printer does, every suffix printer must do)")
	info := pk.TypesInfo
	dep := c.P.Dep(pjs)
	iexpr := c.jsIface("IExpr")
	if dep == nil || iexpr == nil {
		c.R.Unres(rule, "parse/js", "-", "dependency missing")
		return
	}
	ops := c.opPrec()
	// the family
	family := map[string]string{} // type name -> object field
	for _, n := range dep.Types.Scope().Names() {
		tn, ok := dep.Types.Scope().Lookup(n).(*types.TypeName)
		if !ok {
			continue
		}
		st, ok := tn.Type().Underlying().(*types.Struct)
		if !ok || !types.Implements(types.NewPointer(tn.Type()), iexpr) {
			continue
		}
		hasOpt, obj := false, ""
		for i := 0; i < st.NumFields(); i++ {
			f := st.Field(i)
			if f.Name() == "Optional" {
				if b, isB := f.Type().Underlying().(*types.Basic); isB && b.Kind() == types.Bool {
					hasOpt = true
				}
			}
			if obj == "" && namedTypeName(f.Type()) == pjs+".IExpr" {
				obj = f.Name()
			}
		}
		if hasOpt && obj != "" {
			family[n] = obj
		}
	}
	if len(family) < 4 {
		c.R.Unres(rule, "parse/js member-suffix node types", "-", fmt.Sprintf("only %d struct types with an Optional field found", len(family)))
		return
	}
	// qualifying test functions
	tests := map[types.Object]bool{}
	for _, fd := range load.FuncDecls(pk) {
		if fd.Body == nil || fd.Recv != nil || fd.Type.Params.NumFields() != 1 {
			continue
		}
		asserts := false
		reads := map[string]bool{}
		ast.Inspect(fd.Body, func(x ast.Node) bool {
			switch e := x.(type) {
			case *ast.TypeAssertExpr:
				if e.Type != nil && strings.HasSuffix(str(e.Type), "js.GroupExpr") {
					asserts = true
				}
			case *ast.SelectorExpr:
				if e.Sel.Name == "Optional" {
					n := namedTypeName(info.TypeOf(e.X))
					reads[n[strings.LastIndex(n, ".")+1:]] = true
				}
			}
			return true
		})
		all := asserts
		for t := range family {
			if !reads[t] {
				all = false
			}
		}
		if all {
			tests[info.Defs[fd.Name]] = true
		}
	}
	mfd := c.fn(rule, pk, "jsMinifier.minifyExpr")
	if mfd == nil {
		return
	}
	var mts *typeSwitchInfo
	for _, t := range c.jsTypeSwitches(pk) {
		if t.fd == mfd && t.iface == "IExpr" {
			mts = t
		}
	}
	if mts == nil {
		c.R.Unres(rule, "js.jsMinifier.minifyExpr/switch", c.pos(mfd), "type switch not found")
		return
	}
	g := c.graph(pk, mfd)
	n := 0
	for _, tname := range sortedKeys(func() map[string]bool {
		m := map[string]bool{}
		for k := range family {
			m[k] = true
		}
		return m
	}()) {
		obj := family[tname]
		cc := mts.cases[tname]
		construct := fmt.Sprintf("js.jsMinifier.minifyExpr/case *js.%s/object operand %s keeps an optional group", tname, obj)
		if cc == nil {
			c.R.Unres(rule, construct, c.pos(mfd), "clause not found")
			continue
		}
		root := info.Implicits[cc]
		var bad []string
		prints := 0
		for _, y := range g.Nodes {
			a := y.Ast()
			if a == nil || y.Kind != flow.KStmt || a.Pos() < cc.Pos() || a.End() > cc.End() {
				continue
			}
			flowInspectCalls(a, func(call *ast.CallExpr) {
				if len(call.Args) != 2 || calleeName(info, call) != load.Mod+"/js.(jsMinifier).minifyExpr" {
					return
				}
				sel, ok := ast.Unparen(call.Args[0]).(*ast.SelectorExpr)
				if !ok || sel.Sel.Name != obj {
					return
				}
				if id, isId := sel.X.(*ast.Ident); !isId || info.Uses[id] != root {
					return
				}
				prints++
				lvl, isK := intConst(info, call.Args[1])
				if isK && lvl >= ops["OpMember"] {
					return
				}
				guarded := false
				for _, f := range g.DomFacts(y) {
					if f.Value || f.Test.Kind != flow.KCond {
						continue
					}
					tc, isCall := ast.Unparen(f.Test.Expr).(*ast.CallExpr)
					if !isCall || len(tc.Args) != 1 || !tests[callee(info, tc)] {
						continue
					}
					if nospace(str(tc.Args[0])) == nospace(str(call.Args[0])) {
						guarded = true
					}
				}
				if !guarded {
					bad = append(bad, fmt.Sprintf("%s at %s", str(call), c.pos(call)))
				}
			})
		}
		n++
		c.R.Check(len(bad) == 0 && prints > 0, rule, construct, c.pos(cc), fmt.Sprintf("%d print(s) of %s; below OpMember only after the grouped-optional-link test failed", prints, obj),
			"the operand is printed below js.OpMember without first testing it for a parenthesised optional link ("+strings.Join(bad, "; ")+"): `(a?."+"b)` loses its parentheses under this suffix and the chain's short-circuit swallows the suffix")
	}
	c.R.Floor(rule, "member-suffix clauses", n, 4)
}

// R01.16: the `in` exclusion of a for-init is only lifted inside brackets.
func (c *Ctx) r0116(pk *packages.Package) {
	const rule = "R01.16"
	c.R.Rule(rule, "inside the init of a `for` statement an `in` operator must be parenthesised; the printer tracks this in m.inFor and a printer function may clear the flag (after saving it) for what it prints inside brackets, where the grammar allows `in` again. For every saved-and-cleared region (`p := m.inFor; m.inFor = false; …; m.inFor = p`) of package js: each direct call of jsMinifier.minifyExpr reachable from the clear before the restore is preceded, on every path from the clear, by a write of a constant that ends in an opening bracket `(` `[` `{` (template literal text, which ends in `${`, counts). Clearing the flag around a bare sub-expression — the branches of `?:`, the expression body of an arrow function — prints `for(var r=a?c:\"k\"in o;…)`, a syntax error")
	info := pk.TypesInfo
	minExpr := load.Mod + "/js.(jsMinifier).minifyExpr"
	isFlag := func(e ast.Expr) bool {
		typ, f := fieldOf(info, e)
		return f == "inFor" && strings.HasSuffix(typ, "jsMinifier")
	}
	regions, calls := 0, 0
	// printer functions that may print an expression, at a level at which `in` stands without parentheses, before they
	// have written an opening bracket or set the flag themselves (an arrow function with an expression body)
	var opCompare int64 = -1
	if dep := c.P.Dep(pjs); dep != nil {
		if k, ok := dep.Types.Scope().Lookup("OpCompare").(*types.Const); ok {
			opCompare, _ = constant.Int64Val(k.Val())
		}
	}
	bare := map[string]bool{}
	for _, fd := range load.FuncDecls(pk) {
		if fd.Body == nil || fd.Recv == nil || opCompare < 0 {
			continue
		}
		g := c.graph(pk, fd)
		for _, z := range g.Nodes {
			a := z.Ast()
			if a == nil || z.Kind != flow.KStmt {
				continue
			}
			low := false
			flowInspectCalls(a, func(call *ast.CallExpr) {
				if calleeName(info, call) == minExpr && len(call.Args) == 2 {
					if v, isK := intConst(info, call.Args[1]); !isK || v <= opCompare {
						low = true
					}
				}
			})
			if !low {
				continue
			}
			z := z
			p := g.Path(flow.Search{From: []*flow.Node{g.Entry}, Goal: func(q *flow.Node) bool { return q == z }, Avoid: func(q *flow.Node) bool {
				if q == z {
					return false
				}
				if _, isAs := assignsTo(q, isFlag); isAs {
					return true
				}
				b := q.Ast()
				if b == nil || q.Kind != flow.KStmt {
					return false
				}
				hit := false
				flowInspectCalls(b, func(call *ast.CallExpr) {
					if calleeName(info, call) != jsWrite || len(call.Args) != 1 {
						return
					}
					if v, err := c.Ev.Expr(pk, call.Args[0]); err == nil {
						if bs, isB := v.([]byte); isB && len(bs) > 0 {
							switch bs[len(bs)-1] {
							case '(', '[', '{':
								hit = true
							}
						}
					}
				})
				return hit
			}})
			if p != nil {
				bare[load.Mod+"/js.(jsMinifier)."+fd.Name.Name] = true
			}
		}
	}
	delete(bare, minExpr)
	for _, fd := range load.FuncDecls(pk) {
		if fd.Body == nil {
			continue
		}
		g := c.graph(pk, fd)
		fname := load.FuncName(fd)
		// saves: p := m.inFor (possibly in a tuple)
		saved := map[types.Object]bool{}
		for _, y := range g.Nodes {
			if as, ok := y.Stmt.(*ast.AssignStmt); ok && y.Kind == flow.KStmt && as.Tok == token.DEFINE && len(as.Lhs) == len(as.Rhs) {
				for i, r := range as.Rhs {
					if isFlag(r) {
						if id, isId := as.Lhs[i].(*ast.Ident); isId {
							saved[info.Defs[id]] = true
						}
					}
				}
			}
		}
		if len(saved) == 0 {
			continue
		}
		assignsFlag := func(y *flow.Node) (ast.Expr, bool) { return assignsTo(y, isFlag) }
		opens := func(y *flow.Node) bool {
			a := y.Ast()
			if a == nil || y.Kind != flow.KStmt {
				return false
			}
			hit := false
			flowInspectCalls(a, func(call *ast.CallExpr) {
				if calleeName(info, call) != jsWrite || len(call.Args) != 1 {
					return
				}
				if v, err := c.Ev.Expr(pk, call.Args[0]); err == nil {
					if b, isB := v.([]byte); isB && len(b) > 0 {
						switch b[len(b)-1] {
						case '(', '[', '{':
							hit = true
						}
					}
					return
				}
				// template text: item.Value of a template literal part ends in `${`
				if strings.Contains(str(call.Args[0]), ".Value") && c.caseLabel(call) == "case *js.TemplateExpr" {
					hit = true
				}
			})
			return hit
		}
		k := 0
		for _, y := range g.Nodes {
			rhs, ok := assignsFlag(y)
			if !ok || str(rhs) != "false" {
				continue
			}
			// a clear of a saved flag: some save dominates it
			isRegion := false
			for _, z := range g.Nodes {
				if as, ok := z.Stmt.(*ast.AssignStmt); ok && z.Kind == flow.KStmt && as.Tok == token.DEFINE && g.Dominates(z, y) {
					for i, r := range as.Rhs {
						if i < len(as.Lhs) && isFlag(r) {
							isRegion = true
						}
					}
				}
			}
			if !isRegion {
				continue
			}
			regions++
			k++
			var bad []string
			for _, z := range g.Nodes {
				a := z.Ast()
				if a == nil || z.Kind != flow.KStmt || z == y {
					continue
				}
				direct := false
				flowInspectCalls(a, func(call *ast.CallExpr) {
					if cn := calleeName(info, call); cn == minExpr || bare[cn] {
						direct = true
					}
				})
				if !direct {
					continue
				}
				p := g.Path(flow.Search{From: []*flow.Node{y}, Goal: func(q *flow.Node) bool { return q == z }, Avoid: func(q *flow.Node) bool {
					if q == z {
						return false
					}
					if _, isAs := assignsFlag(q); isAs {
						return true // restore (or another assignment) ends the region
					}
					return opens(q)
				}})
				if p != nil {
					calls++
					bad = append(bad, str0(a)+" at "+c.pos(a))
				}
			}
			c.R.Check(len(bad) == 0, rule, fmt.Sprintf("js.%s/cleared region #%d", fname, k), c.pos(y.Stmt), "every expression printed in the region follows an opening bracket", "m.inFor is cleared and an expression is printed without an opening bracket in between ("+strings.Join(bad, "; ")+"): an `in` operator in that expression loses the parentheses it needs inside a for-init")
		}
	}
	c.R.Floor(rule, "saved-and-cleared regions of inFor", regions, 8)
}

// R01.17: which statements end a block for the jump analysis.
func (c *Ctx) r0117(pk *packages.Package) {
	const rule = "R01.17"
	c.R.Rule(rule, "optimizeStmtList drops an `else` and moves its body behind the `if` when the if-body ends in a jump, judged by lastStmt (which statement ends the body) and isFlowStmt (is it a jump). The rewrite is only right if control cannot fall out of that last statement: lastStmt may look through *js.BlockStmt only — not through labelled statements (`x:{…break x}` completes normally), loops, `if`, `try` or `switch` — and isFlowStmt may accept only *js.ReturnStmt, *js.ThrowStmt and *js.BranchStmt. isEqualExpr — the licence to merge two evaluations into one (`a?a:b` → `a||b`, `c?f(x):f(y)` → `f(c?x:y)`) — may call two expressions equal only when both are *js.Var. The sets are read off the type assertions / type-switch cases of the functions")
	info := pk.TypesInfo
	typesIn := func(fd *ast.FuncDecl) map[string]bool {
		out := map[string]bool{}
		ast.Inspect(fd.Body, func(x ast.Node) bool {
			var te ast.Expr
			switch e := x.(type) {
			case *ast.TypeAssertExpr:
				te = e.Type
			case *ast.CaseClause:
				for _, l := range e.List {
					if t := info.TypeOf(l); t != nil {
						if n := namedTypeName(deref(t)); strings.HasPrefix(n, pjs+".") {
							out[n[len(pjs)+1:]] = true
						}
					}
				}
			}
			if te != nil {
				if t := info.TypeOf(te); t != nil {
					if n := namedTypeName(deref(t)); strings.HasPrefix(n, pjs+".") {
						out[n[len(pjs)+1:]] = true
					}
				}
			}
			return true
		})
		return out
	}
	for _, spec := range []struct {
		fn      string
		allowed map[string]bool
		why     string
	}{
		{"lastStmt", map[string]bool{"BlockStmt": true}, "control can fall out of it although its last inner statement is a jump"},
		{"isFlowStmt", map[string]bool{"ReturnStmt": true, "ThrowStmt": true, "BranchStmt": true}, "it is not an unconditional jump"},
		{"isEqualExpr", map[string]bool{"Var": true}, "evaluating it once instead of twice is observable (a property read can run a getter, `(o.x=5)?o.x:7` reads after writing)"},
	} {
		fd := c.fn(rule, pk, spec.fn)
		if fd == nil {
			continue
		}
		got := typesIn(fd)
		var extra []string
		for t := range got {
			if !spec.allowed[t] {
				extra = append(extra, "*js."+t)
			}
		}
		sort.Strings(extra)
		c.R.Check(len(extra) == 0 && len(got) > 0, rule, "js."+spec.fn+"/statement kinds", c.pos(fd), "only "+joinSorted(spec.allowed), spec.fn+" also accepts "+strings.Join(extra, ", ")+": "+spec.why+", so the rewrite built on it changes what runs (`if(a){x:{f();break x}}else g();h()` would run g; `a.b?a.b:c` → `a.b||c` calls a getter once)")
	}
	// the licence itself: whatever predicates the condition in front of `ifStmt.Else = nil` calls, directly or through other
	// functions of the package, they look only at blocks and unconditional jumps
	if fd := c.fn(rule, pk, "optimizeStmtList"); fd != nil {
		g := c.graph(pk, fd)
		allowed := map[string]bool{"BlockStmt": true, "ReturnStmt": true, "ThrowStmt": true, "BranchStmt": true}
		var kinds func(d *ast.FuncDecl, depth int, seen map[*ast.FuncDecl]bool, out map[string]bool)
		kinds = func(d *ast.FuncDecl, depth int, seen map[*ast.FuncDecl]bool, out map[string]bool) {
			if d == nil || d.Body == nil || seen[d] || depth > 3 {
				return
			}
			seen[d] = true
			for t := range typesIn(d) {
				out[t] = true
			}
			ast.Inspect(d.Body, func(z ast.Node) bool {
				if ce, ok := z.(*ast.CallExpr); ok {
					if _, dd := c.calleeDecl(info, ce); dd != nil {
						kinds(dd, depth+1, seen, out)
					}
				}
				return true
			})
		}
		n := 0
		for _, y := range g.Nodes {
			as, ok := y.Stmt.(*ast.AssignStmt)
			if !ok || y.Kind != flow.KStmt || len(as.Lhs) != 1 || len(as.Rhs) != 1 || !isNilExpr(as.Rhs[0]) {
				continue
			}
			if sel, ok := as.Lhs[0].(*ast.SelectorExpr); !ok || sel.Sel.Name != "Else" {
				continue
			}
			n++
			got := map[string]bool{}
			for _, f := range g.DomFacts(y) {
				if !f.Value || f.Test.Kind != flow.KCond {
					continue
				}
				ast.Inspect(f.Test.Expr, func(z ast.Node) bool {
					if ce, ok := z.(*ast.CallExpr); ok {
						if _, dd := c.calleeDecl(info, ce); dd != nil && dd.Name.Name != "isEmptyStmt" {
							kinds(dd, 0, map[*ast.FuncDecl]bool{}, got)
						}
					}
					return true
				})
			}
			var extra []string
			for t := range got {
				if !allowed[t] {
					extra = append(extra, "*js."+t)
				}
			}
			sort.Strings(extra)
			c.R.Check(len(extra) == 0 && len(got) > 0, rule, fmt.Sprintf("js.optimizeStmtList/else dissolved#%d only behind an unconditional jump", n), c.pos(as), "the predicates of the condition look at "+joinSorted(got),
				"the condition under which the else is dissolved calls predicates that also accept "+strings.Join(extra, ", ")+": control can leave such a statement without the jump (a try whose catch clause handles the exception), and the former else branch then runs although the condition was true")
		}
		c.R.Floor(rule, "dissolved else branches", n, 1)

	}
}

// R01.18: an assignment becomes a declaration only for a `var` name.
func (c *Ctx) r0118(pk *packages.Package) {
	const rule = "R01.18"
	c.R.Rule(rule, "mergeVarDeclExprStmt turns `x=…` next to a `var` statement into the declaration `var x=…` by handing the assignment's target to addDefinition. That is the same binding only when x is itself declared with `var`: a parameter captured by a closure in a default-value expression lives in a separate environment (`function f(a,g=()=>a){a=1;var b}`: `var a=1` writes a new body binding, g still sees the argument), a let/const/class name cannot be redeclared, and an undeclared name would stop being a global. So every addDefinition call in package js whose binding is a *js.Var (the target of an assignment) is dominated by a test that admits exactly Decl == js.VariableDecl (the comparison itself, or a one-parameter predicate whose returned expression is evaluated the same way)")
	info := pk.TypesInfo
	if c.fn(rule, pk, "mergeVarDeclExprStmt") == nil {
		return
	}
	// the Decl kinds an expression admits for variable `v`; ok=false when it does not constrain v.Decl
	var admits func(info *types.Info, e ast.Expr, v string, depth int) (map[string]bool, bool)
	admits = func(info *types.Info, e ast.Expr, v string, depth int) (map[string]bool, bool) {
		e = ast.Unparen(e)
		switch x := e.(type) {
		case *ast.BinaryExpr:
			switch x.Op {
			case token.EQL:
				for _, pr := range [][2]ast.Expr{{x.X, x.Y}, {x.Y, x.X}} {
					if nospace(str(pr[0])) == v+".Decl" {
						if tv, ok := info.Types[pr[1]]; ok && tv.Value != nil {
							return map[string]bool{str(pr[1])[strings.LastIndex(str(pr[1]), ".")+1:]: true}, true
						}
					}
				}
			case token.LOR:
				a, oka := admits(info, x.X, v, depth)
				b, okb := admits(info, x.Y, v, depth)
				if oka && okb {
					for k := range b {
						a[k] = true
					}
					return a, true
				}
				return nil, false // one side does not look at Decl: anything is admitted
			case token.LAND:
				a, oka := admits(info, x.X, v, depth)
				b, okb := admits(info, x.Y, v, depth)
				switch {
				case oka && okb:
					for k := range a {
						if !b[k] {
							delete(a, k)
						}
					}
					return a, true
				case oka:
					return a, true
				case okb:
					return b, true
				}
			}
		case *ast.CallExpr:
			if depth > 0 || len(x.Args) != 1 || nospace(str(x.Args[0])) != v {
				return nil, false
			}
			fo, _ := callee(info, x).(*types.Func)
			if fo == nil {
				return nil, false
			}
			for _, lp := range c.P.Roots {
				if lp.Types != fo.Pkg() {
					continue
				}
				hd := load.Func(lp, fo.Name())
				if hd == nil || hd.Body == nil || len(hd.Body.List) != 1 || len(hd.Type.Params.List) != 1 || len(hd.Type.Params.List[0].Names) != 1 {
					return nil, false
				}
				rs, ok := hd.Body.List[0].(*ast.ReturnStmt)
				if !ok || len(rs.Results) != 1 {
					return nil, false
				}
				return admits(lp.TypesInfo, rs.Results[0], hd.Type.Params.List[0].Names[0].Name, depth+1)
			}
		}
		return nil, false
	}
	n := 0
	// (every function of the package: a new helper that folds assignments into `let` declarations is judged too)
	for _, fd := range load.FuncDecls(pk) {
		if fd.Body == nil {
			continue
		}
		uses := false
		ast.Inspect(fd.Body, func(x ast.Node) bool {
			if call, ok := x.(*ast.CallExpr); ok && strings.HasSuffix(calleeName(info, call), "/js.addDefinition") {
				uses = true
			}
			return true
		})
		if !uses {
			continue
		}
		g := c.graph(pk, fd)
		fname := load.FuncName(fd)
		for _, y := range g.Nodes {
			a := y.Ast()
			if a == nil || y.Kind == flow.KRange || y.Kind == flow.KSelect {
				continue
			}
			ast.Inspect(a, func(x ast.Node) bool {
				call, ok := x.(*ast.CallExpr)
				if !ok || !strings.HasSuffix(calleeName(info, call), "/js.addDefinition") || len(call.Args) < 2 {
					return true
				}
				id, ok := ast.Unparen(call.Args[1]).(*ast.Ident)
				if !ok || namedTypeName(info.TypeOf(id)) != pjs+".Var" {
					return true
				}
				n++
				var set map[string]bool
				for _, f := range g.DomFacts(y) {
					if !f.Value || f.Test.Kind != flow.KCond {
						continue
					}
					if s, ok := admits(info, f.Test.Expr, id.Name, 0); ok {
						if set == nil {
							set = s
						} else {
							for k := range set {
								if !s[k] {
									delete(set, k)
								}
							}
						}
					}
				}
				good := len(set) == 1 && set["VariableDecl"]
				c.R.Check(good, rule, fmt.Sprintf("js.%s/assignment to %s becomes a declaration#%d", fname, id.Name, n), c.pos(call), "admitted only for Decl == VariableDecl",
					fmt.Sprintf("the assignment is folded into the declaration for declaration kinds %v: for anything but a `var` name that creates or shadows a binding (`function f(a,g=()=>a){a=1;var b}` → `var a=1,b` no longer updates what g reads), and addDefinition moves the binding to the end of the list, which for `let` puts it behind initializers that read it (`let a,b=a;a=5` → `let b=a,a=5`: ReferenceError)", sortedKeys(set)))
				return true
			})
		}
	}
	c.R.Floor(rule, "assignments folded into declarations", n, 2)
}

// R01.19: hoisting never moves an initializer in front of another one.
func (c *Ctx) r0119(pk *packages.Package) {
	const rule = "R01.19"
	c.R.Rule(rule, "jsMinifier.hoistVars moves a destructuring item to the front of its `var` list (`var a,[b]=c` → `var[b]=c,a` saves the space after var) by swapping list elements. Initializers run in list order, so an item may only move in front of items that have no initializer: every swap `L[x], L[y] = L[y], L[x]` in hoistVars is dominated by a test of a witness — a local whose first assignment is a constant, that is updated on every path from each `….Default != nil` outcome to the next iteration of the enclosing loop, and nowhere else — either directly or through a boolean defined once from an expression over the witness. (`var a=1,[b]=[a];var c` was printed as `var[b]=[a],c,a=1`: b is taken from a before a is set; `var a=g(),{b}=h()` called h first)")
	info := pk.TypesInfo
	fd := c.fn(rule, pk, "jsMinifier.hoistVars")
	if fd == nil {
		return
	}
	g := c.graph(pk, fd)
	lc := newLinCtx(c, info, g)
	isDefaultTest := func(q *flow.Node) bool {
		if q.Kind != flow.KTrue || q.Of == nil || q.Of.Kind != flow.KCond {
			return false
		}
		s := nospace(str(q.Of.Expr))
		return strings.HasSuffix(s, ".Default!=nil") || strings.HasPrefix(s, "nil!=") && strings.HasSuffix(s, ".Default")
	}
	witnessMemo := map[types.Object]bool{}
	isWitness := func(o types.Object) bool {
		if v, ok := witnessMemo[o]; ok {
			return v
		}
		res := func() bool {
			v, ok := o.(*types.Var)
			if !ok || v.IsField() || v.Parent() == nil || v.Parent() == v.Pkg().Scope() {
				return false
			}
			defs := lc.assign[o]
			if len(defs) < 2 {
				return false
			}
			// first (textually) assignment is a constant; all others dominated by a Default != nil outcome
			first := defs[0]
			for _, d := range defs {
				if d.Pos() < first.Pos() {
					first = d
				}
			}
			if as, ok := first.Stmt.(*ast.AssignStmt); ok && len(as.Rhs) == 1 {
				if tv, ok := info.Types[as.Rhs[0]]; !ok || tv.Value == nil {
					return false
				}
			} else if first.Spec == nil {
				return false
			}
			var updates []*flow.Node
			for _, d := range defs {
				if d == first {
					continue
				}
				dom := false
				for _, f := range g.DomFacts(d) {
					if f.Value && f.Test.Kind == flow.KCond {
						s := nospace(str(f.Test.Expr))
						if strings.HasSuffix(s, ".Default!=nil") || strings.HasPrefix(s, "nil!=") && strings.HasSuffix(s, ".Default") {
							dom = true
						}
					}
				}
				if !dom {
					return false
				}
				updates = append(updates, d)
			}
			// every initialised item is counted: from each Default != nil outcome that dominates an update, no path to the
			// loop head avoids the updates
			for _, y := range g.Nodes {
				if !isDefaultTest(y) {
					continue
				}
				relevant := false
				for _, u := range updates {
					if g.Dominates(y, u) {
						relevant = true
					}
				}
				if !relevant {
					continue
				}
				p := g.Path(flow.Search{From: []*flow.Node{y}, Goal: func(q *flow.Node) bool { return q.Kind == flow.KRange || q.Kind == flow.KExit }, Avoid: func(q *flow.Node) bool {
					for _, u := range updates {
						if u == q {
							return true
						}
					}
					return false
				}})
				if p != nil {
					return false
				}
			}
			return true
		}()
		witnessMemo[o] = res
		return res
	}
	mentionsWitness := func(e ast.Expr) bool {
		hit := false
		ast.Inspect(e, func(q ast.Node) bool {
			if id, ok := q.(*ast.Ident); ok && info.Uses[id] != nil && isWitness(info.Uses[id]) {
				hit = true
			}
			return true
		})
		return hit
	}
	n := 0
	for _, y := range g.Nodes {
		as, ok := y.Stmt.(*ast.AssignStmt)
		if !ok || y.Kind != flow.KStmt || len(as.Lhs) != 2 || len(as.Rhs) != 2 {
			continue
		}
		if nospace(str(as.Lhs[0])) != nospace(str(as.Rhs[1])) || nospace(str(as.Lhs[1])) != nospace(str(as.Rhs[0])) {
			continue
		}
		if _, isIx := as.Lhs[0].(*ast.IndexExpr); !isIx {
			continue
		}
		n++
		good := false
		for _, f := range g.DomFacts(y) {
			if f.Test.Kind != flow.KCond {
				continue
			}
			if mentionsWitness(f.Test.Expr) {
				good = true
			}
			// a boolean defined once from an expression over a witness
			if id, ok := ast.Unparen(f.Test.Expr).(*ast.Ident); ok {
				if o := info.Uses[id]; o != nil && len(lc.assign[o]) == 1 {
					if d, ok := lc.assign[o][0].Stmt.(*ast.AssignStmt); ok && len(d.Rhs) == 1 && mentionsWitness(d.Rhs[0]) {
						good = true
					}
				}
			}
		}
		c.R.Check(good, rule, fmt.Sprintf("js.jsMinifier.hoistVars/swap %s#%d only in front of uninitialised items", stmtText(as), n), c.pos(as), "behind a test that no initializer precedes the moved item", "list items are swapped without knowing that no earlier item has an initializer: the moved initializer runs before the ones it was written after (`var a=1,[b]=[a];var c` → `var[b]=[a],c,a=1`)")
	}
	c.R.Floor(rule, "swaps in hoistVars", n, 3)
}

// R01.20: the zero test of a numeric literal knows the digits of its kind.
func (c *Ctx) r0120(pk *packages.Package) {
	const rule = "R01.20"
	c.R.Rule(rule, "js.isFalsy decides whether a numeric literal is zero by scanning its bytes: a byte either makes the literal truthy (the function returns) or is passed over / ends the scan. For every numeric token kind the branch handles — read off its condition over the token type — and every non-zero digit of that kind (decimal and integer 1-9, binary 1, octal 1-7, hexadecimal 1-9 a-f A-F), the scan, evaluated for that (kind, byte), must return truthy. An `e` or `b` that is skipped as exponent marker or radix prefix whatever the kind makes `0x0e1` and `0x0b` zero: `x=0x0e1?1:2` → `x=2`")
	info := pk.TypesInfo
	fd := c.fn(rule, pk, "isFalsy")
	if fd == nil {
		return
	}
	dep := c.P.Dep(load.ParseMod + "/js")
	kind := func(name string) (int64, bool) {
		if dep == nil {
			return 0, false
		}
		k, ok := dep.Types.Scope().Lookup(name).(*types.Const)
		if !ok {
			return 0, false
		}
		return constantInt64(k)
	}
	digits := map[string]string{"DecimalToken": "123456789", "IntegerToken": "123456789", "BinaryToken": "1", "OctalToken": "1234567", "HexadecimalToken": "123456789abcdefABCDEF"}
	// the scan: a range over a byte slice whose body returns
	var loop *ast.RangeStmt
	ast.Inspect(fd.Body, func(q ast.Node) bool {
		rs, ok := q.(*ast.RangeStmt)
		if !ok || rs.Value == nil || !isByteSlice(info.TypeOf(rs.X)) {
			return true
		}
		if flow.Contains(rs.Body, func(z ast.Node) bool { _, isRet := z.(*ast.ReturnStmt); return isRet }) {
			loop = rs
		}
		return true
	})
	if loop == nil {
		c.R.Unres(rule, "js.isFalsy/digit scan", c.pos(fd), "no range over the literal's bytes with a return in its body")
		return
	}
	cname := nospace(str(loop.Value))
	// the token-type variable: the one compared with the numeric kinds in the enclosing condition
	var guard ast.Expr
	ttName := ""
	for p := c.P.Parent(loop); p != nil; p = c.P.Parent(p) {
		if ifs, ok := p.(*ast.IfStmt); ok && ifs.Body.Pos() <= loop.Pos() && loop.End() <= ifs.Body.End() && strings.Contains(str(ifs.Cond), "HexadecimalToken") {
			guard = ifs.Cond
			ast.Inspect(ifs.Cond, func(q ast.Node) bool {
				if be, ok := q.(*ast.BinaryExpr); ok && be.Op == token.EQL {
					for _, pr := range [][2]ast.Expr{{be.X, be.Y}, {be.Y, be.X}} {
						if strings.HasSuffix(str(pr[1]), "HexadecimalToken") {
							ttName = nospace(str(pr[0]))
						}
					}
				}
				return true
			})
			break
		}
	}
	if guard == nil || ttName == "" {
		c.R.Unres(rule, "js.isFalsy/digit scan", c.pos(loop), "the branch over the numeric token kinds was not found")
		return
	}
	// boolean / byte locals defined once before the loop from the token type (isDec := tt == …)
	type localDef struct {
		name string
		e    ast.Expr
	}
	var locals []localDef
	ast.Inspect(fd.Body, func(q ast.Node) bool {
		as, ok := q.(*ast.AssignStmt)
		if !ok || as.Tok != token.DEFINE || len(as.Lhs) != 1 || len(as.Rhs) != 1 || as.Pos() > loop.Pos() {
			return true
		}
		if id, ok := as.Lhs[0].(*ast.Ident); ok && strings.Contains(str(as.Rhs[0]), ttName) {
			if b, isB := info.TypeOf(id).Underlying().(*types.Basic); isB && b.Kind() == types.Bool {
				locals = append(locals, localDef{id.Name, as.Rhs[0]})
			}
		}
		return true
	})
	// simulate the body for (kind, byte): true = the scan returns (a verdict other than "all digits are zero": truthy, or
	// "cannot tell"). A condition that cannot be evaluated is taken both ways; the outcomes must agree.
	unknown := false
	var runStmts func(list []ast.Stmt, env map[string]int64) (returned, decided bool)
	var runIf func(ifs *ast.IfStmt, rest []ast.Stmt, env map[string]int64) (bool, bool)
	runIf = func(ifs *ast.IfStmt, rest []ast.Stmt, env map[string]int64) (bool, bool) {
		asTrue := func() (bool, bool) {
			if r, d := runStmts(ifs.Body.List, env); d {
				return r, true
			}
			return runStmts(rest, env)
		}
		asFalse := func() (bool, bool) {
			switch e := ifs.Else.(type) {
			case nil:
				return runStmts(rest, env)
			case *ast.IfStmt:
				return runIf(e, rest, env)
			case *ast.BlockStmt:
				if r, d := runStmts(e.List, env); d {
					return r, true
				}
				return runStmts(rest, env)
			}
			return false, false
		}
		if ifs.Init != nil {
			unknown = true
			return false, false
		}
		v, ok := evalIntExpr(info, ifs.Cond, env)
		if !ok {
			r1, d1 := asTrue()
			r2, d2 := asFalse()
			if d1 && d2 && r1 == r2 {
				return r1, true
			}
			unknown = true
			return false, false
		}
		if v != 0 {
			return asTrue()
		}
		return asFalse()
	}
	runStmts = func(list []ast.Stmt, env map[string]int64) (bool, bool) {
		for i, st := range list {
			switch s := st.(type) {
			case *ast.ReturnStmt:
				return true, true
			case *ast.BranchStmt:
				return false, true
			case *ast.IfStmt:
				return runIf(s, list[i+1:], env)
			default:
				// other statements (assignments to counters) do not decide
			}
		}
		return false, false
	}
	n := 0
	for kname, ds := range digits {
		kv, ok := kind(kname)
		if !ok {
			c.R.Unres(rule, "js.isFalsy/"+kname, c.pos(loop), "token kind constant not found in parse/js")
			continue
		}
		env := map[string]int64{ttName: kv}
		for _, l := range locals {
			if v, ok := evalIntExpr(info, l.e, env); ok {
				env[l.name] = v
			}
		}
		handled, ok := evalIntExpr(info, guard, env)
		if !ok || handled == 0 {
			continue
		}
		n++
		var zeroish []string
		undecided := false
		for _, d := range ds {
			env[cname] = int64(d)
			unknown = false
			returned, decided := runStmts(loop.Body.List, env)
			if !decided {
				// falling through the body: the byte is passed over
				returned = false
				if unknown {
					undecided = true
				}
			}
			if !returned {
				zeroish = append(zeroish, string(d))
			}
		}
		construct := "js.isFalsy/non-zero digits of " + kname + " make the literal truthy"
		if undecided {
			c.R.Unres(rule, construct, c.pos(loop), "the scan is not a function of the token kind and the current byte alone")
			continue
		}
		c.R.Check(len(zeroish) == 0, rule, construct, c.pos(loop), fmt.Sprintf("%d digits evaluated", len(ds)), "the digit(s) "+strings.Join(zeroish, " ")+" of a "+kname+" are passed over or end the scan: a literal whose other digits are zeros is taken for 0 (`x=0x0e1?1:2` → `x=2`, `x=0x0b?1:2` → `x=2`)")
	}
	c.R.Floor(rule, "numeric token kinds handled by the zero test", n, 4)
}

// R01.21: a declaration is dropped only when defining it does nothing.
func (c *Ctx) r0121(pk *packages.Package) {
	const rule = "R01.21"
	c.R.Rule(rule, "js.optimizeStmt replaces a block that holds nothing but a class declaration (or a let/const declaration) by an empty statement — nobody can refer to the binding. Defining a class is not nothing: the heritage expression, computed member names, static initializers and static blocks run (`{class A extends f(){}}` calls f). Every `return &js.EmptyStmt{}` that is dominated by a successful type assertion to *js.ClassDecl is dominated by the false outcome of hasSideEffects over the asserted value; the let/const clause returns the empty statement only when the list of initializers that have side effects is empty")
	info := pk.TypesInfo
	fd := c.fn(rule, pk, "optimizeStmt")
	if fd == nil {
		return
	}
	g := c.graph(pk, fd)
	n := 0
	for _, y := range g.Nodes {
		rs := retStmt(y)
		if rs == nil || len(rs.Results) != 1 {
			continue
		}
		ue, ok := ast.Unparen(rs.Results[0]).(*ast.UnaryExpr)
		if !ok || ue.Op != token.AND {
			continue
		}
		cl, ok := ue.X.(*ast.CompositeLit)
		if !ok || namedTypeName(info.TypeOf(cl)) != pjs+".EmptyStmt" {
			continue
		}
		// dominated by ok of `v, ok := X.(*js.ClassDecl)`?
		var classVal string
		underClass := false
		judged := false
		for _, f := range g.DomFacts(y) {
			if f.Test.Kind != flow.KCond {
				continue
			}
			if id, isId := ast.Unparen(f.Test.Expr).(*ast.Ident); isId && f.Value {
				if ta, isTA := c.singleDef(pk, id).(*ast.TypeAssertExpr); isTA && ta.Type != nil && namedTypeName(deref(info.TypeOf(ta.Type))) == pjs+".ClassDecl" {
					underClass = true
					// the value variable of that assertion
					ast.Inspect(fd.Body, func(q ast.Node) bool {
						as, ok := q.(*ast.AssignStmt)
						if ok && len(as.Lhs) == 2 && len(as.Rhs) == 1 && ast.Unparen(as.Rhs[0]) == ast.Expr(ta) {
							classVal = str(as.Lhs[0])
						}
						return true
					})
				}
			}
			if call, isCall := ast.Unparen(f.Test.Expr).(*ast.CallExpr); isCall && !f.Value && strings.HasSuffix(calleeName(info, call), "/js.hasSideEffects") {
				judged = true
				_ = call
			}
		}
		if !underClass {
			continue
		}
		n++
		c.R.Check(judged && classVal != "_" && classVal != "", rule, fmt.Sprintf("js.optimizeStmt/class declaration dropped#%d only without side effects", n), c.pos(rs), "behind !hasSideEffects(the class)", "a block holding only a class declaration is replaced by an empty statement without asking whether defining the class has side effects: `{class A extends f(){}}` → nothing, f is never called")
	}
	c.R.Floor(rule, "class declarations dropped in optimizeStmt", n, 1)
}

// R01.22: dropping the trailing `undefined` of a returned comma list drops the `return` with it.
func (c *Ctx) r0122(pk *packages.Package) {
	const rule = "R01.22"
	c.R.Rule(rule, "at the end of a function body optimizeStmtList simplifies `return a,void 0` to the statement `a` — the function then returns undefined by running off its end. The same must hold for longer lists: wherever the last element of a returned *js.CommaExpr is removed because it is undefined (an assignment `X.List = X.List[:len(X.List)-1]` dominated by isUndefined of that last element), the return statement itself is replaced by an expression statement (an assignment of a *js.ExprStmt to the list slot) on every path to the function's exit; otherwise `return a,b,void 0` becomes `return a,b`, which returns b")
	info := pk.TypesInfo
	fd := c.fn(rule, pk, "optimizeStmtList")
	if fd == nil {
		return
	}
	g := c.graph(pk, fd)
	n := 0
	for _, y := range g.Nodes {
		as, ok := y.Stmt.(*ast.AssignStmt)
		if !ok || y.Kind != flow.KStmt || len(as.Lhs) != 1 || len(as.Rhs) != 1 {
			continue
		}
		l := nospace(str(as.Lhs[0]))
		if !strings.HasSuffix(l, ".List") || nospace(str(as.Rhs[0])) != l+"[:len("+l+")-1]" {
			continue
		}
		underUndef := false
		for _, f := range g.DomFacts(y) {
			if f.Value && f.Test.Kind == flow.KCond && strings.Contains(nospace(str(f.Test.Expr)), "isUndefined("+l+"[len("+l+")-1])") {
				underUndef = true
			}
		}
		if !underUndef {
			continue
		}
		n++
		becomesExprStmt := func(q *flow.Node) bool {
			a2, ok := q.Stmt.(*ast.AssignStmt)
			if !ok || q.Kind != flow.KStmt || len(a2.Rhs) != 1 {
				return false
			}
			ue, ok := ast.Unparen(a2.Rhs[0]).(*ast.UnaryExpr)
			if !ok || ue.Op != token.AND {
				return false
			}
			cl, ok := ue.X.(*ast.CompositeLit)
			return ok && namedTypeName(info.TypeOf(cl)) == pjs+".ExprStmt"
		}
		p := g.Path(flow.Search{From: []*flow.Node{y}, Goal: func(q *flow.Node) bool { return q.Kind == flow.KExit || retStmt(q) != nil }, Avoid: becomesExprStmt})
		c.R.Check(p == nil, rule, fmt.Sprintf("js.optimizeStmtList/trailing undefined removed from a returned list#%d", n), c.pos(as), "the return statement becomes an expression statement", "the trailing `undefined` is removed from the returned comma list but the list is still returned: `function f(){return a,b,void 0}` → `function f(){return a,b}` returns b instead of undefined")
	}
	c.R.Floor(rule, "trimmed returned comma lists", n, 1)
}

// R01.24: `a?.b` replaces a conditional only when its other branch is exactly undefined.
func (c *Ctx) r0124(pk *packages.Package) {
	const rule = "R01.24"
	c.R.Rule(rule, "`a?.b` evaluates to undefined when a is null or undefined. js.toNullishExpr rewrites `a==null?X:a.b` to `a?.b`, which is the same value only if X is undefined — for `a==null?null:a.b` the caller would get undefined instead of null. Every assignment `….Optional = true` in toNullishExpr is dominated by the true outcome of a call of js.isUndefined (not of a predicate that also accepts null)")
	info := pk.TypesInfo
	fd := c.fn(rule, pk, "toNullishExpr")
	if fd == nil {
		return
	}
	g := c.graph(pk, fd)
	n := 0
	for _, y := range g.Nodes {
		as, ok := y.Stmt.(*ast.AssignStmt)
		if !ok || y.Kind != flow.KStmt || len(as.Lhs) != 1 || len(as.Rhs) != 1 {
			continue
		}
		sel, ok := as.Lhs[0].(*ast.SelectorExpr)
		if !ok || sel.Sel.Name != "Optional" {
			continue
		}
		n++
		good := false
		other := ""
		for _, f := range g.DomFacts(y) {
			if !f.Value || f.Test.Kind != flow.KCond {
				continue
			}
			if call, isCall := ast.Unparen(f.Test.Expr).(*ast.CallExpr); isCall {
				cn := calleeName(info, call)
				if strings.HasSuffix(cn, "/js.isUndefined") {
					good = true
				} else if strings.Contains(strings.ToLower(cn), "undefined") || strings.Contains(strings.ToLower(cn), "null") {
					other = cn[strings.LastIndex(cn, ".")+1:]
				}
			}
		}
		c.R.Check(good, rule, fmt.Sprintf("js.toNullishExpr/%s=true#%d only when the other branch is undefined", nospace(str(as.Lhs[0])), n), c.pos(as), "behind isUndefined(<other branch>)", "the conditional becomes an optional chain although its other branch is only known through "+other+": `a==null?null:a.b` → `a?.b` yields undefined where the source yields null")
	}
	c.R.Floor(rule, "optional links created in toNullishExpr", n, 3)
}

// R01.25: optimizeCondExpr drops an operand of `c?x:y` only with a licence for that operand.
func (c *Ctx) r0125(pk *packages.Package) {
	const rule = "R01.25"
	c.R.Rule(rule, "js.optimizeCondExpr returns an expression built from the three operands of the conditional (expr.Cond, expr.X, expr.Y; locals count for the operands their definitions and later stores mention). A result that leaves an operand out evaluates it one time less — `a?a:b` → `a||b` reads a once, `c?!0:y` → `c||y` has no x at all. That is only right behind a licence for the omitted operand: for X or Y the true outcome of isEqualExpr(…, expr.O …) (two variable reads, see R01.17) or of a flag defined as isTrue(expr.O) / isFalse(expr.O) (a literal); for Cond the ok flag of isTruthy(expr.Cond), whose first result says which branch a constant condition never evaluates (true: Y, false: X). For every return that omits an operand there is no feasible path (repeated tests of one flag correlated) from the entry to the return that avoids all licences for it. So `o.p?o.p:c` → `o.p||c` under a second, wider equality predicate (a getter would run once instead of twice) is reported")
	info := pk.TypesInfo
	fd := c.fn(rule, pk, "jsMinifier.optimizeCondExpr")
	if fd == nil {
		return
	}
	if fd.Type.Params == nil || len(fd.Type.Params.List) == 0 || len(fd.Type.Params.List[0].Names) == 0 {
		c.R.Unres(rule, "js.optimizeCondExpr/parameter", c.pos(fd), "no parameter")
		return
	}
	param := info.Defs[fd.Type.Params.List[0].Names[0]]
	ops := []string{"Cond", "X", "Y"}
	type set map[string]bool
	mention := map[types.Object]set{}
	var mentions func(e ast.Node) set
	mentions = func(e ast.Node) set {
		out := set{}
		var walk func(x ast.Node) bool
		walk = func(x ast.Node) bool {
			switch y := x.(type) {
			case *ast.SelectorExpr:
				if id, ok := ast.Unparen(y.X).(*ast.Ident); ok && info.Uses[id] == param {
					for _, o := range ops {
						if y.Sel.Name == o {
							out[o] = true
							return false
						}
					}
				}
			case *ast.Ident:
				if o := info.Uses[y]; o == param {
					for _, k := range ops {
						out[k] = true
					}
				} else if m, ok := mention[o]; ok {
					for k := range m {
						out[k] = true
					}
				}
			}
			return true
		}
		ast.Inspect(e, walk)
		return out
	}
	baseObj := func(e ast.Expr) types.Object {
		for {
			switch x := ast.Unparen(e).(type) {
			case *ast.Ident:
				if o := info.Defs[x]; o != nil {
					return o
				}
				return info.Uses[x]
			case *ast.SelectorExpr:
				e = x.X
			case *ast.IndexExpr:
				e = x.X
			case *ast.StarExpr:
				e = x.X
			default:
				return nil
			}
		}
	}
	// locals: fixpoint over definitions and stores
	for changed := true; changed; {
		changed = false
		ast.Inspect(fd.Body, func(x ast.Node) bool {
			as, ok := x.(*ast.AssignStmt)
			if !ok {
				return true
			}
			for i, l := range as.Lhs {
				o := baseObj(l)
				if o == nil || o == param {
					continue
				}
				if bt, isBasic := o.Type().Underlying().(*types.Basic); isBasic && bt.Info()&types.IsBoolean != 0 {
					continue // a flag about an operand is not the operand
				}
				var rhs ast.Expr
				if len(as.Rhs) == len(as.Lhs) {
					rhs = as.Rhs[i]
				} else if len(as.Rhs) == 1 {
					rhs = as.Rhs[0]
				}
				if rhs == nil {
					continue
				}
				for k := range mentions(rhs) {
					if mention[o] == nil {
						mention[o] = set{}
					}
					if !mention[o][k] {
						mention[o][k] = true
						changed = true
					}
				}
			}
			return true
		})
	}
	// flags: ident defined once from isTrue/isFalse(expr.O) or isTruthy(expr.Cond)
	flagOf := map[types.Object]string{} // object -> operand it licenses
	var truthy types.Object
	ast.Inspect(fd.Body, func(x ast.Node) bool {
		as, ok := x.(*ast.AssignStmt)
		if !ok {
			return true
		}
		for i, l := range as.Lhs {
			id, ok := l.(*ast.Ident)
			if !ok {
				continue
			}
			o := info.Defs[id]
			if o == nil {
				continue
			}
			var rhs ast.Expr
			if len(as.Rhs) == len(as.Lhs) {
				rhs = as.Rhs[i]
			} else if len(as.Rhs) == 1 {
				rhs = as.Rhs[0]
			}
			call, ok := ast.Unparen(rhs).(*ast.CallExpr)
			if !ok || len(call.Args) != 1 {
				continue
			}
			cn := calleeName(info, call)
			m := mentions(call.Args[0])
			switch {
			case strings.HasSuffix(cn, "/js.isTrue") || strings.HasSuffix(cn, "/js.isFalse"):
				if len(m) == 1 && (m["X"] || m["Y"]) {
					for k := range m {
						flagOf[o] = k
					}
				}
			case strings.HasSuffix(cn, "/js.isTruthy"):
				// truthy, ok := isTruthy(expr.Cond): the second result is the licence to drop the condition, the first says
				// which branch is never evaluated (true: Y, false: X)
				if len(m) == 1 && m["Cond"] && len(as.Lhs) == 2 {
					if i == 1 {
						flagOf[o] = "Cond"
					} else {
						truthy = o
					}
				}
			}
		}
		return true
	})
	g := c.graph(pk, fd)
	licence := func(q *flow.Node, op string) bool {
		if q.Of == nil || q.Of.Kind != flow.KCond {
			return false
		}
		if id, ok := ast.Unparen(q.Of.Expr).(*ast.Ident); ok && truthy != nil && info.Uses[id] == truthy {
			// a constant condition: the branch not taken is never evaluated
			return op == "Y" && q.Kind == flow.KTrue || op == "X" && q.Kind == flow.KFalse
		}
		if q.Kind != flow.KTrue {
			return false
		}
		switch e := ast.Unparen(q.Of.Expr).(type) {
		case *ast.Ident:
			return flagOf[info.Uses[e]] == op
		case *ast.CallExpr:
			if strings.HasSuffix(calleeName(info, e), "/js.isEqualExpr") && len(e.Args) == 2 && op != "Cond" {
				for _, a := range e.Args {
					if sel, ok := ast.Unparen(a).(*ast.SelectorExpr); ok && sel.Sel.Name == op {
						if id, ok := ast.Unparen(sel.X).(*ast.Ident); ok && info.Uses[id] == param {
							return true
						}
					}
				}
			}
		}
		return false
	}
	n, omitting := 0, 0
	seen := map[string]int{}
	for _, y := range g.Nodes {
		rs := retStmt(y)
		if rs == nil || len(rs.Results) != 1 || c.enclosingLit(rs) != nil {
			continue
		}
		n++
		m := mentions(rs.Results[0])
		for _, op := range ops {
			if m[op] {
				continue
			}
			omitting++
			op, y := op, y
			p := g.Path(flow.Search{From: []*flow.Node{g.Entry}, Goal: func(q *flow.Node) bool { return q == y }, Avoid: func(q *flow.Node) bool { return licence(q, op) }, Track: true})
			key := nospace(str(rs.Results[0]))
			if len(key) > 60 {
				key = key[:60]
			}
			seen[key+op]++
			c.R.Check(p == nil, rule, fmt.Sprintf("js.optimizeCondExpr/return %s#%d omits %s only with a licence", key, seen[key+op], op), c.pos(rs), "every path to the return passes a licence for expr."+op, "the result leaves expr."+op+" out and can be reached without isEqualExpr(…, expr."+op+") / a literal flag for it holding: "+pathStr(c, g, p)+" — the operand is evaluated one time less (`o.p?o.p:c` → `o.p||c` runs a getter once, `(o.p=v)?o.p:c` no longer reads back)")
		}
	}
	c.R.Floor(rule, "returns of optimizeCondExpr", n, 12)
	c.R.Floor(rule, "operand omissions judged", omitting, 10)
}

// R09.15: every grammar position is printed at the level its production requires.
func (c *Ctx) r0915(pk *packages.Package) {
	const rule = "R09.15"
	c.R.Rule(rule, "the printer asks for parentheses by passing a context level to minifyExpr: an operand whose own level is lower gets wrapped. For the calls minifyExpr(x.F, js.OpL) of package js whose first argument is a field of a syntax-tree node (or the range variable of a loop over a list field) and whose level is a constant, L is at least the level of the ECMA-262 production that field stands for (ref.JSGrammarMinLevel: for-of takes an AssignmentExpression, a conditional's condition a ShortCircuitExpression, class heritage a LeftHandSideExpression, …). A lower level drops parentheses the grammar needs — `for(a of (b,c));` → `for(a of b,c);` is a syntax error; a higher one only adds parentheses")
	info := pk.TypesInfo
	// numeric values of the OpPrec constants
	var jsPkg *types.Package
	for _, imp := range pk.Types.Imports() {
		if imp.Path() == pjs {
			jsPkg = imp
		}
	}
	if jsPkg == nil {
		c.R.Unres(rule, "package/"+pjs, "-", "parser package not imported")
		return
	}
	level := func(name string) (int64, bool) {
		k, ok := jsPkg.Scope().Lookup(name).(*types.Const)
		if !ok {
			return 0, false
		}
		v, ok2 := constant.Int64Val(k.Val())
		return v, ok2
	}
	nodeName := func(t types.Type) string {
		n := namedTypeName(deref(t))
		if strings.HasPrefix(n, pjs+".") {
			return n[len(pjs)+1:]
		}
		return ""
	}
	n := 0
	seen := map[string]int{}
	for _, fd := range load.FuncDecls(pk) {
		if fd.Body == nil {
			continue
		}
		// range variables over list fields
		rangeOf := map[types.Object]string{}
		ast.Inspect(fd.Body, func(x ast.Node) bool {
			rs, ok := x.(*ast.RangeStmt)
			if !ok {
				return true
			}
			id, ok := rs.Value.(*ast.Ident)
			sel, ok2 := ast.Unparen(rs.X).(*ast.SelectorExpr)
			if !ok || !ok2 {
				return true
			}
			if t := info.TypeOf(sel.X); t != nil {
				if nn := nodeName(t); nn != "" {
					rangeOf[info.Defs[id]] = nn + "." + sel.Sel.Name + "[]"
				}
			}
			return true
		})
		ast.Inspect(fd.Body, func(x ast.Node) bool {
			call, ok := x.(*ast.CallExpr)
			if !ok || len(call.Args) != 2 || !strings.HasSuffix(calleeName(info, call), "/js.(jsMinifier).minifyExpr") {
				return true
			}
			tv, ok := info.Types[call.Args[1]]
			if !ok || tv.Value == nil {
				return true
			}
			got, _ := constant.Int64Val(tv.Value)
			key := ""
			switch a := ast.Unparen(call.Args[0]).(type) {
			case *ast.SelectorExpr:
				if t := info.TypeOf(a.X); t != nil {
					if nn := nodeName(t); nn != "" {
						key = nn + "." + a.Sel.Name
					}
				}
			case *ast.Ident:
				key = rangeOf[info.Uses[a]]
			}
			want, ok := ref.JSGrammarMinLevel[key]
			if !ok {
				return true
			}
			need, ok := level(want)
			if !ok {
				c.R.Unres(rule, "js."+want, "-", "constant not found in the parser package")
				return true
			}
			n++
			fn := pk.Name + "." + load.FuncName(fd)
			seen[fn+key]++
			c.R.Check(got >= need, rule, fmt.Sprintf("%s/%s printed at its production's level#%d", fn, key, seen[fn+key]), c.pos(call), "level "+str(call.Args[1])+" ≥ "+want, fmt.Sprintf("%s is printed in the context %s, but the grammar takes a production of level %s there: an operand between the two levels (a comma expression, an assignment, a conditional) loses the parentheses it needs and the output does not parse or parses differently", key, str(call.Args[1]), want))
			return true
		})
	}
	c.R.Floor(rule, "grammar positions with a constant level", n, 25)
}

// R01.26: the dangling-else guard and the printer agree on what "no else" means.
func (c *Ctx) r0126(pk *packages.Package) {
	const rule = "R01.26"
	c.R.Rule(rule, "`if(a){if(b)c}else d` keeps its braces because without them the else would bind to the inner if. The printer (minifyStmt, case *js.IfStmt) decides with isEmptyStmt whether an if has an else worth printing — `else;` and `else{}` are dropped. js.endsInIf, which tells whether a body ends in an if without else, must judge the inner if by the same predicate: in its *js.IfStmt case the test for a missing else is isEmptyStmt(stmt.Else), not a comparison of stmt.Else with nil. Otherwise `if(a){if(b)return 1;else;}else return 2` loses its braces and the outer else is printed as the inner one")
	info := pk.TypesInfo
	// the printer's predicate
	ms := c.fn(rule, pk, "jsMinifier.minifyStmt")
	ei := c.fn(rule, pk, "endsInIf")
	if ms == nil || ei == nil {
		return
	}
	printerUses := false
	ast.Inspect(ms.Body, func(x ast.Node) bool {
		if ce, ok := x.(*ast.CallExpr); ok && strings.HasSuffix(calleeName(info, ce), "/js.isEmptyStmt") && len(ce.Args) == 1 && strings.HasSuffix(nospace(str(ce.Args[0])), ".Else") {
			printerUses = true
		}
		return true
	})
	c.R.Check(printerUses, rule, "js.jsMinifier.minifyStmt/else printed unless isEmptyStmt", c.pos(ms), "the printer tests isEmptyStmt(stmt.Else)", "the printer no longer decides the presence of an else by isEmptyStmt(stmt.Else): the rule's reference predicate is gone")
	n := 0
	ast.Inspect(ei.Body, func(x ast.Node) bool {
		cc, ok := x.(*ast.CaseClause)
		if !ok || len(cc.List) != 1 || !strings.HasSuffix(nospace(str(cc.List[0])), "js.IfStmt") {
			return true
		}
		ast.Inspect(cc, func(z ast.Node) bool {
			ifs, ok := z.(*ast.IfStmt)
			if !ok {
				return true
			}
			cs := nospace(str(ifs.Cond))
			if !strings.Contains(cs, ".Else") {
				return true
			}
			n++
			viaPred := false
			ast.Inspect(ifs.Cond, func(w ast.Node) bool {
				if ce, ok := w.(*ast.CallExpr); ok && strings.HasSuffix(calleeName(info, ce), "/js.isEmptyStmt") {
					viaPred = true
				}
				return true
			})
			c.R.Check(viaPred, rule, fmt.Sprintf("js.endsInIf/case *js.IfStmt/missing else judged like the printer#%d", n), c.pos(ifs.Cond), "isEmptyStmt(stmt.Else)", "the inner if counts as having an else whenever stmt.Else is not nil, but the printer drops an empty else (`else;`, `else{}`): `if(a){if(b)return 1;else;}else return 2;return 3` → `if(a)if(b)return 1;else return 2;return 3`, where f(true,false) returns 2 instead of 3")
			return true
		})
		return true
	})
	c.R.Floor(rule, "tests of the else branch in endsInIf", n, 1)
}

// R01.27: two strict comparisons fold into `x==null` only when they name both constants.
func (c *Ctx) r0127(pk *packages.Package) {
	const rule = "R01.27"
	c.R.Rule(rule, "`x===null||x===undefined` is `x==null`; so is any pair in which one comparison is loose. But `x===null||x===null` is not: it is false for undefined. js.isUndefinedOrNullVar accepts a pair of comparisons of one variable with null/undefined; with both operators strict it may only succeed when the two constants differ. Stipulating that neither operator is the loose one (`left.Op == eqEqOp` and `right.Op == eqEqOp` false), every path to the successful return of the pair branch passes the true outcome of an inequality between two boolean values (which constant the left side names, which the right)")
	info := pk.TypesInfo
	fd := c.fn(rule, pk, "isUndefinedOrNullVar")
	if fd == nil {
		return
	}
	g := c.graph(pk, fd)
	isBoolExpr := func(e ast.Expr) bool {
		t := info.TypeOf(e)
		if t == nil {
			return false
		}
		bt, ok := t.Underlying().(*types.Basic)
		return ok && bt.Info()&types.IsBoolean != 0
	}
	differ := func(q *flow.Node) bool {
		if q.Of == nil || q.Of.Kind != flow.KCond {
			return false
		}
		be, ok := ast.Unparen(q.Of.Expr).(*ast.BinaryExpr)
		if !ok || !isBoolExpr(be.X) || !isBoolExpr(be.Y) {
			return false
		}
		return be.Op == token.NEQ && q.Kind == flow.KTrue || be.Op == token.EQL && q.Kind == flow.KFalse
	}
	n := 0
	for _, y := range g.Nodes {
		rs := retStmt(y)
		if rs == nil || len(rs.Results) != 3 || nospace(str(rs.Results[2])) != "true" {
			continue
		}
		inPair := false
		for _, f := range g.DomFacts(y) {
			if f.Value && f.Test.Kind == flow.KCond {
				if cs := nospace(str(f.Test.Expr)); strings.Contains(cs, "leftVar") && strings.Contains(cs, "rightVar") {
					inPair = true
				}
			}
		}
		if !inPair {
			continue
		}
		n++
		y := y
		p := g.Path(flow.Search{From: []*flow.Node{g.Entry}, IncludeFrom: true, Goal: func(q *flow.Node) bool { return q == y }, Avoid: differ,
			AssumeRaw: map[string]bool{"left.Op == eqEqOp": false, "right.Op == eqEqOp": false, "eqEqOp == left.Op": false, "eqEqOp == right.Op": false}})
		c.R.Check(p == nil, rule, fmt.Sprintf("js.isUndefinedOrNullVar/pair of strict comparisons#%d names both constants", n), c.pos(rs), "with both operators strict the two constants are required to differ", "two strict comparisons of one variable with null/undefined are accepted without asking whether they name the same constant: `a===null||a===null` → `a==null`, which is true for undefined where the source is false (and `a!==null&&a!==null` → `a!=null`)")
	}
	c.R.Floor(rule, "successful returns of the pair branch", n, 1)
}

// R01.28: a call of a builtin is replaced by operators only where that is an identity.
func (c *Ctx) r0128(pk *packages.Package) {
	const rule = "R01.28"
	c.R.Rule(rule, "the printer replaces calls of global builtins by shorter operator expressions. That keeps the program's meaning only where the two agree for every argument: `Math.pow(a,b)` and `a**b` do; `Number(<literal>)` is folded for literals only. `Math.trunc(x)` → `x|0` does not (ToInt32: `Math.trunc(Date.now())` → a negative number, anything ≥ 2^31 wraps), `Math.abs(x)` → `x<0?-x:x` does not (-0, strings, objects: `Math.abs(\"-1\")` is 1, `\"-1\"<0?-\"-1\":\"-1\"` is 1 but `Math.abs(\"a\")` is NaN against \"a\"), `isNaN(x)` → `x!=x` does not (`isNaN(\"a\")` is true, `\"a\"!=\"a\"` false). In jsMinifier.minifyExpr, case *js.CallExpr, the names a callee is compared with — `bytes.Equal(v.Data, <name>Bytes)` for globals, `bytes.Equal(dot.Y.Data, []byte(\"<name>\"))` for methods of Math — are each judged: pow and Number are identities as used; a name not listed here is undecided")
	info := pk.TypesInfo
	fd := c.fn(rule, pk, "jsMinifier.minifyExpr")
	if fd == nil {
		return
	}
	verdict := map[string]string{
		"Math.pow":   "",
		"Number":     "",
		"Math":       "", // the receiver test itself
		"undefined":  "",
		"Math.trunc": "`Math.trunc(x)` → `x|0` truncates to 32 bits: Math.trunc(1e10) is 10000000000, 1e10|0 is 1410065408",
		"Math.abs":   "`Math.abs(x)` → `x<0?-x:x` differs for -0 (0 against -0), for strings and objects (Math.abs(\"a\") is NaN, the conditional yields \"a\")",
		"isNaN":      "`isNaN(x)` → `x!=x` skips the ToNumber conversion: isNaN(\"a\") and isNaN(undefined) are true, \"a\"!=\"a\" and undefined!=undefined are false",
	}
	n := 0
	ast.Inspect(fd.Body, func(x ast.Node) bool {
		cc, ok := x.(*ast.CaseClause)
		if !ok || len(cc.List) != 1 || !strings.HasSuffix(nospace(str(cc.List[0])), "js.CallExpr") {
			return true
		}
		ast.Inspect(cc, func(z ast.Node) bool {
			ce, ok := z.(*ast.CallExpr)
			if !ok || calleeName(info, ce) != "bytes.Equal" || len(ce.Args) != 2 {
				return true
			}
			lhs := nospace(str(ce.Args[0]))
			name := ""
			switch {
			case strings.HasSuffix(lhs, "dot.Y.Data"):
				if conv, ok := ast.Unparen(ce.Args[1]).(*ast.CallExpr); ok && len(conv.Args) == 1 {
					if tv, ok := info.Types[conv.Args[0]]; ok && tv.Value != nil {
						name = "Math." + constant.StringVal(tv.Value)
					}
				}
			case strings.HasSuffix(lhs, "v.Data"):
				if id, ok := ast.Unparen(ce.Args[1]).(*ast.Ident); ok {
					if val, _, err := c.Ev.PackageVar(pk, id.Name); err == nil {
						if b, ok := val.([]byte); ok {
							name = string(b)
						}
					}
				}
			default:
				return true
			}
			n++
			if name == "" {
				c.R.Unres(rule, fmt.Sprintf("js.jsMinifier.minifyExpr/case *js.CallExpr/callee compared with %s", nospace(str(ce.Args[1]))), c.pos(ce), "the name cannot be evaluated")
				return true
			}
			why, known := verdict[name]
			construct := "js.jsMinifier.minifyExpr/case *js.CallExpr/" + name + " replaced only by an identity"
			switch {
			case !known:
				c.R.Unres(rule, construct, c.pos(ce), "a rewrite of calls of "+name+" that this rule has no verdict on: whether the replacement agrees with the builtin for every argument has to be judged and recorded here")
			case why != "":
				c.R.Bad(rule, construct, c.pos(ce), why)
			default:
				c.R.OK(rule, construct, c.pos(ce), "identity as used")
			}
			return true
		})
		return true
	})
	c.R.Floor(rule, "callee names compared in the CallExpr printer", n, 5)
}

// R09.18: operands of a constructed binary expression are grouped at the levels of its operator.
func (c *Ctx) r0918(pk *packages.Package) {
	const rule = "R09.18"
	c.R.Rule(rule, "the rewrites of package js build new binary expressions (`a==null?b:a` → `a??b`, `c?x:!0` → `!c||x` …) and wrap the operands with groupExpr(e, level): e gets parentheses when its own level is below `level`. For a composite literal js.BinaryExpr{T, groupExpr(x, L), groupExpr(y, R)} with a constant operator T, L is binaryLeftPrecMap[T] and R is binaryRightPrecMap[T] — written as that look-up, or a constant that is not below the table's value. A lower level leaves out parentheses the grammar needs: `a??(b||c)` printed as `a??b||c` is a syntax error (?? does not mix with || and && without parentheses), `(a,b)||c` as `a,b||c` changes the meaning")
	info := pk.TypesInfo
	tables := map[string]map[string]int64{}
	for _, tn := range []string{"binaryLeftPrecMap", "binaryRightPrecMap"} {
		val, _, err := c.Ev.PackageVar(pk, tn)
		m, ok := val.(*eval.Map)
		if err != nil || !ok {
			c.R.Unres(rule, "js."+tn, "-", "precedence table cannot be evaluated")
			return
		}
		tables[tn] = map[string]int64{}
		for _, e := range m.Entries {
			k, ok1 := e.Key.(int64)
			v, ok2 := e.Value.(int64)
			if ok1 && ok2 {
				tables[tn][fmt.Sprint(k)] = v
			}
		}
	}
	constVal := func(e ast.Expr) (string, bool) {
		tv, ok := info.Types[e]
		if !ok || tv.Value == nil {
			return "", false
		}
		return tv.Value.ExactString(), true
	}
	n := 0
	for _, fd := range load.FuncDecls(pk) {
		if fd.Body == nil {
			continue
		}
		seen := 0
		ast.Inspect(fd.Body, func(x ast.Node) bool {
			cl, ok := x.(*ast.CompositeLit)
			if !ok || cl.Type == nil || namedTypeName(info.TypeOf(cl.Type)) != pjs+".BinaryExpr" || len(cl.Elts) != 3 {
				return true
			}
			var elts [3]ast.Expr
			for i, e := range cl.Elts {
				if kv, ok := e.(*ast.KeyValueExpr); ok {
					switch str(kv.Key) {
					case "Op":
						elts[0] = kv.Value
					case "X":
						elts[1] = kv.Value
					case "Y":
						elts[2] = kv.Value
					}
				} else {
					elts[i] = e
				}
			}
			if elts[0] == nil {
				return true
			}
			opv, ok := constVal(elts[0])
			if !ok {
				return true
			}
			for side := 1; side <= 2; side++ {
				tn := map[int]string{1: "binaryLeftPrecMap", 2: "binaryRightPrecMap"}[side]
				call, ok := ast.Unparen(elts[side]).(*ast.CallExpr)
				if !ok || !strings.HasSuffix(calleeName(info, call), "/js.groupExpr") || len(call.Args) != 2 {
					continue
				}
				need, has := tables[tn][opv]
				if !has {
					continue
				}
				n++
				seen++
				lvl := ast.Unparen(call.Args[1])
				good := false
				how := ""
				if ie, ok := lvl.(*ast.IndexExpr); ok {
					if kv, isK := constVal(ie.Index); isK && str(ie.X) == tn && kv == opv {
						good, how = true, "the table look-up for the operator"
					} else if isK {
						// a look-up for another operator or in the other table: compare the values
						if tv, ok := tables[str(ie.X)][kv]; ok {
							good, how = tv >= need, fmt.Sprintf("%s gives %d, the operator needs %d", str(lvl), tv, need)
						}
					}
				} else if v, isK := intConst(info, lvl); isK {
					good, how = v >= need, fmt.Sprintf("level %s = %d, the operator needs %d", str(lvl), v, need)
				} else {
					continue // a level computed elsewhere (a parameter): not judged
				}
				sideName := map[int]string{1: "left", 2: "right"}[side]
				c.R.Check(good, rule, fmt.Sprintf("js.%s/%s operand of a constructed %s grouped at the operator's level#%d", load.FuncName(fd), sideName, str(elts[0]), seen), c.pos(call), how, fmt.Sprintf("the %s operand of the new %s expression is grouped at %s, below what %s[%s] asks for: an operand between the two levels is printed without the parentheses it needs (`a==null?b||c:a` → `a??b||c`, a syntax error)", sideName, str(elts[0]), str(lvl), tn, str(elts[0])))
			}
			return true
		})
	}
	c.R.Floor(rule, "grouped operands of constructed binary expressions", n, 8)
}

// R09.20: no string literal is printed with a live `</script`.
func (c *Ctx) r0920(pk *packages.Package, rule string) {
	c.R.Rule(rule, "inside an HTML script element the text `</script` — in any case, followed by white space, `/` or `>` — ends the element, so a JavaScript string must never be printed with it. Authors write `<\\/script>` or `\\x3C/script>`; js.replaceEscapes, which strips unnecessary escapes and decodes `\\x..` / `\\u....`, has to leave those alone and to add the backslash where it is missing. In replaceEscapes (and the helpers it calls) (a) the end tag is recognised by a case-folding comparison of the six letters `script` (bytes.EqualFold / parse.EqualFold) in a function that also looks at the `/`, not by comparing with a longer fixed string such as `/script>` — `<\\/script >` and `<\\/SCRIPT>` lost their backslash; (b) the branches that decode a `\\x`, a `\\u` and a legacy octal escape each consult that recogniser, so that an escape that would produce the `<` of `</script` stays an escape; (d) what the decoding branches consult also recognises `!--`: after `<!--` a `<script` makes the HTML tokenizer skip the next `</script>`; (e) minifyString, which chooses the quotes before replaceEscapes runs, clears its template-literal flag under a test that consults the recogniser — an octal escape that is kept may not end up in a template literal; (c) minifyRegExp, which strips unnecessary backslashes from regular expression literals, consults it too (`[<\\/script>]`)")
	info := pk.TypesInfo
	fd := c.fn(rule, pk, "replaceEscapes")
	if fd == nil {
		return
	}
	// recognisers: functions of the package whose body folds case over the constant "script"
	var isRecogniserD func(d *ast.FuncDecl, depth int) bool
	isRecogniser := func(d *ast.FuncDecl) bool { return isRecogniserD(d, 0) }
	isRecogniserD = func(d *ast.FuncDecl, depth int) bool {
		if d == nil || d.Body == nil {
			return false
		}
		hit := false
		ast.Inspect(d.Body, func(z ast.Node) bool {
			ce, ok := z.(*ast.CallExpr)
			if !ok {
				return true
			}
			cn := calleeName(info, ce)
			if fo, _ := callee(info, ce).(*types.Func); fo != nil && fo.Pkg() == pk.Types && depth < 2 && isRecogniserD(load.Func(pk, fo.Name()), depth+1) {
				hit = true // a wrapper of the recogniser
			}
			if (cn == "bytes.EqualFold" || cn == load.ParseMod+".EqualFold") && len(ce.Args) == 2 {
				for _, a := range ce.Args {
					if conv, ok := ast.Unparen(a).(*ast.CallExpr); ok && len(conv.Args) == 1 {
						if tv, ok := info.Types[conv.Args[0]]; ok && tv.Value != nil && strings.EqualFold(constant.StringVal(tv.Value), "script") {
							// the recogniser of the END tag: the function that folds the name also looks at the `/` (a
							// search for `<script`, the start tag, folds the name as well)
							if chars, _, _ := c.constsIn(pk, d.Body); chars['/'] {
								hit = true
							}
						}
					}
				}
			}
			return true
		})
		return hit
	}
	callsRecogniser := func(n ast.Node) bool {
		hit := false
		ast.Inspect(n, func(z ast.Node) bool {
			ce, ok := z.(*ast.CallExpr)
			if !ok {
				return true
			}
			if fo, _ := callee(info, ce).(*types.Func); fo != nil && fo.Pkg() == pk.Types && isRecogniser(load.Func(pk, fo.Name())) {
				hit = true
			}
			return true
		})
		return hit
	}
	// (a) fixed strings that contain "script" compared in replaceEscapes
	fixed := 0
	ast.Inspect(fd.Body, func(z ast.Node) bool {
		ce, ok := z.(*ast.CallExpr)
		if !ok || calleeName(info, ce) != "bytes.Equal" {
			return true
		}
		for _, a := range ce.Args {
			if conv, ok := ast.Unparen(a).(*ast.CallExpr); ok && len(conv.Args) == 1 {
				if tv, ok := info.Types[conv.Args[0]]; ok && tv.Value != nil && strings.Contains(strings.ToLower(constant.StringVal(tv.Value)), "script") {
					fixed++
					c.R.Bad(rule, fmt.Sprintf("js.replaceEscapes/end tag recognised whatever its case and tail#%d", fixed), c.pos(ce), "the end of a script element is looked for with bytes.Equal(…, "+str(conv.Args[0])+"): `</script >`, `</SCRIPT>`, `</script/>` end a script element just as well and are not recognised — `a=\"<\\/script >\"` is printed as `a=\"</script >\"`, which cuts the script element short")
				}
			}
		}
		return true
	})
	// (f) the same for every other function of the package: the printer separates `<` from a regular expression literal that
	// starts like the end tag (`a< /script /.test(b)`)
	for _, ofd := range load.FuncDecls(pk) {
		if ofd == fd || ofd.Body == nil {
			continue
		}
		k := 0
		ast.Inspect(ofd.Body, func(z ast.Node) bool {
			ce, ok := z.(*ast.CallExpr)
			if !ok {
				return true
			}
			switch calleeName(info, ce) {
			case "bytes.Equal", "bytes.HasPrefix", "bytes.HasSuffix", "bytes.Contains", "bytes.Index", "bytes.LastIndex":
			default:
				return true
			}
			for _, a := range ce.Args {
				_, strs, _ := c.constsIn(pk, a)
				for sv := range strs {
					if strings.Contains(strings.ToLower(sv), "/script") {
						k++
						c.R.Bad(rule, fmt.Sprintf("js.%s/end tag recognised whatever its case and tail#%d", load.FuncName(ofd), k), c.pos(ce), "the end of a script element is looked for with "+str(ce.Fun)+"(…, "+strconv.Quote(sv)+"): `</script >`, `</SCRIPT>`, `</script/>` end a script element just as well — `a< /script /.test(b)` is printed as `a</script /.test(b)`, which cuts the script element short")
					}
				}
			}
			return true
		})
	}
	rec := callsRecogniser(fd.Body)
	if fixed == 0 {
		c.R.Check(rec, rule, "js.replaceEscapes/end tag recognised whatever its case and tail#1", c.pos(fd), "through a case-folding comparison of `script`", "replaceEscapes does not look for `</script` at all: an unnecessary escape `<\\/script>` is stripped and the string ends the script element")
	}
	// (b) the decoding branches
	for _, br := range []struct{ lit, name string }{{"'x'", "\\x"}, {"'u'", "\\u"}, {"'0'", "octal"}, {"'<'", "raw <"}} {
		var branch *ast.IfStmt
		ast.Inspect(fd.Body, func(z ast.Node) bool {
			ifs, ok := z.(*ast.IfStmt)
			if !ok || branch != nil {
				return true
			}
			cs := nospace(str(ifs.Cond))
			if br.name != "octal" && (strings.HasPrefix(cs, "c=="+br.lit) || strings.Contains(cs, "&&c=="+br.lit) || strings.HasPrefix(cs, br.lit+"==c")) {
				branch = ifs
			}
			if br.name == "octal" && (cs == "'0'<=c&&c<='7'" || cs == "c>='0'&&c<='7'") {
				branch = ifs
			}
			return true
		})
		construct := "js.replaceEscapes/" + br.name + " escape not decoded into the `<` of an end tag"
		if branch == nil {
			c.R.Unres(rule, construct, c.pos(fd), "the branch that decodes "+br.name+" escapes was not found")
			continue
		}
		guard := callsRecogniser(branch.Cond) || callsRecogniser(branch.Body)
		c.R.Check(guard, rule, construct, c.pos(branch), "the branch consults the end tag recogniser", "a "+br.name+" escape is decoded without looking at what follows: `a=\"\\x3C/script>\"`, `a=\"\\74/script>\"` (written that way to keep the string out of the HTML parser's sight) is printed as `a=\"</script>\"`")
		// (d) … and what it consults also knows `<!--`
		comment := false
		for _, part := range []ast.Node{branch.Cond, branch.Body} {
			ast.Inspect(part, func(z ast.Node) bool {
				ce, ok := z.(*ast.CallExpr)
				if !ok {
					return true
				}
				if fo, _ := callee(info, ce).(*types.Func); fo != nil && fo.Pkg() == pk.Types {
					if d := load.Func(pk, fo.Name()); d != nil && d.Body != nil && isRecogniser(d) {
						chars, strs, _ := c.constsIn(pk, d.Body)
						if chars['!'] && chars['-'] {
							comment = true
						}
						for t := range strs {
							if strings.Contains(t, "!--") {
								comment = true
							}
						}
					}
				}
				return true
			})
		}
		c.R.Check(comment, rule, "js.replaceEscapes/"+br.name+" escape not decoded into the `<` of `<!--`", c.pos(branch), "the recogniser the branch consults compares with `!--`", "a "+br.name+" escape is decoded into a `<` in front of `!--`: `x='\\x3C!--\\x3Cscript>'` is printed as `x=\"<!--<script>\"`; inside a script element that puts the HTML tokenizer into the double-escaped state, in which the next `</script>` does not end the element")
	}
	// (e) a kept octal escape excludes the template literal
	if md := load.Func(pk, "minifyString"); md == nil || md.Body == nil {
		c.R.Unres(rule, "js.minifyString/kept octal escape excludes a template literal", c.pos(fd), "minifyString not found")
	} else {
		var flag types.Object
		if md.Type.Params != nil {
			for _, f := range md.Type.Params.List {
				for _, nm := range f.Names {
					if b, ok := info.TypeOf(f.Type).Underlying().(*types.Basic); ok && b.Kind() == types.Bool {
						flag = info.Defs[nm]
					}
				}
			}
		}
		good := false
		ast.Inspect(md.Body, func(z ast.Node) bool {
			ifs, ok := z.(*ast.IfStmt)
			if !ok || !callsRecogniser(ifs.Cond) {
				return true
			}
			for _, st := range ifs.Body.List {
				if as, ok := st.(*ast.AssignStmt); ok && len(as.Lhs) == 1 && len(as.Rhs) == 1 && nospace(str(as.Rhs[0])) == "false" {
					if id, ok := as.Lhs[0].(*ast.Ident); ok && flag != nil && info.Uses[id] == flag {
						good = true
					}
				}
			}
			return true
		})
		c.R.Check(good, rule, "js.minifyString/kept octal escape excludes a template literal", c.pos(md), "the template flag is cleared under a test that consults the end tag recogniser", "an octal escape that replaceEscapes keeps (`\\74` in front of `/script`) ends up in a template literal when the string has enough newlines: `x=\"\\n\\n\\74/script>\"` becomes a template literal with `\\74`, which is a SyntaxError (octal escapes are not allowed there)")
	}
	// (c) the routine that strips backslashes from regular expressions
	if rd := load.Func(pk, "minifyRegExp"); rd == nil || rd.Body == nil {
		c.R.Unres(rule, "js.minifyRegExp/escaped slash of an end tag kept", c.pos(fd), "minifyRegExp not found")
	} else {
		c.R.Check(callsRecogniser(rd.Body), rule, "js.minifyRegExp/escaped slash of an end tag kept", c.pos(rd), "the routine consults the end tag recogniser", "minifyRegExp strips the backslash of `\\/` inside a character class without looking at what surrounds it: `x=/[<\\/script>]/` is printed as `x=/[</script>]/`, which ends the script element")

	}
}

// R01.57: an operand that De Morgan's rewrite negates is grouped whenever its level is below the unary level.
func (c *Ctx) r0157(pk *packages.Package) {
	const rule = "R01.57"
	c.R.Rule(rule, "js.optimizeUnaryExpr turns `!(a||b)` into `!a&&!b`: each operand gets a `!` in front, which binds tighter than every binary operator, so an operand whose own level is below js.OpUnary needs parentheses (`!(a<b||c||d)`: the left operand `a<b||c` must become `!(a<b||c)`, not `!a<b||c`). The condition under which the function decides to add the group around an operand — the if statement that sets the flag guarding `binary.X = &js.GroupExpr{…}` — is evaluated for every level p of the operand with T[op] <= p < js.OpUnary, for op in {||, &&} and T the precedence table the condition consults (evaluated statically), with the function's boolean locals false: it holds for all of them. Below T[op] the operand is a GroupExpr already")
	info := pk.TypesInfo
	fd := c.fn(rule, pk, "optimizeUnaryExpr")
	if fd == nil {
		return
	}
	dep := c.P.Dep(pjs)
	constOf := func(name string) (int64, bool) {
		if dep == nil {
			return 0, false
		}
		k, ok := dep.Types.Scope().Lookup(name).(*types.Const)
		if !ok {
			return 0, false
		}
		return constant.Int64Val(k.Val())
	}
	unary, ok1 := constOf("OpUnary")
	orTok, ok2 := constOf("OrToken")
	andTok, ok3 := constOf("AndToken")
	if !ok1 || !ok2 || !ok3 {
		c.R.Unres(rule, "js.optimizeUnaryExpr/levels", c.pos(fd), "js.OpUnary / js.OrToken / js.AndToken not found")
		return
	}
	// the flags that guard the creation of a group: if V { S = &js.GroupExpr{…} }
	n := 0
	ast.Inspect(fd.Body, func(z ast.Node) bool {
		ifs, ok := z.(*ast.IfStmt)
		if !ok || len(ifs.Body.List) != 1 {
			return true
		}
		flag, ok := ast.Unparen(ifs.Cond).(*ast.Ident)
		if !ok {
			return true
		}
		as, ok := ifs.Body.List[0].(*ast.AssignStmt)
		if !ok || len(as.Rhs) != 1 || !strings.Contains(nospace(str(as.Rhs[0])), "js.GroupExpr{") {
			return true
		}
		slot := nospace(str(as.Lhs[0]))
		fobj := info.Uses[flag]
		// the statement that sets the flag
		ast.Inspect(fd.Body, func(y ast.Node) bool {
			set, ok := y.(*ast.IfStmt)
			if !ok {
				return true
			}
			sets := false
			for _, st := range set.Body.List {
				if a2, ok := st.(*ast.AssignStmt); ok && len(a2.Lhs) == 1 && len(a2.Rhs) == 1 && nospace(str(a2.Rhs[0])) == "true" {
					if id, ok := a2.Lhs[0].(*ast.Ident); ok && info.Uses[id] == fobj {
						sets = true
					}
				}
			}
			if !sets {
				return true
			}
			n++
			construct := fmt.Sprintf("js.optimizeUnaryExpr/negated operand %s grouped below the unary level", slot)
			// abstract the condition: table look-up -> L, exprPrec(...) -> p, boolean locals -> false
			var tableName string
			var lookups, precs, bools []string
			ast.Inspect(set.Cond, func(q ast.Node) bool {
				switch e := q.(type) {
				case *ast.IndexExpr:
					if id, ok := ast.Unparen(e.X).(*ast.Ident); ok {
						if v, isVar := info.Uses[id].(*types.Var); isVar && v.Parent() == pk.Types.Scope() {
							tableName = id.Name
							lookups = append(lookups, nospace(str(e)))
							return false
						}
					}
				case *ast.CallExpr:
					if strings.HasSuffix(calleeName(info, e), "/js.exprPrec") {
						precs = append(precs, nospace(str(e)))
						return false
					}
				case *ast.Ident:
					if v, isVar := info.Uses[e].(*types.Var); isVar && v.Parent() != pk.Types.Scope() && isBoolType(v.Type()) {
						bools = append(bools, e.Name)
					}
				}
				return true
			})
			if tableName == "" || len(precs) == 0 {
				c.R.Unres(rule, construct, c.pos(set), "the condition does not have the shape table[op] … exprPrec(operand): "+str(set.Cond))
				return true
			}
			val, _, err := c.Ev.PackageVar(pk, tableName)
			m, isMap := val.(*eval.Map)
			if err != nil || !isMap {
				c.R.Unres(rule, construct, c.pos(set), "table "+tableName+" cannot be evaluated")
				return true
			}
			var missing []string
			for _, op := range []struct {
				name string
				tok  int64
			}{{"||", orTok}, {"&&", andTok}} {
				lv, has := m.Get(op.tok)
				L, isInt := lv.(int64)
				if !has || !isInt {
					c.R.Unres(rule, construct, c.pos(set), tableName+" has no entry for "+op.name)
					return true
				}
				for p := L; p < unary; p++ {
					env := map[string]int64{}
					for _, l := range lookups {
						env[l] = L
					}
					for _, pe := range precs {
						env[pe] = p
					}
					for _, b := range bools {
						env[b] = 0
					}
					v, ok := evalIntExpr(info, set.Cond, env)
					if !ok {
						c.R.Unres(rule, construct, c.pos(set), "condition cannot be evaluated: "+str(set.Cond))
						return true
					}
					if v == 0 {
						missing = append(missing, fmt.Sprintf("%s with an operand of level %d", op.name, p))
					}
				}
			}
			c.R.Check(len(missing) == 0, rule, construct, c.pos(set), "holds for every operand level from "+tableName+"[op] up to js.OpUnary-1, for || and &&",
				"no group is added for "+strings.Join(missing, "; ")+": the `!` then binds to the first operand of the operand only — `x=!(a<b||c||d)` → `x=!a<b||c&&!d`")
			return true
		})
		return true
	})
	c.R.Floor(rule, "group decisions of optimizeUnaryExpr", n, 2)
}
