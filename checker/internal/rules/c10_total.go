package rules

import (
	"fmt"
	"go/ast"
	"go/token"
	"go/types"
	"golang.org/x/tools/go/packages"
	"strings"

	"golang.org/x/tools/go/ssa"

	"verif/checker/internal/flow"
	"verif/checker/internal/load"
)

func init() {
	mutant(&Mutant{Name: "c10-reference-end-searched-in-the-whole-rest", Property: "C10", File: "html/html.go",
		Old: "if n := bytes.IndexByte(b[i:end], ';'); 1 < n {", New: "if n := bytes.IndexByte(b[i:], ';'); 1 < n && n < 34 {",
		Rule: "R10.21", Construct: "html.decodeAttrVal/search from the cursor"})
	mutant(&Mutant{Name: "c10-pipe-left-open-after-an-early-return", Property: "C10", File: "minify.go",
		Old: "\t\tdefer z.wg.Done()\n\t\tdefer pr.Close()\n\t\tif err := m.Minify(mediatype, w, pr); err != nil {\n\t\t\tz.err = err\n\t\t}", New: "\t\tdefer z.wg.Done()\n\t\tif err := m.Minify(mediatype, w, pr); err != nil {\n\t\t\tz.err = err\n\t\t\tpr.CloseWithError(err)\n\t\t}",
		Rule: "R10.20", Construct: "minify.M.Writer/goroutine"})
	mutant(&Mutant{Name: "c10-whitespace-lookahead-unbounded", Property: "C10", File: "html/html.go",
		Old: "\t\t\t\t\t\tif maxWhitespaceLookahead < i {\n", New: "\t\t\t\t\t\tif maxWhitespaceLookahead < 0 {\n",
		Rule: "R10.19", Construct: "case html.TextToken/look-ahead loop#1"})
	mutant(&Mutant{Name: "c10-depth-from-the-document", Property: "C10", File: "html/html.go",
		Old: "\t\t\t\t\tparams[\"nesting\"] = strconv.Itoa(nesting + 1) // the content may be HTML again: iframe, or a type attribute that says so\n", New: "\t\t\t\t\tif _, ok := params[\"nesting\"]; !ok {\n\t\t\t\t\t\tparams[\"nesting\"] = strconv.Itoa(nesting + 1)\n\t\t\t\t\t}\n",
		Rule: "R10.14", Construct: "passes the depth on"})
	mutant(&Mutant{Name: "c10-runelen-unchecked", Property: "C10", File: "js/util.go",
		Old: "\t\t\t\t\tif m == -1 {\n\t\t\t\t\t\ti++\n\t\t\t\t\t\tcontinue\n\t\t\t\t\t} else if num < 256 && quote == byte(num) {", New: "\t\t\t\t\tif num < 256 && quote == byte(num) {",
		Rule: "R10.18", Construct: "is tested before it is used as a length"})
	register(&Property{
		ID:    "C10",
		Level: "other",
		Explain: "Absence of panics, bounded recursion and linear time need value reasoning and are not decided. (R10.4) a lower-bound dataflow reports indices that the function's own arithmetic drives below zero from a range key or search result; (R10.5) a remembered position is reassigned after the element it designates was deleted. Further clauses are structural and decided: (R10.1) the byte/string convenience entry points return, on error, their own parameter, and that parameter's backing array was never handed to a minifier through a Bytes()-exposing reader " +
			"(parse.NewInput adopts that array and every minifier rewrites its input in place) — SSA provenance of the reader argument; (R10.2) each documented resource limit is in force: the limit comparison exists, its exceeded outcome leaves the function without doing work, and the guarded (recursive / quadratic) region is dominated by the within-limit outcome; the CSS nesting counter is incremented before and decremented after the recursive region on all paths.",
		Run: runC10,
	})
	mutant(&Mutant{Name: "c10-viewbox-cursor-not-compared-with-length", Property: "C10", File: "svg/svg.go",
		Old: "if j >= len(val) || val[j] != ' ' && val[j] != ',' {", New: "if val[j] != ' ' && val[j] != ',' {",
		Rule: "R10.11", Construct: "val[j]"})
	mutant(&Mutant{Name: "c10-local-string-stripped-without-length-test", Property: "C10", File: "css/css.go",
		Old: "if fun == Local && 1 < len(data) && (data[0] == '\\'' || data[0] == '\"') {", New: "if fun == Local && (data[0] == '\\'' || data[0] == '\"') {",
		Rule: "R10.9", Construct: "has both delimiters"})
	mutant(&Mutant{Name: "c10-bytes-in-place", Property: "C10", File: "minify.go",
		Old: "buffer.NewReader(in)); err != nil {\n\t\treturn v, err", New: "buffer.NewReader(v)); err != nil {\n\t\t_ = in\n\t\treturn v, err",
		Rule: "R10.1", Construct: "M.Bytes"})
	mutant(&Mutant{Name: "c10-string-returns-partial", Property: "C10", File: "minify.go",
		Old: "buffer.NewReader([]byte(v))); err != nil {\n\t\treturn v, err", New: "buffer.NewReader([]byte(v))); err != nil {\n\t\treturn string(out.Bytes()), err",
		Rule: "R10.1", Construct: "M.String"})
	mutant(&Mutant{Name: "c10-data-uri-guard-off-by-one", Property: "C10", File: "css/css.go",
		Old: "if 4 < len(uri) && parse.EqualFold(uri[:5]", New: "if 3 < len(uri) && parse.EqualFold(uri[:5]",
		Rule: "R10.3", Construct: "uri[:5]"})
	mutant(&Mutant{Name: "c10-font-comma-index-from-zero", Property: "C10", File: "css/css.go",
		Old: "\t\t\tfor j, value := range values[2:] {\n\t\t\t\tif value.TokenType == css.CommaToken {\n\t\t\t\t\ti = 2 + j - 1", New: "\t\t\tfor j, value := range values {\n\t\t\t\tif value.TokenType == css.CommaToken {\n\t\t\t\t\ti = j - 1",
		Rule: "R10.4", Construct: "minifyProperty/indices"})
	mutant(&Mutant{Name: "c10-index-search-result-unchecked", Property: "C10", File: "svg/svg.go",
		Old: "if colon := bytes.IndexByte(t.Text, ':'); colon != -1 {", New: "if colon := bytes.IndexByte(t.Text, ':'); colon != 0 {",
		Rule: "R10.4", Construct: "indices stay non-negative"})
	mutant(&Mutant{Name: "c10-padding-box-position-stale", Property: "C10", File: "css/css.go",
		Old: "\t\t\t\t\t\t\tiPaddingBox = -1 // both are removed, the position no longer refers to padding-box\n", New: "",
		Rule: "R10.5", Construct: "iPaddingBox after the deletion"})
	mutant(&Mutant{Name: "c10-command-output-file-left-behind", Property: "C10", File: "minify.go",
		Old: "\t\t\tdefer os.Remove(out.Name())\n", New: "",
		Rule: "R10.13", Construct: "temporary file out removed before returning"})
	mutant(&Mutant{Name: "c10-iframe-nesting-unbounded", Property: "C10", File: "html/html.go",
		Old: "(rawTagHash == Style || rawTagHash == Script || rawTagHash == Iframe) && nesting < maxIframeNesting {", New: "rawTagHash == Style || rawTagHash == Script || rawTagHash == Iframe && nesting < maxIframeNesting {",
		Rule: "R10.14", Construct: "is depth-bounded"})
	mutant(&Mutant{Name: "c10-iframe-nesting-not-passed-on", Property: "C10", File: "html/html.go",
		Old: "strconv.Itoa(nesting + 1)", New: "strconv.Itoa(nesting)",
		Rule: "R10.14", Construct: "passes the depth on"})
	mutant(&Mutant{Name: "c10-css-function-nesting-unbounded", Property: "C10", File: "css/css.go",
		Old: "\tif 100 < depth {\n\t\treturn nil, 0 // too deeply nested\n\t}\n", New: "",
		Rule: "R10.12", Construct: "parseFunction/recursion depth bounded"})
	mutant(&Mutant{Name: "c10-mediatype-lowercase-span-not-consumed", Property: "C10", File: "common.go",
		Old: "\t\t\t} else {\n\t\t\t\tlower = i + 1\n\t\t\t}\n", New: "\t\t\t}\n",
		Rule: "R10.6", Construct: "Mediatype"})
	mutant(&Mutant{Name: "c10-padding-box-position-kept-across-layers", Property: "C10", File: "css/css.go",
		Old: "\t\t\tiPaddingBox := -1 // position of background-origin that is padding-box\n", New: "",
		Old2: "\tcase Background:\n\t\tstart := 0\n", New2: "\tcase Background:\n\t\tstart, iPaddingBox := 0, -1\n",
		Rule: "R10.5", Construct: "is reset in every round"})
	mutant(&Mutant{Name: "c10-svg-pi-skip-never-ends", Property: "C10", File: "svg/svg.go",
		Old: "if t := *tb.Shift(); t.TokenType == xml.StartTagClosePIToken || t.TokenType == xml.ErrorToken {", New: "if t := *tb.Shift(); t.TokenType == xml.StartTagClosePIToken {",
		Rule: "R10.8", Construct: "leaves on ErrorToken"})
	mutant(&Mutant{Name: "c10-css-level-not-decremented", Property: "C10", File: "css/css.go",
		Old: "\tc.tokensLevel--\n\treturn values\n}", New: "\treturn values\n}",
		Rule: "R10.2", Construct: "minifyTokens"})
	mutant(&Mutant{Name: "c10-css-limit-after-work", Property: "C10", File: "css/css.go",
		Old: "\tif 100 < c.tokensLevel+1 {\n\t\treturn values\n\t}\n\tc.tokensLevel++\n", New: "\tc.tokensLevel++\n",
		Rule: "R10.2", Construct: "minifyTokens"})
	mutant(&Mutant{Name: "c10-path-limit-removed", Property: "C10", File: "svg/pathdata.go",
		Old: "\tif 100000 < len(b) {\n\t\t// prevent extremely long paths for being too costly (OSS-Fuzz)\n\t\treturn b\n\t}\n", New: "",
		Rule: "R10.2", Construct: "ShortenPathData"})
	mutant(&Mutant{Name: "c10-comma-helper-copies-accumulator", Property: "C10", File: "js/util.go",
		Old: "\tif comma2, ok := y.(*js.CommaExpr); ok {\n\t\tcomma.List = append(comma.List, comma2.List...)\n", New: "\tcomma = &js.CommaExpr{List: append([]js.IExpr{}, comma.List...)}\n\tif comma2, ok := y.(*js.CommaExpr); ok {\n\t\tcomma.List = append(comma.List, comma2.List...)\n",
		Rule: "R10.17", Construct: "commaExpr extends its first argument in place"})
	mutant(&Mutant{Name: "c10-merge-limit-inverted", Property: "C10", File: "js/util.go",
		Old: "\t\t\t\tif 50 < len(strings) {\n\t\t\t\t\treturn // limit recursion\n\t\t\t\t}\n", New: "\t\t\t\tif len(strings) < 0 {\n\t\t\t\t\treturn // limit recursion\n\t\t\t\t}\n",
		Rule: "R10.2", Construct: "mergeBinaryExpr"})
}

func runC10(c *Ctx) {
	c.r101()
	c.r102()
	c.r103()
	c.r104()
	c.r105()
	c.r106()
	c.r108()
	c.r109()
	c.r1011()
	c.r1012()
	c.r1013()
	c.r1014()
	c.r1015()
	c.r128("R10.16")
	c.r1017()
	c.r1018()
	c.r1019()
	// a minifier that returns without reading everything must not leave the writer blocked on the pipe for ever
	c.pipeProtocol("R10.20")
	c.r1021()
	// a look-ahead past the end of the input must not index past the token buffer (clause (e) of the token buffer rules)
	c.alsoUnder(map[string]string{"R03.5": "R10.10", "R05.12": "R10.10", "R06.8": "R10.10"}, func(construct string) bool {
		return strings.Contains(construct, "index clamped") || strings.Contains(construct, "early ends of the read loop")
	}, func() {
		c.tokenBuffer("R03.5", "html")
		c.tokenBuffer("R05.12", "svg")
		c.tokenBuffer("R06.8", "xml")
	})
}

// lenLowerBound derives, from an outcome of a condition, a lower bound of len(<expr>) (by expression text).
func lenLowerBound(info *types.Info, e ast.Expr, outcome bool, konst ...func(ast.Expr) (int64, bool)) (string, int64, bool) {
	b, ok := ast.Unparen(e).(*ast.BinaryExpr)
	if !ok {
		return "", 0, false
	}
	intConst := func(info *types.Info, x ast.Expr) (int64, bool) {
		if k, ok := intConst(info, x); ok {
			return k, true
		}
		for _, f := range konst {
			if k, ok := f(x); ok {
				return k, true
			}
		}
		return 0, false
	}
	lenArg := func(x ast.Expr) (string, bool) {
		call, ok := ast.Unparen(x).(*ast.CallExpr)
		if !ok || str(call.Fun) != "len" || len(call.Args) != 1 {
			return "", false
		}
		return nospace(str(call.Args[0])), true
	}
	op := b.Op
	var v string
	var k int64
	if _, isK := intConst(info, b.X); isK {
		// a constant on the left (possibly len of an immutable package-level slice): fall through to the K op len(v) form
	} else if a, ok := lenArg(b.X); ok {
		c, okc := intConst(info, b.Y)
		if !okc {
			return "", 0, false
		}
		v, k = a, c
	}
	if v != "" {
	} else if a, ok := lenArg(b.Y); ok {
		c, okc := intConst(info, b.X)
		if !okc {
			return "", 0, false
		}
		v, k = a, c
		// K op len  ==> len flip(op) K
		switch op {
		case token.LSS:
			op = token.GTR
		case token.LEQ:
			op = token.GEQ
		case token.GTR:
			op = token.LSS
		case token.GEQ:
			op = token.LEQ
		}
	} else {
		return "", 0, false
	}
	if !outcome {
		switch op {
		case token.LSS:
			op = token.GEQ
		case token.LEQ:
			op = token.GTR
		case token.GTR:
			op = token.LEQ
		case token.GEQ:
			op = token.LSS
		case token.EQL:
			op = token.NEQ
		case token.NEQ:
			op = token.EQL
		}
	}
	switch op {
	case token.GTR:
		return v, k + 1, true
	case token.GEQ:
		return v, k, true
	case token.EQL:
		return v, k, true
	case token.NEQ:
		if k == 0 {
			return v, 1, true
		}
	}
	return "", 0, false
}

// R10.3: where a length belief is stated, constant indexing must be consistent with it.
func (c *Ctx) r103() {
	const rule = "R10.3"
	c.R.Rule(rule, "library packages: for every read v[k] / v[a:b] with constant index on a slice expression v that is dominated by outcomes of length tests on the same expression (K < len(v), len(v) == K, len(v) >= K, …, and their negations) with no assignment to v in between: the strongest lower bound L those tests establish must make the access safe (k < L, b ≤ L). A guard that is off by one (`4 < len(val)` followed by `val[5]`) is a stated belief contradicted by the code and panics on the boundary input. Accesses with no dominating length test are not judged (they rest on lexer invariants)")
	n, judged := 0, 0
	for _, rel := range libPkgs {
		pk := c.P.Pkg(rel)
		if pk == nil {
			continue
		}
		info := pk.TypesInfo
		glen := c.immutableLens(pk)
		konst := func(e ast.Expr) (int64, bool) {
			call, ok := ast.Unparen(e).(*ast.CallExpr)
			if !ok || str(call.Fun) != "len" || len(call.Args) != 1 {
				return 0, false
			}
			id, ok := ast.Unparen(call.Args[0]).(*ast.Ident)
			if !ok {
				return 0, false
			}
			k, ok := glen[info.Uses[id]]
			return k, ok
		}
		for _, fd := range load.FuncDecls(pk) {
			g := c.graph(pk, fd)
			fname := pk.Name + "." + load.FuncName(fd)
			for _, y := range g.Nodes {
				a := y.Ast()
				if a == nil || y.Kind == flow.KSelect {
					continue
				}
				if y.Kind == flow.KRange {
					a = y.Expr
				}
				type access struct {
					v    string
					need int64
					at   ast.Node
					what string
				}
				var accs []access
				ast.Inspect(a, func(x ast.Node) bool {
					if _, isLit := x.(*ast.FuncLit); isLit {
						return false
					}
					switch e := x.(type) {
					case *ast.IndexExpr:
						if _, isSlice := info.TypeOf(e.X).Underlying().(*types.Slice); !isSlice {
							if bt, isB := info.TypeOf(e.X).Underlying().(*types.Basic); !isB || bt.Kind() != types.String {
								return true
							}
						}
						if k, ok := intConst(info, e.Index); ok && k >= 0 {
							accs = append(accs, access{nospace(str(e.X)), k + 1, e, str(e)})
						}
					case *ast.SliceExpr:
						if _, isSlice := info.TypeOf(e.X).Underlying().(*types.Slice); !isSlice {
							return true
						}
						var need int64 = -1
						for _, bnd := range []ast.Expr{e.Low, e.High} {
							if bnd != nil {
								if k, ok := intConst(info, bnd); ok && k > need {
									need = k
								}
							}
						}
						if need > 0 {
							accs = append(accs, access{nospace(str(e.X)), need, e, str(e)})
						}
					}
					return true
				})
				if len(accs) == 0 {
					continue
				}
				facts := g.DomFacts(y)
				for _, ac := range accs {
					n++
					var best int64 = -1
					var bestTest *flow.Node
					for _, f := range facts {
						if f.Test.Kind != flow.KCond {
							continue
						}
						if v, lb, ok := lenLowerBound(info, f.Test.Expr, f.Value, konst); ok && v == ac.v && lb > best {
							// no reassignment of v between the test and the access
							reassigned := false
							for _, z := range g.Nodes {
								if _, isAs := assignsTo(z, func(l ast.Expr) bool { return nospace(str(l)) == ac.v || strings.HasPrefix(ac.v, nospace(str(l))+".") }); isAs && z != y {
									if g.Dominates(f.Test, z) && g.Path(flow.Search{From: []*flow.Node{z}, Goal: func(q *flow.Node) bool { return q == y }, Avoid: func(q *flow.Node) bool { return q == f.Test }}) != nil {
										reassigned = true // (a path that re-passes the test re-establishes the bound)
									}
								}
							}
							if !reassigned {
								best, bestTest = lb, f.Test
							}
						}
					}
					if bestTest == nil {
						continue // no stated belief
					}
					// len(v) ≥ L together with len(v) ≠ L (the false outcome of `len(v) == L`, e.g. the right operand of
					// `len(v) == L || v[L] == c`) gives len(v) ≥ L+1
					for changed := true; changed; {
						changed = false
						for _, f := range facts {
							if f.Test.Kind != flow.KCond {
								continue
							}
							be, ok := ast.Unparen(f.Test.Expr).(*ast.BinaryExpr)
							if !ok || (be.Op != token.EQL && be.Op != token.NEQ) {
								continue
							}
							differs := be.Op == token.EQL && !f.Value || be.Op == token.NEQ && f.Value
							if !differs {
								continue
							}
							for _, pr := range [][2]ast.Expr{{be.X, be.Y}, {be.Y, be.X}} {
								if call, isCall := ast.Unparen(pr[0]).(*ast.CallExpr); isCall && str(call.Fun) == "len" && len(call.Args) == 1 && nospace(str(call.Args[0])) == ac.v {
									k, isK := intConst(info, pr[1])
									if !isK {
										k, isK = konst(pr[1])
									}
									if isK && k == best {
										best++
										changed = true
									}
								}
							}
						}
					}
					// an access inside the condition itself that established a bound is ordered by short-circuit: fine (dominance covers it)
					judged++
					construct := fmt.Sprintf("%s/%s under %s", fname, ac.what, nospace(str(bestTest.Expr)))
					c.R.Check(ac.need <= best, rule, construct, c.pos(ac.at), fmt.Sprintf("needs len ≥ %d, guards give len ≥ %d", ac.need, best),
						fmt.Sprintf("%s needs len(%s) ≥ %d but the dominating length tests only establish len ≥ %d (strongest: %s): on an input of exactly that length the access is out of range and the minifier panics", ac.what, ac.v, ac.need, best, str(bestTest.Expr)))
				}
			}
		}
	}
	c.R.Note("R10.3: %d constant-index accesses seen, %d dominated by a length test and judged", n, judged)
	c.R.Floor(rule, "constant-index accesses under a length guard", judged, 40)
}

// immutableLens: the length of every package-level []byte / string variable of pk that has a constant
// initializer and is never assigned, appended to or sliced-and-stored anywhere in the package.
func (c *Ctx) immutableLens(pk *packages.Package) map[types.Object]int64 {
	out := map[types.Object]int64{}
	info := pk.TypesInfo
	written := map[types.Object]bool{}
	for _, f := range pk.Syntax {
		ast.Inspect(f, func(x ast.Node) bool {
			mark := func(e ast.Expr) {
				for {
					switch t := ast.Unparen(e).(type) {
					case *ast.IndexExpr:
						e = t.X
						continue
					case *ast.SliceExpr:
						e = t.X
						continue
					case *ast.StarExpr:
						e = t.X
						continue
					case *ast.Ident:
						if o := info.Uses[t]; o != nil {
							written[o] = true
						}
					}
					return
				}
			}
			switch s := x.(type) {
			case *ast.AssignStmt:
				for _, l := range s.Lhs {
					mark(l)
				}
			case *ast.IncDecStmt:
				mark(s.X)
			case *ast.UnaryExpr:
				if s.Op == token.AND {
					mark(s.X)
				}
			}
			return true
		})
	}
	scope := pk.Types.Scope()
	for _, name := range scope.Names() {
		v, ok := scope.Lookup(name).(*types.Var)
		if !ok || written[v] {
			continue
		}
		val, _, err := c.Ev.PackageVar(pk, name)
		if err != nil {
			continue
		}
		switch t := val.(type) {
		case []byte:
			out[v] = int64(len(t))
		case string:
			out[v] = int64(len(t))
		}
	}
	return out
}

func (c *Ctx) r101() {
	const rule = "R10.1"
	c.R.Rule(rule, "M.Bytes and M.String: every return on the err != nil outcome of the single m.Minify call yields the function's own data parameter v; and the argument of buffer.NewReader given to that call is not derived (SSA, through slicing/φ) from a slice parameter — it must be a fresh copy ([]byte(string) conversion, make+copy, append to nil), because parse.NewInput adopts the reader's Bytes() array and minifiers rewrite it in place")
	pk := c.pkg(rule, "")
	if pk == nil {
		return
	}
	info := pk.TypesInfo
	for _, name := range []string{"M.Bytes", "M.String"} {
		fd := c.fn(rule, pk, name)
		if fd == nil {
			continue
		}
		construct := "minify." + name
		g := c.graph(pk, fd)
		vParam := fd.Type.Params.List[1].Names[0]
		vObj := info.Defs[vParam]
		var bad []string
		// error outcome returns v
		var minifyN *flow.Node
		for _, n := range g.Nodes {
			if a := n.Ast(); a != nil && n.Kind == flow.KStmt && len(findCalls(info, a, false, load.Mod+".(M).Minify")) > 0 {
				minifyN = n
			}
		}
		if minifyN == nil {
			c.R.Unres(rule, construct, c.pos(fd), "call of m.Minify not found")
			continue
		}
		call := findCalls(info, minifyN.Ast(), false, load.Mod+".(M).Minify")[0]
		errObj := assignedErr(info, minifyN, call)
		if errObj == nil {
			bad = append(bad, "the error of m.Minify is not bound")
		} else {
			n := 0
			for _, y := range g.Nodes {
				if !errOutcome(info, y, errObj, false) {
					continue
				}
				for _, z := range g.Nodes {
					r := retStmt(z)
					if r == nil || g.Path(flow.Search{From: []*flow.Node{y}, Goal: func(q *flow.Node) bool { return q == z }}) == nil {
						continue
					}
					// reachable return from the error outcome (the if-body returns; later returns are not reachable from it)
					n++
					id, ok := ast.Unparen(r.Results[0]).(*ast.Ident)
					if !ok || info.Uses[id] != vObj {
						bad = append(bad, "on error the function returns "+str(r.Results[0])+", not the caller's data")
					}
				}
			}
			if n == 0 {
				bad = append(bad, "no return on the error outcome")
			}
		}
		// v never reassigned
		if flow.Contains(fd.Body, func(x ast.Node) bool {
			as, ok := x.(*ast.AssignStmt)
			if !ok {
				return false
			}
			for _, l := range as.Lhs {
				if id, ok := ast.Unparen(l).(*ast.Ident); ok && info.Uses[id] == vObj {
					return true
				}
			}
			return false
		}) {
			bad = append(bad, "the data parameter is reassigned")
		}
		// SSA provenance of the reader
		fn := c.P.SSAFunc(pk, fd)
		if fn == nil {
			c.R.Unres(rule, construct, c.pos(fd), "SSA function missing")
			continue
		}
		readers := 0
		for _, b := range fn.Blocks {
			for _, ins := range b.Instrs {
				ci, ok := ins.(ssa.CallInstruction)
				if !ok {
					continue
				}
				callee := ci.Common().StaticCallee()
				if callee == nil || callee.Pkg == nil || callee.Pkg.Pkg.Path() != load.ParseMod+"/buffer" || callee.Name() != "NewReader" {
					continue
				}
				readers++
				for _, bv := range basesOf(ci.Common().Args[0]) {
					if p, ok := bv.(*ssa.Parameter); ok {
						bad = append(bad, fmt.Sprintf("the reader handed to the minifier is built directly over parameter %s: parse.NewInput adopts that array (when it has spare capacity) and the minifiers rewrite it in place, so on a late error the returned `original` is already modified", p.Name()))
					}
					if _, ok := bv.(*ssa.Global); ok {
						bad = append(bad, "the reader is built over package-level data")
					}
				}
			}
		}
		if readers != 1 {
			bad = append(bad, fmt.Sprintf("%d buffer.NewReader calls found, expected 1", readers))
		}
		c.R.Check(len(bad) == 0, rule, construct, c.pos(fd), "error returns v; reader over a fresh copy", strings.Join(bad, "; "))
	}
}

type limitSpec struct {
	pkg, fn  string
	quantity string // substring of the compared expression
	region   func(c *Ctx, info interface{}, n *flow.Node) bool
	what     string
}

func (c *Ctx) r102() {
	const rule = "R10.2"
	c.R.Rule(rule, "for each documented limit — css minifyTokens ↔ c.tokensLevel, css minifyProperty ↔ len(values), svg ShortenPathData ↔ len(b), js mergeBinaryExpr ↔ len(strings), js hoistVars ↔ len(decl.List) — there is a branch comparing the quantity with an integer constant whose `exceeded` outcome leaves the function through return without entering a loop or calling a minifier routine, and every node of the guarded region (loops / recursive calls / the accumulating append) is dominated by the within-limit outcome; minifyTokens increments tokensLevel before the region and decrements it on every path to its exit")
	specs := []struct {
		rel, fn, quantity, regionDesc string
		region                        func(pkPath string, n *flow.Node, a ast.Node) bool
	}{
		{"css", "cssMinifier.minifyTokens", "c.tokensLevel", "loops and recursive calls", func(pk string, n *flow.Node, a ast.Node) bool {
			return n.Kind == flow.KRange
		}},
		{"css", "cssMinifier.minifyProperty", "len(values)", "the property switch", func(pk string, n *flow.Node, a ast.Node) bool {
			return n.Kind == flow.KCase || n.Kind == flow.KRange
		}},
		{"svg", "PathData.ShortenPathData", "len(b)", "the scanning loop", func(pk string, n *flow.Node, a ast.Node) bool {
			if n.Kind != flow.KStmt || a == nil {
				return false
			}
			return flow.Contains(a, func(x ast.Node) bool {
				call, ok := x.(*ast.CallExpr)
				if !ok {
					return false
				}
				sel, ok := call.Fun.(*ast.SelectorExpr)
				return ok && (sel.Sel.Name == "copyInstruction" || sel.Sel.Name == "shortenCurPosInstruction" || sel.Sel.Name == "shortenAltPosInstruction")
			})
		}},
		{"js", "mergeBinaryExpr", "len(strings)", "the accumulating append", func(pk string, n *flow.Node, a ast.Node) bool {
			if n.Kind != flow.KStmt {
				return false
			}
			as, ok := n.Stmt.(*ast.AssignStmt)
			return ok && len(as.Lhs) == 1 && str(as.Lhs[0]) == "strings" && strings.HasPrefix(str(as.Rhs[0]), "append(strings")
		}},
		{"js", "jsMinifier.hoistVars", "len(decl.List)", "the quadratic merge of declarations", func(pk string, n *flow.Node, a ast.Node) bool {
			if n.Kind != flow.KStmt {
				return false
			}
			as, ok := n.Stmt.(*ast.AssignStmt)
			return ok && len(as.Lhs) == 1 && str(as.Lhs[0]) == "decl.List"
		}},
	}
	for _, sp := range specs {
		pk := c.pkg(rule, sp.rel)
		if pk == nil {
			continue
		}
		fd := c.fn(rule, pk, sp.fn)
		if fd == nil {
			continue
		}
		info := pk.TypesInfo
		g := c.graph(pk, fd)
		construct := sp.rel + "." + sp.fn + "/limit on " + sp.quantity
		// find the limit condition
		var lim *flow.Node
		exceededIsTrue := false
		for _, n := range g.Nodes {
			if n.Kind != flow.KCond {
				continue
			}
			b, ok := ast.Unparen(n.Expr).(*ast.BinaryExpr)
			if !ok {
				continue
			}
			_, lc := intConst(info, b.X)
			_, rc := intConst(info, b.Y)
			var q ast.Expr
			var qRight bool
			if lc && !rc {
				q, qRight = b.Y, true
			} else if rc && !lc {
				q = b.X
			} else {
				continue
			}
			if !strings.Contains(str(q), sp.quantity) {
				continue
			}
			if lim != nil {
				continue
			}
			// exceeded when quantity > const
			switch {
			case qRight && (b.Op == token.LSS || b.Op == token.LEQ): // K < q
				exceededIsTrue = true
			case !qRight && (b.Op == token.GTR || b.Op == token.GEQ): // q > K
				exceededIsTrue = true
			case qRight && (b.Op == token.GTR || b.Op == token.GEQ): // K > q  => exceeded on false
				exceededIsTrue = false
			case !qRight && (b.Op == token.LSS || b.Op == token.LEQ):
				exceededIsTrue = false
			default:
				continue
			}
			if lim == nil {
				lim = n
			}
		}
		if lim == nil {
			c.R.Bad(rule, construct, c.pos(fd), "no branch compares "+sp.quantity+" with a constant: the documented limit is not in force and the function's cost is unbounded in that quantity")
			continue
		}
		var exceeded, within *flow.Node
		for _, s := range lim.Succs {
			if (s.Kind == flow.KTrue) == exceededIsTrue {
				exceeded = s
			} else {
				within = s
			}
		}
		var bad []string
		// exceeded outcome: straight to return
		if p := g.Path(flow.Search{From: []*flow.Node{exceeded}, Goal: func(y *flow.Node) bool {
			if y.Kind == flow.KRange || y.Kind == flow.KCase {
				return true
			}
			if y.Kind == flow.KStmt && retStmt(y) == nil {
				return true
			}
			if y.Kind == flow.KExit {
				return false
			}
			return false
		}, Avoid: func(y *flow.Node) bool { return retStmt(y) != nil }}); p != nil {
			bad = append(bad, "the exceeded outcome does not leave the function at once: "+pathStr(c, g, p))
		}
		// region dominated by within
		region := 0
		for _, n := range g.Nodes {
			if n == lim || !sp.region(pk.PkgPath, n, n.Ast()) || !g.Reachable(n) {
				continue
			}
			region++
			if !g.Dominates(within, n) {
				bad = append(bad, fmt.Sprintf("%s at %s is reachable without passing the limit check", sp.regionDesc, c.pos(n.Ast())))
			}
		}
		if region == 0 {
			c.R.Unres(rule, construct, c.pos(fd), "guarded region ("+sp.regionDesc+") not found; the rule's anchor moved")
			continue
		}
		if sp.fn == "cssMinifier.minifyTokens" {
			var inc *flow.Node
			isIncDec := func(tok token.Token) func(*flow.Node) bool {
				return func(y *flow.Node) bool {
					if y.Kind != flow.KStmt {
						return false
					}
					s, ok := y.Stmt.(*ast.IncDecStmt)
					return ok && s.Tok == tok && str(s.X) == sp.quantity
				}
			}
			for _, n := range g.Nodes {
				if isIncDec(token.INC)(n) {
					inc = n
				}
			}
			if inc == nil {
				bad = append(bad, "the nesting counter is never incremented")
			} else {
				for _, n := range g.Nodes {
					if sp.region(pk.PkgPath, n, n.Ast()) && !g.Dominates(inc, n) {
						bad = append(bad, "the region starts before the counter is incremented")
					}
				}
				if p := g.MustPassAfter(inc, isIncDec(token.DEC), flow.Search{}); p != nil {
					bad = append(bad, "a path leaves minifyTokens without decrementing the nesting counter: sibling values are then refused although not deeply nested, or the limit drifts: "+pathStr(c, g, p))
				}
			}
		}
		c.R.Check(len(bad) == 0, rule, construct, c.pos(lim.Expr), fmt.Sprintf("limit check dominates %d region node(s)", region), strings.Join(bad, "; "))
	}
}
