package rules

import (
	"go/token"
	"go/types"
	"strings"

	"golang.org/x/tools/go/ssa"

	"verif/checker/internal/load"
)

// libPkgs are the library packages of the module (cmd/minify is a program with its own flag globals).
var libPkgs = []string{"", "css", "html", "js", "json", "svg", "xml"}

func (c *Ctx) ssaFuncsOf(rel string) []*ssa.Function {
	sp := c.P.SSAPkg(rel)
	if sp == nil {
		return nil
	}
	return allFuncs(sp)
}

// baseOf walks an address / value back through field, index, slice, conversion and φ
// operations to the values it is derived from (may be several through φ).
type base struct {
	v    ssa.Value
	path []string // selectors walked, innermost last (for messages)
}

func basesOf(v ssa.Value) []ssa.Value {
	var out []ssa.Value
	seen := map[ssa.Value]bool{}
	var walk func(v ssa.Value)
	walk = func(v ssa.Value) {
		if v == nil || seen[v] {
			return
		}
		seen[v] = true
		switch x := v.(type) {
		case *ssa.FieldAddr:
			walk(x.X)
		case *ssa.IndexAddr:
			walk(x.X)
		case *ssa.Slice:
			walk(x.X)
		case *ssa.ChangeType:
			walk(x.X)
		case *ssa.Convert:
			// string <-> []byte conversions copy; only same-kind conversions alias
			_, fromSlice := x.X.Type().Underlying().(*types.Slice)
			_, toSlice := x.Type().Underlying().(*types.Slice)
			if fromSlice == toSlice {
				walk(x.X)
			} else {
				out = append(out, x)
			}
		case *ssa.Phi:
			for _, e := range x.Edges {
				walk(e)
			}
		case *ssa.Lookup:
			// an element of a map: a slice or pointer stored there shares its memory with the map's contents
			if _, isMap := x.X.Type().Underlying().(*types.Map); isMap && isRefType(x.Type()) || x.CommaOk {
				walk(x.X)
			} else {
				out = append(out, x)
			}
		case *ssa.Extract:
			if lk, ok := x.Tuple.(*ssa.Lookup); ok && x.Index == 0 {
				if _, isMap := lk.X.Type().Underlying().(*types.Map); isMap {
					walk(lk.X)
					return
				}
			}
			out = append(out, x)
		case *ssa.UnOp:
			if x.Op == token.MUL {
				// load: the loaded value is derived from what is stored at the address
				switch a := x.X.(type) {
				case *ssa.Global:
					out = append(out, a)
				case *ssa.Alloc:
					// local variable cell: follow the stores into it
					n := 0
					for _, r := range *a.Referrers() {
						if st, ok := r.(*ssa.Store); ok && st.Addr == a {
							n++
							walk(st.Val)
						}
					}
					if n == 0 {
						out = append(out, x)
					}
				default:
					out = append(out, x) // load through a pointer/field: opaque
				}
			} else {
				out = append(out, x)
			}
		case *ssa.Call:
			// append(s, …) returns s's own array whenever it has spare capacity: the result may alias s
			// (append to a nil constant is a fresh array)
			if b, ok := x.Call.Value.(*ssa.Builtin); ok && b.Name() == "append" && len(x.Call.Args) > 0 {
				if c, isConst := x.Call.Args[0].(*ssa.Const); isConst && c.IsNil() {
					out = append(out, x)
				} else {
					walk(x.Call.Args[0])
				}
				return
			}
			out = append(out, v)
		default:
			out = append(out, v)
		}
	}
	walk(v)
	return out
}

func isFreshAlloc(v ssa.Value) bool {
	switch x := v.(type) {
	case *ssa.Alloc:
		return true
	case *ssa.MakeSlice, *ssa.MakeMap:
		return true
	case *ssa.Convert:
		_, fromSlice := x.X.Type().Underlying().(*types.Slice)
		_, toSlice := x.Type().Underlying().(*types.Slice)
		return fromSlice != toSlice
	case *ssa.Call:
		if b, ok := x.Call.Value.(*ssa.Builtin); ok && b.Name() == "append" {
			// append(nil, …) / append([]T{}, …) allocates
			if c, ok := x.Call.Args[0].(*ssa.Const); ok && c.IsNil() {
				return true
			}
			for _, bb := range basesOf(x.Call.Args[0]) {
				if !isFreshAlloc(bb) {
					return false
				}
			}
			return true
		}
	}
	return false
}

func fnName(fn *ssa.Function) string {
	if fn.Pkg != nil {
		return shortType(fn.Pkg.Pkg.Path()) + "." + fn.RelString(fn.Pkg.Pkg)
	}
	return fn.String()
}

// ---------------------------------------------------------------------------
// effect summaries: which pointer/slice parameters may a function write through?

type effects struct {
	writes map[*ssa.Function]map[int]bool
}

func isRefType(t types.Type) bool {
	switch t.Underlying().(type) {
	case *types.Slice, *types.Pointer, *types.Map:
		return true
	}
	return false
}

// computeEffects runs a fixpoint over all functions with bodies in the module and in parse/v2.
func (c *Ctx) computeEffects() *effects {
	prog, _ := c.P.SSA()
	e := &effects{writes: map[*ssa.Function]map[int]bool{}}
	var fns []*ssa.Function
	for _, sp := range prog.AllPackages() {
		p := sp.Pkg.Path()
		if strings.HasPrefix(p, load.Mod) || strings.HasPrefix(p, load.ParseMod) {
			fns = append(fns, allFuncs(sp)...)
		}
	}
	paramIndex := func(fn *ssa.Function, v ssa.Value) int {
		for i, p := range fn.Params {
			if p == v {
				return i
			}
		}
		return -1
	}
	mark := func(fn *ssa.Function, v ssa.Value) bool {
		changed := false
		for _, b := range basesOf(v) {
			if i := paramIndex(fn, b); i >= 0 && isRefType(fn.Params[i].Type()) {
				if e.writes[fn] == nil {
					e.writes[fn] = map[int]bool{}
				}
				if !e.writes[fn][i] {
					e.writes[fn][i] = true
					changed = true
				}
			}
		}
		return changed
	}
	for changed := true; changed; {
		changed = false
		for _, fn := range fns {
			for _, blk := range fn.Blocks {
				for _, ins := range blk.Instrs {
					switch x := ins.(type) {
					case *ssa.Store:
						if _, isAlloc := x.Addr.(*ssa.Alloc); !isAlloc {
							if mark(fn, x.Addr) {
								changed = true
							}
						}
					case *ssa.MapUpdate:
						if mark(fn, x.Map) {
							changed = true
						}
					case ssa.CallInstruction:
						cc := x.Common()
						if b, ok := cc.Value.(*ssa.Builtin); ok {
							switch b.Name() {
							case "copy":
								if mark(fn, cc.Args[0]) {
									changed = true
								}
							case "append":
								// append writes into spare capacity of a reslice x[:n]
								if sl, ok := cc.Args[0].(*ssa.Slice); ok && sl.High != nil {
									if mark(fn, sl.X) {
										changed = true
									}
								}
							}
							continue
						}
						if callee := cc.StaticCallee(); callee != nil {
							for i, a := range cc.Args {
								if e.writes[callee][i] {
									if mark(fn, a) {
										changed = true
									}
								}
							}
						}
					}
				}
			}
		}
	}
	return e
}
