package rules

import (
	"fmt"
	"go/ast"
	"go/constant"
	"go/types"
	stdhtml "html"
	"strconv"
	"strings"

	"golang.org/x/image/colornames"
	"golang.org/x/tools/go/packages"

	"verif/checker/internal/eval"
	"verif/checker/internal/flow"
	"verif/checker/internal/load"
	"verif/checker/internal/ref"
)

func init() {
	mutant(&Mutant{Name: "c17-colour-table-bytes-rewritten-in-place", Property: "C17", File: "css/css.go",
		Old: "\t\t\tvalue.TokenType = css.HashToken\n\t\t\tvalue.Data = hexValue\n", New: "\t\t\tvalue.TokenType = css.HashToken\n\t\t\tvalue.Data = hexValue\n\t\t\tdata = hexValue\n\t\t\tparse.ToLower(data[1:])\n",
		Rule: "R17.tablestate", Construct: "css.ShortenColorName passed to"})
	mutant(&Mutant{Name: "c17-style-is-a-block", Property: "C17", File: "html/table.go",
		Old: "\tStyle:      rawTag,", New: "\tStyle:      rawTag | blockTag,",
		Rule: "R17.htmltraits", Construct: "html.tagMap[Style]"})
	mutant(&Mutant{Name: "c17-colour-keyword-for-translucent-hex", Property: "C17", File: "css/css.go",
		Old: "\t\tif len(data) == 9 && data[7] == data[8] {\n\t\t\tif data[7] == 'f' {\n\t\t\t\tdata = data[:7]\n", New: "\t\tif len(data) == 9 && data[7] == data[8] {\n\t\t\tif data[7] != '0' {\n\t\t\t\tdata = data[:7]\n",
		Rule: "R17.colorkey", Construct: "css.minifyColor/ShortenColorHex look-up"})
	mutant(&Mutant{Name: "c17-zero-angle-loses-unit", Property: "C17", File: "css/table.go",
		Old: "\t\"vmax\": true,\n}", New: "\t\"vmax\": true,\n\t\"deg\":  true,\n}",
		Rule: "R17.units", Construct: "css.optionalZeroDimension[deg]"})
	mutant(&Mutant{Name: "c17-embed-loses-object-trait", Property: "C17", File: "html/table.go",
		Old: "\tEmbed:      objectTag,", New: "\tEmbed:      normalTag,",
		Rule: "R17.htmltraits", Construct: "objectTag ⊇ embed"})
	mutant(&Mutant{Name: "c17-data-attributes-borrow-traits", Property: "C17", File: "html/buffer.go",
		Old: "\t\tt.Traits = attrMap[t.Hash]\n", New: "\t\tt.Traits = attrMap[t.Hash]\n\t\tif t.Hash == 0 && 5 < len(t.Text) && t.Text[4] == '-' {\n\t\t\tt.Traits = attrMap[ToHash(t.Text[5:])]\n\t\t}\n",
		Rule: "R17.tokentraits", Construct: ""})
	register(&Property{
		ID:    "C17",
		Level: "proof",
		Explain: "Every built-in rewrite table of minify is a composite literal. The check evaluates each literal from the type-checked syntax tree " +
			"(constant keys, []byte(\"…\") payloads, trait bit expressions; no code of /repo is executed) and discharges one obligation per table entry " +
			"against reference tables transcribed from the standards (Go's html package for named character references, x/image/colornames + " +
			"rebeccapurple for CSS colours, frozen lists for HTML boolean/URL attributes, raw-text elements, block-like elements, optional p end tag " +
			"rules, CSS length/angle units, JavaScript MIME types). The perfect-hash files are checked too: every Hash constant decodes to the spelling " +
			"of its identifier and the re-implemented lookup maps the text back to the constant. The claim is complete for the tables (finite), not for " +
			"how the minifiers use them.",
		Trusted: []string{
			"go/types constant evaluation (x/tools v0.29.0 loader)",
			"Go standard library html.UnescapeString (HTML5 named character references)",
			"golang.org/x/image/colornames (SVG 1.1 colour keywords)",
			"internal/ref: lists transcribed from HTML Living Standard, CSS Values 4, CSS Color 4, MIME Sniffing, XML 1.0",
			"hasher lookup algorithm as re-implemented in the checker (FNV-1a variant, two probes)",
		},
		Run: runC17,
	})
}

// hashTable is the decoded perfect-hash file of one package.
type hashTable struct {
	pk     *packages.Package
	text   []byte
	consts map[string]int64 // identifier -> value
	byVal  map[int64]string // value -> decoded text
	table  []int64
	hash0  uint32
	maxLen int
}

func (h *hashTable) decode(v int64) (string, bool) {
	start, n := v>>8, v&0xff
	if start+n > int64(len(h.text)) {
		return "", false
	}
	return string(h.text[start : start+n]), true
}

// toHash re-implements the generated ToHash.
func (h *hashTable) toHash(s string) int64 {
	if len(s) == 0 || len(s) > h.maxLen || len(h.table) == 0 {
		return 0
	}
	x := h.hash0
	for i := 0; i < len(s); i++ {
		x ^= uint32(s[i])
		x *= 16777619
	}
	mask := uint32(len(h.table) - 1)
	try := func(i int64) (int64, bool) {
		if int(i&0xff) != len(s) {
			return 0, false
		}
		t, ok := h.decode(i)
		if !ok || t != s {
			return 0, true
		}
		return i, true
	}
	if i := h.table[x&mask]; int(i&0xff) == len(s) {
		if t, ok := h.decode(i); ok && t == s {
			return i
		}
	}
	if v, ok := try(h.table[(x>>16)&mask]); ok {
		return v
	}
	return 0
}

func (c *Ctx) loadHash(rule, rel string) *hashTable {
	pk := c.pkg(rule, rel)
	if pk == nil {
		return nil
	}
	h := &hashTable{pk: pk, consts: map[string]int64{}, byVal: map[int64]string{}}
	if k, ok := pk.Types.Scope().Lookup("_Hash_text").(*types.Const); ok && k.Val().Kind() == constant.String {
		h.text = []byte(constant.StringVal(k.Val()))
	} else {
		tv, _, err := c.Ev.PackageVar(pk, "_Hash_text")
		if err != nil {
			c.R.Unres(rule, rel+"._Hash_text", "-", err.Error())
			return nil
		}
		h.text, _ = tv.([]byte)
	}
	tab, _, err := c.Ev.PackageVar(pk, "_Hash_table")
	if err != nil {
		c.R.Unres(rule, rel+"._Hash_table", "-", err.Error())
		return nil
	}
	if l, ok := tab.(*eval.List); ok {
		for _, e := range l.Elems {
			v, _ := e.(int64)
			h.table = append(h.table, v)
		}
	}
	scope := pk.Types.Scope()
	hashType := scope.Lookup("Hash")
	if hashType == nil {
		c.R.Unres(rule, rel+".Hash", "-", "type Hash not found")
		return nil
	}
	for _, name := range scope.Names() {
		k, ok := scope.Lookup(name).(*types.Const)
		if !ok {
			continue
		}
		if name == "_Hash_hash0" {
			u, _ := constant.Uint64Val(k.Val())
			h.hash0 = uint32(u)
			continue
		}
		if name == "_Hash_maxLen" {
			i, _ := constant.Int64Val(k.Val())
			h.maxLen = int(i)
			continue
		}
		// only the constants of the generated file (the one that declares the type): a marker value declared elsewhere
		// (css.unknownFunction) is not a word of the table
		if c.P.Fset.Position(k.Pos()).Filename != c.P.Fset.Position(hashType.Pos()).Filename {
			continue
		}
		if !types.Identical(k.Type(), hashType.Type()) {
			continue
		}
		v, _ := constant.Int64Val(k.Val())
		h.consts[name] = v
	}
	return h
}

// identSpelling maps a hasher identifier to the text it must stand for.
func identSpelling(id string) string {
	var sb strings.Builder
	for _, r := range strings.ToLower(id) {
		if r >= 'a' && r <= 'z' || r >= '0' && r <= '9' {
			sb.WriteRune(r)
		} else {
			sb.WriteByte('-')
		}
	}
	return strings.TrimLeft(sb.String(), "-")
}

func runC17(c *Ctx) {
	c.ruleHashFiles()
	c.ruleEntities()
	c.ruleColors()
	c.ruleColorKey()
	// the tables stay what they are: no write through bytes that belong to a package-level table (R13.2, also for the
	// elements of a table that is a map)
	c.alsoUnder(map[string]string{"R13.2": "R17.tablestate"}, nil, func() { c.r132() })
	c.ruleUnits()
	c.ruleHTMLTraits()
	c.ruleMimeAndSVG()
	c.ruleBooleanWriter()
	// the traits of the tables reach the minifier through the token slots: a slot that keeps the traits of the token
	// that used it before attributes a table entry to a token that has none (text, svg, math)
	if pk := c.P.Pkg("html"); pk != nil {
		c.alsoUnder(map[string]string{"R03.5": "R17.tokentraits"}, func(construct string) bool {
			return strings.Contains(construct, "TokenBuffer.read/") || strings.HasPrefix(construct, "floor/token fields") || strings.HasPrefix(construct, "floor/assignments of Traits")
		}, func() {
			c.R.Rule("R03.5", "html.TokenBuffer.read assigns every field of the reused token slot on every path (clause (f) of the token buffer rule, see C03): Traits, Hash and AttrVal of a text, svg or math token are those the function computes for it — zero — and not those of the tag or attribute that used the slot before; and the Traits it assigns are attrMap[t.Hash] / tagMap[t.Hash] with t.Hash = ToHash(t.Text): the entry of the token's own name, not of a name derived from it")
			c.tokenSlotFullyRewritten("R03.5", pk)
			c.tokenTraitsFromOwnEntry("R03.5", pk)
		})
	}
}

// R17.H
func (c *Ctx) ruleHashFiles() {
	const rule = "R17.hash"
	c.R.Rule(rule, "each Hash constant of html/css/svg hash.go decodes through _Hash_text to the spelling of its identifier (lower-cased, '_' = '-', an optional leading '-' or '@'), constants are pairwise distinct, and the re-implemented ToHash maps that text back to the constant")
	floors := map[string]int{"html": 200, "css": 300, "svg": 80}
	for _, rel := range []string{"html", "css", "svg"} {
		h := c.loadHash(rule, rel)
		if h == nil {
			continue
		}
		seen := map[int64]string{}
		n := 0
		for _, name := range sortedKeysInt(h.consts) {
			v := h.consts[name]
			n++
			text, ok := h.decode(v)
			construct := rel + ".Hash/" + name
			want := identSpelling(name)
			switch {
			case !ok:
				c.R.Bad(rule, construct, "-", fmt.Sprintf("value %#x points outside _Hash_text", v))
			case identSpelling(text) != want:
				c.R.Bad(rule, construct, "-", fmt.Sprintf("constant decodes to %q, identifier spells %q: table keys written with this identifier refer to a different word", text, want))
			case seen[v] != "":
				c.R.Bad(rule, construct, "-", fmt.Sprintf("same value as %s", seen[v]))
			case h.toHash(text) != v:
				c.R.Bad(rule, construct, "-", fmt.Sprintf("ToHash(%q) yields %#x, not the constant %#x: the word is not recognised at run time", text, h.toHash(text), v))
			default:
				c.R.OK(rule, construct, "-", fmt.Sprintf("%#x = %q", v, text))
			}
			seen[v] = name
		}
		c.R.Floor(rule, rel+" Hash constants", n, floors[rel])
	}
}

func sortedKeysInt(m map[string]int64) []string {
	k := map[string]bool{}
	for s := range m {
		k[s] = true
	}
	return sortedKeys(k)
}

func (c *Ctx) tableMap(rule, rel, name string) (*eval.Map, *packages.Package) {
	pk := c.pkg(rule, rel)
	if pk == nil {
		return nil, nil
	}
	v, _, err := c.Ev.PackageVar(pk, name)
	if err != nil {
		c.R.Unres(rule, rel+"."+name, "-", "table cannot be evaluated statically: "+err.Error())
		return nil, pk
	}
	m, ok := v.(*eval.Map)
	if !ok {
		c.R.Unres(rule, rel+"."+name, "-", "not a map literal")
		return nil, pk
	}
	return m, pk
}

func (c *Ctx) ruleEntities() {
	const rule = "R17.entities"
	c.R.Rule(rule, "html.EntitiesMap: for every entry k→v, decoding the reference &k; and decoding v with the HTML5 reference decoder give the same text, k is a named character reference of HTML5, v is not longer than &k; (it is copied in place) and a replacement that is itself a reference ends in ';'; a literal replacement does not start with `;`, `#`, `=`, a letter or a digit — characters that combine with a reference or an ampersand in front of them into another reference. TextRevEntitiesMap (html, xml): v decodes to the single byte k. xml.EntitiesMap: exactly predefined XML entities with their XML 1.0 values, and never 'lt'/'amp' decoded to a bare byte without a reverse mapping.")
	if m, _ := c.tableMap(rule, "html", "EntitiesMap"); m != nil {
		for _, e := range m.Entries {
			k, _ := e.Key.(string)
			v, _ := e.Value.([]byte)
			construct := "html.EntitiesMap[" + k + "]"
			refText := "&" + k + ";"
			dec := stdhtml.UnescapeString(refText)
			got := stdhtml.UnescapeString(string(v))
			switch {
			case dec == refText:
				c.R.Bad(rule, construct, c.pos(e.KeyX), "not a named character reference of HTML5; browsers leave &"+k+"; as text but the minifier rewrites it to "+string(v))
			case dec != got:
				c.R.Bad(rule, construct, c.pos(e.KeyX), fmt.Sprintf("&%s; decodes to %q (%U) but its replacement %q decodes to %q", k, dec, []rune(dec), v, got))
			case len(v) > len(refText):
				c.R.Bad(rule, construct, c.pos(e.KeyX), "replacement longer than the reference (in-place copy would overrun)")
			case len(v) > 1 && v[0] == '&' && v[len(v)-1] != ';':
				c.R.Bad(rule, construct, c.pos(e.KeyX), "replacement reference lacks the terminating ';'")
			case len(v) > 0 && v[0] != '&' && (v[0] == ';' || v[0] == '#' || v[0] == '=' || v[0] >= '0' && v[0] <= '9' || v[0] >= 'a' && v[0] <= 'z' || v[0] >= 'A' && v[0] <= 'Z'):
				c.R.Bad(rule, construct, c.pos(e.KeyX), fmt.Sprintf("the replacement %q starts with a character that takes part in the syntax of character references: written in place of &%s; it combines with the text in front of it — `&amp&semi;` (the text `&;`) becomes `&amp;` (the text `&`), `&&num;38;` (the text `&#38;`) becomes `&#38;` (the text `&`), and in an attribute value `&not&equals;` becomes `&not=`, where the legacy name in front of `=` is no longer decoded", v, k))
			default:
				c.R.OK(rule, construct, c.pos(e.KeyX), fmt.Sprintf("%q == %q", dec, v))
			}
		}
		c.R.Floor(rule, "html.EntitiesMap entries", len(m.Entries), 1000)
	}
	if hp := c.P.Pkg("html"); hp != nil && hp.Types.Scope().Lookup("AttrRevEntitiesMap") != nil {
		if m, _ := c.tableMap(rule, "html", "AttrRevEntitiesMap"); m != nil {
			for _, e := range m.Entries {
				k, _ := e.Key.(int64)
				v, _ := e.Value.([]byte)
				dec := stdhtml.UnescapeString(string(v))
				c.R.Check(dec == string(rune(k)) && len(v) > 0 && v[len(v)-1] == ';', rule, fmt.Sprintf("html.AttrRevEntitiesMap[%q]", rune(k)), c.pos(e.KeyX),
					fmt.Sprintf("%q decodes to %q", v, dec), fmt.Sprintf("%q decodes to %q, not to %q", v, dec, rune(k)))
			}
		}
	}
	for _, rel := range []string{"html", "xml"} {
		if m, _ := c.tableMap(rule, rel, "TextRevEntitiesMap"); m != nil {
			for _, e := range m.Entries {
				k, _ := e.Key.(int64)
				v, _ := e.Value.([]byte)
				construct := fmt.Sprintf("%s.TextRevEntitiesMap[%q]", rel, rune(k))
				dec := stdhtml.UnescapeString(string(v))
				if rel == "xml" {
					dec = xmlUnescape(string(v))
				}
				c.R.Check(dec == string(rune(k)) && len(v) > 0 && v[len(v)-1] == ';', rule, construct, c.pos(e.KeyX),
					fmt.Sprintf("%q decodes to %q", v, dec), fmt.Sprintf("%q decodes to %q, not to %q", v, dec, rune(k)))
			}
			c.R.Floor(rule, rel+".TextRevEntitiesMap entries", len(m.Entries), 1)
		}
	}
	if m, _ := c.tableMap(rule, "xml", "EntitiesMap"); m != nil {
		rev, _ := c.tableMap(rule, "xml", "TextRevEntitiesMap")
		for _, e := range m.Entries {
			k, _ := e.Key.(string)
			v, _ := e.Value.([]byte)
			construct := "xml.EntitiesMap[" + k + "]"
			want, ok := ref.XMLPredefinedEntities[k]
			switch {
			case !ok:
				c.R.Bad(rule, construct, c.pos(e.KeyX), "not a predefined XML entity; an entity declared in a DTD could be replaced by a wrong value")
			case string(v) != want:
				c.R.Bad(rule, construct, c.pos(e.KeyX), fmt.Sprintf("XML 1.0 defines &%s; as %q, table says %q", k, want, v))
			case want == "<" || want == "&":
				// markup-significant in text: must be re-escaped by the reverse map
				if rev != nil {
					if _, has := rev.Get(int64(want[0])); has {
						c.R.OK(rule, construct, c.pos(e.KeyX), "decoded and re-escaped through TextRevEntitiesMap")
						break
					}
				}
				c.R.Bad(rule, construct, c.pos(e.KeyX), "decodes to a markup-significant character that is not re-escaped")
			default:
				c.R.OK(rule, construct, c.pos(e.KeyX), fmt.Sprintf("&%s; = %q", k, want))
			}
		}
		c.R.Floor(rule, "xml.EntitiesMap entries", len(m.Entries), 2)
	}
}

func xmlUnescape(s string) string {
	if strings.HasPrefix(s, "&") && strings.HasSuffix(s, ";") {
		if v, ok := ref.XMLPredefinedEntities[s[1:len(s)-1]]; ok {
			return v
		}
		// numeric character reference
		body := s[1 : len(s)-1]
		if strings.HasPrefix(body, "#x") || strings.HasPrefix(body, "#X") {
			if n, err := strconv.ParseInt(body[2:], 16, 32); err == nil {
				return string(rune(n))
			}
		} else if strings.HasPrefix(body, "#") {
			if n, err := strconv.ParseInt(body[1:], 10, 32); err == nil {
				return string(rune(n))
			}
		}
	}
	return s
}

func cssColor(name string) ([3]uint8, bool) {
	if v, ok := ref.ExtraCSSColors[name]; ok {
		return v, true
	}
	if v, ok := colornames.Map[name]; ok {
		return [3]uint8{v.R, v.G, v.B}, true
	}
	return [3]uint8{}, false
}

func parseHex(s string) ([4]uint8, bool) {
	if len(s) == 0 || s[0] != '#' {
		return [4]uint8{}, false
	}
	s = s[1:]
	hv := func(c byte) (uint8, bool) {
		switch {
		case c >= '0' && c <= '9':
			return c - '0', true
		case c >= 'a' && c <= 'f':
			return c - 'a' + 10, true
		case c >= 'A' && c <= 'F':
			return c - 'A' + 10, true
		}
		return 0, false
	}
	var d []uint8
	for i := 0; i < len(s); i++ {
		v, ok := hv(s[i])
		if !ok {
			return [4]uint8{}, false
		}
		d = append(d, v)
	}
	out := [4]uint8{0, 0, 0, 255}
	switch len(d) {
	case 3, 4:
		for i, v := range d {
			out[i] = v<<4 | v
		}
	case 6, 8:
		for i := 0; i < len(d)/2; i++ {
			out[i] = d[2*i]<<4 | d[2*i+1]
		}
	default:
		return out, false
	}
	return out, true
}

func (c *Ctx) ruleColors() {
	const rule = "R17.colors"
	c.R.Rule(rule, "css.ShortenColorHex (hex→keyword) and css.ShortenColorName (keyword Hash→hex): the keyword is a CSS Color 4 named colour, the hex notation (3/4/6/8 digits expanded) is opaque and denotes exactly that colour's sRGB value, and the replacement is not longer than what it replaces")
	h := c.loadHash(rule, "css")
	if m, _ := c.tableMap(rule, "css", "ShortenColorHex"); m != nil {
		for _, e := range m.Entries {
			k, _ := e.Key.(string)
			v, _ := e.Value.([]byte)
			construct := "css.ShortenColorHex[" + k + "]"
			rgb, okc := cssColor(string(v))
			hx, okh := parseHex(k)
			switch {
			case !okc:
				c.R.Bad(rule, construct, c.pos(e.KeyX), fmt.Sprintf("%q is not a CSS colour keyword", v))
			case !okh || hx[3] != 255:
				c.R.Bad(rule, construct, c.pos(e.KeyX), "key is not an opaque hex colour")
			case hx[0] != rgb[0] || hx[1] != rgb[1] || hx[2] != rgb[2]:
				c.R.Bad(rule, construct, c.pos(e.KeyX), fmt.Sprintf("%s is rgb(%d,%d,%d) but %s is rgb(%d,%d,%d)", k, hx[0], hx[1], hx[2], v, rgb[0], rgb[1], rgb[2]))
			case k != strings.ToLower(k):
				c.R.Bad(rule, construct, c.pos(e.KeyX), "key must be lower case (lookups are done on lower-cased hex)")
			default:
				c.R.OK(rule, construct, c.pos(e.KeyX), fmt.Sprintf("%s = %s", k, v))
			}
		}
		c.R.Floor(rule, "ShortenColorHex entries", len(m.Entries), 25)
	}
	if m, _ := c.tableMap(rule, "css", "ShortenColorName"); m != nil && h != nil {
		for _, e := range m.Entries {
			kv, _ := e.Key.(int64)
			v, _ := e.Value.([]byte)
			name, ok := h.decode(kv)
			construct := "css.ShortenColorName[" + str(e.KeyX) + "]"
			rgb, okc := cssColor(name)
			hx, okh := parseHex(string(v))
			switch {
			case !ok:
				c.R.Bad(rule, construct, c.pos(e.KeyX), "key does not decode")
			case !okc:
				c.R.Bad(rule, construct, c.pos(e.KeyX), fmt.Sprintf("%q is not a CSS colour keyword: an invalid declaration would be turned into the valid colour %s", name, v))
			case !okh || hx[3] != 255:
				c.R.Bad(rule, construct, c.pos(e.KeyX), "value is not an opaque hex colour")
			case hx[0] != rgb[0] || hx[1] != rgb[1] || hx[2] != rgb[2]:
				c.R.Bad(rule, construct, c.pos(e.KeyX), fmt.Sprintf("%s is rgb(%d,%d,%d) but %s is rgb(%d,%d,%d)", name, rgb[0], rgb[1], rgb[2], v, hx[0], hx[1], hx[2]))
			default:
				c.R.OK(rule, construct, c.pos(e.KeyX), fmt.Sprintf("%s = %s", name, v))
			}
		}
		c.R.Floor(rule, "ShortenColorName entries", len(m.Entries), 40)
	}
}

func (c *Ctx) ruleUnits() {
	const rule = "R17.units"
	c.R.Rule(rule, "css.optionalZeroDimension: every unit with value true is a CSS <length> unit (CSS Values 4 §6); time, frequency, resolution, flex and percentage units must not be listed, nor angle units — a bare 0 is an <angle> only as argument of the legacy transform and gradient functions (§7.1), and the table is consulted outside functions only: `rotate:0deg` → `rotate:0` is not a valid declaration")
	if m, _ := c.tableMap(rule, "css", "optionalZeroDimension"); m != nil {
		for _, e := range m.Entries {
			k, _ := e.Key.(string)
			v, _ := e.Value.(bool)
			construct := "css.optionalZeroDimension[" + k + "]"
			c.R.Check(!v || ref.CSSLengthUnits[k], rule, construct, c.pos(e.KeyX), "length unit", fmt.Sprintf("%q is not a length unit: 0%s would become 0, which is invalid or means something else", k, k))
		}
		c.R.Floor(rule, "optionalZeroDimension entries", len(m.Entries), 10)
	}
}

func (c *Ctx) traitBit(rule string, pk *packages.Package, name string) int64 {
	k, ok := pk.Types.Scope().Lookup(name).(*types.Const)
	if !ok {
		c.R.Unres(rule, "html."+name, "-", "trait constant not found")
		return 0
	}
	v, _ := constant.Int64Val(k.Val())
	return v
}

func (c *Ctx) ruleHTMLTraits() {
	const rule = "R17.htmltraits"
	c.R.Rule(rule, "html.tagMap / html.attrMap trait bits against the HTML Living Standard: rawTag ⊆ raw-text, escapable-raw-text and generic-raw-text elements ∪ {svg, math}; blockTag ⊆ elements rendered as block / list-item / table part / line break, or confined to the head (unrendered elements that may stand between words — script, style, template, noscript — are not block: white space on both sides of them collapses to one space, it does not vanish); omitPTag ⊆ elements whose start tag implies </p>; keepPTag ⊇ {a audio del ins map noscript video}; objectTag ⊇ the elements rendered as an atomic inline box (audio button canvas embed iframe img input meter object progress select svg textarea video); booleanAttr ⊆ boolean attributes; urlAttr ⊆ URL-valued attributes; trimAttr ∩ attributes whose white space is significant (text, regular expressions, code) = ∅; every raw text element of the lexer in which a parser decodes no references has rawTag")
	h := c.loadHash(rule, "html")
	m, pk := c.tableMap(rule, "html", "tagMap")
	if m != nil && h != nil {
		raw, block, omitP, keepP := c.traitBit(rule, pk, "rawTag"), c.traitBit(rule, pk, "blockTag"), c.traitBit(rule, pk, "omitPTag"), c.traitBit(rule, pk, "keepPTag")
		keepSeen := map[string]bool{}
		for _, e := range m.Entries {
			kv, _ := e.Key.(int64)
			tv, _ := e.Value.(int64)
			name, _ := h.decode(kv)
			construct := "html.tagMap[" + str(e.KeyX) + "]"
			var bad []string
			if tv&raw != 0 && !ref.HTMLRawTextElements[name] {
				bad = append(bad, "rawTag: <"+name+"> is not a raw text element; its content would be written unparsed")
			}
			if tv&block != 0 && !ref.HTMLBlockLike[name] {
				bad = append(bad, "blockTag: <"+name+"> is not block-level, a table part or a line break (HTML rendering section; an unrendered element between two words does not separate them either): white space next to it is significant")
			}
			if tv&omitP != 0 && !ref.HTMLPClosers[name] {
				bad = append(bad, "omitPTag: a <"+name+"> start tag does not close an open p element; omitting </p> before it changes the tree")
			}
			if tv&keepP != 0 {
				keepSeen[name] = true
			}
			if len(bad) > 0 {
				c.R.Bad(rule, construct, c.pos(e.KeyX), strings.Join(bad, "; "))
			} else {
				c.R.OK(rule, construct, c.pos(e.KeyX), fmt.Sprintf("%s traits=%#x", name, tv))
			}
		}
		object := c.traitBit(rule, pk, "objectTag")
		objSeen := map[string]bool{}
		for _, e := range m.Entries {
			kv, _ := e.Key.(int64)
			tv, _ := e.Value.(int64)
			if name, ok := h.decode(kv); ok && tv&object != 0 {
				objSeen[name] = true
			}
		}
		for _, name := range sortedKeys(ref.HTMLAtomicInline) {
			c.R.Check(objSeen[name], rule, "html.tagMap/objectTag ⊇ "+name, "-", "has objectTag", "<"+name+"> is rendered as an atomic box in the inline flow, but lacks objectTag: the white space after it is taken for a repetition of the white space in front of it and dropped (`x <"+name+"> y` → `x <"+name+">y`), which glues the following text to the box")
		}
		for _, name := range sortedKeys(ref.HTMLPKeepParents) {
			c.R.Check(keepSeen[name], rule, "html.tagMap/keepPTag ⊇ "+name, "-", "has keepPTag", "</p> followed by </"+name+"> may not be omitted (HTML optional tags), but "+name+" lacks keepPTag")
		}
		c.R.Floor(rule, "tagMap entries", len(m.Entries), 100)
		// the other direction for raw text: what the lexer returns as one raw token, and what an HTML parser takes
		// literally (no character references), must not be rewritten as ordinary text
		lexRaw := c.lexerRawTags(rule)
		hasRaw := map[string]bool{}
		for _, e := range m.Entries {
			kv, _ := e.Key.(int64)
			tv, _ := e.Value.(int64)
			if name, ok := h.decode(kv); ok && tv&raw != 0 {
				hasRaw[name] = true
			}
		}
		nr := 0
		for _, name := range sortedKeys(lexRaw) {
			if !ref.HTMLRawTextNoReferences[name] {
				continue
			}
			nr++
			c.R.Check(hasRaw[name], rule, "html.tagMap/rawTag ⊇ "+name, "-", "has rawTag", "the lexer returns the content of <"+name+"> as one raw text token and an HTML parser reads it literally, but "+name+" lacks rawTag: the minifier collapses its white space and decodes character references in it (`<xmp>a   b &amp;amp;</xmp>` → `<xmp>a b &amp;</xmp>` displays different text)")
		}
		if lexRaw != nil {
			c.R.Floor(rule, "raw text elements of the lexer that take no character references", nr, 4)
		}
	}
	am, pk := c.tableMap(rule, "html", "attrMap")
	if am != nil && h != nil {
		boolean, url := c.traitBit(rule, pk, "booleanAttr"), c.traitBit(rule, pk, "urlAttr")
		trim := c.traitBit(rule, pk, "trimAttr")
		for _, e := range am.Entries {
			kv, _ := e.Key.(int64)
			tv, _ := e.Value.(int64)
			name, _ := h.decode(kv)
			construct := "html.attrMap[" + str(e.KeyX) + "]"
			var bad []string
			if tv&boolean != 0 && !ref.HTMLBooleanAttrs[name] {
				bad = append(bad, "booleanAttr: "+name+" is not a boolean attribute; its value would be dropped")
			}
			if tv&trim != 0 && (ref.HTMLWhitespaceSignificantAttrs[name] || strings.HasPrefix(name, "on")) {
				bad = append(bad, "trimAttr: the value of "+name+" is free text / a regular expression / code; collapsing its white space changes it (`pattern=\"a  b\"` matches two spaces)")
			}
			if tv&url != 0 && !ref.HTMLURLAttrs[name] {
				bad = append(bad, "urlAttr: "+name+" is not URL-valued; scheme stripping / data-URI rewriting would corrupt it")
			}
			if len(bad) > 0 {
				c.R.Bad(rule, construct, c.pos(e.KeyX), strings.Join(bad, "; "))
			} else {
				c.R.OK(rule, construct, c.pos(e.KeyX), fmt.Sprintf("%s traits=%#x", name, tv))
			}
		}
		c.R.Floor(rule, "attrMap entries", len(am.Entries), 80)
	}
	// trait bit sets are disjoint powers of two within their group
	if pk != nil {
		for _, grp := range [][]string{{"normalTag", "rawTag", "blockTag", "objectTag", "omitPTag", "keepPTag"}, {"booleanAttr", "urlAttr", "trimAttr"}} {
			var acc int64
			for _, n := range grp {
				b := c.traitBit(rule, pk, n)
				c.R.Check(b != 0 && b&(b-1) == 0 && acc&b == 0, rule, "html.traits/"+n, "-", fmt.Sprintf("%#x", b), "trait constants of one group must be distinct single bits")
				acc |= b
			}
		}
	}
}

func (c *Ctx) ruleMimeAndSVG() {
	const rule = "R17.mime-svg"
	c.R.Rule(rule, "html.jsMimetypes ⊆ JavaScript MIME type essences (MIME Sniffing §4.6); the JavaScript entries of cmd/minify extMap likewise; svg.colorAttrMap ⊆ SVG properties taking <color>/<paint>")
	if m, _ := c.tableMap(rule, "html", "jsMimetypes"); m != nil {
		for _, e := range m.Entries {
			k, _ := e.Key.(string)
			v, _ := e.Value.(bool)
			c.R.Check(!v || ref.JSMimeTypes[k], rule, "html.jsMimetypes["+k+"]", c.pos(e.KeyX), "JavaScript MIME type", k+" is not a JavaScript MIME type: dropping type=\""+k+"\" turns a data block into a script")
		}
		c.R.Floor(rule, "jsMimetypes entries", len(m.Entries), 2)
	}
	if m, _ := c.tableMap(rule, "cmd/minify", "extMap"); m != nil {
		n := 0
		for _, e := range m.Entries {
			k, _ := e.Key.(string)
			v, _ := e.Value.(string)
			if k == "js" || k == "mjs" {
				n++
				c.R.Check(ref.JSMimeTypes[v], rule, "main.extMap["+k+"]", c.pos(e.KeyX), v, v+" is not a JavaScript MIME type")
			}
		}
		c.R.Floor(rule, "extMap js entries", n, 2)
	}
	h := c.loadHash(rule, "svg")
	if m, _ := c.tableMap(rule, "svg", "colorAttrMap"); m != nil && h != nil {
		for _, e := range m.Entries {
			kv, _ := e.Key.(int64)
			v, _ := e.Value.(bool)
			name, _ := h.decode(kv)
			c.R.Check(!v || ref.SVGColorAttrs[name], rule, "svg.colorAttrMap["+str(e.KeyX)+"]", c.pos(e.KeyX), name, name+" does not take a colour; its value would be rewritten as one")
		}
		c.R.Floor(rule, "colorAttrMap entries", len(m.Entries), 4)
	}
}

var _ = ast.Inspect

func init() {
	mutant(&Mutant{Name: "c17-semicolon-entity-written-plain", Property: "C17", File: "html/table.go",
		Old: "\t\"scaron\":", New: "\t\"semi\": []byte(\";\"),\n\t\"scaron\":",
		Rule: "R17.entities", Construct: "html.EntitiesMap[semi]"})
	mutant(&Mutant{Name: "c17-table-closes-paragraph", Property: "C17", File: "html/table.go",
		Old: "\tTable:      blockTag, // a table does not close a paragraph in quirks mode\n", New: "\tTable:      blockTag | omitPTag,\n",
		Rule: "R17.htmltraits", Construct: "html.tagMap[Table]"})
	mutant(&Mutant{Name: "c17-slot-end-tag-closes-paragraph", Property: "C17", File: "html/table.go",
		Old: "\tSlot:       normalTag | keepPTag,\n", New: "\tSlot:       normalTag,\n",
		Rule: "R17.htmltraits", Construct: "keepPTag ⊇ slot"})
	mutant(&Mutant{Name: "c17-pattern-trimmed", Property: "C17", File: "html/table.go",
		Old: "\tOptimum:                  trimAttr, // float\n", New: "\tOptimum:                  trimAttr, // float\n\tPattern:                  trimAttr, // regex\n",
		Rule: "R17.htmltraits", Construct: "attrMap[Pattern]"})
	mutant(&Mutant{Name: "c17-xmp-not-raw", Property: "C17", File: "html/table.go",
		Old: "\tXmp:       rawTag | blockTag,\n", New: "\tXmp:       blockTag,\n",
		Rule: "R17.htmltraits", Construct: "rawTag ⊇ xmp"})
	mutant(&Mutant{Name: "c17-value-equal-to-name-treated-as-boolean", Property: "C17", File: "html/html.go",
		Old: "if 0 < len(val) && attr.Traits&booleanAttr == 0 {", New: "if 0 < len(val) && attr.Traits&booleanAttr == 0 && !parse.EqualFold(val, attr.Text) {",
		Rule: "R17.boolwriter", Construct: "value written unless the table says boolean"})
	mutant(&Mutant{Name: "c17-entity-typo", Property: "C17", File: "html/table.go",
		Old: "\"Aacute\":                          []byte(\"&#193;\"),", New: "\"Aacute\":                          []byte(\"&#192;\"),",
		Rule: "R17.entities", Construct: "html.EntitiesMap[Aacute]"})
	mutant(&Mutant{Name: "c17-colour-typo", Property: "C17", File: "css/table.go",
		Old: "\"#000080\": []byte(\"navy\"),", New: "\"#000081\": []byte(\"navy\"),",
		Rule: "R17.colors", Construct: "css.ShortenColorHex[#000081]"})
	mutant(&Mutant{Name: "c17-unit-ms", Property: "C17", File: "css/table.go",
		Old: "\t\"turn\": true,\n", New: "\t\"turn\": true,\n\t\"ms\":   true,\n",
		Rule: "R17.units", Construct: "css.optionalZeroDimension[ms]"})
	mutant(&Mutant{Name: "c17-span-block", Property: "C17", File: "html/table.go",
		Old: "\tSpan:       normalTag,\n", New: "\tSpan:       blockTag,\n",
		Rule: "R17.htmltraits", Construct: "html.tagMap[Span]"})
	mutant(&Mutant{Name: "c17-value-boolean", Property: "C17", File: "html/table.go",
		Old: "\tWrap:                     trimAttr,\n", New: "\tWrap:                     booleanAttr,\n",
		Rule: "R17.htmltraits", Construct: "html.attrMap[Wrap]"})
	mutant(&Mutant{Name: "c17-hash-swap", Property: "C17", File: "css/hash.go",
		Old: "Hash = 0x7a209 // aliceblue", New: "Hash = 0x37205 // aliceblue",
		Rule: "R17.hash", Construct: "css.Hash/Aliceblue"})
}

// R17.boolwriter: the table, and nothing else, says which attributes are boolean.
func (c *Ctx) ruleBooleanWriter() {
	const rule = "R17.boolwriter"
	c.R.Rule(rule, "the booleanAttr trait of html.attrMap is checked entry by entry against the HTML standard (R17.htmltraits); it only means something if the attribute writer consults the table and nothing else. In html.(*Minifier).Minify the write of `=` (and with it the value) is guarded by a condition that — single-assignment booleans expanded — is built from the length of the value and `….Traits&booleanAttr` only: no call other than len, no comparison of the value with anything. A writer that also drops values that `look boolean` (value equal to the name) turns `<input name=name>`, `<a download=Download>` into value-less attributes")
	pk := c.pkg(rule, "html")
	if pk == nil {
		return
	}
	info := pk.TypesInfo
	fd := c.fn(rule, pk, "Minifier.Minify")
	if fd == nil {
		return
	}
	g := c.graph(pk, fd)
	lc := newLinCtx(c, info, g)
	n := 0
	for _, y := range g.Nodes {
		a := y.Ast()
		if a == nil || y.Kind != flow.KStmt || !strings.Contains(nospace(str0(a)), "Write(isBytes)") {
			continue
		}
		n++
		var foreign []string
		sawTrait := false
		var inspect func(e ast.Expr, depth int)
		inspect = func(e ast.Expr, depth int) {
			ast.Inspect(e, func(q ast.Node) bool {
				switch x := q.(type) {
				case *ast.CallExpr:
					if id, ok := x.Fun.(*ast.Ident); ok && id.Name == "len" {
						return false
					}
					foreign = append(foreign, nospace(str(x)))
					return false
				case *ast.SelectorExpr:
					if x.Sel.Name == "Traits" {
						sawTrait = true
						return false
					}
				case *ast.Ident:
					o := info.Uses[x]
					if v, isVar := o.(*types.Var); isVar && !v.IsField() && v.Parent() != nil && v.Parent() != v.Pkg().Scope() {
						if b, isB := v.Type().Underlying().(*types.Basic); isB && b.Kind() == types.Bool && depth < 2 && len(lc.assign[o]) == 1 {
							if d, ok := lc.assign[o][0].Stmt.(*ast.AssignStmt); ok && len(d.Rhs) == 1 {
								inspect(d.Rhs[0], depth+1)
							}
						}
					}
				}
				return true
			})
		}
		// the innermost enclosing if whose body holds the write
		for p := c.P.Parent(a); p != nil; p = c.P.Parent(p) {
			if ifs, ok := p.(*ast.IfStmt); ok && ifs.Body.Pos() <= a.Pos() && a.End() <= ifs.Body.End() {
				inspect(ifs.Cond, 0)
				break
			}
		}
		c.R.Check(len(foreign) == 0 && sawTrait, rule, fmt.Sprintf("html.Minifier.Minify/value written unless the table says boolean#%d", n), c.pos(a), "guard over len(value) and Traits&booleanAttr only", "whether an attribute keeps its value also depends on "+strings.Join(foreign, ", ")+": attributes the table does not mark boolean lose their value when it happens to satisfy that test")
	}
	c.R.Floor(rule, "writes of `=` in the attribute writer", n, 1)
}

// lexerRawTags: the element names for which the parse/v2 html lexer switches to raw text — read off the
// comparison chain `h == X || …` that guards `l.rawTag = h` in its source.
func (c *Ctx) lexerRawTags(rule string) map[string]bool {
	dep := c.P.Dep(load.ParseMod + "/html")
	if dep == nil {
		c.R.Unres(rule, "parse/html lexer raw tags", "-", "dependency package not loaded")
		return nil
	}
	out := map[string]bool{}
	for _, f := range dep.Syntax {
		ast.Inspect(f, func(x ast.Node) bool {
			ifs, ok := x.(*ast.IfStmt)
			if !ok {
				return true
			}
			sets := false
			ast.Inspect(ifs.Body, func(q ast.Node) bool {
				if as, ok := q.(*ast.AssignStmt); ok && len(as.Lhs) == 1 && strings.HasSuffix(nospace(str(as.Lhs[0])), ".rawTag") {
					sets = true
				}
				return true
			})
			if !sets {
				return true
			}
			ast.Inspect(ifs.Cond, func(q ast.Node) bool {
				if be, ok := q.(*ast.BinaryExpr); ok && be.Op.String() == "==" {
					if id, ok := be.Y.(*ast.Ident); ok {
						if k, isConst := dep.TypesInfo.Uses[id].(*types.Const); isConst && strings.HasSuffix(k.Type().String(), ".Hash") {
							out[strings.ToLower(id.Name)] = true
						}
					}
				}
				return true
			})
			return true
		})
	}
	if len(out) < 5 {
		c.R.Unres(rule, "parse/html lexer raw tags", "-", fmt.Sprintf("only %d raw text elements found in the lexer source", len(out)))
		return nil
	}
	return out
}

// R17.colorkey: the hex→keyword table is consulted with the whole colour.
func (c *Ctx) ruleColorKey() {
	const rule = "R17.colorkey"
	c.R.Rule(rule, "the keys of css.ShortenColorHex are opaque colours. Every look-up `ShortenColorHex[string(v)]` in packages css and svg is made with the complete notation: an assignment that shortens v to a prefix of itself (`v = v[:7]`, also as part of a tuple assignment) and can reach the look-up is dominated by a test of the bytes that are cut off against 'f' — the alpha channel is dropped only when it is opaque. Splitting the alpha channel off first and looking the rest up maps `#ff000080` to `red`")
	n := 0
	for _, rel := range []string{"css", "svg"} {
		pk := c.P.Pkg(rel)
		if pk == nil {
			continue
		}
		info := pk.TypesInfo
		for _, fd := range load.FuncDecls(pk) {
			if fd.Body == nil {
				continue
			}
			var g *flow.Graph
			ast.Inspect(fd.Body, func(x ast.Node) bool {
				ie, ok := x.(*ast.IndexExpr)
				if !ok || !strings.HasSuffix(nospace(str(ie.X)), "ShortenColorHex") {
					return true
				}
				conv, ok := ast.Unparen(ie.Index).(*ast.CallExpr)
				if !ok || len(conv.Args) != 1 {
					return true
				}
				id, ok := ast.Unparen(conv.Args[0]).(*ast.Ident)
				if !ok {
					return true
				}
				key := info.Uses[id]
				if key == nil {
					return true
				}
				n++
				if g == nil {
					g = c.graph(pk, fd)
				}
				lookup := g.NodeOf(ie)
				var bad []string
				for _, q := range g.Nodes {
					as, ok := q.Stmt.(*ast.AssignStmt)
					if !ok || q.Kind != flow.KStmt || len(as.Lhs) != len(as.Rhs) {
						continue
					}
					for i, l := range as.Lhs {
						lid, ok := l.(*ast.Ident)
						if !ok || (info.Uses[lid] != key && info.Defs[lid] != key) {
							continue
						}
						se, ok := ast.Unparen(as.Rhs[i]).(*ast.SliceExpr)
						if !ok || se.High == nil {
							continue
						}
						sid, ok := ast.Unparen(se.X).(*ast.Ident)
						if !ok || info.Uses[sid] != key {
							continue
						}
						// can it reach the look-up?
						// can it reach the look-up (before the variable is assigned again)?
						qq := q
						if lookup != nil && g.Path(flow.Search{From: []*flow.Node{q}, Goal: func(z *flow.Node) bool { return z == lookup }, Avoid: func(z *flow.Node) bool {
							if z == qq || z == lookup {
								return false
							}
							if as2, ok := z.Stmt.(*ast.AssignStmt); ok && z.Kind == flow.KStmt {
								for _, l2 := range as2.Lhs {
									if id2, ok := l2.(*ast.Ident); ok && (info.Uses[id2] == key || info.Defs[id2] == key) {
										return true
									}
								}
							}
							return false
						}}) == nil {
							continue
						}
						opaque := false
						for _, f := range g.DomFacts(q) {
							if !f.Value || f.Test.Kind != flow.KCond {
								continue
							}
							chars, _, _ := c.constsIn(pk, f.Test.Expr)
							if chars['f'] || chars['F'] {
								opaque = true
							}
						}
						if !opaque {
							bad = append(bad, stmtText(as)+" at "+c.pos(as))
						}
					}
				}
				c.R.Check(len(bad) == 0, rule, fmt.Sprintf("%s.%s/ShortenColorHex look-up#%d uses the whole colour", pk.Name, load.FuncName(fd), n), c.pos(ie), "the key is shortened only when the alpha channel is ff",
					"the key of the look-up is a prefix of the colour whose cut-off digits were not tested to be `f`: "+strings.Join(bad, "; ")+" — a translucent colour is replaced by the keyword of its opaque counterpart (`#ff000080` → `red`)")
				return true
			})
		}
	}
	c.R.Floor(rule, "look-ups in ShortenColorHex", n, 2)
}
