package rules

import (
	"fmt"
	"go/ast"
	"go/constant"
	"go/token"
	"go/types"
	"math"
	"sort"
	"strings"

	"verif/checker/internal/flow"
	"verif/checker/internal/load"
)

// R10.4: an index that the code's own arithmetic can make negative.
//
// Forward dataflow over the statement graph with one abstract value per local integer variable:
// a lower bound and whether that bound is *attained by the data* — it stems from a quantity whose
// minimum is produced by the input alone: the key of a range loop (0 at the first element) or the
// result of an Index* search function (-1 when nothing is found), plus/minus constants. Bounds that
// rest on a length (len(x) ≥ 0, or a length test) or on constants assigned in branches are not
// "attained": whether a token can be empty is a lexer invariant, and whether the branch that
// assigns the smallest constant can be combined with the branch that uses it is a control-flow
// correlation (flags such as `neg`, exclusive command tests) this path-insensitive analysis does
// not see — such indices are not judged (the same policy as R10.3).

const negInf = math.MinInt64

type lbVal struct {
	lb       int64
	attained bool
}

type lbState map[string]lbVal

func (s lbState) clone() lbState {
	o := make(lbState, len(s))
	for k, v := range s {
		o[k] = v
	}
	return o
}

func joinLB(a, b lbState) lbState {
	if a == nil {
		return b.clone()
	}
	out := lbState{}
	for k, va := range a {
		vb, ok := b[k]
		if !ok {
			continue
		}
		switch {
		case va.lb < vb.lb:
			out[k] = va
		case vb.lb < va.lb:
			out[k] = vb
		default:
			out[k] = lbVal{va.lb, va.attained || vb.attained}
		}
	}
	return out
}

func equalLB(a, b lbState) bool {
	if (a == nil) != (b == nil) || len(a) != len(b) {
		return false
	}
	for k, v := range a {
		if w, ok := b[k]; !ok || w != v {
			return false
		}
	}
	return true
}

type lbAnalysis struct {
	info      *types.Info
	g         *flow.Graph
	untracked map[types.Object]bool
}

func objKey(o types.Object) string { return fmt.Sprintf("v:%s@%d", o.Name(), o.Pos()) }

func isIntType(t types.Type) bool {
	b, ok := t.Underlying().(*types.Basic)
	return ok && b.Info()&types.IsInteger != 0
}

func isUnsigned(t types.Type) bool {
	b, ok := t.Underlying().(*types.Basic)
	return ok && b.Info()&types.IsUnsigned != 0
}

func (a *lbAnalysis) tracked(e ast.Expr) (types.Object, bool) {
	id, ok := ast.Unparen(e).(*ast.Ident)
	if !ok {
		return nil, false
	}
	o := a.info.Uses[id]
	if o == nil {
		o = a.info.Defs[id]
	}
	v, isVar := o.(*types.Var)
	if !isVar || v.IsField() || a.untracked[o] || !isIntType(v.Type()) {
		return nil, false
	}
	// package-level variables are not tracked
	if v.Parent() == nil || v.Pkg() != nil && v.Parent() == v.Pkg().Scope() {
		return nil, false
	}
	return o, true
}

func addSat(x, y int64) int64 {
	if x == negInf || y == negInf {
		return negInf
	}
	r := x + y
	if (y > 0 && r < x) || (y < 0 && r > x) {
		return negInf
	}
	return r
}

var indexFuncs = map[string]bool{
	"bytes.IndexByte": true, "bytes.Index": true, "bytes.IndexAny": true, "bytes.IndexRune": true, "bytes.IndexFunc": true,
	"bytes.LastIndex": true, "bytes.LastIndexByte": true, "bytes.LastIndexAny": true, "bytes.LastIndexFunc": true,
	"strings.IndexByte": true, "strings.Index": true, "strings.IndexAny": true, "strings.IndexRune": true, "strings.IndexFunc": true,
	"strings.LastIndex": true, "strings.LastIndexByte": true, "strings.LastIndexAny": true, "strings.LastIndexFunc": true,
}

func (a *lbAnalysis) eval(e ast.Expr, s lbState) lbVal {
	unknown := lbVal{negInf, false}
	e = ast.Unparen(e)
	if tv, ok := a.info.Types[e]; ok && tv.Value != nil && tv.Value.Kind() == constant.Int {
		if k, exact := constant.Int64Val(tv.Value); exact {
			return lbVal{k, false}
		}
	}
	if t := a.info.TypeOf(e); t != nil && isUnsigned(t) {
		return lbVal{0, false}
	}
	switch x := e.(type) {
	case *ast.Ident:
		if o, ok := a.tracked(x); ok {
			if v, ok := s[objKey(o)]; ok {
				return v
			}
		}
		return unknown
	case *ast.CallExpr:
		if id, ok := x.Fun.(*ast.Ident); ok {
			if _, isB := a.info.Uses[id].(*types.Builtin); isB {
				switch id.Name {
				case "len", "cap":
					if v, ok := s["len:"+nospace(str(x.Args[0]))]; ok && id.Name == "len" {
						return v
					}
					return lbVal{0, false}
				case "copy":
					return lbVal{0, false}
				}
			}
			// conversion int(x)
			if tn, isT := a.info.Uses[id].(*types.TypeName); isT && isIntType(tn.Type()) && len(x.Args) == 1 {
				if at := a.info.TypeOf(x.Args[0]); at != nil && isIntType(at) {
					return a.eval(x.Args[0], s)
				}
			}
		}
		if indexFuncs[calleeName(a.info, x)] {
			return lbVal{-1, true}
		}
		return unknown
	case *ast.BinaryExpr:
		l, r := a.eval(x.X, s), a.eval(x.Y, s)
		switch x.Op {
		case token.ADD:
			return lbVal{addSat(l.lb, r.lb), (l.attained || r.attained) && l.lb != negInf && r.lb != negInf}
		case token.SUB:
			// needs an upper bound of the right operand: only constants have one here
			if tv, ok := a.info.Types[ast.Unparen(x.Y)]; ok && tv.Value != nil {
				if k, exact := constant.Int64Val(tv.Value); exact {
					return lbVal{addSat(l.lb, -k), l.attained && l.lb != negInf}
				}
			}
			return unknown
		case token.MUL:
			if l.lb >= 0 && r.lb >= 0 {
				return lbVal{0, false}
			}
		case token.QUO, token.REM, token.SHR, token.AND:
			if l.lb >= 0 && (x.Op == token.AND || r.lb > 0 || x.Op == token.SHR) {
				return lbVal{0, false}
			}
		}
		return unknown
	}
	return unknown
}

// refine applies the outcome of a leaf condition to the state.
func (a *lbAnalysis) refine(cond ast.Expr, outcome bool, s lbState) lbState {
	b, ok := ast.Unparen(cond).(*ast.BinaryExpr)
	if !ok {
		return s
	}
	op := b.Op
	if !outcome {
		switch op {
		case token.LSS:
			op = token.GEQ
		case token.LEQ:
			op = token.GTR
		case token.GTR:
			op = token.LEQ
		case token.GEQ:
			op = token.LSS
		case token.EQL:
			op = token.NEQ
		case token.NEQ:
			op = token.EQL
		default:
			return s
		}
	}
	keyOf := func(e ast.Expr) (string, bool) {
		if o, ok := a.tracked(e); ok {
			return objKey(o), true
		}
		if call, ok := ast.Unparen(e).(*ast.CallExpr); ok {
			if id, ok := call.Fun.(*ast.Ident); ok && id.Name == "len" && len(call.Args) == 1 {
				if _, isB := a.info.Uses[id].(*types.Builtin); isB {
					return "len:" + nospace(str(call.Args[0])), true
				}
			}
		}
		return "", false
	}
	raise := func(e ast.Expr, to lbVal) {
		k, ok := keyOf(e)
		if !ok || to.lb == negInf {
			return
		}
		cur, has := s[k]
		if !has && strings.HasPrefix(k, "len:") {
			cur, has = lbVal{0, false}, true
		}
		if !has || to.lb > cur.lb {
			// a bound established by a test is a fact about this path, not an attained minimum
			s[k] = lbVal{to.lb, false}
		}
	}
	l, r := a.eval(b.X, s), a.eval(b.Y, s)
	switch op {
	case token.GTR: // X > Y
		raise(b.X, lbVal{addSat(r.lb, 1), false})
	case token.GEQ:
		raise(b.X, r)
	case token.LSS: // X < Y  => Y > X
		raise(b.Y, lbVal{addSat(l.lb, 1), false})
	case token.LEQ:
		raise(b.Y, l)
	case token.EQL:
		raise(b.X, r)
		raise(b.Y, l)
	case token.NEQ:
		// x != c with lb(x) == c  =>  x >= c+1
		if tv, ok := a.info.Types[ast.Unparen(b.Y)]; ok && tv.Value != nil && l.lb != negInf {
			if k, exact := constant.Int64Val(tv.Value); exact && k == l.lb {
				raise(b.X, lbVal{k + 1, false})
			}
		}
		if tv, ok := a.info.Types[ast.Unparen(b.X)]; ok && tv.Value != nil && r.lb != negInf {
			if k, exact := constant.Int64Val(tv.Value); exact && k == r.lb {
				raise(b.Y, lbVal{k + 1, false})
			}
		}
	}
	return s
}

func rootName(e ast.Expr) string {
	if id := rootIdent(e); id != nil {
		return id.Name
	}
	return ""
}

func (a *lbAnalysis) invalidateLen(s lbState, lhs ast.Expr) {
	r := rootName(lhs)
	if r == "" {
		return
	}
	for k := range s {
		if strings.HasPrefix(k, "len:") {
			arg := k[4:]
			if arg == r || strings.HasPrefix(arg, r+".") || strings.HasPrefix(arg, r+"[") {
				delete(s, k)
			}
		}
	}
}

func (a *lbAnalysis) assign(s lbState, lhs ast.Expr, v lbVal) {
	a.invalidateLen(s, lhs)
	if o, ok := a.tracked(lhs); ok {
		if v.lb == negInf {
			delete(s, objKey(o))
		} else {
			s[objKey(o)] = v
		}
	}
}

func (a *lbAnalysis) transfer(n *flow.Node, in lbState) lbState {
	s := in.clone()
	switch n.Kind {
	case flow.KTrue, flow.KFalse:
		if n.Of != nil && n.Of.Kind == flow.KCond {
			return a.refine(n.Of.Expr, n.Kind == flow.KTrue, s)
		}
		if n.Of != nil && n.Of.Kind == flow.KRange && n.Kind == flow.KTrue {
			rs := n.Of.Stmt.(*ast.RangeStmt)
			if rs.Key != nil {
				kv := lbVal{negInf, false}
				switch a.info.TypeOf(rs.X).Underlying().(type) {
				case *types.Slice, *types.Array, *types.Basic, *types.Pointer:
					kv = lbVal{0, true}
				}
				a.assign(s, rs.Key, kv)
			}
			if rs.Value != nil {
				a.assign(s, rs.Value, lbVal{negInf, false})
			}
		}
		return s
	case flow.KStmt:
		if n.Spec != nil {
			for i, nm := range n.Spec.Names {
				v := lbVal{0, false} // zero value
				if len(n.Spec.Values) == len(n.Spec.Names) {
					v = a.eval(n.Spec.Values[i], s)
				} else if len(n.Spec.Values) > 0 {
					v = lbVal{negInf, false}
				}
				a.assign(s, nm, v)
			}
			return s
		}
		switch st := n.Stmt.(type) {
		case *ast.AssignStmt:
			switch st.Tok {
			case token.ASSIGN, token.DEFINE:
				if len(st.Lhs) == len(st.Rhs) {
					vals := make([]lbVal, len(st.Rhs))
					for i := range st.Rhs {
						vals[i] = a.eval(st.Rhs[i], s)
					}
					for i := range st.Lhs {
						a.assign(s, st.Lhs[i], vals[i])
					}
				} else {
					for _, l := range st.Lhs {
						a.assign(s, l, lbVal{negInf, false})
					}
				}
			case token.ADD_ASSIGN:
				l, r := a.eval(st.Lhs[0], s), a.eval(st.Rhs[0], s)
				a.assign(s, st.Lhs[0], lbVal{addSat(l.lb, r.lb), (l.attained || r.attained) && l.lb != negInf && r.lb != negInf})
			case token.SUB_ASSIGN:
				v := lbVal{negInf, false}
				if tv, ok := a.info.Types[ast.Unparen(st.Rhs[0])]; ok && tv.Value != nil {
					if k, exact := constant.Int64Val(tv.Value); exact {
						l := a.eval(st.Lhs[0], s)
						v = lbVal{addSat(l.lb, -k), l.attained && l.lb != negInf}
					}
				}
				a.assign(s, st.Lhs[0], v)
			default:
				for _, l := range st.Lhs {
					a.assign(s, l, lbVal{negInf, false})
				}
			}
		case *ast.IncDecStmt:
			l := a.eval(st.X, s)
			d := int64(1)
			if st.Tok == token.DEC {
				d = -1
			}
			a.assign(s, st.X, lbVal{addSat(l.lb, d), l.attained && l.lb != negInf})
		}
	}
	return s
}

// run computes the IN state of every node.
func (a *lbAnalysis) run() map[*flow.Node]lbState {
	in := map[*flow.Node]lbState{}
	out := map[*flow.Node]lbState{}
	visits := map[*flow.Node]int{}
	in[a.g.Entry] = lbState{}
	work := []*flow.Node{a.g.Entry}
	queued := map[*flow.Node]bool{a.g.Entry: true}
	for len(work) > 0 {
		n := work[0]
		work = work[1:]
		queued[n] = false
		st := in[n]
		if st == nil {
			continue
		}
		visits[n]++
		o := a.transfer(n, st)
		if old, ok := out[n]; ok && equalLB(old, o) {
			continue
		}
		out[n] = o
		for _, sc := range n.Succs {
			var j lbState
			first := true
			for _, p := range sc.Preds {
				po, ok := out[p]
				if !ok {
					continue
				}
				if first {
					j, first = po.clone(), false
				} else {
					j = joinLB(j, po)
				}
			}
			if j == nil {
				continue
			}
			// widening: a bound that keeps sinking at this node is given up
			if old := in[sc]; old != nil && visits[sc] > 40 {
				for k, v := range j {
					if ov, ok := old[k]; ok && v.lb < ov.lb {
						delete(j, k)
					}
				}
			}
			if !equalLB(in[sc], j) {
				in[sc] = j
				if !queued[sc] {
					queued[sc] = true
					work = append(work, sc)
				}
			}
		}
	}
	return in
}

func (c *Ctx) r104() {
	const rule = "R10.4"
	c.R.Rule(rule, "library packages: forward lower-bound analysis of local integer variables over the statement graph (constants, range keys ≥ 0, Index* results ≥ -1, ± constants, ++/--, refinement by the outcomes of comparisons, join = minimum, widening after 40 visits). An index v[e] or slice bound v[a:b] on a slice/array/string whose lower bound is negative *and attained by the data* — it stems from a range key (0 at the first element) or a search result (-1 when absent) plus/minus constants, so the minimum occurs for a suitable input whenever the branch is taken — is reported: the code's own arithmetic drives the index below zero (`i = j - 1` at the first loop iteration followed by `i--` and `values[:i+1]`). Bounds that rest on a length are not judged (lexer invariants, see R10.3)")
	sites, judged := 0, 0
	for _, rel := range libPkgs {
		pk := c.P.Pkg(rel)
		if pk == nil {
			continue
		}
		info := pk.TypesInfo
		for _, fd := range load.FuncDecls(pk) {
			if fd.Body == nil {
				continue
			}
			g := c.graph(pk, fd)
			a := &lbAnalysis{info: info, g: g, untracked: map[types.Object]bool{}}
			// variables assigned inside function literals or whose address is taken are not tracked
			ast.Inspect(fd.Body, func(x ast.Node) bool {
				switch e := x.(type) {
				case *ast.UnaryExpr:
					if e.Op == token.AND {
						if id, ok := ast.Unparen(e.X).(*ast.Ident); ok && info.Uses[id] != nil {
							a.untracked[info.Uses[id]] = true
						}
					}
				case *ast.FuncLit:
					ast.Inspect(e.Body, func(y ast.Node) bool {
						switch s := y.(type) {
						case *ast.AssignStmt:
							for _, l := range s.Lhs {
								if id, ok := ast.Unparen(l).(*ast.Ident); ok && info.Uses[id] != nil {
									a.untracked[info.Uses[id]] = true
								}
							}
						case *ast.IncDecStmt:
							if id, ok := ast.Unparen(s.X).(*ast.Ident); ok && info.Uses[id] != nil {
								a.untracked[info.Uses[id]] = true
							}
						}
						return true
					})
				}
				return true
			})
			in := a.run()
			fname := pk.Name + "." + load.FuncName(fd)
			type hit struct {
				pos, what string
				v         lbVal
			}
			var hits []hit
			nFn := 0
			for _, y := range g.Nodes {
				st := in[y]
				if st == nil {
					continue
				}
				var root ast.Node
				switch y.Kind {
				case flow.KStmt:
					root = y.Ast()
				case flow.KCond, flow.KCase:
					root = y.Expr
				case flow.KRange:
					root = y.Stmt.(*ast.RangeStmt).X
				}
				if root == nil {
					continue
				}
				indexable := func(e ast.Expr) bool {
					t := info.TypeOf(e)
					if t == nil {
						return false
					}
					switch u := t.Underlying().(type) {
					case *types.Slice, *types.Array:
						return true
					case *types.Basic:
						return u.Info()&types.IsString != 0
					case *types.Pointer:
						_, isArr := u.Elem().Underlying().(*types.Array)
						return isArr
					}
					return false
				}
				ast.Inspect(root, func(x ast.Node) bool {
					if _, isLit := x.(*ast.FuncLit); isLit {
						return false
					}
					var bounds []ast.Expr
					var what string
					switch e := x.(type) {
					case *ast.IndexExpr:
						if indexable(e.X) {
							bounds, what = []ast.Expr{e.Index}, str(e)
						}
					case *ast.SliceExpr:
						if indexable(e.X) {
							for _, b := range []ast.Expr{e.Low, e.High, e.Max} {
								if b != nil {
									bounds = append(bounds, b)
								}
							}
							what = str(e)
						}
					}
					for _, b := range bounds {
						sites++
						nFn++
						v := a.eval(b, st)
						if v.lb != negInf {
							judged++
						}
						if v.lb != negInf && v.lb < 0 && v.attained {
							hits = append(hits, hit{c.pos(x), fmt.Sprintf("%s (bound %s ≥ %d, attained)", what, str(b), v.lb), v})
						}
					}
					return true
				})
			}
			if nFn == 0 {
				continue
			}
			sort.Slice(hits, func(i, j int) bool { return hits[i].pos < hits[j].pos })
			var msgs []string
			for _, h := range hits {
				msgs = append(msgs, h.what+" at "+h.pos)
			}
			pos := c.pos(fd)
			if len(hits) > 0 {
				pos = hits[0].pos
			}
			c.R.Check(len(hits) == 0, rule, fname+"/indices stay non-negative", pos, fmt.Sprintf("%d index / slice bounds examined", nFn), "an index can become negative by the function's own arithmetic and the access panics: "+strings.Join(msgs, "; "))
		}
	}
	c.R.Note("R10.4: %d index / slice-bound expressions, %d with a known lower bound", sites, judged)
	c.R.Floor(rule, "index expressions examined", sites, 500)
}

// R10.5: a remembered position whose element was deleted is dead.
func (c *Ctx) r105() {
	const rule = "R10.5"
	c.R.Rule(rule, "library packages: a local integer that only ever receives copies of other index variables or constants (a remembered position such as `iPaddingBox = i`, never stepped with ++/--/+=) and is used in a deletion `S = append(S[:p], S[p+k:]...)` designates nothing afterwards: on every path from the deletion to the next use of p inside an index or slice expression there must be an assignment to p. (b) when such a variable takes the index of an inner loop but is declared outside the enclosing loop, the enclosing loop's body resets it to a constant outside the inner loop — a position found in one segment must not be acted on in the next. A stale position deletes the wrong element on the next round, or runs past a later deletion and panics (`background:padding-box border-box border-box` → slice bounds out of range)")
	nMemo, nDel := 0, 0
	for _, rel := range libPkgs {
		pk := c.P.Pkg(rel)
		if pk == nil {
			continue
		}
		info := pk.TypesInfo
		for _, fd := range load.FuncDecls(pk) {
			if fd.Body == nil {
				continue
			}
			// classify local int variables
			type asg struct{ copyOf, konst, other int }
			cls := map[types.Object]*asg{}
			note := func(l ast.Expr, rhs ast.Expr, stepping bool) {
				id, ok := ast.Unparen(l).(*ast.Ident)
				if !ok {
					return
				}
				o := info.Uses[id]
				if o == nil {
					o = info.Defs[id]
				}
				v, isVar := o.(*types.Var)
				if !isVar || v.IsField() || !isIntType(v.Type()) {
					return
				}
				a := cls[o]
				if a == nil {
					a = &asg{}
					cls[o] = a
				}
				switch {
				case stepping || rhs == nil:
					a.other++
				default:
					if tv, ok := info.Types[ast.Unparen(rhs)]; ok && tv.Value != nil {
						a.konst++
					} else if rid, ok := ast.Unparen(rhs).(*ast.Ident); ok {
						if rv, isV := info.Uses[rid].(*types.Var); isV && isIntType(rv.Type()) {
							a.copyOf++
						} else {
							a.other++
						}
					} else {
						a.other++
					}
				}
			}
			ast.Inspect(fd.Body, func(x ast.Node) bool {
				switch s := x.(type) {
				case *ast.AssignStmt:
					for i, l := range s.Lhs {
						if (s.Tok == token.ASSIGN || s.Tok == token.DEFINE) && len(s.Lhs) == len(s.Rhs) {
							note(l, s.Rhs[i], false)
						} else {
							note(l, nil, true)
						}
					}
				case *ast.IncDecStmt:
					note(s.X, nil, true)
				case *ast.RangeStmt:
					if s.Key != nil {
						note(s.Key, nil, true)
					}
					if s.Value != nil {
						note(s.Value, nil, true)
					}
				case *ast.ValueSpec:
					for i, nm := range s.Names {
						if len(s.Values) == len(s.Names) {
							note(nm, s.Values[i], false)
						} else if len(s.Values) == 0 {
							o := info.Defs[nm]
							if v, isVar := o.(*types.Var); isVar && isIntType(v.Type()) {
								if cls[o] == nil {
									cls[o] = &asg{}
								}
								cls[o].konst++
							}
						} else {
							note(nm, nil, true)
						}
					}
				}
				return true
			})
			memo := map[types.Object]bool{}
			for o, a := range cls {
				if a.other == 0 && a.copyOf > 0 {
					memo[o] = true
				}
			}
			if len(memo) == 0 {
				continue
			}
			nMemo += len(memo)
			g := c.graph(pk, fd)
			fname := pk.Name + "." + load.FuncName(fd)
			for _, y := range g.Nodes {
				as, ok := y.Stmt.(*ast.AssignStmt)
				if !ok || y.Kind != flow.KStmt || len(as.Lhs) != 1 || len(as.Rhs) != 1 {
					continue
				}
				call, ok := ast.Unparen(as.Rhs[0]).(*ast.CallExpr)
				if !ok || len(call.Args) != 2 || !call.Ellipsis.IsValid() {
					continue
				}
				if id, isId := call.Fun.(*ast.Ident); !isId || id.Name != "append" {
					continue
				}
				head, ok1 := ast.Unparen(call.Args[0]).(*ast.SliceExpr)
				tail, ok2 := ast.Unparen(call.Args[1]).(*ast.SliceExpr)
				if !ok1 || !ok2 || head.High == nil || str(head.X) != str(as.Lhs[0]) || str(tail.X) != str(as.Lhs[0]) {
					continue
				}
				pid, isId := ast.Unparen(head.High).(*ast.Ident)
				if !isId || !memo[info.Uses[pid]] {
					continue
				}
				po := info.Uses[pid]
				nDel++
				usesP := func(z *flow.Node) bool {
					var root ast.Node
					switch z.Kind {
					case flow.KStmt:
						root = z.Ast()
					case flow.KCond, flow.KCase:
						root = z.Expr
					}
					if root == nil {
						return false
					}
					found := false
					ast.Inspect(root, func(x ast.Node) bool {
						var bounds []ast.Expr
						switch e := x.(type) {
						case *ast.IndexExpr:
							bounds = []ast.Expr{e.Index}
						case *ast.SliceExpr:
							bounds = []ast.Expr{e.Low, e.High, e.Max}
						}
						for _, b := range bounds {
							if b != nil && flow.Contains(b, func(q ast.Node) bool {
								qi, ok := q.(*ast.Ident)
								return ok && info.Uses[qi] == po
							}) {
								found = true
							}
						}
						return true
					})
					return found
				}
				reassigns := func(z *flow.Node) bool {
					_, ok := assignsTo(z, func(l ast.Expr) bool {
						li, isId := ast.Unparen(l).(*ast.Ident)
						return isId && (info.Uses[li] == po || info.Defs[li] == po)
					})
					return ok && z != y
				}
				p := g.Path(flow.Search{From: []*flow.Node{y}, Goal: usesP, Avoid: reassigns})
				c.R.Check(p == nil, rule, fmt.Sprintf("%s/%s after the deletion %s", fname, pid.Name, str0(as)), c.pos(as), "reassigned before its next use as an index", "the element at the remembered position "+pid.Name+" is deleted but "+pid.Name+" keeps its value and is used as an index again: "+pathStr(c, g, p))
			}
		}
	}
	// (b) a position remembered from an inner scan does not survive into the next round of the enclosing loop
	nCarry := 0
	for _, rel := range libPkgs {
		pk := c.P.Pkg(rel)
		if pk == nil {
			continue
		}
		info := pk.TypesInfo
		for _, fd := range load.FuncDecls(pk) {
			if fd.Body == nil {
				continue
			}
			loopsOf := func(n ast.Node) []ast.Node { // innermost first
				var out []ast.Node
				for x := c.P.Parent(n); x != nil; x = c.P.Parent(x) {
					switch x.(type) {
					case *ast.ForStmt, *ast.RangeStmt:
						out = append(out, x)
					case *ast.FuncDecl, *ast.FuncLit:
						return out
					}
				}
				return out
			}
			inductionVar := func(loop ast.Node) types.Object {
				switch l := loop.(type) {
				case *ast.RangeStmt:
					if id, ok := l.Key.(*ast.Ident); ok {
						return info.Defs[id]
					}
				case *ast.ForStmt:
					if as, ok := l.Init.(*ast.AssignStmt); ok && len(as.Lhs) == 1 {
						if id, ok := as.Lhs[0].(*ast.Ident); ok {
							return info.Defs[id]
						}
					}
				}
				return nil
			}
			ast.Inspect(fd.Body, func(x ast.Node) bool {
				as, ok := x.(*ast.AssignStmt)
				if !ok || as.Tok != token.ASSIGN || len(as.Lhs) != 1 || len(as.Rhs) != 1 {
					return true
				}
				lid, ok1 := as.Lhs[0].(*ast.Ident)
				rid, ok2 := ast.Unparen(as.Rhs[0]).(*ast.Ident)
				if !ok1 || !ok2 {
					return true
				}
				m, isVar := info.Uses[lid].(*types.Var)
				if !isVar || !isIntType(m.Type()) {
					return true
				}
				loops := loopsOf(as)
				if len(loops) < 2 || inductionVar(loops[0]) == nil || inductionVar(loops[0]) != info.Uses[rid] {
					return true
				}
				// m must only ever receive copies / constants (a remembered position)
				onlyMemo := true
				ast.Inspect(fd.Body, func(q ast.Node) bool {
					switch st := q.(type) {
					case *ast.IncDecStmt:
						if id, ok := st.X.(*ast.Ident); ok && info.Uses[id] == types.Object(m) {
							onlyMemo = false
						}
					case *ast.AssignStmt:
						for _, l := range st.Lhs {
							if id, ok := l.(*ast.Ident); ok && (info.Uses[id] == types.Object(m) || info.Defs[id] == types.Object(m)) && st.Tok != token.ASSIGN && st.Tok != token.DEFINE {
								onlyMemo = false
							}
						}
					}
					return true
				})
				if !onlyMemo {
					return true
				}
				inner, outer := loops[0], loops[1]
				// declared inside the outer loop's body? then every round starts afresh
				if m.Pos() >= outer.Pos() && m.Pos() <= outer.End() {
					return true
				}
				nCarry++
				// a reset in the outer loop's body, outside the inner loop
				reset := false
				ast.Inspect(outer, func(q ast.Node) bool {
					if q == inner {
						return false
					}
					if st, ok := q.(*ast.AssignStmt); ok && len(st.Lhs) == 1 && len(st.Rhs) == 1 {
						if id, ok := st.Lhs[0].(*ast.Ident); ok && info.Uses[id] == types.Object(m) {
							if _, isK := intConst(info, st.Rhs[0]); isK {
								reset = true
							}
						}
					}
					return true
				})
				c.R.Check(reset, rule, fmt.Sprintf("%s.%s/%s is reset in every round of the enclosing loop", pk.Name, load.FuncName(fd), lid.Name), c.pos(as), "reset outside the inner scan", lid.Name+" remembers a position of the inner scan but is declared outside the enclosing loop and never reset there: a position found while handling one segment is still set while the next segment is handled (`background:url(a) padding-box,url(b) border-box` loses both keywords)")
				return true
			})
		}
	}
	c.R.Note("R10.5: %d remembered-position variables, %d deletions at such a position, %d remembered across an enclosing loop", nMemo, nDel, nCarry)
	c.R.Floor(rule, "deletions at a remembered position", nDel, 1)
}

// R10.6: a linear pass inside a scan loop is capped.
func (c *Ctx) r106() {
	const rule = "R10.6"
	c.R.Rule(rule, "library packages: a call of a helper that walks its whole argument (parse.ToLower, bytes.ToLower / ToUpper / TrimSpace …: cost linear in the slice) with a sub-slice S[lo:hi] of the slice S that the enclosing loop ranges over is a loop inside a loop; it keeps the total work linear only if the span is bounded — the call is dominated by a comparison of an expression over its bounds (hi - lo) with an integer constant — or if the spans of successive passes are disjoint: the span is S[L:i] with i the loop index, and no feasible path (flag tests correlated, `x = !x` flips) leads from the call to another pass starting at L without an assignment that moves L to a value computed from i. A lower bound that lags behind (an index into the compacted output used on the input) makes W bytes of white space followed by Q quoted parameter values cost W×Q")
	perFn := map[*ast.FuncDecl]int{}
	linear := map[string]bool{load.ParseMod + ".ToLower": true, "bytes.ToLower": true, "bytes.ToUpper": true, "bytes.TrimSpace": true, "bytes.Title": true}
	n := 0
	for _, rel := range libPkgs {
		pk := c.P.Pkg(rel)
		if pk == nil {
			continue
		}
		info := pk.TypesInfo
		for _, fd := range load.FuncDecls(pk) {
			if fd.Body == nil {
				continue
			}
			g := c.graph(pk, fd)
			for _, y := range g.Nodes {
				a := y.Ast()
				if a == nil || y.Kind != flow.KStmt {
					continue
				}
				var call *ast.CallExpr
				var sl *ast.SliceExpr
				flowInspectCalls(a, func(cl *ast.CallExpr) {
					if linear[calleeName(info, cl)] && len(cl.Args) >= 1 {
						if s, ok := ast.Unparen(cl.Args[0]).(*ast.SliceExpr); ok && s.Low != nil && s.High != nil {
							call, sl = cl, s
						}
					}
				})
				if call == nil {
					continue
				}
				// inside a range loop over the same slice?
				var loop *ast.RangeStmt
				for x := c.P.Parent(call); x != nil; x = c.P.Parent(x) {
					if rs, ok := x.(*ast.RangeStmt); ok && str(rs.X) == str(sl.X) {
						loop = rs
						break
					}
					if _, isFn := x.(*ast.FuncDecl); isFn {
						break
					}
				}
				if loop == nil {
					continue
				}
				n++
				perFn[fd]++
				lo, hi := nospace(str(sl.Low)), nospace(str(sl.High))
				capped := false
				for _, f := range g.DomFacts(y) {
					if f.Test.Kind != flow.KCond {
						continue
					}
					be, ok := ast.Unparen(f.Test.Expr).(*ast.BinaryExpr)
					if !ok {
						continue
					}
					for _, side := range [][2]ast.Expr{{be.X, be.Y}, {be.Y, be.X}} {
						if _, isK := intConst(info, side[1]); isK {
							sx := nospace(str(side[0]))
							if strings.Contains(sx, lo) && strings.Contains(sx, hi) {
								capped = true
							}
						}
					}
				}
				how := "span compared with a constant"
				lagPath := ""
				if !capped {
					// consumed spans: S[L:i] with L advanced past i before the next pass that starts at L
					if lid, ok := ast.Unparen(sl.Low).(*ast.Ident); ok {
						if kid, ok := loop.Key.(*ast.Ident); ok && nospace(str(sl.High)) == kid.Name {
							lobj := info.Uses[lid]
							advances := func(q *flow.Node) bool {
								as, ok := q.Stmt.(*ast.AssignStmt)
								if !ok || q.Kind != flow.KStmt {
									return false
								}
								for k, l := range as.Lhs {
									if id, ok := l.(*ast.Ident); ok && info.Uses[id] == lobj && k < len(as.Rhs) {
										hit := false
										ast.Inspect(as.Rhs[k], func(z ast.Node) bool {
											if zi, ok := z.(*ast.Ident); ok && info.Uses[zi] == info.Defs[kid] {
												hit = true
											}
											return true
										})
										return hit
									}
								}
								return false
							}
							again := func(q *flow.Node) bool {
								qa := q.Ast()
								if qa == nil || q.Kind != flow.KStmt {
									return false
								}
								hit := false
								flowInspectCalls(qa, func(cl *ast.CallExpr) {
									if linear[calleeName(info, cl)] && len(cl.Args) >= 1 {
										if s2, ok := ast.Unparen(cl.Args[0]).(*ast.SliceExpr); ok && s2.Low != nil {
											if id2, ok := ast.Unparen(s2.Low).(*ast.Ident); ok && info.Uses[id2] == lobj {
												hit = true
											}
										}
									}
								})
								return hit
							}
							if p := g.Path(flow.Search{From: []*flow.Node{y}, Goal: again, Avoid: advances, Track: true, Init: g.InitFacts(y, false)}); p == nil {
								capped = true
								how = "the spans are disjoint: " + lid.Name + " is moved past " + kid.Name + " before the next pass that starts at it"
							} else {
								lagPath = " (next pass without moving " + lid.Name + ": " + pathStr(c, g, p) + ")"
							}
						}
					}
				}
				c.R.Check(capped, rule, fmt.Sprintf("%s.%s/%s inside the loop over %s#%d", pk.Name, load.FuncName(fd), str(call.Fun), str(sl.X), perFn[fd]), c.pos(call), how, "a linear pass over "+str(call.Args[0])+" runs once per iteration of the loop over "+str(sl.X)+" with no cap on the span"+lagPath+": quadratic time on crafted input")
			}
		}
	}
	c.R.Floor(rule, "linear helper calls on a span of the looped-over slice", n, 1)
}

// linearPositions: coefficient sum of the position variables of slice S in an index expression.
// An index into S is a position (sum 1: `start+1`, `end-1`); a difference of two positions
// (`end-start-1`, sum 0) is a distance and only coincides with a position while start == 0.
func linearTerms(info *types.Info, e ast.Expr, sign int, out map[types.Object]int, ok *bool) {
	e = ast.Unparen(e)
	if tv, has := info.Types[e]; has && tv.Value != nil {
		return
	}
	switch x := e.(type) {
	case *ast.Ident:
		if o := info.Uses[x]; o != nil {
			out[o] += sign
			return
		}
	case *ast.BinaryExpr:
		switch x.Op {
		case token.ADD:
			linearTerms(info, x.X, sign, out, ok)
			linearTerms(info, x.Y, sign, out, ok)
			return
		case token.SUB:
			linearTerms(info, x.X, sign, out, ok)
			linearTerms(info, x.Y, -sign, out, ok)
			return
		}
	case *ast.CallExpr:
		if id, isId := x.Fun.(*ast.Ident); isId && id.Name == "len" && len(x.Args) == 1 {
			if aid, isA := ast.Unparen(x.Args[0]).(*ast.Ident); isA && info.Uses[aid] != nil {
				out[info.Uses[aid]] += sign // len(S) counts as a position of S (keyed by S itself)
				return
			}
		}
	}
	*ok = false
}

// r107 (listed as R04.5 / R10.7): an index built as the difference of two positions.
func (c *Ctx) distanceAsIndex(rule string, rels []string) {
	c.R.Rule(rule, "an index into a slice S is a position in S. Variables that are used directly as an index or slice bound of S, compared with len(S), or are range keys over S are positions of S; a sum of positions and constants whose position coefficients add up to 1 (`start+1`, `end-1`, `len(S)-1`) is again a position, one whose coefficients add up to 0 (`end-start-1`) is a distance — it equals a position only while the subtracted position is 0. Every index / slice bound of S, including the elements of an int slice literal that is ranged over to produce the index, whose terms are all positions of S must have coefficient sum 1. (`values[end-start-1]` in the loop over comma-separated background layers addresses the first layer when start > 0)")
	n, judged := 0, 0
	for _, rel := range rels {
		pk := c.P.Pkg(rel)
		if pk == nil {
			continue
		}
		info := pk.TypesInfo
		for _, fd := range load.FuncDecls(pk) {
			if fd.Body == nil {
				continue
			}
			// positions per slice object
			pos := map[types.Object]map[types.Object]bool{}
			addPos := func(s, v types.Object) {
				if s == nil || v == nil {
					return
				}
				if pos[s] == nil {
					pos[s] = map[types.Object]bool{}
				}
				pos[s][v] = true
			}
			sliceObj := func(e ast.Expr) types.Object {
				id, ok := ast.Unparen(e).(*ast.Ident)
				if !ok {
					return nil
				}
				o := info.Uses[id]
				if o == nil {
					return nil
				}
				if _, isSl := o.Type().Underlying().(*types.Slice); !isSl {
					return nil
				}
				return o
			}
			varObj := func(e ast.Expr) types.Object {
				id, ok := ast.Unparen(e).(*ast.Ident)
				if !ok {
					return nil
				}
				if v, isVar := info.Uses[id].(*types.Var); isVar && isIntType(v.Type()) {
					return v
				}
				if v, isVar := info.Defs[id].(*types.Var); isVar && isIntType(v.Type()) {
					return v
				}
				return nil
			}
			ast.Inspect(fd.Body, func(x ast.Node) bool {
				switch e := x.(type) {
				case *ast.IndexExpr:
					addPos(sliceObj(e.X), varObj(e.Index))
				case *ast.SliceExpr:
					for _, b := range []ast.Expr{e.Low, e.High} {
						if b != nil {
							addPos(sliceObj(e.X), varObj(b))
						}
					}
				case *ast.RangeStmt:
					if e.Key != nil {
						addPos(sliceObj(e.X), varObj(e.Key))
					}
				case *ast.BinaryExpr:
					switch e.Op {
					case token.LSS, token.LEQ, token.GTR, token.GEQ, token.EQL, token.NEQ:
						for _, pr := range [][2]ast.Expr{{e.X, e.Y}, {e.Y, e.X}} {
							if call, ok := ast.Unparen(pr[1]).(*ast.CallExpr); ok && len(call.Args) == 1 {
								if id, isId := call.Fun.(*ast.Ident); isId && id.Name == "len" {
									addPos(sliceObj(call.Args[0]), varObj(pr[0]))
								}
							}
						}
					}
				}
				return true
			})
			if len(pos) == 0 {
				continue
			}
			// ranged int literals: for _, i := range []int{e1, e2} → i stands for e1, e2
			litElems := map[types.Object][]ast.Expr{}
			ast.Inspect(fd.Body, func(x ast.Node) bool {
				rs, ok := x.(*ast.RangeStmt)
				if !ok || rs.Value == nil {
					return true
				}
				cl, isCL := ast.Unparen(rs.X).(*ast.CompositeLit)
				if !isCL {
					return true
				}
				if v := varObj(rs.Value); v != nil {
					litElems[v] = cl.Elts
				}
				return true
			})
			fname := pk.Name + "." + load.FuncName(fd)
			var bad []string
			check := func(s types.Object, idx ast.Expr, where ast.Node) {
				if s == nil || idx == nil || pos[s] == nil {
					return
				}
				exprs := []ast.Expr{idx}
				if v := varObj(idx); v != nil && litElems[v] != nil {
					exprs = litElems[v]
				}
				for _, e := range exprs {
					n++
					terms := map[types.Object]int{}
					ok := true
					linearTerms(info, e, 1, terms, &ok)
					if !ok || len(terms) == 0 {
						continue
					}
					sum, all, nvars := 0, true, 0
					for o, k := range terms {
						if k == 0 {
							continue
						}
						nvars++
						if !(pos[s][o] || o == s) {
							all = false
						}
						sum += k
					}
					if !all || nvars < 2 {
						continue
					}
					judged++
					if sum != 1 {
						bad = append(bad, fmt.Sprintf("%s[%s] at %s: the index %s is a difference of positions of %s (coefficient sum %d)", s.Name(), str(idx), c.pos(where), str(e), s.Name(), sum))
					}
				}
			}
			ast.Inspect(fd.Body, func(x ast.Node) bool {
				switch e := x.(type) {
				case *ast.IndexExpr:
					check(sliceObj(e.X), e.Index, e)
				case *ast.SliceExpr:
					for _, b := range []ast.Expr{e.Low, e.High} {
						check(sliceObj(e.X), b, e)
					}
				}
				return true
			})
			if len(bad) > 0 {
				sort.Strings(bad)
				c.R.Bad(rule, fname+"/indices are positions, not distances", c.pos(fd), strings.Join(bad, "; ")+": for a later segment of the slice it addresses an element of the first one")
			}
		}
	}
	c.R.Exists(rule, "index expressions over two or more positions", "-", fmt.Sprintf("%d index expressions, %d composed of positions of the indexed slice, all with coefficient sum 1", n, judged))
}

// scratchAliasing: a scratch buffer is not refilled while something still points at it.
func (c *Ctx) scratchAliasing(rule string, rels []string) {
	c.R.Rule(rule, "a local []byte that is reset and refilled in place (`b = f(b[:0], …)`: the new contents reuse the old backing array) must not have been stored into a longer-lived place — a struct field, a slice or map element — from which the old contents are still read: there is no path from such a store of b to a reset-and-refill of the same b. Otherwise the place stored first silently takes the second value (`background-position:right 10% bottom 20%` → `90% 90%`: both offsets share one buffer)")
	n := 0
	for _, rel := range rels {
		pk := c.P.Pkg(rel)
		if pk == nil {
			continue
		}
		info := pk.TypesInfo
		for _, fd := range load.FuncDecls(pk) {
			if fd.Body == nil {
				continue
			}
			g := c.graph(pk, fd)
			type site struct {
				n *flow.Node
				v types.Object
			}
			var stores, resets []site
			localSlice := func(e ast.Expr) types.Object {
				id, ok := ast.Unparen(e).(*ast.Ident)
				if !ok {
					return nil
				}
				v, isVar := info.Uses[id].(*types.Var)
				if !isVar || v.IsField() || !isByteSlice(v.Type()) || v.Parent() == nil || v.Pkg() != nil && v.Parent() == v.Pkg().Scope() {
					return nil
				}
				return v
			}
			for _, y := range g.Nodes {
				as, ok := y.Stmt.(*ast.AssignStmt)
				if !ok || y.Kind != flow.KStmt {
					continue
				}
				for i, l := range as.Lhs {
					if i >= len(as.Rhs) {
						break
					}
					// store: <field or element> = b
					switch ast.Unparen(l).(type) {
					case *ast.SelectorExpr, *ast.IndexExpr:
						if v := localSlice(as.Rhs[i]); v != nil {
							stores = append(stores, site{y, v})
						}
					}
					// reset-and-refill: b = f(b[:0], …)
					if v := localSlice(l); v != nil {
						if call, isCall := ast.Unparen(as.Rhs[i]).(*ast.CallExpr); isCall && len(call.Args) > 0 {
							if sl, isSl := ast.Unparen(call.Args[0]).(*ast.SliceExpr); isSl && localSlice(sl.X) == v && sl.Low == nil && sl.High != nil && str(sl.High) == "0" {
								resets = append(resets, site{y, v})
							}
						}
					}
				}
			}
			if len(stores) == 0 || len(resets) == 0 {
				continue
			}
			fname := pk.Name + "." + load.FuncName(fd)
			for _, st := range stores {
				for _, rs := range resets {
					if st.v != rs.v {
						continue
					}
					n++
					// a fresh value assigned to b in between (b = make(…), b = nil, b := …) cuts the alias
					fresh := func(q *flow.Node) bool {
						rhs, isAs := assignsTo(q, func(l ast.Expr) bool { return localSlice(l) == st.v })
						if !isAs || q == rs.n {
							return false
						}
						if call, isCall := ast.Unparen(rhs).(*ast.CallExpr); isCall {
							if id, isId := call.Fun.(*ast.Ident); isId && id.Name == "make" {
								return true
							}
							if len(call.Args) > 0 && isNilExpr(call.Args[0]) {
								return true // append(nil, …) / AppendInt(nil, …)
							}
						}
						return isNilExpr(rhs)
					}
					p := g.Path(flow.Search{From: []*flow.Node{st.n}, Goal: func(q *flow.Node) bool { return q == rs.n }, Avoid: fresh})
					c.R.Check(p == nil, rule, fmt.Sprintf("%s/%s stored by %s, refilled by %s", fname, st.v.Name(), str0(st.n.Stmt), str0(rs.n.Stmt)), c.pos(st.n.Stmt), "never refilled after the store", st.v.Name()+" is stored at "+c.pos(st.n.Stmt)+" and later reset and refilled in place at "+c.pos(rs.n.Stmt)+": what was stored first now shows the second contents: "+pathStr(c, g, p))
				}
			}
		}
	}
	c.R.Exists(rule, "stored-and-refilled scratch buffers", "-", fmt.Sprintf("%d (store, refill) pairs on the same local buffer", n))
}

// R10.8: a loop that consumes tokens ends when the lexer reports the end of input.
func (c *Ctx) r108() {
	const rule = "R10.8"
	c.R.Rule(rule, "html, xml, svg: at the end of input (and after an error) the lexer returns ErrorToken on every call. For every loop whose body takes a token from the buffer (`tb.Shift()`), under the stipulation that this token is the ErrorToken — every test `X.TokenType == K` / `case K` with another K fails, tests for ErrorToken succeed — no path leads from the Shift back to it: the loop is left. A skip loop that only waits for its closing token never returns on a truncated document (`<svg><?xml-stylesheet href=\"a.css\"`)")
	n := 0
	for _, rel := range []string{"html", "xml", "svg"} {
		pk := c.P.Pkg(rel)
		if pk == nil {
			continue
		}
		info := pk.TypesInfo
		for _, fd := range load.FuncDecls(pk) {
			if fd.Body == nil || load.RecvName(fd) == "TokenBuffer" {
				continue
			}
			g := c.graph(pk, fd)
			isError := func(e ast.Expr) bool {
				return strings.HasSuffix(str(e), ".ErrorToken")
			}
			// a token taken in a condition: `for tb.Shift().TokenType != K {}`
			for _, y := range g.Nodes {
				if y.Kind != flow.KCond || y.Expr == nil {
					continue
				}
				be, ok := ast.Unparen(y.Expr).(*ast.BinaryExpr)
				if !ok || (be.Op != token.EQL && be.Op != token.NEQ) || !strings.HasSuffix(str(be.X), ".TokenType") {
					continue
				}
				shift := false
				flowInspectCalls(be.X, func(call *ast.CallExpr) {
					if strings.HasSuffix(calleeName(info, call), "TokenBuffer).Shift") {
						shift = true
					}
				})
				if !shift {
					continue
				}
				var loopNode ast.Node
				for x := c.P.Parent(y.Expr); x != nil; x = c.P.Parent(x) {
					if fs, ok := x.(*ast.ForStmt); ok {
						loopNode = fs
						break
					}
					if _, ok := x.(*ast.FuncDecl); ok {
						break
					}
				}
				if loopNode == nil {
					continue
				}
				n++
				truth := isError(be.Y) != (be.Op == token.NEQ)
				// from the outcome the stipulation selects, is there a way back to the condition inside the loop?
				seen := map[*flow.Node]bool{}
				var back []*flow.Node
				var walk func(q *flow.Node, path []*flow.Node) bool
				walk = func(q *flow.Node, path []*flow.Node) bool {
					for _, sc := range q.Succs {
						if sc == y {
							back = append(path, sc)
							return true
						}
						qa := sc.Ast()
						if qa == nil && sc.Of != nil {
							qa = sc.Of.Ast()
						}
						if seen[sc] || (qa != nil && !(loopNode.Pos() <= qa.Pos() && qa.End() <= loopNode.End())) {
							continue
						}
						if q == y && (sc.Kind == flow.KTrue || sc.Kind == flow.KFalse) && (sc.Kind == flow.KTrue) != truth {
							continue
						}
						seen[sc] = true
						if walk(sc, append(path, sc)) {
							return true
						}
					}
					return false
				}
				hang := walk(y, nil)
				c.R.Check(!hang, rule, fmt.Sprintf("%s.%s/token loop #%d leaves on ErrorToken", pk.Name, load.FuncName(fd), n), c.pos(y.Expr), "no way back to the Shift when the token is ErrorToken", "the loop condition takes another token although the lexer has reported ErrorToken — it will do so forever (`<svg><?xml-stylesheet href=\"a.css\"` never returns): "+pathStr(c, g, back))
			}
			for _, y := range g.Nodes {
				a := y.Ast()
				if a == nil || y.Kind != flow.KStmt {
					continue
				}
				shift := false
				flowInspectCalls(a, func(call *ast.CallExpr) {
					if strings.HasSuffix(calleeName(info, call), "TokenBuffer).Shift") {
						shift = true
					}
				})
				if !shift {
					continue
				}
				// the innermost enclosing loop: leaving it counts as leaving
				var loopNode ast.Node
				for x := c.P.Parent(a); x != nil; x = c.P.Parent(x) {
					stop := false
					switch x.(type) {
					case *ast.ForStmt, *ast.RangeStmt:
						loopNode = x
						stop = true
					case *ast.FuncDecl, *ast.FuncLit:
						stop = true
					}
					if stop {
						break
					}
				}
				if loopNode == nil {
					continue
				}
				inside := func(q *flow.Node) bool {
					qa := q.Ast()
					if qa == nil && q.Of != nil {
						qa = q.Of.Ast()
					}
					return qa == nil || loopNode.Pos() <= qa.Pos() && qa.End() <= loopNode.End()
				}
				// the token variable bound by this statement (if any): tests on other variables (peeked tokens) are not decided
				tokVar := ""
				if as, ok := y.Stmt.(*ast.AssignStmt); ok && len(as.Lhs) == 1 {
					tokVar = str(as.Lhs[0])
				}
				if tokVar == "" || tokVar == "_" {
					continue // a token taken and dropped inside another token loop: that loop's own token decides
				}
				n++
				seen := map[*flow.Node]bool{}
				var back []*flow.Node
				var walk func(q *flow.Node, path []*flow.Node) bool
				walk = func(q *flow.Node, path []*flow.Node) bool {
					for _, sc := range q.Succs {
						if sc == y {
							back = append(path, sc)
							return true
						}
						if seen[sc] || !inside(sc) {
							continue
						}
						if (sc.Kind == flow.KTrue || sc.Kind == flow.KFalse) && sc.Of != nil {
							var k ast.Expr
							subj := ""
							neg := false
							switch sc.Of.Kind {
							case flow.KCond:
								if be, ok := ast.Unparen(sc.Of.Expr).(*ast.BinaryExpr); ok && (be.Op == token.EQL || be.Op == token.NEQ) && strings.HasSuffix(str(be.X), ".TokenType") {
									k, subj, neg = be.Y, strings.TrimSuffix(str(be.X), ".TokenType"), be.Op == token.NEQ
								}
							case flow.KCase:
								if sc.Of.Tag != nil && strings.HasSuffix(str(sc.Of.Tag), ".TokenType") {
									k, subj = sc.Of.Expr, strings.TrimSuffix(str(sc.Of.Tag), ".TokenType")
								}
							}
							if k != nil && (tokVar == "" || subj == tokVar) {
								truth := isError(k) != neg
								if (sc.Kind == flow.KTrue) != truth {
									continue
								}
							}
						}
						seen[sc] = true
						if walk(sc, append(path, sc)) {
							return true
						}
					}
					return false
				}
				hang := walk(y, nil)
				c.R.Check(!hang, rule, fmt.Sprintf("%s.%s/token loop #%d leaves on ErrorToken", pk.Name, load.FuncName(fd), n), c.pos(a), "no way back to the Shift when the token is ErrorToken", "the loop takes another token although the lexer has reported ErrorToken — it will do so forever: "+pathStr(c, g, back))
			}
		}
	}
	c.R.Floor(rule, "token-consuming loops", n, 5)
}

// R10.9: stripping delimiters needs both of them.
func (c *Ctx) r109() {
	const rule = "R10.9"
	c.R.Rule(rule, "library packages: a slice v[a : len(v)-b] (or v[a : n-b] with n defined once as len(v)) with constants a, b and a+b ≥ 2 (taking off the quotes, `url(`…`)`, `/*!`…`*/`) panics with `slice bounds out of range` when len(v) < a+b. A token that the lexer closed at the end of the input lacks its closing delimiter (CSS: `local('` is a function with the one-byte string `'`), so the kind of the token proves nothing about its length. Each such slice is dominated by length tests on v — or on the expression v was defined from — that establish len(v) ≥ a+b; exempt are the string literals of the JS parser, which reports an unterminated literal as an error instead of returning a token")
	exempt := func(fname, v string) string {
		if strings.HasPrefix(fname, "js.") && (strings.HasSuffix(v, "lit.Data") || strings.HasSuffix(v, "].Data")) {
			return "JS string literal: the parser fails on an unterminated literal"
		}
		return ""
	}
	n, judged := 0, 0
	for _, rel := range libPkgs {
		pk := c.P.Pkg(rel)
		if pk == nil {
			continue
		}
		info := pk.TypesInfo
		for _, fd := range load.FuncDecls(pk) {
			if fd.Body == nil {
				continue
			}
			var sites []*ast.SliceExpr
			alias := map[*ast.SliceExpr]types.Object{}
			aliasCall := map[*ast.SliceExpr]*ast.CallExpr{}
			ast.Inspect(fd.Body, func(x ast.Node) bool {
				e, ok := x.(*ast.SliceExpr)
				if !ok || e.High == nil {
					return true
				}
				hb, ok := ast.Unparen(e.High).(*ast.BinaryExpr)
				if !ok || hb.Op != token.SUB {
					return true
				}
				call, ok := ast.Unparen(hb.X).(*ast.CallExpr)
				if !ok {
					// `n - b` with n defined once as len(v)
					if id, isId := ast.Unparen(hb.X).(*ast.Ident); isId {
						if lcall := lenAliasDef(info, fd, id); lcall != nil && nospace(str(lcall.Args[0])) == nospace(str(e.X)) {
							if _, ok := intConst(info, hb.Y); ok {
								sites = append(sites, e)
								alias[e] = info.Uses[id]
								aliasCall[e] = lcall
							}
						}
					}
					return true
				}
				if str(call.Fun) != "len" || len(call.Args) != 1 || nospace(str(call.Args[0])) != nospace(str(e.X)) {
					return true
				}
				if _, ok := intConst(info, hb.Y); !ok {
					return true
				}
				sites = append(sites, e)
				return true
			})
			if len(sites) == 0 {
				continue
			}
			g := c.graph(pk, fd)
			var lc *linCtx
			fname := pk.Name + "." + load.FuncName(fd)
			seen := map[string]int{}
			for _, e := range sites {
				var a int64
				if e.Low != nil {
					k, ok := intConst(info, e.Low)
					if !ok {
						continue
					}
					a = k
				}
				b, _ := intConst(info, ast.Unparen(e.High).(*ast.BinaryExpr).Y)
				need := a + b
				if a < 1 || b < 1 {
					continue // only the idiom that takes something off both ends
				}
				n++
				v := nospace(str(e.X))
				names := []string{v}
				y := g.NodeOf(e)
				if id, ok := ast.Unparen(e.X).(*ast.Ident); ok && y != nil {
					// the definition of v reaching the slice, when there is exactly one: facts about its right-hand side count
					if lc == nil {
						lc = newLinCtx(c, info, g)
					}
					obj := info.Uses[id]
					var reaching []*flow.Node
					for _, d := range lc.assign[obj] {
						if d == y {
							continue
						}
						others := lc.assign[obj]
						p := g.Path(flow.Search{From: []*flow.Node{d}, Goal: func(q *flow.Node) bool { return q == y }, Avoid: func(q *flow.Node) bool {
							if q == d || q == y {
								return false
							}
							for _, o := range others {
								if o == q {
									return true
								}
							}
							return false
						}})
						if p != nil {
							reaching = append(reaching, d)
						}
					}
					if len(reaching) == 1 {
						if as, ok := reaching[0].Stmt.(*ast.AssignStmt); ok && len(as.Lhs) == 1 && len(as.Rhs) == 1 {
							names = append(names, nospace(str(as.Rhs[0])))
						}
					}
				}
				var best int64 = -1
				if y != nil {
					for _, f := range g.DomFacts(y) {
						if f.Test.Kind != flow.KCond {
							continue
						}
						cond := f.Test.Expr
						if obj := alias[e]; obj != nil {
							cond = substIdent(info, cond, obj, aliasCall[e])
						}
						if fv, lb, ok := lenLowerBound(info, cond, f.Value); ok && lb > best {
							for _, nm := range names {
								if fv == nm {
									best = lb
								}
							}
						}
					}
				}
				seen[v]++
				construct := fmt.Sprintf("%s/%s#%d has both delimiters", fname, nospace(str(e)), seen[v])
				if best < need {
					if why := exempt(fname, v); why != "" {
						c.R.OK(rule, construct, c.pos(e), why)
						continue
					}
				}
				judged++
				c.R.Check(best >= need, rule, construct, c.pos(e), fmt.Sprintf("needs len ≥ %d, guards give len ≥ %d", need, best),
					fmt.Sprintf("%s needs len(%s) ≥ %d, the dominating length tests establish %d: a token cut short by the end of the input (`local('`) makes the minifier panic", str(e), v, need, best))
			}
		}
	}
	c.R.Floor(rule, "delimiter-stripping slices", n, 10)
	_ = judged
}

// lenAliasDef: id is a variable with exactly one definition in fd, `id := len(x)`; returns that call.
func lenAliasDef(info *types.Info, fd *ast.FuncDecl, id *ast.Ident) *ast.CallExpr {
	obj := info.Uses[id]
	if obj == nil {
		return nil
	}
	var def *ast.CallExpr
	n := 0
	ast.Inspect(fd.Body, func(x ast.Node) bool {
		switch s := x.(type) {
		case *ast.AssignStmt:
			for i, l := range s.Lhs {
				if li, ok := l.(*ast.Ident); ok && (info.Defs[li] == obj || info.Uses[li] == obj) {
					n++
					if len(s.Lhs) == len(s.Rhs) {
						if call, ok := ast.Unparen(s.Rhs[i]).(*ast.CallExpr); ok && str(call.Fun) == "len" && len(call.Args) == 1 {
							def = call
						}
					}
				}
			}
		case *ast.IncDecStmt:
			if li, ok := s.X.(*ast.Ident); ok && info.Uses[li] == obj {
				n++
			}
		case *ast.UnaryExpr:
			if li, ok := s.X.(*ast.Ident); ok && s.Op == token.AND && info.Uses[li] == obj {
				n++
			}
		}
		return true
	})
	if n != 1 {
		return nil
	}
	return def
}

// substIdent returns e with the uses of obj in comparison operands replaced by repl (only through parentheses and binary operators).
func substIdent(info *types.Info, e ast.Expr, obj types.Object, repl ast.Expr) ast.Expr {
	switch x := e.(type) {
	case *ast.Ident:
		if info.Uses[x] == obj {
			return repl
		}
	case *ast.ParenExpr:
		return &ast.ParenExpr{Lparen: x.Lparen, X: substIdent(info, x.X, obj, repl), Rparen: x.Rparen}
	case *ast.BinaryExpr:
		return &ast.BinaryExpr{X: substIdent(info, x.X, obj, repl), OpPos: x.OpPos, Op: x.Op, Y: substIdent(info, x.Y, obj, repl)}
	}
	return e
}

// R10.11: a cursor that is advanced by data is compared with the length before it is used as an index.
func (c *Ctx) r1011() {
	const rule = "R10.11"
	c.R.Rule(rule, "package svg: an index expression v[j] (or v[j+k], k a positive constant) whose index is a cursor — an int variable that is advanced by an amount read from the data (`j += n` with n a non-constant), not the induction variable of the enclosing loop — is dominated by the outcome `j < len(v)` (`j+k < len(v)` resp.) of a comparison of that cursor with the length of v, with no advance of j in between. The viewBox rewriting walks its value with such a cursor; without the test a value that ends after a number (`viewBox=\"0 0 16.0\"`) is indexed at len(v) and the minifier panics")
	for _, rel := range []string{"svg"} { // (in the other packages the cursor idioms differ — suffix lengths, sentinel bytes — and the rule would raise alarms on correct code)
		pk := c.P.Pkg(rel)
		if pk == nil {
			continue
		}
		info := pk.TypesInfo
		n := 0
		for _, fd := range load.FuncDecls(pk) {
			if fd.Body == nil {
				continue
			}
			// cursors: `j += <non-constant>`
			cursors := map[types.Object]bool{}
			ast.Inspect(fd.Body, func(x ast.Node) bool {
				as, ok := x.(*ast.AssignStmt)
				if !ok || as.Tok != token.ADD_ASSIGN || len(as.Lhs) != 1 {
					return true
				}
				id, ok := as.Lhs[0].(*ast.Ident)
				if !ok {
					return true
				}
				if _, isK := intConst(info, as.Rhs[0]); isK {
					return true
				}
				if o := info.Uses[id]; o != nil && isIntType(o.Type()) {
					cursors[o] = true
				}
				return true
			})
			if len(cursors) == 0 {
				continue
			}
			g := c.graph(pk, fd)
			lc := newLinCtx(c, info, g)
			fname := pk.Name + "." + load.FuncName(fd)
			seen := map[string]int{}
			for _, y := range g.Nodes {
				a := y.Ast()
				if a == nil || y.Kind == flow.KRange || y.Kind == flow.KSelect {
					continue
				}
				var root ast.Node = a
				if y.Kind == flow.KCond {
					root = y.Expr
				}
				ast.Inspect(root, func(x ast.Node) bool {
					if _, isLit := x.(*ast.FuncLit); isLit {
						return false
					}
					ix, ok := x.(*ast.IndexExpr)
					if !ok {
						return true
					}
					id, ok := ast.Unparen(ix.Index).(*ast.Ident)
					var off int64 // the index is cursor + off
					if !ok {
						if be, isB := ast.Unparen(ix.Index).(*ast.BinaryExpr); isB && be.Op == token.ADD {
							if bid, isId := ast.Unparen(be.X).(*ast.Ident); isId {
								if k, isK := intConst(info, be.Y); isK && k > 0 {
									id, ok, off = bid, true, k
								}
							}
						}
					}
					if !ok || !cursors[info.Uses[id]] {
						return true
					}
					if !isByteSlice(info.TypeOf(ix.X)) {
						return true
					}
					v := nospace(str(ix.X))
					j := info.Uses[id]
					// an enclosing for statement whose condition bounds j makes j an induction variable
					n++
					idxText := id.Name
					if off > 0 {
						idxText = fmt.Sprintf("%s+%d", id.Name, off)
					}
					seen[v+"["+idxText+"]"]++
					construct := fmt.Sprintf("%s/%s[%s]#%d below the length", fname, v, idxText, seen[v+"["+idxText+"]"])
					good := false
					for _, f := range g.DomFacts(y) {
						if f.Test.Kind != flow.KCond {
							continue
						}
						be, ok := ast.Unparen(f.Test.Expr).(*ast.BinaryExpr)
						if !ok {
							continue
						}
						l, r := nospace(str(be.X)), nospace(str(be.Y))
						lenv := "len(" + v + ")"
						below := false
						lhs, rhs := id.Name, lenv
						if off > 0 {
							// j+k < len(v), or j < len(v)-k
							switch {
							case l == fmt.Sprintf("%s+%d", id.Name, off) || r == fmt.Sprintf("%s+%d", id.Name, off):
								lhs = fmt.Sprintf("%s+%d", id.Name, off)
							default:
								rhs = fmt.Sprintf("%s-%d", lenv, off)
							}
						}
						switch {
						case l == lhs && r == rhs:
							below = be.Op == token.LSS && f.Value || be.Op == token.GEQ && !f.Value
						case l == rhs && r == lhs:
							below = be.Op == token.GTR && f.Value || be.Op == token.LEQ && !f.Value
						}
						if !below {
							continue
						}
						// no advance of j between the test and the access
						stale := false
						for _, d := range lc.assign[j] {
							if d != y && lc.reach(f.Test, d) && lc.reach(d, y) && !g.Dominates(d, f.Test) {
								// an assignment that can happen after the test and before the access
								if g.Path(flow.Search{From: []*flow.Node{d}, Goal: func(q *flow.Node) bool { return q == y }, Avoid: func(q *flow.Node) bool { return q == f.Test }}) != nil {
									stale = true
								}
							}
						}
						if !stale {
							good = true
						}
					}
					// the same condition node reading v[j] after testing j there (short-circuit order) is handled by dominance of the leaf conditions
					c.R.Check(good, rule, construct, c.pos(ix), "behind "+id.Name+" < len("+v+")", "the cursor "+id.Name+" is advanced by amounts taken from the data and then used as an index without a preceding comparison with len("+v+"): when the value ends there the access is out of range and the minifier panics")
					return true
				})
			}
		}
		c.R.Floor(rule, "cursor-indexed reads in package "+rel, n, 2)
	}
}

// R10.12: recursion that follows the nesting of the input has a depth bound.
func (c *Ctx) r1012() {
	const rule = "R10.12"
	c.R.Rule(rule, "a function of the css, html, svg, xml, json and root packages that calls itself descends one level of something per call; if that something is nesting of the input, a crafted input (`a{b:f(f(f(…` two million deep) overflows the stack, which Go cannot recover from. Each directly recursive function is either (a) depth-guarded: its recursive calls are dominated by, or its entry starts with, a comparison of a depth counter with a constant — the counter being a parameter that the recursive call passes on plus a positive constant, or a receiver field that the function increments — or (b) listed here with the reason why its depth is bounded by something else (it descends a tree that a guarded function built; its self-calls have constant depth). (Package js recurses over the syntax tree, whose depth the parser limits: NestedStmtLimit / NestedExprLimit.)")
	bounded := map[string]string{
		"css.Token.Equal":                 "descends Token.Args, a tree built by the depth-guarded parseFunction",
		"css.Token.String":                "descends Token.Args, a tree built by the depth-guarded parseFunction",
		"css.cssMinifier.writeFunction":   "descends Token.Args, a tree built by the depth-guarded parseFunction",
		"css.cssMinifier.minifyProperty":  "calls itself for a sub-property (Background_Position, Font_Family …) whose case does not recurse: depth 2",
		"html.Minifier.Minify":            "re-enters for the content of a downlevel-hidden conditional comment, which cannot contain another comment end: depth 2",
	}
	n, guarded := 0, 0
	for _, rel := range []string{"", "css", "html", "svg", "xml", "json"} {
		pk := c.P.Pkg(rel)
		if pk == nil {
			continue
		}
		info := pk.TypesInfo
		for _, fd := range load.FuncDecls(pk) {
			if fd.Body == nil {
				continue
			}
			self := info.Defs[fd.Name]
			var calls []*ast.CallExpr
			ast.Inspect(fd.Body, func(x ast.Node) bool {
				if ce, ok := x.(*ast.CallExpr); ok && callee(info, ce) == self && self != nil {
					calls = append(calls, ce)
				}
				return true
			})
			if len(calls) == 0 {
				continue
			}
			n++
			name := pk.Name + "." + load.FuncName(fd)
			construct := name + "/recursion depth bounded"
			if why, ok := bounded[name]; ok {
				c.R.OK(rule, construct, c.pos(fd), "listed: "+why)
				continue
			}
			g := c.graph(pk, fd)
			// depth counters: int parameters passed on as p+k, receiver fields incremented in the function
			params := map[types.Object]int{}
			if fd.Type.Params != nil {
				idx := 0
				for _, f := range fd.Type.Params.List {
					for _, nm := range f.Names {
						params[info.Defs[nm]] = idx
						idx++
					}
				}
			}
			counter := map[string]bool{}
			for _, ce := range calls {
				for i, a := range ce.Args {
					be, ok := ast.Unparen(a).(*ast.BinaryExpr)
					if !ok || be.Op != token.ADD {
						continue
					}
					id, ok := ast.Unparen(be.X).(*ast.Ident)
					if !ok {
						continue
					}
					if k, isK := intConst(info, be.Y); isK && k > 0 {
						if pi, isP := params[info.Uses[id]]; isP && pi == i {
							counter[id.Name] = true
						}
					}
				}
			}
			ast.Inspect(fd.Body, func(x ast.Node) bool {
				if inc, ok := x.(*ast.IncDecStmt); ok && inc.Tok == token.INC {
					if _, isSel := inc.X.(*ast.SelectorExpr); isSel {
						counter[nospace(str(inc.X))] = true
					}
				}
				return true
			})
			isGuard := func(e ast.Expr) bool {
				be, ok := ast.Unparen(e).(*ast.BinaryExpr)
				if !ok {
					return false
				}
				switch be.Op {
				case token.LSS, token.LEQ, token.GTR, token.GEQ:
				default:
					return false
				}
				for _, pr := range [][2]ast.Expr{{be.X, be.Y}, {be.Y, be.X}} {
					if _, isK := intConst(info, pr[0]); !isK {
						continue
					}
					s := nospace(str(pr[1]))
					for cn := range counter {
						if s == cn || strings.HasPrefix(s, cn+"+") || strings.HasPrefix(s, cn+"-") {
							return true
						}
					}
				}
				return false
			}
			ok := true
			for _, ce := range calls {
				y := g.NodeOf(ce)
				if y == nil {
					ok = false
					continue
				}
				// every path from the entry to the recursive call passes an outcome of a guard comparison
				p := g.Path(flow.Search{From: []*flow.Node{g.Entry}, IncludeFrom: true, Goal: func(q *flow.Node) bool { return q == y }, Avoid: func(q *flow.Node) bool {
					return (q.Kind == flow.KTrue || q.Kind == flow.KFalse) && q.Of != nil && q.Of.Kind == flow.KCond && isGuard(q.Of.Expr)
				}})
				if p != nil {
					ok = false
				}
			}
			if ok {
				guarded++
			}
			c.R.Check(ok, rule, construct, c.pos(fd), "a depth counter is compared with a constant on every path to the recursive call", name+" calls itself for the next level of nesting without a bound on the depth: an input nested deeply enough (`a{b:f(f(f(…` some millions deep) exhausts the stack, a fatal error no caller can recover from")
		}
	}
	c.R.Floor(rule, "directly recursive functions", n, 6)
	c.R.Floor(rule, "depth-guarded recursive functions", guarded, 2)
}

// R10.13: temporary files do not outlive the call that made them.
func (c *Ctx) r1013() {
	const rule = "R10.13"
	c.R.Rule(rule, "a library function that creates a temporary file (os.CreateTemp, os.MkdirTemp) for its own use leaves nothing behind: the file is closed and removed when the function returns, whatever the path — a deferred call (or deferred function literal) that reaches os.Remove / os.RemoveAll with the file's name follows the creation, or every path from the creation to a return passes such a removal. A server that minifies through AddCmd with `$in` / `$out` otherwise fills the temp directory with one or two files per response")
	n := 0
	for _, rel := range libPkgs {
		pk := c.P.Pkg(rel)
		if pk == nil {
			continue
		}
		info := pk.TypesInfo
		for _, fd := range load.FuncDecls(pk) {
			if fd.Body == nil {
				continue
			}
			g := (*flow.Graph)(nil)
			ast.Inspect(fd.Body, func(x ast.Node) bool {
				as, ok := x.(*ast.AssignStmt)
				if !ok || len(as.Rhs) != 1 || len(as.Lhs) < 1 {
					return true
				}
				call, ok := ast.Unparen(as.Rhs[0]).(*ast.CallExpr)
				if !ok {
					return true
				}
				cn := calleeName(info, call)
				if cn != "os.CreateTemp" && cn != "os.MkdirTemp" {
					return true
				}
				id, ok := as.Lhs[0].(*ast.Ident)
				if !ok {
					return true
				}
				obj := info.ObjectOf(id)
				n++
				if g == nil {
					g = c.graph(pk, fd)
				}
				removes := func(z ast.Node) bool {
					hit := false
					ast.Inspect(z, func(w ast.Node) bool {
						ce, ok := w.(*ast.CallExpr)
						if !ok {
							return true
						}
						if rn := calleeName(info, ce); (rn == "os.Remove" || rn == "os.RemoveAll") && len(ce.Args) == 1 {
							ast.Inspect(ce.Args[0], func(v ast.Node) bool {
								if vi, ok := v.(*ast.Ident); ok && info.Uses[vi] == obj {
									hit = true
								}
								return true
							})
						}
						return true
					})
					return hit
				}
				deferred := false
				ast.Inspect(fd.Body, func(z ast.Node) bool {
					if d, ok := z.(*ast.DeferStmt); ok && removes(d) {
						deferred = true
					}
					return true
				})
				ok2 := deferred
				if !ok2 {
					y := g.NodeOf(as)
					if y != nil {
						p := g.Path(flow.Search{From: []*flow.Node{y}, Goal: func(q *flow.Node) bool { return retStmt(q) != nil || q == g.Exit }, Avoid: func(q *flow.Node) bool {
							a := q.Ast()
							return a != nil && q.Kind == flow.KStmt && removes(a)
						}})
						ok2 = p == nil
					}
				}
				c.R.Check(ok2, rule, fmt.Sprintf("%s.%s/temporary file %s removed before returning", pk.Name, load.FuncName(fd), id.Name), c.pos(as), "a deferred os.Remove of its name", "the temporary file created here is never removed: every call leaves it in the temp directory (`AddCmd(\"x\", exec.Command(\"tool\", \"$in\", \"$out\"))` leaks two files per minified document)")
				return true
			})
		}
	}
	c.R.Floor(rule, "temporary files created in library packages", n, 2)
}

// R10.14: the HTML minifier re-enters itself for iframe content only to a bounded depth.
func (c *Ctx) r1014() {
	const rule = "R10.14"
	c.R.Rule(rule, "raw text (the content of iframe, script and style elements) is handed, through the registry, to a minifier chosen by a media type — htmlMimeBytes for an iframe, or whatever the element's type attribute says (`<script type=text/html>`): the HTML minifier can be entered again, a recursion that R10.12 cannot see as a self-call. An unterminated element makes the rest of the document its content, so `<iframe>` or `<script type=text/html>` repeated n times recurses n deep and re-lexes the rest each time — unbounded recursion and quadratic time. In html.(*Minifier).Minify, for every embedded call m.MinifyMimetype(M, …, P) with a variable media type: every assignment to M that is not one of the constant non-HTML types is reachable only through the true outcome of a comparison `d < K` of a depth d (read from the call's own parameters with strconv.Atoi) with a constant, and every path from such an assignment, and from every assignment that replaces P as a whole, to the call passes a store of strconv.Itoa(d + positive constant) into P — a depth in the document's type attribute (`type=\"text/html;nesting=-99\"`) is overwritten")
	pk := c.pkg(rule, "html")
	if pk == nil {
		return
	}
	info := pk.TypesInfo
	fd := c.fn(rule, pk, "Minifier.Minify")
	if fd == nil {
		return
	}
	g := c.graph(pk, fd)
	// depth variables: int locals defined from strconv.Atoi(<index into a map parameter>)
	depth := map[types.Object]bool{}
	ast.Inspect(fd.Body, func(x ast.Node) bool {
		as, ok := x.(*ast.AssignStmt)
		if !ok || len(as.Rhs) != 1 || len(as.Lhs) < 1 {
			return true
		}
		if call, ok := ast.Unparen(as.Rhs[0]).(*ast.CallExpr); ok && calleeName(info, call) == "strconv.Atoi" && len(call.Args) == 1 {
			if ie, ok := ast.Unparen(call.Args[0]).(*ast.IndexExpr); ok {
				if _, isMap := info.TypeOf(ie.X).Underlying().(*types.Map); isMap {
					if id, ok := as.Lhs[0].(*ast.Ident); ok {
						depth[info.ObjectOf(id)] = true
					}
				}
			}
		}
		return true
	})
	var dv types.Object
	// the outcome nodes "depth < K" (true) of comparisons of a depth variable with a constant
	isBound := func(q *flow.Node) bool {
		if (q.Kind != flow.KTrue && q.Kind != flow.KFalse) || q.Of == nil || q.Of.Kind != flow.KCond {
			return false
		}
		be, ok := ast.Unparen(q.Of.Expr).(*ast.BinaryExpr)
		if !ok {
			return false
		}
		var v, k ast.Expr
		less := false
		switch be.Op {
		case token.LSS, token.LEQ:
			v, k, less = be.X, be.Y, true
		case token.GTR, token.GEQ:
			v, k, less = be.Y, be.X, true
		}
		if !less {
			return false
		}
		if _, isK := intConst(info, k); !isK {
			// the other direction: K <= d false  ⇔  d < K
			v, k = k, v
			if _, isK2 := intConst(info, k); !isK2 {
				return false
			}
			if id, ok := ast.Unparen(v).(*ast.Ident); ok && depth[info.Uses[id]] && q.Kind == flow.KFalse {
				dv = info.Uses[id]
				return true
			}
			return false
		}
		if id, ok := ast.Unparen(v).(*ast.Ident); ok && depth[info.Uses[id]] && q.Kind == flow.KTrue {
			dv = info.Uses[id]
			return true
		}
		return false
	}
	for _, q := range g.Nodes {
		isBound(q) // finds dv
	}
	// a store of strconv.Itoa(dv + k) into the parameters P
	carries := func(q *flow.Node, P types.Object) bool {
		as, ok := q.Stmt.(*ast.AssignStmt)
		if !ok || q.Kind != flow.KStmt || dv == nil {
			return false
		}
		target := false
		for _, l := range as.Lhs {
			switch x := ast.Unparen(l).(type) {
			case *ast.Ident:
				if info.Uses[x] == P || info.Defs[x] == P {
					target = true
				}
			case *ast.IndexExpr:
				if id, ok := ast.Unparen(x.X).(*ast.Ident); ok && info.Uses[id] == P {
					target = true
				}
			}
		}
		if !target {
			return false
		}
		hit := false
		for _, r := range as.Rhs {
			ast.Inspect(r, func(z ast.Node) bool {
				call, ok := z.(*ast.CallExpr)
				if !ok || calleeName(info, call) != "strconv.Itoa" || len(call.Args) != 1 {
					return true
				}
				be, ok := ast.Unparen(call.Args[0]).(*ast.BinaryExpr)
				if !ok || be.Op != token.ADD {
					return true
				}
				if id, ok := ast.Unparen(be.X).(*ast.Ident); ok && info.Uses[id] == dv {
					if k, isK := intConst(info, be.Y); isK && k > 0 {
						hit = true
					}
				}
				return true
			})
		}
		return hit
	}
	assignsWhole := func(q *flow.Node, o types.Object) bool {
		as, ok := q.Stmt.(*ast.AssignStmt)
		if !ok || q.Kind != flow.KStmt {
			return false
		}
		for _, l := range as.Lhs {
			if id, ok := ast.Unparen(l).(*ast.Ident); ok && (info.Uses[id] == o || info.Defs[id] == o) {
				return true
			}
		}
		return false
	}
	n := 0
	for _, cn := range g.Nodes {
		a := cn.Ast()
		if a == nil || cn.Kind != flow.KStmt && cn.Kind != flow.KCond {
			continue
		}
		for _, call := range findCalls(info, a, false, load.Mod+".(M).MinifyMimetype") {
			if len(call.Args) != 4 {
				continue
			}
			mid, ok := ast.Unparen(call.Args[0]).(*ast.Ident)
			if !ok {
				continue
			}
			M, isLocal := info.Uses[mid].(*types.Var)
			if !isLocal || M.Parent() == pk.Types.Scope() {
				continue // a constant media type of the package
			}
			var P types.Object
			if pid, ok := ast.Unparen(call.Args[3]).(*ast.Ident); ok {
				P = info.Uses[pid]
			}
			cn := cn
			for _, y := range g.Nodes {
				as, ok := y.Stmt.(*ast.AssignStmt)
				if !ok || y.Kind != flow.KStmt || !assignsWhole(y, M) {
					continue
				}
				// constant non-HTML media types are no re-entrance
				if len(as.Lhs) == 1 && len(as.Rhs) == 1 {
					if rid, ok := ast.Unparen(as.Rhs[0]).(*ast.Ident); ok {
						if rv, ok := info.Uses[rid].(*types.Var); ok && rv.Parent() == pk.Types.Scope() {
							if txt, ok := c.byteVarText(pk, rv); ok && !strings.Contains(txt, "html") {
								continue
							}
						}
					}
				}
				// does it reach the call?
				if g.Path(flow.Search{From: []*flow.Node{y}, Goal: func(q *flow.Node) bool { return q == cn }}) == nil {
					continue
				}
				n++
				y := y
				// (search from the head of the enclosing switch case: the function is large and the correlation of tests is only
				// needed inside the case)
				start := g.Entry
				for _, q := range g.Nodes {
					if q.Kind == flow.KTrue && q.Of != nil && q.Of.Kind == flow.KCase && g.Dominates(q, y) && (start == g.Entry || g.Dominates(start, q)) {
						start = q
					}
				}
				unbounded := g.Path(flow.Search{From: []*flow.Node{start}, IncludeFrom: true, Goal: func(q *flow.Node) bool { return q == y }, Avoid: func(q *flow.Node) bool { return isBound(q) || !g.Dominates(start, q) }, Track: true})
				bounded := dv != nil && unbounded == nil
				c.R.Check(bounded, rule, fmt.Sprintf("html.Minifier.Minify/re-entrance for embedded HTML#%d (%s) is depth-bounded", n, nospace(stmtText(as))), c.pos(as), "behind `depth < constant`, the depth read from the parameters", "the HTML minifier can hand embedded text to itself without a bound on the depth (the media type is "+str(as.Rhs[0])+"): `<iframe>` or `<script type=text/html>` repeated n times recurses n deep and takes quadratic time; deeper still the stack is exhausted")
				if !bounded {
					continue
				}
				passes := P != nil
				why := "the embedded call has no parameter variable"
				if passes {
					if p := g.Path(flow.Search{From: []*flow.Node{y}, Goal: func(q *flow.Node) bool { return q == cn }, Avoid: func(q *flow.Node) bool { return carries(q, P) }}); p != nil {
						passes = false
						why = "the call is reached without a store of the increased depth into its parameters: " + pathStr(c, g, p)
					}
				}
				if passes {
					for _, w := range g.Nodes {
						if !assignsWhole(w, P) || carries(w, P) {
							continue
						}
						if p := g.Path(flow.Search{From: []*flow.Node{w}, Goal: func(q *flow.Node) bool { return q == cn }, Avoid: func(q *flow.Node) bool { return carries(q, P) }}); p != nil {
							passes = false
							why = "the parameters are replaced at " + c.pos(w.Ast()) + " (by what the document's type attribute says) after the depth was stored, or without it being stored afterwards"
						}
					}
				}
				c.R.Check(passes, rule, fmt.Sprintf("html.Minifier.Minify/re-entrance for embedded HTML#%d (%s) passes the depth on", n, nospace(stmtText(as))), c.pos(as), "the parameters carry depth+k", "the depth is tested but not passed on increased to the embedded call: every level starts at the same depth and the bound never triggers — "+why)
			}
		}
	}
	c.R.Floor(rule, "re-entrance sites of the HTML minifier", n, 2)
}

// R10.15: a look-ahead loop over the token buffer ends at the error token.
func (c *Ctx) r1015() {
	const rule = "R10.15"
	c.R.Rule(rule, "TokenBuffer.Peek(i) returns the error token for every i at or past the end of the input. A loop of the html, svg or xml minifier that peeks further with a growing index — the index passed to Peek is a variable the loop changes — therefore only ends on a truncated document if it tests for that token: its condition, or a test inside it that leads to a break / return, names ErrorToken (or the loop stops at every token that is not one of an enumerated few, i.e. its continue condition is a positive test). `for next := tb.Peek(0); next.TokenType != StartTagCloseToken && …; next = tb.Peek(n)` never ends for `<style media=\"print\"` at the end of the input")
	n := 0
	for _, rel := range []string{"html", "svg", "xml"} {
		pk := c.P.Pkg(rel)
		if pk == nil {
			continue
		}
		info := pk.TypesInfo
		for _, fd := range load.FuncDecls(pk) {
			if fd.Body == nil {
				continue
			}
			seen := 0
			ast.Inspect(fd.Body, func(x ast.Node) bool {
				fs, ok := x.(*ast.ForStmt)
				if !ok {
					return true
				}
				// Peek with a non-constant argument, directly in this loop (not in a nested loop)
				peeks := false
				check := func(z ast.Node) {
					ast.Inspect(z, func(w ast.Node) bool {
						if inner, ok := w.(*ast.ForStmt); ok && inner != fs {
							return false
						}
						if _, ok := w.(*ast.RangeStmt); ok {
							return false
						}
						if ce, ok := w.(*ast.CallExpr); ok && strings.HasSuffix(calleeName(info, ce), ".(TokenBuffer).Peek") && len(ce.Args) == 1 {
							if _, isK := intConst(info, ce.Args[0]); !isK {
								peeks = true
							}
						}
						return true
					})
				}
				check(fs.Body)
				if fs.Post != nil {
					check(fs.Post)
				}
				if !peeks {
					return true
				}
				n++
				seen++
				// exits: the loop condition, and if-conditions in the body (outside nested loops) whose body breaks or returns
				var exitConds []ast.Expr
				if fs.Cond != nil {
					exitConds = append(exitConds, fs.Cond)
				}
				positiveContinue := false
				ast.Inspect(fs.Body, func(w ast.Node) bool {
					if inner, ok := w.(*ast.ForStmt); ok && inner != fs {
						return false
					}
					ifs, ok := w.(*ast.IfStmt)
					if !ok {
						return true
					}
					leaves := func(b *ast.BlockStmt) (brk, cont bool) {
						for _, st := range b.List {
							switch s := st.(type) {
							case *ast.BranchStmt:
								if s.Tok == token.BREAK {
									brk = true
								}
								if s.Tok == token.CONTINUE {
									cont = true
								}
							case *ast.ReturnStmt:
								brk = true
							}
						}
						return
					}
					if brk, _ := leaves(ifs.Body); brk {
						exitConds = append(exitConds, ifs.Cond)
						// `if t.TokenType != K { break }`: the loop goes on only for tokens of kind K
						if be, ok := ast.Unparen(ifs.Cond).(*ast.BinaryExpr); ok && be.Op == token.NEQ && strings.HasSuffix(nospace(str(be.X)), ".TokenType") {
							positiveContinue = true
						}
					}
					if els, ok := ifs.Else.(*ast.BlockStmt); ok {
						if brk, _ := leaves(els); brk {
							exitConds = append(exitConds, ifs.Cond)
						}
					}
					return true
				})
				// a loop whose body ends in an unconditional break after `if <positive test> { continue }`
				if len(fs.Body.List) > 0 {
					if bs, ok := fs.Body.List[len(fs.Body.List)-1].(*ast.BranchStmt); ok && bs.Tok == token.BREAK {
						positiveContinue = true
					}
				}
				names := false
				for _, e := range exitConds {
					if strings.Contains(nospace(str(e)), "ErrorToken") {
						names = true
					}
				}
				// a condition of the form `next.TokenType == X && …` (|| …) continues only on the enumerated tokens
				if fs.Cond != nil && !names {
					cs := nospace(str(fs.Cond))
					if strings.Contains(cs, ".TokenType==") && !strings.Contains(cs, ".TokenType!=") {
						positiveContinue = true
					}
				}
				c.R.Check(names || positiveContinue, rule, fmt.Sprintf("%s.%s/look-ahead loop#%d ends at the error token", pk.Name, load.FuncName(fd), seen), c.pos(fs), "an exit tests ErrorToken, or the loop continues only on enumerated tokens", "the loop peeks further and further and none of its exits tests for the error token, which Peek returns for ever once the input has ended: a document that ends inside the construct the loop scans never lets the minifier return")
				return true
			})
		}
	}
	c.R.Floor(rule, "look-ahead loops with a growing index", n, 5)
}

// R04.20 (generic, all library packages): a scratch slice hoisted out of a loop does not carry one iteration's
// elements into the next.
func (c *Ctx) r0420(rule string, rels []string) {
	c.R.Rule(rule, "a local slice declared outside a loop and re-sliced inside it to a constant non-zero length (`x = x[:2]`) still holds what the previous iteration stored. Unless every element is overwritten before it is read — a range loop over x whose body unconditionally stores `x[key]`, or a clear(x), directly after the reslice — an iteration that fills only some elements reads the others from the iteration before: `background-position:left 10% top 20%,right 5px bottom 5px` became `10% 20%,10% 20%` when the two offsets were allocated once for all layers. The rule has no instance on the pinned tree; its self-test mutant introduces one")
	n := 0
	for _, rel := range rels {
		pk := c.P.Pkg(rel)
		if pk == nil {
			continue
		}
		info := pk.TypesInfo
		for _, fd := range load.FuncDecls(pk) {
			if fd.Body == nil {
				continue
			}
			var loops []*ast.BlockStmt
			var walk func(list []ast.Stmt)
			visit := func(st ast.Stmt) {
				ast.Inspect(st, func(x ast.Node) bool {
					switch l := x.(type) {
					case *ast.FuncLit:
						return false
					case *ast.ForStmt:
						loops = append(loops, l.Body)
						walk(l.Body.List)
						loops = loops[:len(loops)-1]
						return false
					case *ast.RangeStmt:
						loops = append(loops, l.Body)
						walk(l.Body.List)
						loops = loops[:len(loops)-1]
						return false
					case *ast.BlockStmt:
						walk(l.List)
						return false
					case *ast.CaseClause:
						walk(l.Body)
						return false
					case *ast.CommClause:
						walk(l.Body)
						return false
					}
					return true
				})
			}
			walk = func(list []ast.Stmt) {
				for i, st := range list {
					as, ok := st.(*ast.AssignStmt)
					if !ok {
						visit(st)
						continue
					}
					if as.Tok != token.ASSIGN || len(as.Lhs) != 1 || len(as.Rhs) != 1 || len(loops) == 0 {
						continue
					}
					lid, ok := as.Lhs[0].(*ast.Ident)
					if !ok {
						continue
					}
					se, ok := ast.Unparen(as.Rhs[0]).(*ast.SliceExpr)
					if !ok || se.Low != nil || se.High == nil || nospace(str(se.X)) != lid.Name {
						continue
					}
					if k, isK := intConst(info, se.High); !isK || k == 0 {
						continue // x = x[:0] exposes nothing; x = x[:i] with a computed i is the compaction idiom (shrinks)
					}
					v, isVar := info.Uses[lid].(*types.Var)
					if !isVar || v.IsField() {
						continue
					}
					// declared outside the innermost loop around the reslice
					body := loops[len(loops)-1]
					if body.Pos() <= v.Pos() && v.Pos() <= body.End() {
						continue
					}
					n++
					cleared := false
					if i+1 < len(list) {
						switch nx := list[i+1].(type) {
						case *ast.ExprStmt:
							if ce, ok := nx.X.(*ast.CallExpr); ok && str(ce.Fun) == "clear" && len(ce.Args) == 1 && nospace(str(ce.Args[0])) == lid.Name {
								cleared = true
							}
						case *ast.RangeStmt:
							if nospace(str(nx.X)) == lid.Name && nx.Key != nil {
								for _, bs := range nx.Body.List {
									if a2, ok := bs.(*ast.AssignStmt); ok && len(a2.Lhs) == 1 {
										if ie, ok := a2.Lhs[0].(*ast.IndexExpr); ok && nospace(str(ie.X)) == lid.Name && nospace(str(ie.Index)) == nospace(str(nx.Key)) {
											cleared = true
										}
									}
								}
							}
						}
					}
					c.R.Check(cleared, rule, fmt.Sprintf("%s.%s/%s re-sliced inside a loop is cleared first", pk.Name, load.FuncName(fd), lid.Name), c.pos(as), "followed by a clearing loop", "the slice "+lid.Name+" is declared outside the loop and re-sliced to "+str(se.High)+" elements inside it without being cleared: an iteration that does not store every element reads what the previous iteration left there")
				}
			}
			walk(fd.Body.List)
		}
	}
	c.R.Note("%s: %d hoisted slices re-sliced inside a loop", rule, n)
}

// R10.17: the helper that folds statement after statement into one comma expression extends its accumulator in place.
func (c *Ctx) r1017() {
	const rule = "R10.17"
	c.R.Rule(rule, "optimizeStmtList folds a run of expression statements into one comma expression, one statement per loop iteration, by handing the expression accumulated so far (left.Value) to a helper as its first argument and storing the result in the next statement. The work is proportional to the input only if the helper extends that argument in place: when the first argument already is a comma expression the helper returns that same node and the only append that spreads a list spreads the second argument's. Copying the accumulated list on every call (`list = append(list, comma.List...)`) makes a run of n statements cost n²/2 element copies — 80 KB of `a();` allocates gigabytes. The rule decides this shape, not the running time")
	pk := c.pkg(rule, "js")
	fd := c.fn(rule, pk, "optimizeStmtList")
	if fd == nil {
		return
	}
	info := pk.TypesInfo
	helpers := map[*types.Func]ast.Node{}
	var order []*types.Func
	var inLoop func(n ast.Node, depth int)
	inLoop = func(n ast.Node, depth int) {
		ast.Inspect(n, func(x ast.Node) bool {
			switch l := x.(type) {
			case *ast.ForStmt:
				if l.Body != n {
					inLoop(l.Body, depth+1)
					return false
				}
			case *ast.RangeStmt:
				if l.Body != n {
					inLoop(l.Body, depth+1)
					return false
				}
			case *ast.CallExpr:
				if depth == 0 || len(l.Args) != 2 {
					return true
				}
				f, _ := callee(info, l).(*types.Func)
				if f == nil || f.Pkg() != pk.Types || f.Type().(*types.Signature).Recv() != nil {
					return true
				}
				if nospace(str(l.Args[0])) != "left.Value" {
					return true
				}
				if _, ok := helpers[f]; !ok {
					helpers[f] = l
					order = append(order, f)
				}
			}
			return true
		})
	}
	inLoop(fd.Body, 0)
	c.R.Floor(rule, "helpers that receive the accumulated expression inside the statement loop", len(order), 1)
	for _, f := range order {
		hd := load.Func(pk, f.Name())
		if hd == nil || hd.Body == nil || hd.Type.Params == nil || len(hd.Type.Params.List) == 0 || len(hd.Type.Params.List[0].Names) == 0 {
			c.R.Unres(rule, "helper/"+f.Name(), c.pos(helpers[f]), "declaration of the helper not found")
			continue
		}
		c.R.Func("js." + f.Name())
		p0 := info.Defs[hd.Type.Params.List[0].Names[0]]
		// v, ok := p0.(*js.CommaExpr)
		var acc types.Object
		ast.Inspect(hd.Body, func(x ast.Node) bool {
			as, ok := x.(*ast.AssignStmt)
			if !ok || len(as.Rhs) != 1 || len(as.Lhs) == 0 {
				return true
			}
			ta, ok := as.Rhs[0].(*ast.TypeAssertExpr)
			if !ok || ta.Type == nil || !strings.HasSuffix(nospace(str(ta.Type)), "CommaExpr") {
				return true
			}
			if id, ok := ta.X.(*ast.Ident); ok && info.Uses[id] == p0 {
				if lid, ok := as.Lhs[0].(*ast.Ident); ok && acc == nil {
					acc = info.Defs[lid]
					if acc == nil {
						acc = info.Uses[lid]
					}
				}
			}
			return true
		})
		construct := f.Name() + " extends its first argument in place"
		if acc == nil {
			c.R.Bad(rule, construct, c.pos(hd), "the helper does not test whether its first argument already is a comma expression, so it cannot extend it in place")
			continue
		}
		isAcc := func(e ast.Expr) bool {
			id, ok := ast.Unparen(e).(*ast.Ident)
			return ok && (info.Uses[id] == acc || info.Defs[id] == acc)
		}
		accList := func(e ast.Expr) bool {
			se, ok := ast.Unparen(e).(*ast.SelectorExpr)
			return ok && se.Sel.Name == "List" && isAcc(se.X)
		}
		bad := ""
		returnsAcc := false
		ast.Inspect(hd.Body, func(x ast.Node) bool {
			switch s := x.(type) {
			case *ast.CallExpr:
				if id, ok := s.Fun.(*ast.Ident); ok && info.Uses[id] == types.Universe.Lookup("append") && s.Ellipsis.IsValid() && len(s.Args) == 2 && accList(s.Args[1]) {
					bad = "append spreads the accumulated list " + str(s.Args[1]) + " at " + c.pos(s)
				}
				if id, ok := s.Fun.(*ast.Ident); ok && info.Uses[id] == types.Universe.Lookup("copy") && len(s.Args) == 2 && accList(s.Args[1]) {
					bad = "copy of the accumulated list at " + c.pos(s)
				}
			case *ast.RangeStmt:
				if accList(s.X) {
					bad = "loop over the accumulated list at " + c.pos(s)
				}
			case *ast.ReturnStmt:
				if len(s.Results) == 1 && isAcc(s.Results[0]) {
					returnsAcc = true
				}
			}
			return true
		})
		switch {
		case bad != "":
			c.R.Bad(rule, construct, c.pos(hd), bad+": every call copies everything folded so far")
		case !returnsAcc:
			c.R.Bad(rule, construct, c.pos(hd), "the helper never returns the comma expression it was given: a new node per call means the list is rebuilt per call")
		default:
			c.R.OK(rule, construct, c.pos(hd), "returns the node it was given; only the second argument's list is spread")
		}
	}
}

// R10.18: the length of a rune's encoding is tested for -1 before it is used as a length.
func (c *Ctx) r1018() {
	const rule = "R10.18"
	c.R.Rule(rule, "utf8.RuneLen returns -1 for a value that is not a valid code point to encode (surrogate halves U+D800–U+DFFF, values above U+10FFFF). Used as a length it moves a cursor backwards: `i += m; n -= m` in js.replaceEscapes then slices b[start:i] with start > i — a panic for `\"\\\\t\\\\uDFFF\"` — or truncates the literal. From every assignment `m := utf8.RuneLen(…)` in the library no path reaches a use of m in arithmetic, an index or a slice bound without passing a comparison of m with a constant below 1")
	n := 0
	for _, rel := range libPkgs {
		pk := c.P.Pkg(rel)
		if pk == nil {
			continue
		}
		info := pk.TypesInfo
		for _, fd := range load.FuncDecls(pk) {
			if fd.Body == nil {
				continue
			}
			var g *flow.Graph
			ast.Inspect(fd.Body, func(x ast.Node) bool {
				as, ok := x.(*ast.AssignStmt)
				if !ok || len(as.Lhs) != 1 || len(as.Rhs) != 1 {
					return true
				}
				ce, ok := ast.Unparen(as.Rhs[0]).(*ast.CallExpr)
				if !ok || calleeName(info, ce) != "unicode/utf8.RuneLen" {
					return true
				}
				id, ok := as.Lhs[0].(*ast.Ident)
				if !ok {
					return true
				}
				obj := info.Defs[id]
				if obj == nil {
					obj = info.Uses[id]
				}
				if obj == nil {
					return true
				}
				n++
				if g == nil {
					g = c.graph(pk, fd)
				}
				from := g.NodeOf(as)
				mentions := func(e ast.Node) bool {
					hit := false
					ast.Inspect(e, func(z ast.Node) bool {
						if zid, ok := z.(*ast.Ident); ok && info.Uses[zid] == obj {
							hit = true
						}
						return true
					})
					return hit
				}
				tested := func(q *flow.Node) bool {
					if (q.Kind != flow.KTrue && q.Kind != flow.KFalse) || q.Of == nil || q.Of.Kind != flow.KCond {
						return false
					}
					be, ok := ast.Unparen(q.Of.Expr).(*ast.BinaryExpr)
					if !ok || !mentions(be) {
						return false
					}
					for _, side := range []ast.Expr{be.X, be.Y} {
						if v, isK := intConst(info, side); isK && v < 1 {
							return true
						}
					}
					return false
				}
				uses := func(q *flow.Node) bool {
					if q == from || q.Kind == flow.KCond {
						return false
					}
					a := q.Ast()
					return a != nil && mentions(a)
				}
				p := g.Path(flow.Search{From: []*flow.Node{from}, Goal: uses, Avoid: tested})
				c.R.Check(p == nil, rule, fmt.Sprintf("%s.%s/%s = utf8.RuneLen(…)#%d is tested before it is used as a length", pk.Name, load.FuncName(fd), id.Name, n), c.pos(as), "compared with -1 (or 0) first",
					"the result of utf8.RuneLen is used as a length without a test for -1: for a surrogate half the cursor moves backwards and the following slice expression panics or cuts the string: "+pathStr(c, g, p))
				return true
			})
		}
	}
	c.R.Floor(rule, "results of utf8.RuneLen bound to a variable", n, 1)
}

// R10.19: a look-ahead that steps over tokens of the kind it is run for is bounded.
func (c *Ctx) r1019() {
	const rule = "R10.19"
	c.R.Rule(rule, "a look-ahead loop (Peek with a growing index) costs as much as the tokens it steps over. If the loop sits in the switch case of token kind K and can step over tokens of kind K, every one of a run of such tokens looks through the rest of the run again: quadratic time (`\"a \" + strings.Repeat(\"<!----> \", 40000)` took 7 s in the white space look-ahead of the HTML text case). For every such loop of the html, svg and xml minifiers: under the stipulation next.TokenType == K a path from the head of the loop to the increment of the index exists only if one of the loop's exits compares the index with a constant")
	n := 0
	for _, rel := range []string{"html", "svg", "xml"} {
		pk := c.P.Pkg(rel)
		if pk == nil {
			continue
		}
		info := pk.TypesInfo
		fd := c.fn(rule, pk, "Minifier.Minify")
		if fd == nil {
			continue
		}
		g := c.graph(pk, fd)
		seen := 0
		ast.Inspect(fd.Body, func(x ast.Node) bool {
			fs, ok := x.(*ast.ForStmt)
			if !ok {
				return true
			}
			// Peek(<variable>) bound to a variable, and the variable incremented in the loop
			var idx types.Object
			var tok types.Object
			tokName := "" // as spelled in the source that is analysed (the keys of the path search are source text)
			ast.Inspect(fs.Body, func(w ast.Node) bool {
				if inner, ok := w.(*ast.ForStmt); ok && inner != fs {
					return false
				}
				as, ok := w.(*ast.AssignStmt)
				if !ok || len(as.Lhs) != 1 || len(as.Rhs) != 1 {
					return true
				}
				ce, ok := ast.Unparen(as.Rhs[0]).(*ast.CallExpr)
				if !ok || !strings.HasSuffix(calleeName(info, ce), ".(TokenBuffer).Peek") || len(ce.Args) != 1 {
					return true
				}
				if id, ok := ast.Unparen(ce.Args[0]).(*ast.Ident); ok {
					if lid, ok := as.Lhs[0].(*ast.Ident); ok {
						idx = info.Uses[id]
						tok = info.Defs[lid]
						if tok == nil {
							tok = info.Uses[lid]
						}
						tokName = lid.Name
					}
				}
				return true
			})
			if idx == nil || tok == nil {
				return true
			}
			var incs []*flow.Node
			for _, q := range g.Nodes {
				if inc, ok := q.Stmt.(*ast.IncDecStmt); ok && q.Kind == flow.KStmt && inc.Tok == token.INC && fs.Body.Pos() <= inc.Pos() && inc.End() <= fs.End() {
					if id, ok := inc.X.(*ast.Ident); ok && info.Uses[id] == idx {
						incs = append(incs, q)
					}
				}
			}
			if len(incs) == 0 {
				return true
			}
			label := c.caseLabel(fs)
			if !strings.HasPrefix(label, "case ") {
				return true
			}
			n++
			seen++
			// a constant bound among the exits
			bounded := false
			ast.Inspect(fs.Body, func(w ast.Node) bool {
				ifs, ok := w.(*ast.IfStmt)
				if !ok {
					return true
				}
				be, ok := ast.Unparen(ifs.Cond).(*ast.BinaryExpr)
				if !ok {
					return true
				}
				leaves := false
				for _, st := range ifs.Body.List {
					if bs, ok := st.(*ast.BranchStmt); ok && bs.Tok == token.BREAK {
						leaves = true
					}
					if _, ok := st.(*ast.ReturnStmt); ok {
						leaves = true
					}
				}
				if !leaves {
					return true
				}
				for _, pr := range [][2]ast.Expr{{be.X, be.Y}, {be.Y, be.X}} {
					if id, ok := ast.Unparen(pr[0]).(*ast.Ident); ok && info.Uses[id] == idx {
						if _, isK := intConst(info, pr[1]); isK && (be.Op == token.LSS || be.Op == token.GTR || be.Op == token.LEQ || be.Op == token.GEQ) {
							bounded = true
						}
					}
				}
				return true
			})
			if fs.Cond != nil {
				ast.Inspect(fs.Cond, func(w ast.Node) bool {
					if be, ok := w.(*ast.BinaryExpr); ok {
						for _, pr := range [][2]ast.Expr{{be.X, be.Y}, {be.Y, be.X}} {
							if id, ok := ast.Unparen(pr[0]).(*ast.Ident); ok && info.Uses[id] == idx {
								if _, isK := intConst(info, pr[1]); isK {
									bounded = true
								}
							}
						}
					}
					return true
				})
			}
			// the nodes that bind the peeked token: inside the loop, and the one in front of it
			var peeks, inLoop []*flow.Node
			for _, q := range g.Nodes {
				as, ok := q.Stmt.(*ast.AssignStmt)
				if !ok || q.Kind != flow.KStmt || len(as.Lhs) != 1 || len(as.Rhs) != 1 {
					continue
				}
				lid, ok := as.Lhs[0].(*ast.Ident)
				if !ok || (info.Defs[lid] != tok && info.Uses[lid] != tok) {
					continue
				}
				ce, ok := ast.Unparen(as.Rhs[0]).(*ast.CallExpr)
				if !ok || !strings.HasSuffix(calleeName(info, ce), ".(TokenBuffer).Peek") {
					continue
				}
				peeks = append(peeks, q)
				if fs.Pos() <= as.Pos() && as.End() <= fs.End() {
					inLoop = append(inLoop, q)
				}
			}
			var head *flow.Node
			if len(peeks) > 0 && len(inLoop) > 0 {
				head = peeks[0]
			}
			lo := fs.Pos()
			for _, q := range peeks {
				if a := q.Ast(); a != nil && a.Pos() < lo {
					lo = a.Pos()
				}
			}
			kinds := strings.Split(strings.TrimPrefix(label, "case "), ",")
			var over []string
			if head != nil {
				for _, k := range kinds {
					k = strings.TrimSpace(k)
					assume := map[string]bool{tokName + ".TokenType == " + k: true}
					p := g.Path(flow.Search{From: peeks, Goal: func(q *flow.Node) bool {
						for _, x := range inLoop {
							if x == q {
								return true
							}
						}
						return false
					}, Assume: assume, Track: true, TrackFields: true, Avoid: func(q *flow.Node) bool {
						a := q.Ast()
						return a != nil && (a.Pos() < lo || a.End() > fs.End())
					}})
					if p != nil {
						over = append(over, k)
					}
				}
			}
			construct := fmt.Sprintf("%s.Minifier.Minify/%s/look-ahead loop#%d does not rescan a run of its own token kind", rel, label, seen)
			switch {
			case head == nil:
				c.R.Unres(rule, construct, c.pos(fs), "loop body not found in the flow graph")
			case len(over) > 0 && !bounded:
				c.R.Bad(rule, construct, c.pos(fs), "the loop steps over tokens of kind "+strings.Join(over, ", ")+" — the kind it is run for — and no exit bounds its index by a constant: each token of a long run looks through the rest of the run again, quadratic time")
			case len(over) > 0:
				c.R.OK(rule, construct, c.pos(fs), "steps over "+strings.Join(over, ", ")+" but the index is bounded by a constant")
			default:
				c.R.OK(rule, construct, c.pos(fs), "stops at every token of its own kind")
			}
			return true
		})
	}
	c.R.Floor(rule, "look-ahead loops inside a token case", n, 3)
}

// R10.21: a search that is restarted at every position of a loop looks at a bounded window.
func (c *Ctx) r1021() {
	const rule = "R10.21"
	c.R.Rule(rule, "a loop that walks a byte slice with a cursor i and, at some positions, searches forward from i (bytes.IndexByte / Index / IndexAny over b[i:…]) costs the distance searched at each of them. Unless the cursor then jumps to what was found, the same bytes are searched again from the next position: quadratic time — `<a style=\"&&&&…\">` with 400 000 ampersands and no `;` took 2 s in html.decodeAttrVal, which looked for the `;` of a character reference from every `&`. In the library packages every such search inside a loop over the same slice is over a window with an upper bound (b[i:end]), not the open rest b[i:]")
	n := 0
	for _, rel := range libPkgs {
		pk := c.P.Pkg(rel)
		if pk == nil {
			continue
		}
		info := pk.TypesInfo
		for _, fd := range load.FuncDecls(pk) {
			if fd.Body == nil {
				continue
			}
			ast.Inspect(fd.Body, func(x ast.Node) bool {
				fs, ok := x.(*ast.ForStmt)
				if !ok {
					return true
				}
				// cursor: a variable incremented by the post statement or in the body, compared with len(S) in the condition
				var cursor types.Object
				var over string
				if fs.Cond != nil {
					ast.Inspect(fs.Cond, func(z ast.Node) bool {
						be, ok := z.(*ast.BinaryExpr)
						if !ok {
							return true
						}
						for _, pr := range [][2]ast.Expr{{be.X, be.Y}, {be.Y, be.X}} {
							id, ok1 := ast.Unparen(pr[0]).(*ast.Ident)
							if !ok1 {
								continue
							}
							// len(S), or len(S) minus something
							ast.Inspect(pr[1], func(q ast.Node) bool {
								if ce, ok := q.(*ast.CallExpr); ok && len(ce.Args) == 1 {
									if fid, ok := ce.Fun.(*ast.Ident); ok && fid.Name == "len" && cursor == nil {
										cursor = info.Uses[id]
										over = nospace(str(ce.Args[0]))
									}
								}
								return true
							})
						}
						return true
					})
				}
				if cursor == nil {
					return true
				}
				ast.Inspect(fs.Body, func(z ast.Node) bool {
					ce, ok := z.(*ast.CallExpr)
					if !ok || len(ce.Args) < 1 {
						return true
					}
					nm := calleeName(info, ce)
					linear := map[string]bool{"bytes.IndexByte": true, "bytes.Index": true, "bytes.IndexAny": true, "bytes.IndexFunc": true, "bytes.IndexRune": true,
						"bytes.Contains": true, "bytes.ContainsAny": true, "bytes.ContainsRune": true, "bytes.LastIndex": true, "bytes.LastIndexByte": true, "bytes.Count": true,
						"bytes.ToLower": true, "bytes.ToUpper": true}
					if !linear[nm] {
						return true
					}
					// the slice that is searched, directly or through a conversion of the whole rest (bytes.ToLower(b[i:]))
					arg := ast.Unparen(ce.Args[0])
					for {
						inner, ok := arg.(*ast.CallExpr)
						if !ok || !linear[calleeName(info, inner)] || len(inner.Args) < 1 {
							break
						}
						arg = ast.Unparen(inner.Args[0])
					}
					se, ok := arg.(*ast.SliceExpr)
					if !ok || nospace(str(se.X)) != over || se.Low == nil {
						return true
					}
					if c.P.Parent(ce) != nil {
						if outer, ok := c.P.Parent(ce).(*ast.CallExpr); ok && linear[calleeName(info, outer)] {
							return true // counted with the outer call
						}
					}
					// the window starts at the cursor
					starts := false
					ast.Inspect(se.Low, func(w ast.Node) bool {
						if id, ok := w.(*ast.Ident); ok && info.Uses[id] == cursor {
							starts = true
						}
						return true
					})
					if !starts {
						return true
					}
					n++
					c.R.Check(se.High != nil, rule, fmt.Sprintf("%s.%s/search from the cursor#%d has a bounded window", pk.Name, load.FuncName(fd), n), c.pos(ce), "b[i:end]",
						"the search runs over the whole rest of the slice ("+str(ce.Args[0])+") and is started again from later positions of the same loop: a long input without the byte searched for costs quadratic time")
					return true
				})
				return true
			})
		}
	}
	c.R.Floor(rule, "forward searches from a loop cursor", n, 1)
}
