package rules

// Mutant is a self-test: a one-spot search/replace on a source file of /repo applied
// through the loader's overlay (nothing is written to /repo). The named rule must flag
// the named construct on the mutated program.
type Mutant struct {
	Name       string
	Property   string
	File       string // relative to the repository root
	Old, New   string
	Old2, New2 string      // optional second spot in the same file
	More       [][2]string // further (old, new) spots in the same file
	Rule       string
	Construct  string // substring of the construct key that must be reported
}

var mutants []*Mutant

func mutant(m *Mutant) { mutants = append(mutants, m) }

func MutantsFor(property string) []*Mutant {
	var out []*Mutant
	for _, m := range mutants {
		if m.Property == property {
			out = append(out, m)
		}
	}
	return out
}
