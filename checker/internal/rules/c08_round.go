package rules

import (
	"fmt"
	"go/ast"
	"go/constant"
	"go/token"
	"go/types"
	"sort"
	"strings"

	"golang.org/x/tools/go/packages"

	"verif/checker/internal/flow"
	"verif/checker/internal/load"
)

// ---------------------------------------------------------------------------
// A small linear-inequality entailment over the integer variables of one function.
// A fact is a linear form over variables that is known to be >= 0 at a program point; a goal is
// entailed when it is a sum of facts (coefficients 0..2) plus a non-negative constant. Facts come
// from dominating branch outcomes and from "only ever incremented" variables; a variable of the
// goal may be replaced by the right-hand side of each definition reaching the point. Everything
// is validated against reassignment between the point a fact was established and the point of use.

type linForm struct {
	t map[types.Object]int
	k int
}

func (l linForm) clone() linForm {
	n := linForm{t: map[types.Object]int{}, k: l.k}
	for o, c := range l.t {
		n.t[o] = c
	}
	return n
}

func (l linForm) add(m linForm, f int) linForm {
	n := l.clone()
	for o, c := range m.t {
		n.t[o] += c * f
		if n.t[o] == 0 {
			delete(n.t, o)
		}
	}
	n.k += m.k * f
	return n
}

func (l linForm) String() string {
	var parts []string
	for o, c := range l.t {
		parts = append(parts, fmt.Sprintf("%+d*%s", c, o.Name()))
	}
	sort.Strings(parts)
	return strings.Join(parts, "") + fmt.Sprintf("%+d", l.k)
}

type linCtx struct {
	c      *Ctx
	info   *types.Info
	g      *flow.Graph
	lenOf  map[types.Object]types.Object // slice -> synthetic object standing for len(slice)
	reachM map[[2]int]bool
	assign map[types.Object][]*flow.Node
}

func newLinCtx(c *Ctx, info *types.Info, g *flow.Graph) *linCtx {
	lc := &linCtx{c: c, info: info, g: g, lenOf: map[types.Object]types.Object{}, reachM: map[[2]int]bool{}, assign: map[types.Object][]*flow.Node{}}
	for _, n := range g.Nodes {
		for _, o := range lc.assigned(n) {
			lc.assign[o] = append(lc.assign[o], n)
		}
	}
	return lc
}

// assigned lists the variables a node writes.
func (lc *linCtx) assigned(n *flow.Node) []types.Object {
	var out []types.Object
	add := func(e ast.Expr) {
		if id, ok := ast.Unparen(e).(*ast.Ident); ok {
			if o := lc.info.ObjectOf(id); o != nil {
				out = append(out, o)
			}
		}
	}
	switch n.Kind {
	case flow.KStmt:
		if n.Spec != nil {
			for _, id := range n.Spec.Names {
				add(id)
			}
		}
		switch s := n.Stmt.(type) {
		case *ast.AssignStmt:
			for _, l := range s.Lhs {
				add(l)
			}
		case *ast.IncDecStmt:
			add(s.X)
		}
	case flow.KRange:
		if rs, ok := n.Stmt.(*ast.RangeStmt); ok {
			if rs.Key != nil {
				add(rs.Key)
			}
			if rs.Value != nil {
				add(rs.Value)
			}
		}
	}
	return out
}

func (lc *linCtx) reach(a, b *flow.Node) bool {
	k := [2]int{a.ID, b.ID}
	if v, ok := lc.reachM[k]; ok {
		return v
	}
	v := lc.g.Path(flow.Search{From: []*flow.Node{a}, Goal: func(x *flow.Node) bool { return x == b }}) != nil
	lc.reachM[k] = v
	return v
}

// stable: none of the variables of l is assigned strictly between `from` and `to`.
func (lc *linCtx) stable(l linForm, from, to *flow.Node) bool {
	for o := range l.t {
		for _, m := range lc.assign[o] {
			if m == from {
				continue
			}
			if lc.reach(from, m) && lc.reach(m, to) && m != to {
				return false
			}
		}
	}
	return true
}

func (lc *linCtx) lin(e ast.Expr) (linForm, bool) {
	out := linForm{t: map[types.Object]int{}}
	ok := true
	var walk func(e ast.Expr, sign int)
	walk = func(e ast.Expr, sign int) {
		e = ast.Unparen(e)
		if tv, has := lc.info.Types[e]; has && tv.Value != nil {
			if v, exact := constant.Int64Val(constant.ToInt(tv.Value)); exact {
				out.k += sign * int(v)
				return
			}
			ok = false
			return
		}
		switch x := e.(type) {
		case *ast.Ident:
			if o, isVar := lc.info.Uses[x].(*types.Var); isVar && isIntType(o.Type()) {
				out.t[o] += sign
				return
			}
		case *ast.BinaryExpr:
			switch x.Op {
			case token.ADD:
				walk(x.X, sign)
				walk(x.Y, sign)
				return
			case token.SUB:
				walk(x.X, sign)
				walk(x.Y, -sign)
				return
			}
		case *ast.CallExpr:
			if id, isId := x.Fun.(*ast.Ident); isId && id.Name == "len" && len(x.Args) == 1 {
				if aid, isA := ast.Unparen(x.Args[0]).(*ast.Ident); isA && lc.info.Uses[aid] != nil {
					s := lc.info.Uses[aid]
					if lc.lenOf[s] == nil {
						lc.lenOf[s] = types.NewVar(token.NoPos, nil, "len("+s.Name()+")", types.Typ[types.Int])
					}
					out.t[lc.lenOf[s]] += sign
					return
				}
			}
		}
		ok = false
	}
	walk(e, 1)
	for o, c := range out.t {
		if c == 0 {
			delete(out.t, o)
		}
	}
	return out, ok
}

// condFacts: what a comparison tells when it evaluates to `outcome`.
func (lc *linCtx) condFacts(e ast.Expr, outcome bool) []linForm {
	be, ok := ast.Unparen(e).(*ast.BinaryExpr)
	if !ok {
		return nil
	}
	a, oka := lc.lin(be.X)
	b, okb := lc.lin(be.Y)
	if !oka || !okb {
		return nil
	}
	amb := a.add(b, -1) // a - b
	bma := b.add(a, -1) // b - a
	dec := func(l linForm) linForm { n := l.clone(); n.k--; return n }
	op := be.Op
	if !outcome {
		switch op {
		case token.LSS:
			op = token.GEQ
		case token.LEQ:
			op = token.GTR
		case token.GTR:
			op = token.LEQ
		case token.GEQ:
			op = token.LSS
		case token.EQL:
			op = token.NEQ
		case token.NEQ:
			op = token.EQL
		}
	}
	switch op {
	case token.LSS:
		return []linForm{dec(bma)}
	case token.LEQ:
		return []linForm{bma}
	case token.GTR:
		return []linForm{dec(amb)}
	case token.GEQ:
		return []linForm{amb}
	case token.EQL:
		return []linForm{amb, bma}
	}
	return nil
}

// factsAt: the linear facts that hold whenever n executes.
func (lc *linCtx) factsAt(n *flow.Node) []linForm {
	var out []linForm
	for _, f := range lc.g.DomFacts(n) {
		if f.Test.Kind != flow.KCond {
			continue
		}
		for _, l := range lc.condFacts(f.Test.Expr, f.Value) {
			if lc.stable(l, f.Test, n) {
				out = append(out, l)
			}
		}
	}
	// a variable with one plain definition `v := e` that dominates n, and otherwise only v++: v >= e
	for o, defs := range lc.assign {
		var init *flow.Node
		var initRhs ast.Expr
		okv := true
		for _, d := range defs {
			switch s := d.Stmt.(type) {
			case *ast.IncDecStmt:
				if s.Tok != token.INC {
					okv = false
				}
			case *ast.AssignStmt:
				if len(s.Lhs) == 1 && len(s.Rhs) == 1 && (s.Tok == token.DEFINE || s.Tok == token.ASSIGN) && init == nil {
					init, initRhs = d, s.Rhs[0]
				} else {
					okv = false
				}
			default:
				okv = false
			}
		}
		if !okv || init == nil || init == n || !lc.g.Dominates(init, n) {
			continue
		}
		r, ok := lc.lin(initRhs)
		if !ok || !lc.stable(r, init, n) {
			continue
		}
		v := linForm{t: map[types.Object]int{o: 1}}
		out = append(out, v.add(r, -1))
	}
	return out
}

func entails(facts []linForm, goal linForm) bool {
	// only facts that share a variable with the goal's closure
	if len(goal.t) == 0 {
		return goal.k >= 0
	}
	if len(facts) > 12 {
		facts = facts[:12]
	}
	var rec func(i int, res linForm) bool
	rec = func(i int, res linForm) bool {
		if len(res.t) == 0 && res.k >= 0 {
			return true
		}
		if i == len(facts) {
			return false
		}
		for c := 0; c <= 2; c++ {
			if rec(i+1, res.add(facts[i], -c)) {
				return true
			}
		}
		return false
	}
	return rec(0, goal)
}

// prove: goal >= 0 whenever n executes.
func (lc *linCtx) prove(n *flow.Node, goal linForm, depth int) bool {
	if entails(lc.factsAt(n), goal) {
		return true
	}
	if depth == 0 {
		return false
	}
	for o := range goal.t {
		// definitions of o reaching n
		var defs []*flow.Node
		for _, d := range lc.assign[o] {
			if d == n {
				continue
			}
			others := lc.assign[o]
			p := lc.g.Path(flow.Search{From: []*flow.Node{d}, Goal: func(x *flow.Node) bool { return x == n }, Avoid: func(x *flow.Node) bool {
				if x == d || x == n {
					return false
				}
				for _, q := range others {
					if q == x {
						return true
					}
				}
				return false
			}})
			if p != nil {
				defs = append(defs, d)
			}
		}
		if len(defs) == 0 {
			continue
		}
		all := true
		for _, d := range defs {
			as, ok := d.Stmt.(*ast.AssignStmt)
			if !ok || len(as.Lhs) != 1 || len(as.Rhs) != 1 || (as.Tok != token.DEFINE && as.Tok != token.ASSIGN) {
				all = false
				break
			}
			r, okr := lc.lin(as.Rhs[0])
			if !okr {
				all = false
				break
			}
			coef := goal.t[o]
			sub := goal.clone()
			delete(sub.t, o)
			sub = sub.add(r, coef)
			// the other variables keep their value from d to n
			rest := sub.clone()
			if !lc.stable(rest, d, n) {
				all = false
				break
			}
			if !lc.prove(d, sub, depth-1) {
				all = false
				break
			}
		}
		if all {
			return true
		}
	}
	return false
}

// ---------------------------------------------------------------------------
// R08.8: the byte that decides the rounding is a digit, never the dot.

// dotVar: the int variable that receives the position of '.' (assigned under a comparison with '.').
func dotVar(info *types.Info, g *flow.Graph) types.Object {
	for _, n := range g.Nodes {
		as, ok := n.Stmt.(*ast.AssignStmt)
		if !ok || n.Kind != flow.KStmt || len(as.Lhs) != 1 {
			continue
		}
		id, ok := as.Lhs[0].(*ast.Ident)
		if !ok {
			continue
		}
		for _, f := range g.DomFacts(n) {
			if !f.Value || f.Test.Kind != flow.KCond {
				continue
			}
			if be, ok := ast.Unparen(f.Test.Expr).(*ast.BinaryExpr); ok && be.Op == token.EQL {
				for _, side := range []ast.Expr{be.X, be.Y} {
					if tv, has := info.Types[side]; has && tv.Value != nil && tv.Value.Kind() == constant.Int {
						if v, _ := constant.Int64Val(tv.Value); v == '.' {
							if o := info.ObjectOf(id); o != nil && isIntType(o.Type()) {
								return o
							}
						}
					}
				}
			}
		}
	}
	return nil
}

func (c *Ctx) r088(pk *packages.Package) {
	const rule = "R08.8"
	c.R.Rule(rule, "minify.Decimal and minify.Number round by looking at the first dropped byte: `'5' <= num[X]`. That byte must be a digit: if X can be the position of the dot, '.' (0x2E) compares below '5' and the fraction is cut off instead of rounded (`Decimal(\"10.9\",1)` → `10`). For every comparison of num[X] with '5' either X ≠ dot follows — by a small linear entailment — from the dominating branch outcomes, the definitions of X reaching the read (each expanded in turn) and the lower bound of only-incremented cursors; or the read is immediately re-done under `dot == X` (the form Number uses: `if dot == end { inc = … num[end+1] }`)")
	info := pk.TypesInfo
	total := 0
	for _, name := range []string{"Decimal", "Number"} {
		fd := c.fn(rule, pk, name)
		if fd == nil {
			continue
		}
		g := c.graph(pk, fd)
		dot := dotVar(info, g)
		if dot == nil {
			c.R.Unres(rule, "minify."+name+"/dot position", c.pos(fd), "no variable receives the position of '.'")
			continue
		}
		lc := newLinCtx(c, info, g)
		k := 0
		for _, y := range g.Nodes {
			a := y.Ast()
			if a == nil || y.Kind == flow.KRange || y.Kind == flow.KSelect {
				continue
			}
			var root ast.Node = a
			if y.Kind == flow.KCond {
				root = y.Expr
			}
			ast.Inspect(root, func(q ast.Node) bool {
				be, ok := q.(*ast.BinaryExpr)
				if !ok {
					return true
				}
				var idx *ast.IndexExpr
				for _, pr := range [][2]ast.Expr{{be.X, be.Y}, {be.Y, be.X}} {
					if ix, isIx := ast.Unparen(pr[0]).(*ast.IndexExpr); isIx {
						if tv, has := info.Types[pr[1]]; has && tv.Value != nil && tv.Value.Kind() == constant.Int {
							if v, _ := constant.Int64Val(tv.Value); v == '5' && be.Op != token.EQL && be.Op != token.NEQ {
								idx = ix
							}
						}
					}
				}
				if idx == nil {
					return true
				}
				k++
				total++
				construct := fmt.Sprintf("minify.%s/rounding byte num[%s]#%d", name, nospace(str(idx.Index)), k)
				x, okx := lc.lin(idx.Index)
				proved := false
				if okx {
					d := linForm{t: map[types.Object]int{dot: 1}}
					above := x.add(d, -1)
					above.k-- // X - dot - 1 >= 0
					below := d.add(x, -1)
					below.k-- // dot - X - 1 >= 0
					proved = lc.prove(y, above, 3) || lc.prove(y, below, 3)
				}
				how := "X ≠ dot is entailed"
				if !proved {
					// re-done under dot == X: the statement is `v := <read>` and the next statement of the block
					// is `if dot == X { v = … }`
					if as, isAs := y.Stmt.(*ast.AssignStmt); isAs && y.Kind == flow.KStmt && len(as.Lhs) == 1 {
						if blk, isBlk := c.P.Parent(as).(*ast.BlockStmt); isBlk {
							for i, st := range blk.List {
								if st != ast.Stmt(as) || i+1 >= len(blk.List) {
									continue
								}
								ifs, isIf := blk.List[i+1].(*ast.IfStmt)
								if !isIf || ifs.Init != nil {
									continue
								}
								cb, isB := ast.Unparen(ifs.Cond).(*ast.BinaryExpr)
								if !isB || cb.Op != token.EQL {
									continue
								}
								l, okl := lc.lin(cb.X)
								r, okr := lc.lin(cb.Y)
								if !okl || !okr {
									continue
								}
								diff := l.add(r, -1)
								want := x.add(linForm{t: map[types.Object]int{dot: 1}}, -1)
								same := func(a, b linForm) bool { z := a.add(b, -1); return len(z.t) == 0 && z.k == 0 }
								neg := linForm{t: map[types.Object]int{}}.add(want, -1)
								if !same(diff, want) && !same(diff, neg) {
									continue
								}
								for _, bs := range ifs.Body.List {
									if a2, ok := bs.(*ast.AssignStmt); ok && len(a2.Lhs) == 1 && str(a2.Lhs[0]) == str(as.Lhs[0]) {
										proved = true
										how = "re-read under dot == X"
									}
								}
							}
						}
					}
				}
				c.R.Check(proved, rule, construct, c.pos(be), how, fmt.Sprintf("the index %s of the byte compared with '5' is not shown to differ from the position of the dot (%s): when it is the dot, the comparison is false whatever the fraction and the number is truncated instead of rounded", str(idx.Index), dot.Name()))
				return true
			})
		}
	}
	c.R.Floor(rule, "rounding reads", total, 3)
}

// R08.9: a position found by scanning the digits is not used after the digits were rewritten.
func (c *Ctx) r089(pk *packages.Package) {
	const rule = "R08.9"
	c.R.Rule(rule, "minify.Number and minify.Decimal find positions by scanning (`for digit < end && num[digit] == '0' { digit++ }`: the first significant digit). Rounding then rewrites digits in place, and a carry can turn the very byte the scan stopped at — or the zeros it skipped — into something else (`.095` with one digit → `.1`: the first significant digit moved left). A scan cursor (an int advanced by a loop whose condition reads num[cursor]) is therefore dead after any in-place write at another index: it is assigned again before it is read. Exempt is the left edge of the result (the low bound of the returned reslice), which the rounding maintains itself")
	info := pk.TypesInfo
	nCur := 0
	for _, name := range []string{"Decimal", "Number"} {
		fd := c.fn(rule, pk, name)
		if fd == nil {
			continue
		}
		g := c.graph(pk, fd)
		var param types.Object
		if len(fd.Type.Params.List) > 0 && len(fd.Type.Params.List[0].Names) > 0 {
			param = info.Defs[fd.Type.Params.List[0].Names[0]]
		}
		// frame: low bounds of returned reslices of the parameter
		frame := map[types.Object]bool{}
		ast.Inspect(fd.Body, func(q ast.Node) bool {
			if rs, ok := q.(*ast.ReturnStmt); ok {
				for _, r := range rs.Results {
					if se, ok := ast.Unparen(r).(*ast.SliceExpr); ok && se.Low != nil {
						if id, ok := ast.Unparen(se.Low).(*ast.Ident); ok {
							frame[info.Uses[id]] = true
						}
					}
				}
			}
			return true
		})
		// cursors
		type cursor struct {
			o    types.Object
			loop *ast.ForStmt
			defs []*flow.Node // for a copy of a cursor: the assignments that take the copy
			of   types.Object
		}
		var cursors []cursor
		ast.Inspect(fd.Body, func(q ast.Node) bool {
			fs, ok := q.(*ast.ForStmt)
			if !ok || fs.Cond == nil {
				return true
			}
			ast.Inspect(fs.Cond, func(e ast.Node) bool {
				ix, ok := e.(*ast.IndexExpr)
				if !ok {
					return true
				}
				base, okb := ast.Unparen(ix.X).(*ast.Ident)
				id, oki := ast.Unparen(ix.Index).(*ast.Ident)
				if !okb || !oki || info.Uses[base] != param {
					return true
				}
				o := info.Uses[id]
				adv := false
				ast.Inspect(fs, func(s ast.Node) bool {
					if inc, ok := s.(*ast.IncDecStmt); ok {
						if iid, ok := inc.X.(*ast.Ident); ok && info.Uses[iid] == o {
							adv = true
						}
					}
					return true
				})
				if adv && o != nil {
					cursors = append(cursors, cursor{o: o, loop: fs})
				}
				return true
			})
			return true
		})
		lc := newLinCtx(c, info, g)
		// copies of a cursor (`first = digit`) are positions found by the same scan
		for _, cu := range append([]cursor(nil), cursors...) {
			if frame[cu.o] {
				continue // the left edge of the result is maintained by the rounding itself
			}
			copies := map[types.Object][]*flow.Node{}
			for _, y := range g.Nodes {
				as, ok := y.Stmt.(*ast.AssignStmt)
				if !ok || y.Kind != flow.KStmt || len(as.Lhs) != 1 || len(as.Rhs) != 1 {
					continue
				}
				rid, ok := ast.Unparen(as.Rhs[0]).(*ast.Ident)
				if !ok || info.Uses[rid] != cu.o {
					continue
				}
				lid, ok := as.Lhs[0].(*ast.Ident)
				if !ok {
					continue
				}
				lo := info.Defs[lid]
				if lo == nil {
					lo = info.Uses[lid]
				}
				if lo != nil && lo != cu.o {
					copies[lo] = append(copies[lo], y)
				}
			}
			for lo, defs := range copies {
				cursors = append(cursors, cursor{o: lo, loop: cu.loop, defs: defs, of: cu.o})
			}
		}
		for _, cu := range cursors {
			if frame[cu.o] {
				continue
			}
			nCur++
			construct := fmt.Sprintf("minify.%s/scan cursor %s", name, c.P.NameOf(cu.o))
			if cu.defs != nil {
				construct = fmt.Sprintf("minify.%s/copy %s of scan cursor %s", name, c.P.NameOf(cu.o), c.P.NameOf(cu.of))
			}
			// advance nodes of this loop
			var advs []*flow.Node
			for _, d := range lc.assign[cu.o] {
				if d.Stmt != nil && d.Stmt.Pos() >= cu.loop.Pos() && d.Stmt.End() <= cu.loop.End() {
					advs = append(advs, d)
				}
			}
			// also leaving the loop without advancing: the loop condition nodes
			for _, y := range g.Nodes {
				if y.Kind == flow.KCond && y.Expr.Pos() >= cu.loop.Cond.Pos() && y.Expr.End() <= cu.loop.Cond.End() {
					advs = append(advs, y)
				}
			}
			if cu.defs != nil {
				advs = cu.defs
			}
			plainAssign := func(x *flow.Node) bool {
				if cu.defs != nil {
					for _, d := range cu.defs {
						if d == x {
							return false
						}
					}
				}
				for _, d := range lc.assign[cu.o] {
					if d == x {
						if _, inc := d.Stmt.(*ast.IncDecStmt); inc && d.Stmt.Pos() >= cu.loop.Pos() && d.Stmt.End() <= cu.loop.End() {
							return false
						}
						return true
					}
				}
				return false
			}
			isWrite := func(x *flow.Node) bool {
				if x.Kind != flow.KStmt {
					return false
				}
				var lhs []ast.Expr
				switch s := x.Stmt.(type) {
				case *ast.IncDecStmt:
					lhs = []ast.Expr{s.X}
				case *ast.AssignStmt:
					lhs = s.Lhs
				}
				for _, l := range lhs {
					if ix, ok := l.(*ast.IndexExpr); ok {
						if b, ok := ast.Unparen(ix.X).(*ast.Ident); ok && info.Uses[b] == param {
							if id, ok := ast.Unparen(ix.Index).(*ast.Ident); ok && info.Uses[id] == cu.o {
								return false // a write at the cursor itself
							}
							return true
						}
					}
				}
				return false
			}
			reads := func(x *flow.Node) bool {
				a := x.Ast()
				if a == nil || x.Kind == flow.KRange {
					return false
				}
				var root ast.Node = a
				if x.Kind == flow.KCond || x.Kind == flow.KCase {
					root = x.Expr
				}
				found := false
				ast.Inspect(root, func(q ast.Node) bool {
					if id, ok := q.(*ast.Ident); ok && info.Uses[id] == cu.o {
						found = true
					}
					return true
				})
				if found {
					// a plain assignment `v = e` not mentioning v on the right only defines it
					if as, ok := x.Stmt.(*ast.AssignStmt); ok && x.Kind == flow.KStmt && as.Tok == token.ASSIGN {
						rhsReads := false
						for _, r := range as.Rhs {
							ast.Inspect(r, func(q ast.Node) bool {
								if id, ok := q.(*ast.Ident); ok && info.Uses[id] == cu.o {
									rhsReads = true
								}
								return true
							})
						}
						lhsOnly := true
						for _, l := range as.Lhs {
							if id, ok := l.(*ast.Ident); !ok || info.Uses[id] != cu.o {
								ast.Inspect(l, func(q ast.Node) bool {
									if id, ok := q.(*ast.Ident); ok && info.Uses[id] == cu.o {
										lhsOnly = false
									}
									return true
								})
							}
						}
						if !rhsReads && lhsOnly {
							return false
						}
					}
				}
				return found
			}
			bad := ""
			for _, w := range g.Nodes {
				if !isWrite(w) {
					continue
				}
				if g.Path(flow.Search{From: advs, Goal: func(x *flow.Node) bool { return x == w }, Avoid: plainAssign}) == nil {
					continue
				}
				p := g.Path(flow.Search{From: []*flow.Node{w}, Goal: reads, Avoid: func(x *flow.Node) bool { return plainAssign(x) && !reads(x) }})
				if p != nil {
					u := p[len(p)-1]
					bad = fmt.Sprintf("after the in-place write %s at %s the cursor is read at %s without a new scan", stmtText(w.Stmt), c.pos(w.Stmt), c.pos(u.Ast()))
					break
				}
			}
			c.R.Check(bad == "", rule, construct, c.pos(cu.loop), "not read after an in-place write elsewhere", bad+": rounding may have carried into the bytes the scan looked at, so the position is stale and the digit count / exponent computed from it is wrong (`Number(\".095\",1)` → empty mantissa)")
		}
	}
	c.R.Floor(rule, "scan cursors", nCur, 2)
}

// R08.10: the bytes the result grows by are written.
func (c *Ctx) r0810(pk *packages.Package) {
	const rule = "R08.10"
	c.R.Rule(rule, "minify.Number prints the exponent by storing its digits behind the mantissa (`for i := end + L - 1; end <= i; i-- { num[i] = … }`) and then extending the result over them (`end += L`). The extension is only sound if the digits were stored on the same path: every path to an `end += L` (L the variable of such a digit loop) passes the condition of the loop that stores num[i] for that L. A shortcut that skips the loop when the exponent `is already there` trusts the input to have been written canonically (`15e05` → `15e0`)")
	fd := c.fn(rule, pk, "Number")
	if fd == nil {
		return
	}
	info := pk.TypesInfo
	g := c.graph(pk, fd)
	var param types.Object
	if len(fd.Type.Params.List) > 0 && len(fd.Type.Params.List[0].Names) > 0 {
		param = info.Defs[fd.Type.Params.List[0].Names[0]]
	}
	// digit loops: ForStmt whose init mentions a variable L and whose body stores into the parameter
	type dloop struct {
		fs *ast.ForStmt
		L  types.Object
	}
	var loops []dloop
	ast.Inspect(fd.Body, func(q ast.Node) bool {
		fs, ok := q.(*ast.ForStmt)
		if !ok || fs.Init == nil || fs.Cond == nil {
			return true
		}
		stores := flow.Contains(fs.Body, func(z ast.Node) bool {
			as, ok := z.(*ast.AssignStmt)
			if !ok {
				return false
			}
			for _, l := range as.Lhs {
				if ix, ok := l.(*ast.IndexExpr); ok {
					if id, ok := ast.Unparen(ix.X).(*ast.Ident); ok && info.Uses[id] == param {
						return true
					}
				}
			}
			return false
		})
		if !stores {
			return true
		}
		ast.Inspect(fs.Init, func(z ast.Node) bool {
			if as, ok := z.(*ast.AssignStmt); ok {
				for _, r := range as.Rhs {
					ast.Inspect(r, func(w ast.Node) bool {
						if id, ok := w.(*ast.Ident); ok {
							if v, isVar := info.Uses[id].(*types.Var); isVar && isIntType(v.Type()) && !v.IsField() && v.Name() != "end" {
								loops = append(loops, dloop{fs, v})
							}
						}
						return true
					})
				}
			}
			return true
		})
		return true
	})
	n := 0
	for _, y := range g.Nodes {
		as, ok := y.Stmt.(*ast.AssignStmt)
		if !ok || y.Kind != flow.KStmt || as.Tok != token.ADD_ASSIGN || len(as.Lhs) != 1 {
			continue
		}
		vid, ok := ast.Unparen(as.Rhs[0]).(*ast.Ident)
		if !ok {
			continue
		}
		L := info.Uses[vid]
		var mine []*ast.ForStmt
		for _, dl := range loops {
			if dl.L == L {
				mine = append(mine, dl.fs)
			}
		}
		if len(mine) == 0 {
			continue
		}
		n++
		passes := func(q *flow.Node) bool {
			if q.Kind != flow.KCond {
				return false
			}
			for _, fs := range mine {
				if q.Expr.Pos() >= fs.Cond.Pos() && q.Expr.End() <= fs.Cond.End() {
					return true
				}
			}
			return false
		}
		y := y
		p := g.Path(flow.Search{From: []*flow.Node{g.Entry}, Goal: func(q *flow.Node) bool { return q == y }, Avoid: passes})
		c.R.Check(p == nil, rule, fmt.Sprintf("minify.Number/%s after its digits were stored#%d", stmtText(as), n), c.pos(as), "the digit loop lies on every path", "the result is extended by "+vid.Name+" bytes on a path that does not run the loop storing them: whatever the input had at those positions becomes part of the number (`15e05` → `15e0`): "+pathStr(c, g, p))
	}
	c.R.Floor(rule, "extensions over stored digits", n, 3)
}

// R08.11: comparisons in Number and Decimal relate positions with positions and lengths with lengths.
func (c *Ctx) r0811(pk *packages.Package) {
	const rule = "R08.11"
	c.R.Rule(rule, "minify.Number and minify.Decimal work on indices into num (start, end, dot, the precision cut …) and on counts (prec, exponents, digit counts). A variable that is used by itself as an index or slice bound of num, or is the range key over num, is a position; so is a variable that a position is assigned from with the other terms being counts. A sum has the position degree Σ coefficient·[variable is a position]: `dot - precEnd + origExp` has degree 0 (a count of digits), `dot + origExp` degree 1. Both sides of every comparison between such sums must have the same degree — a count compared with a position is only right while the number starts at index 0, and it does not after a sign or stripped zeros (`prec+1 < dot+origExp` instead of `1 < dot-precEnd+origExp` rounds `-99` to one digit and needs a byte the slice does not have). Comparisons with a side that has no variables, or that mention len(), are not judged (a constant or a length can stand for either)")
	info := pk.TypesInfo
	total := 0
	for _, name := range []string{"Number", "Decimal"} {
		fd := c.fn(rule, pk, name)
		if fd == nil {
			continue
		}
		if fd.Type.Params == nil || len(fd.Type.Params.List) == 0 || len(fd.Type.Params.List[0].Names) == 0 {
			continue
		}
		S := info.Defs[fd.Type.Params.List[0].Names[0]]
		total += c.dimensionCheck(rule, pk, fd, S, "minify."+name, nil)
	}
	c.R.Floor(rule, "comparisons between sums of positions and counts", total, 20)
}

// dimensionCheck judges the comparisons of fd between sums of positions of the slice S and counts (see R08.11);
// it returns the number of comparisons judged. report, when not nil, receives the mismatches instead of the report.
func (c *Ctx) dimensionCheck(rule string, pk *packages.Package, fd *ast.FuncDecl, S types.Object, name string, report func(pos, text string)) int {
	info := pk.TypesInfo
	total := 0
	{
		isS := func(e ast.Expr) bool {
			id, ok := ast.Unparen(e).(*ast.Ident)
			return ok && info.Uses[id] == S
		}
		P := map[types.Object]bool{}
		asVar := func(e ast.Expr) types.Object {
			if e == nil {
				return nil
			}
			id, ok := ast.Unparen(e).(*ast.Ident)
			if !ok {
				return nil
			}
			if v, ok := info.Uses[id].(*types.Var); ok {
				return v
			}
			return nil
		}
		ast.Inspect(fd.Body, func(x ast.Node) bool {
			switch e := x.(type) {
			case *ast.IndexExpr:
				if isS(e.X) {
					if v := asVar(e.Index); v != nil {
						P[v] = true
					}
				}
			case *ast.SliceExpr:
				if isS(e.X) {
					for _, b := range []ast.Expr{e.Low, e.High} {
						if v := asVar(b); v != nil {
							P[v] = true
						}
					}
				}
			case *ast.RangeStmt:
				if isS(e.X) {
					if id, ok := e.Key.(*ast.Ident); ok {
						if o := info.Defs[id]; o != nil {
							P[o] = true
						}
					}
				}
			}
			return true
		})
		terms := func(e ast.Expr) (map[types.Object]int, bool, bool) {
			out := map[types.Object]int{}
			ok := true
			hasLen := false
			ast.Inspect(e, func(z ast.Node) bool {
				if ce, isC := z.(*ast.CallExpr); isC {
					if id, isId := ce.Fun.(*ast.Ident); isId && id.Name == "len" {
						hasLen = true
					}
				}
				return true
			})
			linearTerms(info, e, 1, out, &ok)
			return out, ok, hasLen
		}
		degree := func(m map[types.Object]int) int {
			d := 0
			for v, k := range m {
				if P[v] {
					d += k
				}
			}
			return d
		}
		// positions assigned from: p = q + counts  ⇒  an unknown with coefficient 1 next to position degree 0 is a position
		for changed := true; changed; {
			changed = false
			ast.Inspect(fd.Body, func(x ast.Node) bool {
				as, ok := x.(*ast.AssignStmt)
				if !ok || (as.Tok != token.ASSIGN && as.Tok != token.DEFINE) || len(as.Lhs) != len(as.Rhs) {
					return true
				}
				for i, l := range as.Lhs {
					id, ok := l.(*ast.Ident)
					if !ok {
						continue
					}
					lo := info.ObjectOf(id)
					m, lin, hasLen := terms(as.Rhs[i])
					if !lin || hasLen {
						continue
					}
					if P[lo] {
						// exactly one non-position int variable with coefficient 1 and no position terms
						if degree(m) == 0 {
							var cand types.Object
							cnt := 0
							for v, k := range m {
								if !P[v] && k == 1 {
									cand = v
									cnt++
								}
							}
							nonpos := 0
							for v := range m {
								if !P[v] {
									nonpos++
								}
							}
							if cnt == 1 && nonpos == 1 && cand != S {
								P[cand] = true
								changed = true
							}
						}
					} else if lo != nil && degree(m) == 1 {
						// x := p + count  ⇒  x is a position
						if bt, ok := lo.Type().Underlying().(*types.Basic); ok && bt.Info()&types.IsInteger != 0 {
							P[lo] = true
							changed = true
						}
					}
				}
				return true
			})
		}
		n := 0
		seen := map[string]int{}
		ast.Inspect(fd.Body, func(x ast.Node) bool {
			be, ok := x.(*ast.BinaryExpr)
			if !ok {
				return true
			}
			switch be.Op {
			case token.LSS, token.LEQ, token.GTR, token.GEQ, token.EQL, token.NEQ:
			default:
				return true
			}
			if t := info.TypeOf(be.X); t == nil {
				return true
			} else if bt, ok := t.Underlying().(*types.Basic); !ok || bt.Info()&types.IsInteger == 0 {
				return true
			}
			lm, lok, llen := terms(be.X)
			rm, rok, rlen := terms(be.Y)
			if !lok || !rok || llen || rlen || len(lm) == 0 || len(rm) == 0 {
				return true
			}
			for v := range lm {
				if v == S {
					return true
				}
			}
			for v := range rm {
				if v == S {
					return true
				}
			}
			n++
			total++
			dl, dr := degree(lm), degree(rm)
			key := nospace(str(be))
			seen[key]++
			if report != nil {
				if dl != dr {
					report(c.pos(be), fmt.Sprintf("%s: %s (degree %d vs %d)", name, key, dl, dr))
				}
				return true
			}
			c.R.Check(dl == dr, rule, fmt.Sprintf("%s/%s#%d relates like with like", name, key, seen[key]), c.pos(be), fmt.Sprintf("position degree %d on both sides", dl), fmt.Sprintf("the left side has position degree %d and the right side %d: a count is compared with an index into num, which is only right while the number starts at index 0 — after a sign or stripped leading zeros the test decides differently (`-99` at precision 1 is rounded to `100` and written past the end of the slice)", dl, dr))
			return true
		})
		_ = n
	}
	return total
}

// DimensionSurvey (dev): runs the position/count check on every function and every byte-slice variable of the
// library packages and prints the mismatches — used to decide where the check can be armed.
func (c *Ctx) DimensionSurvey() {
	for _, rel := range libPkgs {
		pk := c.P.Pkg(rel)
		if pk == nil {
			continue
		}
		info := pk.TypesInfo
		for _, fd := range load.FuncDecls(pk) {
			if fd.Body == nil {
				continue
			}
			seen := map[types.Object]bool{}
			ast.Inspect(fd, func(x ast.Node) bool {
				id, ok := x.(*ast.Ident)
				if !ok {
					return true
				}
				o := info.Defs[id]
				if o == nil || seen[o] {
					return true
				}
				if sl, ok := o.Type().Underlying().(*types.Slice); ok {
					_ = sl
					seen[o] = true
					n := c.dimensionCheck("survey", pk, fd, o, pk.Name+"."+load.FuncName(fd)+"["+id.Name+"]", func(pos, text string) {
						fmt.Printf("MISMATCH %s %s\n", pos, text)
					})
					if n > 0 {
						fmt.Printf("judged %d in %s.%s[%s]\n", n, pk.Name, load.FuncName(fd), id.Name)
					}
				}
				return true
			})
		}
	}
}

// R08.12: giving up after digits were rounded in place is excluded beforehand.
func (c *Ctx) r0812(pk *packages.Package) {
	const rule = "R08.12"
	c.R.Rule(rule, "minify.Number rounds the digits in place and may afterwards still give up — `return num` when the exponent would overflow. Handing the caller's slice back after it was written to returns a different number (`.0155e-9223372036854775808` with two digits → `.0165e-…`), so the give-up that can follow a write has to be impossible there: the guard that returns num before the first in-place write bounds the parsed exponent against every one of the limits (MinInt, MaxInt) that a give-up condition reachable after a write mentions")
	info := pk.TypesInfo
	fd := c.fn(rule, pk, "Number")
	if fd == nil {
		return
	}
	g := c.graph(pk, fd)
	var param types.Object
	if len(fd.Type.Params.List) > 0 && len(fd.Type.Params.List[0].Names) > 0 {
		param = info.Defs[fd.Type.Params.List[0].Names[0]]
	}
	isWrite := func(x *flow.Node) bool {
		if x.Kind != flow.KStmt {
			return false
		}
		var lhs []ast.Expr
		switch s := x.Stmt.(type) {
		case *ast.IncDecStmt:
			lhs = []ast.Expr{s.X}
		case *ast.AssignStmt:
			lhs = s.Lhs
		}
		for _, l := range lhs {
			if ix, ok := l.(*ast.IndexExpr); ok {
				if b, ok := ast.Unparen(ix.X).(*ast.Ident); ok && info.Uses[b] == param {
					return true
				}
			}
		}
		return false
	}
	isGiveUp := func(x *flow.Node) *ast.ReturnStmt {
		rs := retStmt(x)
		if rs == nil || len(rs.Results) != 1 {
			return nil
		}
		if id, ok := ast.Unparen(rs.Results[0]).(*ast.Ident); ok && info.Uses[id] == param {
			return rs
		}
		return nil
	}
	limitsOf := func(rs *ast.ReturnStmt) map[string]bool {
		out := map[string]bool{}
		// the condition of the if statement whose body is the return
		for p := c.P.Parent(rs); p != nil; p = c.P.Parent(p) {
			if ifs, ok := p.(*ast.IfStmt); ok {
				ast.Inspect(ifs.Cond, func(z ast.Node) bool {
					if id, ok := z.(*ast.Ident); ok {
						if k, isK := info.Uses[id].(*types.Const); isK && k.Pkg() == pk.Types && (k.Name() == "MinInt" || k.Name() == "MaxInt") {
							out[k.Name()] = true
						}
					}
					return true
				})
				break
			}
			if _, ok := p.(*ast.FuncDecl); ok {
				break
			}
		}
		return out
	}
	var writes []*flow.Node
	for _, x := range g.Nodes {
		if isWrite(x) {
			writes = append(writes, x)
		}
	}
	// the if statement that encloses a node's expression / statement
	enclosingIf := func(n ast.Node) *ast.IfStmt {
		for p := c.P.Parent(n); p != nil; p = c.P.Parent(p) {
			if ifs, ok := p.(*ast.IfStmt); ok {
				return ifs
			}
			if _, ok := p.(*ast.FuncDecl); ok {
				return nil
			}
		}
		return nil
	}
	isGiveUpBody := func(b *ast.BlockStmt) bool {
		if len(b.List) != 1 {
			return false
		}
		rs, ok := b.List[0].(*ast.ReturnStmt)
		if !ok || len(rs.Results) != 1 {
			return false
		}
		id, ok := ast.Unparen(rs.Results[0]).(*ast.Ident)
		return ok && info.Uses[id] == param
	}
	limitsIn := func(e ast.Expr) map[string]bool {
		out := map[string]bool{}
		ast.Inspect(e, func(z ast.Node) bool {
			if id, ok := z.(*ast.Ident); ok {
				if k, isK := info.Uses[id].(*types.Const); isK && k.Pkg() == pk.Types && (k.Name() == "MinInt" || k.Name() == "MaxInt") {
					out[k.Name()] = true
				}
			}
			return true
		})
		return out
	}
	_ = limitsOf
	nAfter := 0
	missing := map[string]string{}
	checked := map[string]bool{}
	for _, w := range writes {
		// give-ups this write can reach
		need := map[string]string{}
		for _, x := range g.Nodes {
			rs := isGiveUp(x)
			if rs == nil {
				continue
			}
			x := x
			if g.Path(flow.Search{From: []*flow.Node{w}, Goal: func(q *flow.Node) bool { return q == x }}) == nil {
				continue
			}
			nAfter++
			if ifs := enclosingIf(rs); ifs != nil {
				for l := range limitsIn(ifs.Cond) {
					need[l] = c.pos(rs)
				}
			}
		}
		if len(need) == 0 {
			continue
		}
		// the nearest guard in front of the write: an if statement whose body gives up and whose failure dominates the write
		have := map[string]bool{}
		for _, f := range g.DomFacts(w) {
			if f.Value || f.Test.Kind != flow.KCond {
				continue
			}
			ifs := enclosingIf(f.Test.Expr)
			if ifs == nil || !isGiveUpBody(ifs.Body) || !(ifs.Cond.Pos() <= f.Test.Expr.Pos() && f.Test.Expr.End() <= ifs.Cond.End()) {
				continue
			}
			have = limitsIn(ifs.Cond)
			break
		}
		for l, at := range need {
			checked[l] = true
			if !have[l] {
				missing[l] = at + " (write at " + c.pos(w.Ast()) + ")"
			}
		}
	}
	for _, l := range []string{"MaxInt", "MinInt"} {
		if !checked[l] {
			continue
		}
		at, bad := missing[l]
		c.R.Check(!bad, rule, "minify.Number/give-up after an in-place write is excluded for "+l, "-", "the guard in front of the rounding bounds the exponent against "+l,
			"after digits were rounded in place the function can still return its argument (the give-up at "+at+" tests against "+l+"), and the guard nearest in front of the write does not bound the exponent against "+l+": the caller gets its own slice back with some digits incremented — another number")
	}
	c.R.Floor(rule, "give-ups reachable after an in-place write", nAfter, 1)
}

// R08.13: trimming leading zeros leaves a digit.
func (c *Ctx) r0813(pk *packages.Package) {
	const rule = "R08.13"
	c.R.Rule(rule, "minify.Number and minify.Decimal return a reslice num[lo:hi] of their argument; the loop that skips leading zeros advances lo. Where lo is advanced under a test of num[lo], the loop's condition entails lo+2 <= hi at the increment (linear entailment from the dominating outcomes), so that at least one byte remains for a number that consists of zeros only — `00`, `-0`, `+0`. With `for lo < dot && num[lo] == '0'` an integer of zeros is trimmed to the empty string (`Decimal(\"-0\")` → `\"-\"`)")
	info := pk.TypesInfo
	n := 0
	for _, name := range []string{"Decimal", "Number"} {
		fd := c.fn(rule, pk, name)
		if fd == nil {
			continue
		}
		g := c.graph(pk, fd)
		// frame: bounds of returned reslices
		lows, highs := map[types.Object]bool{}, map[types.Object]bool{}
		ast.Inspect(fd.Body, func(q ast.Node) bool {
			if rs, ok := q.(*ast.ReturnStmt); ok {
				for _, r := range rs.Results {
					if se, ok := ast.Unparen(r).(*ast.SliceExpr); ok && se.Low != nil && se.High != nil {
						if id, ok := ast.Unparen(se.Low).(*ast.Ident); ok {
							lows[info.Uses[id]] = true
						}
						if id, ok := ast.Unparen(se.High).(*ast.Ident); ok {
							highs[info.Uses[id]] = true
						}
					}
				}
			}
			return true
		})
		lc := newLinCtx(c, info, g)
		ast.Inspect(fd.Body, func(q ast.Node) bool {
			fs, ok := q.(*ast.ForStmt)
			if !ok || fs.Cond == nil {
				return true
			}
			// the condition reads num[lo] for a low bound lo
			var lo types.Object
			ast.Inspect(fs.Cond, func(e ast.Node) bool {
				if ix, ok := e.(*ast.IndexExpr); ok {
					if id, ok := ast.Unparen(ix.Index).(*ast.Ident); ok && lows[info.Uses[id]] {
						lo = info.Uses[id]
					}
				}
				return true
			})
			if lo == nil {
				return true
			}
			for _, y := range g.Nodes {
				inc, ok := y.Stmt.(*ast.IncDecStmt)
				if !ok || y.Kind != flow.KStmt || inc.Tok != token.INC || inc.Pos() < fs.Body.Pos() || inc.End() > fs.Body.End() {
					continue
				}
				id, ok := inc.X.(*ast.Ident)
				if !ok || info.Uses[id] != lo {
					continue
				}
				n++
				proved := false
				for hi := range highs {
					goal := linForm{t: map[types.Object]int{hi: 1, lo: -1}, k: -2}
					if lc.prove(y, goal, 0) {
						proved = true
					}
				}
				c.R.Check(proved, rule, fmt.Sprintf("minify.%s/leading zeros are skipped only while two bytes remain#%d", name, n), c.pos(inc), "the loop condition entails "+c.P.NameOf(lo)+"+2 <= end",
					"the cursor "+c.P.NameOf(lo)+" that becomes the start of the result is advanced over a zero without the loop's condition guaranteeing that a byte remains behind it: a number that consists of zeros only is trimmed to nothing (`00` → ``, `-0` → `-`)")
			}
			return true
		})
	}
	c.R.Floor(rule, "advances of the result's start over a zero", n, 2)
}

// R08.14: a copy whose destination is bounded on both sides has room for its source.
func (c *Ctx) r0814(pk *packages.Package) {
	const rule = "R08.14"
	c.R.Rule(rule, "minify.Number and minify.Decimal move digits inside their argument with the builtin copy, which copies min(len(dst), len(src)) bytes and says nothing about the rest. Where both arguments are reslices with explicit bounds, the difference len(dst) - len(src) is computed as a linear form over the bounds; when it is a negative constant the copy always drops the tail of its source (`copy(num[start+1:dot], num[start:dot])` leaves the last integer digit behind: `1.25e10` → `0.25e8`)")
	info := pk.TypesInfo
	n := 0
	for _, name := range []string{"Decimal", "Number"} {
		fd := c.fn(rule, pk, name)
		if fd == nil {
			continue
		}
		lc := newLinCtx(c, info, c.graph(pk, fd))
		length := func(e ast.Expr) (linForm, bool) {
			se, ok := ast.Unparen(e).(*ast.SliceExpr)
			if !ok || se.High == nil || se.Slice3 {
				return linForm{}, false
			}
			hi, ok := lc.lin(se.High)
			if !ok {
				return linForm{}, false
			}
			if se.Low == nil {
				return hi, true
			}
			lo, ok := lc.lin(se.Low)
			if !ok {
				return linForm{}, false
			}
			return hi.add(lo, -1), true
		}
		ast.Inspect(fd.Body, func(z ast.Node) bool {
			call, ok := z.(*ast.CallExpr)
			if !ok || len(call.Args) != 2 {
				return true
			}
			id, ok := call.Fun.(*ast.Ident)
			if !ok || id.Name != "copy" {
				return true
			}
			if _, isBuiltin := info.Uses[id].(*types.Builtin); !isBuiltin {
				return true
			}
			n++
			construct := fmt.Sprintf("minify.%s/copy#%d has room for its source", name, n)
			dl, ok1 := length(call.Args[0])
			sl, ok2 := length(call.Args[1])
			if !ok1 || !ok2 {
				c.R.OK(rule, construct, c.pos(call), "the destination is open-ended (or a bound is not linear): bounded by the slice itself")
				return true
			}
			d := dl.add(sl, -1)
			c.R.Check(len(d.t) != 0 || d.k >= 0, rule, construct, c.pos(call), "len(dst) - len(src) = "+d.String(),
				fmt.Sprintf("the destination %s is %d byte(s) shorter than the source %s for every value of the bounds: the copy silently leaves the tail of the source behind (`1.25e10` → `0.25e8`)", str(call.Args[0]), -d.k, str(call.Args[1])))
			return true
		})
	}
	c.R.Floor(rule, "copies in Number and Decimal", n, 4)
}
