package rules

import (
	"fmt"
	"go/ast"
	"go/token"
	"go/types"
	"strings"

	"golang.org/x/tools/go/packages"
	"golang.org/x/tools/go/ssa"

	"verif/checker/internal/flow"
	"verif/checker/internal/load"
)

// tokenBuffer decides two clauses about the look-ahead buffer that html, xml and svg each have
// a copy of (sibling implementations of one design):
//
//	(a) Peek moves the unread tokens to the front on every path on which it resets the read position;
//	(b) a *Token obtained from Peek / Shift is only valid until the next Peek (which may move or
//	    reallocate the buffer): it is never stored into heap memory.
func (c *Ctx) tokenBuffer(rule, rel string) {
	c.R.Rule(rule, "package "+rel+", TokenBuffer (one of three sibling copies of the look-ahead buffer): (a) in Peek every path from the entry to an assignment that resets the read position (`z.pos, z.buf = 0, buf` / `z.pos = 0`) passes a copy(…, z.buf[z.pos:]) that moves the unread tokens to the front — on a path without it tokens that were never consumed are overwritten by newly read ones and consumed tokens are replayed (a processing instruction or start tag disappears from the output); (b) SSA: no value returned by (*TokenBuffer).Peek or Shift is stored into memory other than a local variable — the next Peek may reallocate the buffer, and a pointer kept in a slice or field then refers to the abandoned array (edits made through it never reach the output); (c) a field slice that is reused by reslicing (`z.attrBuffer = z.attrBuffer[:n]`) still holds what the previous call put there: every path from the reslice to a return passes a range loop over that slice whose body unconditionally stores into the element of the range key (the reset to nil) — otherwise an attribute that is absent on this tag is reported with the token of an earlier tag, and the caller edits or deletes an unrelated attribute; (d) a token bound to the result of Peek is looked at, not rewritten: no statement of the package assigns the Data of such a token — its bytes are the input until its own case of the token switch handles it (`<pre>\\n\\ncode`: one line break removed in advance, the next one by the parser); (e) where Peek cuts the new buffer at an error token (`buf = buf[:i+1]`), the index of the element it returns is set to that token (`pos = i`) on every path to the return and not moved afterwards — a look-ahead beyond the end of the input otherwise indexes past the buffer; (f) the slots of the buffer are reused, so TokenBuffer.read, which fills a slot, assigns every field it assigns at all on every path to its exit — a field set for tags and attributes only (Traits, Hash, AttrVal) otherwise keeps the value of the token that used the slot before, and a text or svg token is taken for a block element")
	pk := c.pkg(rule, rel)
	if pk == nil {
		return
	}
	c.staleScratch(rule, pk)
	c.peekedTokensReadOnly(rule, pk)
	c.peekIndexClamped(rule, pk)
	c.tokenSlotFullyRewritten(rule, pk)
	fd := c.fn(rule, pk, "TokenBuffer.Peek")
	if fd != nil {
		g := c.graph(pk, fd)
		recv := fd.Recv.List[0].Names[0].Name
		isCompaction := func(y *flow.Node) bool {
			a := y.Ast()
			if a == nil || y.Kind != flow.KStmt {
				return false
			}
			hit := false
			flowInspectCalls(a, func(call *ast.CallExpr) {
				if id, ok := call.Fun.(*ast.Ident); ok && id.Name == "copy" && len(call.Args) == 2 {
					if sl, isSl := ast.Unparen(call.Args[1]).(*ast.SliceExpr); isSl && str(sl.X) == recv+".buf" && sl.Low != nil && nospace(str(sl.Low)) == recv+".pos" {
						hit = true
					}
				}
			})
			return hit
		}
		n := 0
		for _, y := range g.Nodes {
			as, ok := y.Stmt.(*ast.AssignStmt)
			if !ok || y.Kind != flow.KStmt {
				continue
			}
			resets := false
			for i, l := range as.Lhs {
				if str(l) == recv+".pos" && i < len(as.Rhs) && str(as.Rhs[i]) == "0" {
					resets = true
				}
			}
			if !resets {
				continue
			}
			n++
			p := g.MustPassBefore(y, isCompaction, flow.Search{})
			c.R.Check(p == nil, rule, fmt.Sprintf("%s.TokenBuffer.Peek/unread tokens moved to the front before reset #%d", rel, n), c.pos(as), "copy(…, z.buf[z.pos:]) on every path", "the read position is reset without moving the unread tokens to the front of the buffer: "+pathStr(c, g, p))
		}
		c.R.Floor(rule, rel+" Peek position resets", n, 1)
	}
	// (b)
	sp := c.P.SSAPkg(rel)
	if sp == nil {
		c.R.Unres(rule, rel+"/ssa", "-", "SSA package missing")
		return
	}
	calls := 0
	for _, fn := range allFuncs(sp) {
		var bad []string
		for _, b := range fn.Blocks {
			for _, ins := range b.Instrs {
				call, ok := ins.(*ssa.Call)
				if !ok {
					continue
				}
				cal := call.Call.StaticCallee()
				if cal == nil || cal.Pkg != sp || cal.Signature.Recv() == nil || !strings.HasSuffix(cal.Signature.Recv().Type().String(), "TokenBuffer") || cal.Name() != "Peek" && cal.Name() != "Shift" {
					continue
				}
				calls++
				// forward closure through φ
				d := map[ssa.Value]bool{call: true}
				for changed := true; changed; {
					changed = false
					for _, bb := range fn.Blocks {
						for _, in2 := range bb.Instrs {
							if phi, isPhi := in2.(*ssa.Phi); isPhi && !d[phi] {
								for _, e := range phi.Edges {
									if d[e] {
										d[phi] = true
										changed = true
									}
								}
							}
						}
					}
				}
				for _, bb := range fn.Blocks {
					for _, in2 := range bb.Instrs {
						st, isSt := in2.(*ssa.Store)
						if !isSt || !d[st.Val] {
							continue
						}
						if _, isLocal := st.Addr.(*ssa.Alloc); isLocal {
							continue
						}
						bad = append(bad, fmt.Sprintf("the token pointer from %s at %s is stored at %s", cal.Name(), c.P.Pos(call.Pos()), c.P.Pos(st.Pos())))
					}
				}
			}
		}
		if len(bad) > 0 {
			c.R.Bad(rule, fnName(fn)+"/token pointers are not kept", c.P.Pos(fn.Pos()), strings.Join(bad, "; ")+": it dangles as soon as a later Peek reallocates the buffer")
		}
	}
	c.R.Exists(rule, rel+"/token pointers are not kept", "-", fmt.Sprintf("%d Peek/Shift calls, no result stored outside locals", calls))
	_ = load.Mod
}

// R03.6: the value attribute of an input is dropped only when it equals the type's default.
func (c *Ctx) r036() {
	const rule = "R03.6"
	c.R.Rule(rule, "html.(*Minifier).Minify removes the value attribute of <input> in some cases (`value.Text = nil` in the block that fetches the Type and Value attributes). The conjunction of the conditions dominating each removal is evaluated for every pair of a type in {text, hidden, password, checkbox, radio, submit, reset, button, image, file, …, also in upper case} and a value in {\"\", on, On, ON, x}: a removal is allowed only when the value is exactly what the element has without the attribute — \"on\" for checkbox and radio (compared case-sensitively: the value is submitted as written), \"\" for the types whose default value is the empty string, and never for submit / reset, whose missing value means the browser's default label")
	pk := c.pkg(rule, "html")
	if pk == nil {
		return
	}
	info := pk.TypesInfo
	fd := c.fn(rule, pk, "Minifier.Minify")
	if fd == nil {
		return
	}
	g := c.graph(pk, fd)
	// the block: if t, value := attrs[0], attrs[1]; … following attrs := tb.Attributes(Type, Value)
	var typVar, valVar types.Object
	var block *ast.IfStmt
	ast.Inspect(fd.Body, func(x ast.Node) bool {
		as, ok := x.(*ast.AssignStmt)
		if !ok || len(as.Rhs) != 1 {
			return true
		}
		call, isCall := ast.Unparen(as.Rhs[0]).(*ast.CallExpr)
		if !isCall || !strings.HasSuffix(calleeName(info, call), "TokenBuffer).Attributes") || len(call.Args) != 2 {
			return true
		}
		if str(call.Args[0]) != "Type" || str(call.Args[1]) != "Value" {
			return true
		}
		// the statement after it
		if blk, isBlk := c.P.Parent(as).(*ast.BlockStmt); isBlk {
			for i, st := range blk.List {
				if st == ast.Stmt(as) && i+1 < len(blk.List) {
					if ifs, isIf := blk.List[i+1].(*ast.IfStmt); isIf {
						if init, isInit := ifs.Init.(*ast.AssignStmt); isInit && len(init.Lhs) == 2 && len(init.Rhs) == 2 {
							for k := 0; k < 2; k++ {
								if ix, isIx := init.Rhs[k].(*ast.IndexExpr); isIx {
									id, _ := init.Lhs[k].(*ast.Ident)
									if id == nil {
										continue
									}
									switch str(ix.Index) {
									case "0":
										typVar = info.Defs[id]
									case "1":
										valVar = info.Defs[id]
									}
								}
							}
							block = ifs
						}
					}
				}
			}
		}
		return true
	})
	if block == nil || typVar == nil || valVar == nil {
		c.R.Unres(rule, "html.Minifier.Minify/input value block", c.pos(fd), "the block that fetches the Type and Value attributes of <input> was not found")
		return
	}
	type env struct{ typ, val string }
	var evalBytes func(e ast.Expr, en env) (string, bool)
	evalBytes = func(e ast.Expr, en env) (string, bool) {
		e = ast.Unparen(e)
		if sel, ok := e.(*ast.SelectorExpr); ok && sel.Sel.Name == "AttrVal" {
			if id, isId := sel.X.(*ast.Ident); isId {
				switch info.Uses[id] {
				case typVar:
					return en.typ, true
				case valVar:
					return en.val, true
				}
			}
		}
		if v, err := c.Ev.Expr(pk, e); err == nil {
			switch b := v.(type) {
			case []byte:
				return string(b), true
			case string:
				return b, true
			}
		}
		return "", false
	}
	var evalB func(e ast.Expr, en env, depth int) (bool, bool)
	evalB = func(e ast.Expr, en env, depth int) (bool, bool) {
		e = ast.Unparen(e)
		switch x := e.(type) {
		case *ast.UnaryExpr:
			if x.Op == token.NOT {
				v, ok := evalB(x.X, en, depth)
				return !v, ok
			}
		case *ast.BinaryExpr:
			switch x.Op {
			case token.LAND, token.LOR:
				l, ok1 := evalB(x.X, en, depth)
				r, ok2 := evalB(x.Y, en, depth)
				if !ok1 || !ok2 {
					return false, false
				}
				if x.Op == token.LAND {
					return l && r, true
				}
				return l || r, true
			case token.EQL, token.NEQ, token.LSS:
				if isNilExpr(x.Y) || isNilExpr(x.X) {
					return x.Op == token.NEQ, true // the attributes exist in this block
				}
				// len(E) == 0, len(E) != 0, 0 < len(E)
				for _, pr := range [][2]ast.Expr{{x.X, x.Y}, {x.Y, x.X}} {
					if call, ok := ast.Unparen(pr[0]).(*ast.CallExpr); ok && len(call.Args) == 1 {
						if id, isId := call.Fun.(*ast.Ident); isId && id.Name == "len" {
							if k, isK := intConst(info, pr[1]); isK && k == 0 {
								s, oks := evalBytes(call.Args[0], en)
								if !oks {
									return false, false
								}
								switch x.Op {
								case token.EQL:
									return len(s) == 0, true
								case token.NEQ:
									return len(s) != 0, true
								case token.LSS:
									return len(s) > 0, true
								}
							}
						}
					}
				}
			}
		case *ast.Ident:
			// a boolean local defined once
			if depth < 3 {
				if d := c.singleDef(pk, x); d != nil {
					return evalB(d, en, depth+1)
				}
			}
		case *ast.CallExpr:
			switch calleeName(info, x) {
			case load.ParseMod + ".EqualFold":
				a, ok1 := evalBytes(x.Args[0], en)
				b, ok2 := evalBytes(x.Args[1], en)
				return strings.EqualFold(a, b), ok1 && ok2
			case "bytes.Equal":
				a, ok1 := evalBytes(x.Args[0], en)
				b, ok2 := evalBytes(x.Args[1], en)
				return a == b, ok1 && ok2
			}
		}
		return false, false
	}
	types_ := []string{"text", "hidden", "password", "search", "email", "checkbox", "radio", "submit", "reset", "button", "image", "file", "number", "CHECKBOX", "Radio", "Submit"}
	vals := []string{"", "on", "On", "ON", "x"}
	defaultOf := func(t string) (string, bool) {
		switch strings.ToLower(t) {
		case "checkbox", "radio":
			return "on", true
		case "submit", "reset":
			return "", false
		}
		return "", true
	}
	n := 0
	for _, y := range g.Nodes {
		rhs, ok := assignsTo(y, func(l ast.Expr) bool {
			sel, isSel := ast.Unparen(l).(*ast.SelectorExpr)
			if !isSel || sel.Sel.Name != "Text" {
				return false
			}
			id, isId := sel.X.(*ast.Ident)
			return isId && info.Uses[id] == valVar
		})
		if !ok || !isNilExpr(rhs) {
			continue
		}
		n++
		var conds []flow.Fact
		for _, f := range g.DomFacts(y) {
			if f.Test.Kind == flow.KCond && f.Test.Expr.Pos() >= block.Pos() && f.Test.Expr.End() <= block.End() {
				conds = append(conds, f)
			}
		}
		var bad []string
		undecided := ""
		for _, ty := range types_ {
			for _, v := range vals {
				en := env{ty, v}
				removed := true
				for _, f := range conds {
					b, okb := evalB(f.Test.Expr, en, 0)
					if !okb {
						undecided = str(f.Test.Expr)
						continue
					}
					if b != f.Value {
						removed = false
					}
				}
				if !removed {
					continue
				}
				d, has := defaultOf(ty)
				if !has || d != v {
					bad = append(bad, fmt.Sprintf("type=%s value=%q", ty, v))
				}
			}
		}
		construct := fmt.Sprintf("html.Minifier.Minify/input value removal #%d", n)
		if undecided != "" {
			c.R.Unres(rule, construct, c.pos(y.Stmt), "condition "+undecided+" could not be evaluated")
			continue
		}
		if len(bad) > 6 {
			bad = append(bad[:6], "…")
		}
		c.R.Check(len(bad) == 0, rule, construct, c.pos(y.Stmt), "only values equal to the type's default", "the value attribute is removed for "+strings.Join(bad, ", ")+": without the attribute the control has a different value (checkbox/radio: \"on\", submit/reset: the default label)")
	}
	c.R.Floor(rule, "input value removals", n, 1)
}

// R03.7: only media-type valued attributes are normalised as media types.
func (c *Ctx) r037() {
	const rule = "R03.7"
	c.R.Rule(rule, "minify.Mediatype lower-cases and strips white space — right for a media type, wrong for any other value. In the attribute loop of html.(*Minifier).Minify the guard of `val = minify.Mediatype(val)` is evaluated for every pair of an element in {a, area, link, embed, object, source, script, style, ol, ul, li, input, button, menu, form, select} and an attribute in {type, enctype, formenctype, accept, value, name}: it may hold only where the HTML standard defines the value as a media type (or a list of them): enctype, formenctype, accept on any element, and type on a, area, link, embed, object, source, script, style. `<ol type=\"A\">` (upper-case letters) must not become `<ol type=a>`")
	pk := c.pkg(rule, "html")
	if pk == nil {
		return
	}
	info := pk.TypesInfo
	fd := c.fn(rule, pk, "Minifier.Minify")
	if fd == nil {
		return
	}
	h := c.loadHash(rule, "html")
	if h == nil {
		return
	}
	g := c.graph(pk, fd)
	mediaTags := map[string]bool{"a": true, "area": true, "link": true, "embed": true, "object": true, "source": true, "script": true, "style": true}
	tags := []string{"a", "area", "link", "embed", "object", "source", "script", "style", "ol", "ul", "li", "input", "button", "menu", "form", "select"}
	attrs := []string{"type", "enctype", "formenctype", "accept", "value", "name"}
	n := 0
	for _, y := range g.Nodes {
		as, ok := y.Stmt.(*ast.AssignStmt)
		if !ok || y.Kind != flow.KStmt || len(as.Rhs) != 1 {
			continue
		}
		call := isCall(info, ast.Unparen(as.Rhs[0]), load.Mod+".Mediatype")
		if call == nil || c.caseLabel(as) == "" {
			continue
		}
		// only the attribute loop: the argument is the attribute value
		if str(call.Args[0]) != "val" {
			continue
		}
		n++
		var facts []flow.Fact
		for _, f := range g.DomFacts(y) {
			if f.Test.Kind == flow.KCond && (strings.Contains(str(f.Test.Expr), "attr.Hash") || strings.Contains(str(f.Test.Expr), "t.Hash")) {
				facts = append(facts, f)
			}
		}
		// a compound guard has no dominating leaf: take the enclosing if condition as a whole
		var cond ast.Expr
		for p := c.P.Parent(as); p != nil; p = c.P.Parent(p) {
			if ifs, isIf := p.(*ast.IfStmt); isIf && ifs.Body.Pos() <= as.Pos() && as.End() <= ifs.Body.End() && strings.Contains(str(ifs.Cond), "attr.Hash") {
				cond = ifs.Cond
				break
			}
		}
		construct := fmt.Sprintf("html.Minifier.Minify/Mediatype applied to an attribute value #%d", n)
		if cond == nil {
			c.R.Bad(rule, construct, c.pos(as), "minify.Mediatype is applied to attribute values without a test of the attribute")
			continue
		}
		var bad []string
		undecided := false
		for _, tg := range tags {
			for _, at := range attrs {
				env := map[string]int64{"attr.Hash": h.toHash(at), "t.Hash": h.toHash(tg)}
				v, ok := evalIntExpr(info, cond, env)
				if !ok {
					undecided = true
					continue
				}
				if v == 0 {
					continue
				}
				allowed := at == "enctype" || at == "formenctype" || at == "accept" || at == "type" && mediaTags[tg]
				if !allowed {
					bad = append(bad, "<"+tg+" "+at+"=…>")
				}
			}
		}
		if undecided {
			c.R.Unres(rule, construct, c.pos(cond), "the guard is not a function of attr.Hash and t.Hash alone: "+str(cond))
			continue
		}
		if len(bad) > 8 {
			bad = append(bad[:8], "…")
		}
		c.R.Check(len(bad) == 0, rule, construct, c.pos(cond), fmt.Sprintf("%d×%d (element, attribute) pairs: only media-type valued attributes", len(tags), len(attrs)), "the value is lower-cased and stripped as a media type for "+strings.Join(bad, ", ")+", whose value is not a media type (list markers `A` / `I`, control types, names)")
	}
	c.R.Floor(rule, "Mediatype applications in the attribute loop", n, 1)
}

// staleScratch: clause (c) of the token buffer rule.
func (c *Ctx) staleScratch(rule string, pk *packages.Package) {
	n := 0
	for _, fd := range load.FuncDecls(pk) {
		if fd.Body == nil {
			continue
		}
		var reslices []*ast.AssignStmt
		ast.Inspect(fd.Body, func(x ast.Node) bool {
			as, ok := x.(*ast.AssignStmt)
			if !ok || len(as.Lhs) != 1 || len(as.Rhs) != 1 || as.Tok != token.ASSIGN {
				return true
			}
			sel, isSel := as.Lhs[0].(*ast.SelectorExpr)
			if !isSel || fd.Recv == nil || len(fd.Recv.List) == 0 || len(fd.Recv.List[0].Names) == 0 || str(sel.X) != fd.Recv.List[0].Names[0].Name {
				return true // only state that survives the call: fields of the receiver
			}
			if se, ok := ast.Unparen(as.Rhs[0]).(*ast.SliceExpr); ok && se.Low == nil && se.High != nil && str(se.X) == str(as.Lhs[0]) {
				// growing or keeping the length: z.f = z.f[:n]; `z.f = z.f[:0]` empties it and is fine
				if k, isK := intConst(pk.TypesInfo, se.High); isK && k == 0 {
					return true
				}
				if strings.Contains(nospace(str(se.High)), nospace(str(as.Lhs[0]))) {
					return true // a bound computed from the slice's own length shortens it
				}
				reslices = append(reslices, as)
			}
			return true
		})
		if len(reslices) == 0 {
			continue
		}
		g := c.graph(pk, fd)
		for _, as := range reslices {
			n++
			field := str(as.Lhs[0])
			from := g.NodeOf(as)
			clears := func(y *flow.Node) bool {
				if y.Kind != flow.KRange {
					return false
				}
				rs, ok := y.Stmt.(*ast.RangeStmt)
				if !ok || str(rs.X) != field || rs.Key == nil {
					return false
				}
				for _, st := range rs.Body.List {
					if a2, ok := st.(*ast.AssignStmt); ok && len(a2.Lhs) == 1 {
						if ix, ok := a2.Lhs[0].(*ast.IndexExpr); ok && str(ix.X) == field && str(ix.Index) == str(rs.Key) {
							return true
						}
					}
				}
				return false
			}
			var p []*flow.Node
			if from != nil {
				p = g.Path(flow.Search{From: []*flow.Node{from}, Goal: func(y *flow.Node) bool { return y.Kind == flow.KExit || retStmt(y) != nil }, Avoid: clears})
			}
			c.R.Check(from != nil && p == nil, rule, fmt.Sprintf("%s.%s/reused %s is reset", pk.Name, load.FuncName(fd), field), c.pos(as), "a range loop over it stores into every element before the function returns",
				"the slice is reused by reslicing and the function can return without overwriting every element: entries of the previous call survive (an absent attribute is reported as the token found for an earlier tag)")
		}
	}
	if pk.Name != "xml" {
		c.R.Floor(rule, "reused result slices", n, 1)
	}
}

// peekedTokensReadOnly: clause (d) of the token buffer rule.
func (c *Ctx) peekedTokensReadOnly(rule string, pk *packages.Package) {
	info := pk.TypesInfo
	n, peeks := 0, 0
	for _, fd := range load.FuncDecls(pk) {
		if fd.Body == nil {
			continue
		}
		// variables bound to the result of (*TokenBuffer).Peek
		peeked := map[types.Object]bool{}
		ast.Inspect(fd.Body, func(x ast.Node) bool {
			as, ok := x.(*ast.AssignStmt)
			if !ok || len(as.Lhs) != 1 || len(as.Rhs) != 1 {
				return true
			}
			call, ok := ast.Unparen(as.Rhs[0]).(*ast.CallExpr)
			if !ok || !strings.HasSuffix(calleeName(info, call), ".(TokenBuffer).Peek") {
				return true
			}
			if id, ok := as.Lhs[0].(*ast.Ident); ok {
				if o := info.ObjectOf(id); o != nil {
					peeked[o] = true
					peeks++
				}
			}
			return true
		})
		if len(peeked) == 0 {
			continue
		}
		ast.Inspect(fd.Body, func(x ast.Node) bool {
			as, ok := x.(*ast.AssignStmt)
			if !ok {
				return true
			}
			for _, l := range as.Lhs {
				sel, ok := l.(*ast.SelectorExpr)
				if !ok || sel.Sel.Name != "Data" {
					continue
				}
				id, ok := ast.Unparen(sel.X).(*ast.Ident)
				if !ok || !peeked[info.Uses[id]] {
					continue
				}
				n++
				c.R.Bad(rule, fmt.Sprintf("%s.%s/%s rewritten ahead of its turn#%d", pk.Name, load.FuncName(fd), nospace(str(l)), n), c.pos(as), "the bytes of a token that was only peeked at are changed: when its own case comes, the token is no longer what the input said (a line break after <pre> removed in advance is removed again by the parser)")
			}
			return true
		})
	}
	c.R.Exists(rule, pk.Name+"/peeked tokens are read-only", "-", fmt.Sprintf("%d look-ahead bindings, none has its Data assigned", peeks))
	if pk.Name != "xml" {
		c.R.Floor(rule, "look-ahead bindings (variables bound to TokenBuffer.Peek)", peeks, 3)
	}
}

// peekIndexClamped: clause (e) of the token buffer rule.
func (c *Ctx) peekIndexClamped(rule string, pk *packages.Package) {
	fd := load.Func(pk, "TokenBuffer.Peek")
	if fd == nil {
		return
	}
	g := c.graph(pk, fd)
	n := 0
	for _, y := range g.Nodes {
		as, ok := y.Stmt.(*ast.AssignStmt)
		if !ok || y.Kind != flow.KStmt || len(as.Lhs) != 1 || len(as.Rhs) != 1 {
			continue
		}
		// buf = buf[:i+1] — the buffer is cut at the error token just read
		se, ok := ast.Unparen(as.Rhs[0]).(*ast.SliceExpr)
		if !ok || se.Low != nil || se.High == nil || nospace(str(se.X)) != nospace(str(as.Lhs[0])) {
			continue
		}
		hb, ok := ast.Unparen(se.High).(*ast.BinaryExpr)
		if !ok || hb.Op != token.ADD || nospace(str(hb.Y)) != "1" {
			continue
		}
		idx := nospace(str(hb.X))
		n++
		// the parameter that is finally used as the index of the returned element
		var ret *flow.Node
		var posName string
		for _, q := range g.Nodes {
			if rs := retStmt(q); rs != nil && len(rs.Results) == 1 {
				if ue, ok := ast.Unparen(rs.Results[0]).(*ast.UnaryExpr); ok && ue.Op == token.AND {
					if ix, ok := ast.Unparen(ue.X).(*ast.IndexExpr); ok {
						if id, ok := ast.Unparen(ix.Index).(*ast.Ident); ok {
							ret, posName = q, id.Name
						}
					}
				}
			}
		}
		if ret == nil {
			c.R.Unres(rule, pk.Name+".TokenBuffer.Peek/returned element", c.pos(fd), "no `return &buf[index]` with a plain index variable found")
			continue
		}
		clamps := func(q *flow.Node) bool {
			a2, ok := q.Stmt.(*ast.AssignStmt)
			return ok && q.Kind == flow.KStmt && a2.Tok == token.ASSIGN && len(a2.Lhs) == 1 && len(a2.Rhs) == 1 && nospace(str(a2.Lhs[0])) == posName && nospace(str(a2.Rhs[0])) == idx
		}
		p := g.Path(flow.Search{From: []*flow.Node{y}, Goal: func(q *flow.Node) bool { return q == ret }, Avoid: clamps})
		// and nothing moves the index after the clamp
		moved := false
		for _, q := range g.Nodes {
			if !clamps(q) {
				continue
			}
			if g.Path(flow.Search{From: []*flow.Node{q}, Goal: func(z *flow.Node) bool {
				a3, ok := z.Stmt.(*ast.AssignStmt)
				if ok && z.Kind == flow.KStmt && z != q {
					for _, l := range a3.Lhs {
						if nospace(str(l)) == posName {
							return true
						}
					}
				}
				if inc, ok := z.Stmt.(*ast.IncDecStmt); ok && nospace(str(inc.X)) == posName {
					return true
				}
				return false
			}, Avoid: func(z *flow.Node) bool { return z == ret }}) != nil {
				moved = true
			}
		}
		c.R.Check(p == nil && !moved, rule, fmt.Sprintf("%s.TokenBuffer.Peek/index clamped when the input ends early#%d", pk.Name, n), c.pos(as), posName+" = "+idx+" before the element is returned", "the buffer is cut at the error token but the requested index is not moved onto it: a look-ahead of two tokens at the end of the input (`<svg><defs`) indexes past the buffer and the minifier panics")
	}
	c.R.Floor(rule, "early ends of the read loop in Peek", n, 1)
}

// tokenSlotFullyRewritten: clause (f) of the token buffer rule.
func (c *Ctx) tokenSlotFullyRewritten(rule string, pk *packages.Package) {
	fd := c.fn(rule, pk, "TokenBuffer.read")
	if fd == nil {
		return
	}
	if fd.Type.Params == nil || len(fd.Type.Params.List) != 1 || len(fd.Type.Params.List[0].Names) != 1 {
		c.R.Unres(rule, pk.Name+".TokenBuffer.read/token parameter", c.pos(fd), "read does not take one token parameter")
		return
	}
	tok := fd.Type.Params.List[0].Names[0].Name
	g := c.graph(pk, fd)
	fields := map[string]bool{}
	assigns := func(q *flow.Node, f string) bool {
		as, ok := q.Stmt.(*ast.AssignStmt)
		if !ok || q.Kind != flow.KStmt {
			return false
		}
		for _, l := range as.Lhs {
			if nospace(str(l)) == tok+"."+f {
				return true
			}
		}
		return false
	}
	for _, y := range g.Nodes {
		if as, ok := y.Stmt.(*ast.AssignStmt); ok && y.Kind == flow.KStmt {
			for _, l := range as.Lhs {
				if sel, ok := l.(*ast.SelectorExpr); ok && nospace(str(sel.X)) == tok {
					fields[sel.Sel.Name] = true
				}
			}
		}
	}
	n := 0
	for _, f := range sortedKeys(fields) {
		f := f
		n++
		p := g.Path(flow.Search{From: []*flow.Node{g.Entry}, IncludeFrom: true, Goal: func(q *flow.Node) bool { return q == g.Exit || retStmt(q) != nil }, Avoid: func(q *flow.Node) bool { return assigns(q, f) }})
		c.R.Check(p == nil, rule, fmt.Sprintf("%s.TokenBuffer.read/%s.%s assigned on every path", pk.Name, tok, f), c.pos(fd), "every path to the exit assigns the field", "the field "+f+" of the reused slot is not assigned for every kind of token ("+pathStr(c, g, p)+"): such a token keeps the "+f+" of whatever token used the slot before — a text or svg token is then taken for a block element, or an attribute value for the previous one's")
	}
	c.R.Floor(rule, "token fields assigned by read", n, 3)
}

// tokenTraitsFromOwnEntry (R17.tokentraits, second clause): a token's traits are the table entry of its own name.
func (c *Ctx) tokenTraitsFromOwnEntry(rule string, pk *packages.Package) {
	fd := c.fn(rule, pk, "TokenBuffer.read")
	if fd == nil {
		return
	}
	tok := fd.Type.Params.List[0].Names[0].Name
	n := 0
	ast.Inspect(fd.Body, func(x ast.Node) bool {
		as, ok := x.(*ast.AssignStmt)
		if !ok {
			return true
		}
		for i, l := range as.Lhs {
			ls := nospace(str(l))
			if i >= len(as.Rhs) {
				continue
			}
			rs := nospace(str(as.Rhs[i]))
			switch ls {
			case tok + ".Traits":
				n++
				good := rs == "0" || rs == "attrMap["+tok+".Hash]" || rs == "tagMap["+tok+".Hash]"
				c.R.Check(good, rule, fmt.Sprintf("%s.TokenBuffer.read/%s.Traits = %s is the entry of the token's own name", pk.Name, tok, rs), c.pos(as), "attrMap / tagMap indexed by the token's Hash", "the traits are taken from "+rs+", not from the table entry of the token's own name: an attribute (`data-selected`, `data-href`) is treated as the boolean or URL attribute whose name it merely contains — `<option data-selected=\"false\">` → `<option data-selected>`")
			case tok + ".Hash":
				n++
				good := rs == "0" || rs == "ToHash("+tok+".Text)"
				c.R.Check(good, rule, fmt.Sprintf("%s.TokenBuffer.read/%s.Hash = %s is the hash of the token's own name", pk.Name, tok, rs), c.pos(as), "ToHash of the token's text", "the hash is computed from "+rs+" instead of the token's whole name: every table look-up for this token answers for another name")
			}
		}
		return true
	})
	c.R.Floor(rule, "assignments of Traits and Hash in read", n, 4)
}
