package rules

import (
	"fmt"
	"go/ast"
	"strings"

	"golang.org/x/tools/go/ssa"

	"verif/checker/internal/flow"
	"verif/checker/internal/load"
)

// tokenBuffer decides two clauses about the look-ahead buffer that html, xml and svg each have
// a copy of (sibling implementations of one design):
//
//	(a) Peek moves the unread tokens to the front on every path on which it resets the read position;
//	(b) a *Token obtained from Peek / Shift is only valid until the next Peek (which may move or
//	    reallocate the buffer): it is never stored into heap memory.
func (c *Ctx) tokenBuffer(rule, rel string) {
	c.R.Rule(rule, "package "+rel+", TokenBuffer (one of three sibling copies of the look-ahead buffer): (a) in Peek every path from the entry to an assignment that resets the read position (`z.pos, z.buf = 0, buf` / `z.pos = 0`) passes a copy(…, z.buf[z.pos:]) that moves the unread tokens to the front — on a path without it tokens that were never consumed are overwritten by newly read ones and consumed tokens are replayed (a processing instruction or start tag disappears from the output); (b) SSA: no value returned by (*TokenBuffer).Peek or Shift is stored into memory other than a local variable — the next Peek may reallocate the buffer, and a pointer kept in a slice or field then refers to the abandoned array (edits made through it never reach the output)")
	pk := c.pkg(rule, rel)
	if pk == nil {
		return
	}
	fd := c.fn(rule, pk, "TokenBuffer.Peek")
	if fd != nil {
		g := c.graph(pk, fd)
		recv := fd.Recv.List[0].Names[0].Name
		isCompaction := func(y *flow.Node) bool {
			a := y.Ast()
			if a == nil || y.Kind != flow.KStmt {
				return false
			}
			hit := false
			flowInspectCalls(a, func(call *ast.CallExpr) {
				if id, ok := call.Fun.(*ast.Ident); ok && id.Name == "copy" && len(call.Args) == 2 {
					if sl, isSl := ast.Unparen(call.Args[1]).(*ast.SliceExpr); isSl && str(sl.X) == recv+".buf" && sl.Low != nil && nospace(str(sl.Low)) == recv+".pos" {
						hit = true
					}
				}
			})
			return hit
		}
		n := 0
		for _, y := range g.Nodes {
			as, ok := y.Stmt.(*ast.AssignStmt)
			if !ok || y.Kind != flow.KStmt {
				continue
			}
			resets := false
			for i, l := range as.Lhs {
				if str(l) == recv+".pos" && i < len(as.Rhs) && str(as.Rhs[i]) == "0" {
					resets = true
				}
			}
			if !resets {
				continue
			}
			n++
			p := g.MustPassBefore(y, isCompaction, flow.Search{})
			c.R.Check(p == nil, rule, fmt.Sprintf("%s.TokenBuffer.Peek/unread tokens moved to the front before reset #%d", rel, n), c.pos(as), "copy(…, z.buf[z.pos:]) on every path", "the read position is reset without moving the unread tokens to the front of the buffer: "+pathStr(c, g, p))
		}
		c.R.Floor(rule, rel+" Peek position resets", n, 1)
	}
	// (b)
	sp := c.P.SSAPkg(rel)
	if sp == nil {
		c.R.Unres(rule, rel+"/ssa", "-", "SSA package missing")
		return
	}
	calls := 0
	for _, fn := range allFuncs(sp) {
		var bad []string
		for _, b := range fn.Blocks {
			for _, ins := range b.Instrs {
				call, ok := ins.(*ssa.Call)
				if !ok {
					continue
				}
				cal := call.Call.StaticCallee()
				if cal == nil || cal.Pkg != sp || cal.Signature.Recv() == nil || !strings.HasSuffix(cal.Signature.Recv().Type().String(), "TokenBuffer") || cal.Name() != "Peek" && cal.Name() != "Shift" {
					continue
				}
				calls++
				// forward closure through φ
				d := map[ssa.Value]bool{call: true}
				for changed := true; changed; {
					changed = false
					for _, bb := range fn.Blocks {
						for _, in2 := range bb.Instrs {
							if phi, isPhi := in2.(*ssa.Phi); isPhi && !d[phi] {
								for _, e := range phi.Edges {
									if d[e] {
										d[phi] = true
										changed = true
									}
								}
							}
						}
					}
				}
				for _, bb := range fn.Blocks {
					for _, in2 := range bb.Instrs {
						st, isSt := in2.(*ssa.Store)
						if !isSt || !d[st.Val] {
							continue
						}
						if _, isLocal := st.Addr.(*ssa.Alloc); isLocal {
							continue
						}
						bad = append(bad, fmt.Sprintf("the token pointer from %s at %s is stored at %s", cal.Name(), c.P.Pos(call.Pos()), c.P.Pos(st.Pos())))
					}
				}
			}
		}
		if len(bad) > 0 {
			c.R.Bad(rule, fnName(fn)+"/token pointers are not kept", c.P.Pos(fn.Pos()), strings.Join(bad, "; ")+": it dangles as soon as a later Peek reallocates the buffer")
		}
	}
	c.R.Exists(rule, rel+"/token pointers are not kept", "-", fmt.Sprintf("%d Peek/Shift calls, no result stored outside locals", calls))
	_ = load.Mod
}
