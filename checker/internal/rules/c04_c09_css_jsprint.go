package rules

import (
	"fmt"
	"go/ast"
	"go/constant"
	"go/token"
	"go/types"
	"math"
	"sort"
	"strings"

	"golang.org/x/tools/go/packages"

	"verif/checker/internal/eval"
	"verif/checker/internal/flow"
	"verif/checker/internal/load"
	"verif/checker/internal/ref"
)

const cssMinT = load.Mod + "/css.cssMinifier"

func init() {
	mutant(&Mutant{Name: "c09-decoded-dollar-unescaped-in-template", Property: "C09", File: "js/util.go",
		Old: "} else if num < 256 && quote == byte(num) || quote == '`' && (num == '$' || num == '{') {", New: "} else if num < 256 && quote == byte(num) {",
		Rule: "R09.24", Construct: "covers `$` and `{` for template literals"})
	mutant(&Mutant{Name: "c09-nul-escape-shortened-in-front-of-a-digit", Property: "C09", File: "js/util.go",
		Old: "\t\t\t\tif num == 0 && i+n < len(b)-1 && '0' <= b[i+n] && b[i+n] <= '9' {\n\t\t\t\t\t// keep \\00 or \\000, \\0 would take the digit that follows for a part of the escape\n\t\t\t\t\ti += n - 1\n\t\t\t\t\tcontinue\n\t\t\t\t}\n", New: "",
		Rule: "R09.25", Construct: "only where no digit follows"})
	mutant(&Mutant{Name: "c04-unknown-function-arguments-at-top-level", Property: "C04", File: "css/css.go",
		Old: "values[i].Args = c.minifyTokens(prop, unknownFunction, values[i].Args)", New: "values[i].Args = c.minifyTokens(prop, fun, values[i].Args)",
		Rule: "R04.25", Construct: "is marked as inside a function"})
	mutant(&Mutant{Name: "c09-template-with-escaped-dollar-hex", Property: "C09", File: "js/util.go",
		Old: "\t\t\t\t} else if b[i+2] == '2' && b[i+3] == '4' || b[i+2] == '7' && b[i+3]|0x20 == 'b' {\n\t\t\t\t\tallowTemplate = false // $ or {, decoded they may form ${\n", New: "\t\t\t\t} else if b[i+2] == '2' && b[i+3] == '4' {\n\t\t\t\t\tallowTemplate = false // $ or {, decoded they may form ${\n",
		Rule: "R09.22", Construct: "rules the template out"})
	mutant(&Mutant{Name: "c09-export-default-leading-function", Property: "C09", File: "js/js.go",
		Old: "if !isHoistable && !isClass && startsWithFuncOrClass(stmt.Decl) {", New: "if !isHoistable && !isClass && len(m.prev) == 0 {",
		Rule: "R09.23", Construct: "is tested for a leading function or class"})
	mutant(&Mutant{Name: "c04-selector-function-arguments-lowercased", Property: "C04", File: "css/css.go",
		Old: "if isPseudo || !isClass && level == 0 && !isPrefix && !hasLower(val.Data) {", New: "if isPseudo || !isClass && !isPrefix && !hasLower(val.Data) {",
		Rule: "R04.22", Construct: "not inside the arguments of a function"})
	mutant(&Mutant{Name: "c04-selector-mixed-case-lowercased", Property: "C04", File: "css/css.go",
		Old: "if isPseudo || !isClass && level == 0 && !isPrefix && !hasLower(val.Data) {", New: "if isPseudo || !isClass && level == 0 && !isPrefix {",
		Rule: "R04.22", Construct: "not a mixed-case name"})
	mutant(&Mutant{Name: "c09-static-numeric-field-joined", Property: "C09", File: "js/js.go",
		Old: "item.Name.Literal.TokenType != js.StringToken && item.Name.Literal.TokenType != js.PrivateIdentifierToken {", New: "item.Name.Literal.TokenType == js.IdentifierToken {",
		Rule: "R09.21", Construct: "name is separated from the keyword"})
	register(&Property{
		ID:    "C04",
		Level: "other",
		Explain: "Value equivalence (numbers, colours, shorthands, background-position arithmetic) is numeric/semantic and NOT decided; colour and unit tables are decided under C17. Two clauses of the statement are structural and decided on the CFG of the CSS minifier: " +
			"(R04.1) once `!important` has been stripped from a declaration's components it is written back on every path (directly, or through writeDeclaration whose own paths all end in the write when the flag is set); " +
			"(R04.2) anything not understood is passed through: the grammar switch has a default clause that writes the token's data, the parse-error branch writes every remaining value, and a declaration whose value list is not a flat list is written component by component (apart from the enumerated progid rewrite).",
		Run: runC04,
	})
	register(&Property{
		ID:    "C09",
		Level: "other",
		Explain: "Validity of the output for all inputs is a runtime notion (the known `'\\x3C/script>'` case is data dependent) and NOT decided. The statement-terminator discipline of the JS printer is shape and decided: (R09.1) for every case of minifyStmt whose node type is a production that ECMA-262 ends with `;` — and for class fields — every path that emitted something calls requireSemicolon() (or delegates to the statement printer) before leaving the case, " +
			"so that the next statement cannot be glued onto it; the only bypass is an exported function/class declaration. R09.2 of the design (keyword separation typestate) was evaluated and dropped: the printer's space insertion is data dependent (m.prev bytes), no exact static formulation exists without an allow-list.",
		Run: runC09,
	})
	mutant(&Mutant{Name: "c04-attribute-value-unquoted-by-own-test", Property: "C04", File: "css/css.go",
		Old: "\t\t\t\tif css.IsIdent(s) {\n\t\t\t\t\tc.w.Write(s)", New: "\t\t\t\tif css.IsIdent(s) || s[0] == '-' {\n\t\t\t\t\tc.w.Write(s)",
		Rule: "R04.11", Construct: "attribute value unquoted"})
	mutant(&Mutant{Name: "c04-token-equal-folds-case", Property: "C04", File: "css/css.go",
		Old: "if t.TokenType == t2.TokenType && bytes.Equal(t.Data, t2.Data) && len(t.Args) == len(t2.Args) {", New: "if t.TokenType == t2.TokenType && bytes.EqualFold(t.Data, t2.Data) && len(t.Args) == len(t2.Args) {",
		Rule: "R04.9", Construct: "Token.Equal"})
	mutant(&Mutant{Name: "c04-attr-flag-space-only-after-quotes", Property: "C04", File: "css/css.go",
		Old: "\t\t\t\tif css.IsIdent(s) {\n\t\t\t\t\tc.w.Write(s)\n\t\t\t\t\tcontinue", New: "\t\t\t\tif css.IsIdent(s) {\n\t\t\t\t\tc.w.Write(s)\n\t\t\t\t\tisClass = true\n\t\t\t\t\tcontinue",
		Old2: "} else if val.TokenType == css.IdentToken && len(val.Data) == 1 && (val.Data[0] == 'i'", New2: "} else if isClass && val.TokenType == css.IdentToken && len(val.Data) == 1 && (val.Data[0] == 'i'",
		Rule: "R04.10", Construct: "decided by the current token"})
	mutant(&Mutant{Name: "c04-important-lost-for-complex-values", Property: "C04", File: "css/css.go",
		Old: "\t\tfor _, component := range components {\n\t\t\tc.w.Write(component.Data)\n\t\t}\n\t\tif important {\n\t\t\tc.w.Write(importantBytes)\n\t\t}\n\t\treturn\n", New: "\t\tfor _, component := range components {\n\t\t\tc.w.Write(component.Data)\n\t\t}\n\t\treturn\n",
		Rule: "R04.1", Construct: "minifyDeclaration"})
	mutant(&Mutant{Name: "c04-writedeclaration-drops-important", Property: "C04", File: "css/css.go",
		Old: "\tif important {\n\t\tc.w.Write(importantBytes)\n\t}\n}\n\nfunc (c *cssMinifier) minifyTokens", New: "\tif important && 0 < len(values) {\n\t\tc.w.Write(importantBytes)\n\t}\n}\n\nfunc (c *cssMinifier) minifyTokens",
		Rule: "R04.1", Construct: "writeDeclaration"})
	mutant(&Mutant{Name: "c04-unknown-grammar-dropped", Property: "C04", File: "css/css.go",
		Old: "\t\tdefault:\n\t\t\tc.w.Write(data)\n\t\t}\n\t}\n}\n\nfunc (c *cssMinifier) minifySelectors", New: "\t\tdefault:\n\t\t}\n\t}\n}\n\nfunc (c *cssMinifier) minifySelectors",
		Rule: "R04.2", Construct: "default"})
	mutant(&Mutant{Name: "c04-parse-error-skips-strings", Property: "C04", File: "css/css.go",
		Old: "\t\t\t\tfor _, val := range vals {\n\t\t\t\t\tc.w.Write(val.Data)\n\t\t\t\t}\n\t\t\t\tcontinue", New: "\t\t\t\tfor _, val := range vals {\n\t\t\t\t\tif val.TokenType == css.BadStringToken {\n\t\t\t\t\t\tcontinue\n\t\t\t\t\t}\n\t\t\t\t\tc.w.Write(val.Data)\n\t\t\t\t}\n\t\t\t\tcontinue",
		Rule: "R04.2", Construct: "parse error"})
	mutant(&Mutant{Name: "c04-flex-auto-prefix-test", Property: "C04", File: "css/css.go",
		Old: "\t\t\tif len(values[0].Data) == 1 && len(values[1].Data) == 1 {\n\t\t\t\tif values[2].Ident == Auto {", New: "\t\t\tif len(values[0].Data) == 1 {\n\t\t\t\tif values[2].Ident == Auto {",
		Rule: "R04.3", Construct: "values[1].Data[0]=='1'"})
	mutant(&Mutant{Name: "c09-function-declaration-as-loop-body", Property: "C09", File: "js/js.go",
		Old: "\tif len(blockStmt.List) == 1 {\n\t\tif _, ok := blockStmt.List[0].(*js.FuncDecl); ok {\n\t\t\thasLexicalVars = true // a function declaration is not a statement, e.g. for(;;)function f(){} is invalid\n\t\t}\n\t}\n", New: "",
		Rule: "R09.11", Construct: "braces kept for a function declaration"})
	mutant(&Mutant{Name: "c09-data-uri-keeps-source-quote", Property: "C09", File: "css/css.go",
		Old: "\t\t\t\t\tif delim == '\\'' && bytes.IndexByte(uri, '\\'') != -1 && bytes.IndexByte(uri, '\"') == -1 {\n\t\t\t\t\t\tdelim = '\"' // DataURI decodes %27 but always encodes double quotes\n\t\t\t\t\t}\n", New: "",
		Rule: "R09.9", Construct: "quoted write"})
	mutant(&Mutant{Name: "c09-bigint-through-number", Property: "C09", File: "js/util.go",
		Old: "\tb, suffix = removeUnderscoresAndSuffix(b)\n\tif suffix {\n\t\treturn append(b, 'n')\n\t}\n\treturn minify.Number(b, prec)", New: "\tb, suffix = removeUnderscoresAndSuffix(b)\n\tb = minify.Number(b, prec)\n\tif suffix {\n\t\treturn append(b, 'n')\n\t}\n\treturn b",
		Rule: "R09.3", Construct: "decimalNumber"})
	mutant(&Mutant{Name: "c04-layer-offset-as-index", Property: "C04", File: "css/css.go",
		Old: "for _, i := range []int{end - 1, start + 1} {", New: "for _, i := range []int{end - start - 1, start + 1} {",
		Rule: "R04.5", Construct: "indices are positions"})
	mutant(&Mutant{Name: "c04-offset-buffer-shared", Property: "C04", File: "css/css.go",
		Old: "b = strconv.AppendInt(make([]byte, 0, 4), 100-n, 10)", New: "b = strconv.AppendInt(b[:0], 100-n, 10)",
		Rule: "R04.6", Construct: "b stored by"})
	mutant(&Mutant{Name: "c04-hex-alpha-pair-not-compared", Property: "C04", File: "css/css.go",
		Old: "} else if len(data) == 9 && data[1] == data[2] && data[3] == data[4] && data[5] == data[6] && data[7] == data[8] {", New: "} else if len(data) == 9 && data[1] == data[2] && data[3] == data[4] && data[5] == data[6] {",
		Rule: "R04.14", Construct: "data cut to 5 bytes"})
	mutant(&Mutant{Name: "c04-zero-flex-fraction-loses-unit", Property: "C04", File: "css/table.go",
		Old: "\t\"em\":   true,\n", New: "\t\"em\":   true,\n\t\"fr\":   true,\n",
		Rule: "R04.12", Construct: "css.optionalZeroDimension[fr]"})
	mutant(&Mutant{Name: "c04-hsl-numbers-converted-unscaled", Property: "C04", File: "css/css.go",
		Old: "} else if (fun == Hsl || fun == Hsla) && args[0].TokenType == css.NumberToken", New: "} else if fun == Hsl || fun == Hsla && args[0].TokenType == css.NumberToken",
		Rule: "R04.15", Construct: "HSL2RGB#1 only for percentages"})
	mutant(&Mutant{Name: "c04-import-url-quote-test-at-fixed-position", Property: "C04", File: "css/css.go",
		Old: "if a <= b && (url[a] == '\"' || url[a] == '\\'') {", New: "if a <= b && (url[4] == '\"' || url[4] == '\\'') {",
		Rule: "R04.16", Construct: "quote test#1 at the start of the content"})
	mutant(&Mutant{Name: "c04-background-size-taken-for-position", Property: "C04", File: "css/css.go",
		Old: "\t\t\t\t\tfor k := 0; k < 2 && i+1 < end && (values[i+1].TokenType == css.NumberToken || values[i+1].IsLengthPercentage() || values[i+1].Ident == Auto); k++ {\n\t\t\t\t\t\ti++\n\t\t\t\t\t}\n\t\t\t\t\tcontinue\n", New: "\t\t\t\t\tcontinue\n",
		Rule: "R04.18", Construct: "steps over the size"})
	mutant(&Mutant{Name: "c04-position-offsets-shared-between-layers", Property: "C04", File: "css/css.go",
		Old: "\t\t\t\toffsets := make([]Token, 2)\n", New: "\t\t\t\toffsets = offsets[:2]\n",
		Old2: "\tcase Background_Position:\n\t\tstart := 0\n", New2: "\tcase Background_Position:\n\t\tstart := 0\n\t\toffsets := make([]Token, 2)\n",
		Rule: "R04.20", Construct: "offsets re-sliced inside a loop is cleared first"})
	mutant(&Mutant{Name: "c04-integer-gets-an-exponent", Property: "C04", File: "css/css.go",
		Old: "if c.o.KeepCSS2 || isInteger(values[i].Data) {", New: "if c.o.KeepCSS2 {",
		Rule: "R04.21", Construct: "only for literals that are not integers"})
	mutant(&Mutant{Name: "c04-custom-property-collapsed", Property: "C04", File: "css/css.go",
		Old: "\t\t\tvalue := parse.TrimWhitespace(c.p.Values()[0].Data)\n", New: "\t\t\tvalue := parse.TrimWhitespace(parse.ReplaceMultipleWhitespace(c.p.Values()[0].Data))\n",
		Rule: "R04.4", Construct: "confined to comment text"})
	mutant(&Mutant{Name: "c09-url-quoting-decided-before-datauri", Property: "C09", File: "css/css.go",
		Old: "\t\t\t\tif 4 < len(uri) && parse.EqualFold(uri[:5], dataSchemeBytes) {\n\t\t\t\t\turi = minify.DataURI(c.m, uri)\n", New: "\t\t\t\tunquoted := css.IsURLUnquoted(uri)\n\t\t\t\tif 4 < len(uri) && parse.EqualFold(uri[:5], dataSchemeBytes) {\n\t\t\t\t\turi = minify.DataURI(c.m, uri)\n",
		Old2: "\t\t\t\tif css.IsURLUnquoted(uri) {\n\t\t\t\t\tvalues[i].Data = append(append(urlBytes, uri...), ')')", New2: "\t\t\t\tif unquoted {\n\t\t\t\t\tvalues[i].Data = append(append(urlBytes, uri...), ')')",
		Rule: "R09.8", Construct: "re-examined after"})
	mutant(&Mutant{Name: "c09-dot-after-number-shortcut", Property: "C09", File: "js/js.go",
		Old: "\t\tif js.OpNew <= prec || isOptionalGroup(expr.X) {\n\t\t\tm.minifyExpr(expr.X, js.OpMember)", New: "\t\tif lit, ok := expr.X.(*js.LiteralExpr); ok && lit.TokenType == js.DecimalToken {\n\t\t\tm.write(lit.Data)\n\t\t\tm.write(dotBytes)\n\t\t\tm.write(expr.Y.Data)\n\t\t\tbreak\n\t\t}\n\t\tif js.OpNew <= prec || isOptionalGroup(expr.X) {\n\t\t\tm.minifyExpr(expr.X, js.OpMember)",
		Rule: "R09.4", Construct: "property write"})
	mutant(&Mutant{Name: "c09-throw-without-semicolon", Property: "C09", File: "js/js.go",
		Old: "\t\tm.write(throwBytes)\n\t\tm.writeSpaceBeforeIdent()\n\t\tm.minifyExpr(stmt.Value, js.OpExpr)\n\t\tm.requireSemicolon()\n", New: "\t\tm.write(throwBytes)\n\t\tm.writeSpaceBeforeIdent()\n\t\tm.minifyExpr(stmt.Value, js.OpExpr)\n",
		Rule: "R09.1", Construct: "case *js.ThrowStmt"})
	mutant(&Mutant{Name: "c09-break-label-no-semicolon", Property: "C09", File: "js/js.go",
		Old: "\t\tif stmt.Label != nil {\n\t\t\tm.write(spaceBytes)\n\t\t\tm.write(stmt.Label)\n\t\t}\n\t\tm.requireSemicolon()\n", New: "\t\tif stmt.Label != nil {\n\t\t\tm.write(spaceBytes)\n\t\t\tm.write(stmt.Label)\n\t\t} else {\n\t\t\tm.requireSemicolon()\n\t\t}\n",
		Rule: "R09.1", Construct: "case *js.BranchStmt"})
	mutant(&Mutant{Name: "c09-for-of-iterable-at-expression-level", Property: "C09", File: "js/js.go",
		Old: "\t\tm.minifyExpr(stmt.Value, js.OpAssign)\n", New: "\t\tm.minifyExpr(stmt.Value, js.OpExpr)\n",
		Rule: "R09.15", Construct: "ForOfStmt.Value printed at its production's level"})
	mutant(&Mutant{Name: "c09-conditional-test-at-assignment-level", Property: "C09", File: "js/js.go",
		Old: "\t\tm.minifyExpr(expr.Cond, js.OpCoalesce)\n", New: "\t\tm.minifyExpr(expr.Cond, js.OpAssign)\n",
		Rule: "R09.15", Construct: "CondExpr.Cond printed at its production's level"})
	mutant(&Mutant{Name: "c09-nullish-fallback-grouped-too-low", Property: "C09", File: "js/util.go",
		Old: "groupExpr(left, binaryRightPrecMap[js.NullishToken])}, true", New: "groupExpr(left, js.OpCoalesce)}, true",
		Rule: "R09.18", Construct: "right operand of a constructed js.NullishToken"})
	mutant(&Mutant{Name: "c09-script-end-tag-matched-case-sensitively", Property: "C09", File: "js/util.go",
		Old: "return 7 <= len(b) && b[0] == '/' && bytes.EqualFold(b[1:7], []byte(\"script\"))", New: "return 7 <= len(b) && b[0] == '/' && bytes.Equal(b[1:7], []byte(\"script\"))",
		Rule: "R09.20", Construct: "end tag recognised whatever its case and tail"})
	mutant(&Mutant{Name: "c09-class-field-no-semicolon", Property: "C09", File: "js/js.go",
		Old: "\t\t\tif item.Init != nil {\n\t\t\t\tm.write(equalBytes)\n\t\t\t\tm.minifyExpr(item.Init, js.OpAssign)\n\t\t\t}\n\t\t\tm.requireSemicolon()\n", New: "\t\t\tif item.Init != nil {\n\t\t\t\tm.write(equalBytes)\n\t\t\t\tm.minifyExpr(item.Init, js.OpAssign)\n\t\t\t\tm.requireSemicolon()\n\t\t\t}\n",
		Rule: "R09.1", Construct: "class field"})
}

// writesExpr: node calls <recv>.w.Write(<arg>) / w.Write(<arg>) with the given argument text.
func writesArg(n *flow.Node, arg string) bool {
	a := n.Ast()
	if a == nil || n.Kind != flow.KStmt {
		return false
	}
	ok := false
	flowInspectCalls(a, func(call *ast.CallExpr) {
		if sel, isSel := call.Fun.(*ast.SelectorExpr); isSel && sel.Sel.Name == "Write" && len(call.Args) == 1 && nospace(str(call.Args[0])) == arg {
			ok = true
		}
	})
	return ok
}

// rangeWritesEach: the range loop writes <value>.Data on every iteration.
func rangeWritesEach(g *flow.Graph, rn *flow.Node) bool {
	rs := rn.Stmt.(*ast.RangeStmt)
	if rs.Value == nil {
		return false
	}
	val := str(rs.Value) + ".Data"
	var tn *flow.Node
	for _, s := range rn.Succs {
		if s.Kind == flow.KTrue {
			tn = s
		}
	}
	return g.Path(flow.Search{From: []*flow.Node{tn}, Goal: func(y *flow.Node) bool { return y == rn || y.Kind == flow.KExit || y.Kind == flow.KRange && y != rn }, Avoid: func(y *flow.Node) bool { return writesArg(y, val) }}) == nil
}

func runC04(c *Ctx) {
	runC04own(c)
	c.alsoUnder(map[string]string{"R13.1": "R04.30"}, func(construct string) bool { return strings.Contains(construct, "css.") || strings.HasPrefix(construct, "floor/") }, func() { c.r131() })
	// R04.4
	const r4 = "R04.4"
	c.R.Rule(r4, "strings, URLs and custom-property values must reach the output byte for byte. In package css every call of a parse/v2 helper that rewrites white space *inside* a byte string (a function returning []byte whose name contains `MultipleWhitespace`) lies in the CommentGrammar case of cssMinifier.minifyGrammar (the text of a `/*! … */` comment); everything else the minifier handles is token data — a raw value collapsed as a whole changes the strings in it (`--sep:\"a  b\"` → `\"a b\"`)")
	pk := c.P.Pkg("css")
	if pk == nil {
		return
	}
	info := pk.TypesInfo
	n := 0
	for _, fd := range load.FuncDecls(pk) {
		if fd.Body == nil {
			continue
		}
		ast.Inspect(fd.Body, func(x ast.Node) bool {
			call, ok := x.(*ast.CallExpr)
			if !ok {
				return true
			}
			fo, _ := callee(info, call).(*types.Func)
			if fo == nil || fo.Pkg() == nil || fo.Pkg().Path() != load.ParseMod || !strings.Contains(fo.Name(), "MultipleWhitespace") {
				return true
			}
			n++
			lab := c.caseLabel(call)
			c.R.Check(load.FuncName(fd) == "cssMinifier.minifyGrammar" && lab == "case css.CommentGrammar", r4, fmt.Sprintf("css.%s/%s#%d confined to comment text", load.FuncName(fd), fo.Name(), n), c.pos(call), "in the CommentGrammar case", "parse."+fo.Name()+" is applied to "+str(call.Args[0])+" in "+load.FuncName(fd)+" ("+lab+"): white space inside strings and URLs of that data is collapsed too")
			return true
		})
	}
	c.R.Floor(r4, "white-space collapsing calls", n, 1)
	c.distanceAsIndex("R04.5", []string{"css"})
	c.scratchAliasing("R04.6", libPkgs)
	// R04.7
	const r7 = "R04.7"
	c.R.Rule(r7, "parse/v2/strconv.ParseInt reads the integer *prefix* of its argument and reports how many bytes it used. In package css every call binds that count to a variable (not `_`): a value rewritten from a partially read number (`right 10.5%` read as 10) is a different value")
	n7 := 0
	for _, fd := range load.FuncDecls(pk) {
		if fd.Body == nil {
			continue
		}
		ast.Inspect(fd.Body, func(x ast.Node) bool {
			as, ok := x.(*ast.AssignStmt)
			if !ok || len(as.Rhs) != 1 || len(as.Lhs) != 2 {
				return true
			}
			call, isCall := ast.Unparen(as.Rhs[0]).(*ast.CallExpr)
			if !isCall || calleeName(info, call) != load.ParseMod+"/strconv.ParseInt" {
				return true
			}
			n7++
			id, isId := as.Lhs[1].(*ast.Ident)
			c.R.Check(isId && id.Name != "_", r7, fmt.Sprintf("css.%s/ParseInt(%s) consumed length is used", load.FuncName(fd), str(call.Args[0])), c.pos(call), "bound to a variable", "the number of bytes ParseInt consumed is discarded: a fractional percentage is silently truncated (`right 10.5% top` → `90% 0` instead of `89.5% 0`)")
			return true
		})
	}
	c.R.Floor(r7, "ParseInt calls", n7, 1)
	c.r049(pk)
	c.r0410(pk)
	c.r0411(pk)
	c.r0415(pk)
	c.r0416(pk)
	c.r0417(pk)
	c.r0418(pk)
	c.r0419(pk)
	c.r0420("R04.20", []string{"css"})
	c.r0421(pk)
	c.r0422(pk)
	c.r0424(pk)
	c.r0425(pk)
	c.r0426(pk)
	c.r0427(pk, "R04.27")
	c.r0428(pk)
	c.r0429(pk)
	c.r0431(pk)
	c.r0432(pk)
	c.r0433(pk)
	c.r0434(pk)
	// positions remembered while rewriting a value list (background layers) stay valid: same rule as R10.5, css only
	c.alsoUnder(map[string]string{"R10.5": "R04.8"}, func(construct string) bool {
		return strings.HasPrefix(construct, "css.") || strings.HasPrefix(construct, "floor/")
	}, func() { c.r105() })
	// the CSS tables decide which values are rewritten: a unit in optionalZeroDimension that is not a length or angle
	// (`0fr` → `0`), or a colour name / hex pair that are not the same sRGB colour, changes the computed value
	c.hexCompaction("R04.14", "css", 3)
	c.alsoUnder(map[string]string{"R17.units": "R04.12", "R17.colors": "R04.13", "R17.colorkey": "R04.23"}, nil, func() { c.ruleUnits(); c.ruleColors(); c.ruleColorKey() })
}

func runC04own(c *Ctx) {
	const r1, r2 = "R04.1", "R04.2"
	c.R.Rule(r1, "in cssMinifier.minifyDeclaration, from the assignment `important = true` (after the two trailing components were stripped) every path to the function exit writes importantBytes or calls writeDeclaration(values, important) with that flag, under the stipulation that the flag stays true (it is not reassigned); in writeDeclaration, with the important parameter true, every path to the exit writes importantBytes")
	c.R.Rule(r2, "cssMinifier.minifyGrammar: the grammar switch has a default clause whose first statement writes the token data unconditionally; in the parse-error branch a range over the remaining values writes every value's Data; in minifyDeclaration, when parseDeclaration declines (values == nil), a range over components writes every component's Data before returning")
	pk := c.pkg(r1, "css")
	if pk == nil {
		return
	}
	info := pk.TypesInfo
	// R04.1
	if fd := c.fn(r1, pk, "cssMinifier.minifyDeclaration"); fd != nil {
		g := c.graph(pk, fd)
		var setN *flow.Node
		sets := 0
		for _, n := range g.Nodes {
			if rhs, ok := assignsTo(n, func(l ast.Expr) bool { return str(l) == "important" }); ok {
				sets++
				if str(rhs) == "true" {
					setN = n
				}
			}
		}
		construct := "css.cssMinifier.minifyDeclaration/!important written back"
		if setN == nil {
			c.R.Unres(r1, construct, c.pos(fd), "`important = true` not found")
		} else {
			preserved := func(y *flow.Node) bool {
				if writesArg(y, "importantBytes") {
					return true
				}
				a := y.Ast()
				if a == nil || y.Kind != flow.KStmt {
					return false
				}
				for _, call := range findCalls(info, a, false, load.Mod+"/css.(cssMinifier).writeDeclaration") {
					if len(call.Args) == 2 && str(call.Args[1]) == "important" {
						return true
					}
				}
				return false
			}
			p := g.Path(flow.Search{From: []*flow.Node{setN}, Goal: func(y *flow.Node) bool { return y.Kind == flow.KExit }, Avoid: preserved, Assume: map[string]bool{"important": true}})
			// the flag is declared false and set true once
			c.R.Check(p == nil && sets == 2, r1, construct, c.pos(setN.Stmt), "every path writes importantBytes or forwards the flag", "a declaration can lose its `!important` (its cascade priority changes): "+pathStr(c, g, p))
		}
	}
	if fd := c.fn(r1, pk, "cssMinifier.writeDeclaration"); fd != nil {
		g := c.graph(pk, fd)
		flag := fd.Type.Params.List[len(fd.Type.Params.List)-1].Names[0].Name
		p := g.Path(flow.Search{From: []*flow.Node{g.Entry}, IncludeFrom: true, Goal: func(y *flow.Node) bool { return y.Kind == flow.KExit }, Avoid: func(y *flow.Node) bool { return writesArg(y, "importantBytes") }, Assume: map[string]bool{flag: true}})
		reassigned := false
		for _, n := range g.Nodes {
			if _, ok := assignsTo(n, func(l ast.Expr) bool { return str(l) == flag }); ok {
				reassigned = true
			}
		}
		c.R.Check(p == nil && !reassigned, r1, "css.cssMinifier.writeDeclaration/!important written when the flag is set", c.pos(fd), "write on every path", "writeDeclaration can return without writing `!important` although asked to: "+pathStr(c, g, p))
	}
	// importantBytes value
	if v, _, err := c.Ev.PackageVar(pk, "importantBytes"); err == nil {
		b, _ := v.([]byte)
		c.R.Check(string(b) == "!important", r1, "css.importantBytes", "-", "!important", fmt.Sprintf("importantBytes is %q", b))
	}
	// R04.2
	if fd := c.fn(r2, pk, "cssMinifier.minifyGrammar"); fd != nil {
		g := c.graph(pk, fd)
		// default clause of the switch over gt that has the most cases
		var best *ast.SwitchStmt
		ast.Inspect(fd.Body, func(x ast.Node) bool {
			if sw, ok := x.(*ast.SwitchStmt); ok && sw.Tag != nil && str(sw.Tag) == "gt" {
				if best == nil || len(sw.Body.List) > len(best.Body.List) {
					best = sw
				}
			}
			return true
		})
		construct := "css.cssMinifier.minifyGrammar/default clause passes data through"
		if best == nil {
			c.R.Unres(r2, construct, c.pos(fd), "switch over the grammar type not found")
		} else {
			var def *ast.CaseClause
			for _, cl := range best.Body.List {
				if cc := cl.(*ast.CaseClause); cc.List == nil {
					def = cc
				}
			}
			ok := false
			if def != nil && len(def.Body) > 0 {
				if es, isES := def.Body[0].(*ast.ExprStmt); isES {
					if call, isCall := es.X.(*ast.CallExpr); isCall {
						if sel, isSel := call.Fun.(*ast.SelectorExpr); isSel && sel.Sel.Name == "Write" && len(call.Args) == 1 && str(call.Args[0]) == "data" {
							ok = true
						}
					}
				}
			}
			pos := c.pos(best)
			if def != nil {
				pos = c.pos(def)
			}
			c.R.Check(ok, r2, construct, pos, "default: c.w.Write(data)", "a grammar element the minifier has no case for is not written to the output (no default clause writing the data): unknown constructs disappear")
		}
		// parse-error branch
		found := false
		for _, n := range g.Nodes {
			if n.Kind != flow.KRange {
				continue
			}
			dominatedByParseErr := false
			for _, f := range g.DomFacts(n) {
				if f.Value && f.Test.Kind == flow.KCond && strings.Contains(str(f.Test.Expr), "HasParseError") {
					dominatedByParseErr = true
				}
			}
			if !dominatedByParseErr {
				continue
			}
			found = true
			c.R.Check(rangeWritesEach(g, n), r2, "css.cssMinifier.minifyGrammar/parse error: every remaining value written", c.pos(n.Stmt), "c.w.Write(val.Data) on every iteration", "after a parse error some of the offending declaration's tokens are not written: the text the parser could not understand is altered instead of passed through")
		}
		if !found {
			c.R.Bad(r2, "css.cssMinifier.minifyGrammar/parse error: every remaining value written", c.pos(fd), "no loop writing the values of a declaration with a parse error")
		}
	}
	if fd := c.fn(r2, pk, "cssMinifier.minifyDeclaration"); fd != nil {
		g := c.graph(pk, fd)
		found := false
		for _, n := range g.Nodes {
			if n.Kind != flow.KRange || str(n.Expr) != "components" {
				continue
			}
			nilBranch := false
			for _, f := range g.DomFacts(n) {
				if f.Value && f.Test.Kind == flow.KCond && nospace(str(f.Test.Expr)) == "values==nil" {
					nilBranch = true
				}
			}
			if !nilBranch {
				continue
			}
			found = true
			c.R.Check(rangeWritesEach(g, n), r2, "css.cssMinifier.minifyDeclaration/complex value: every component written", c.pos(n.Stmt), "c.w.Write(component.Data) on every iteration", "a declaration value the minifier does not analyse (blocks, functions with operators) is not written component by component")
		}
		if !found {
			c.R.Bad(r2, "css.cssMinifier.minifyDeclaration/complex value: every component written", c.pos(fd), "no pass-through loop for values == nil")
		}
		// the values == nil branch returns before minifyTokens
		for _, n := range g.Nodes {
			a := n.Ast()
			if a == nil || n.Kind != flow.KStmt || len(findCalls(info, a, false, load.Mod+"/css.(cssMinifier).minifyTokens", load.Mod+"/css.(cssMinifier).minifyProperty")) == 0 {
				continue
			}
			p := g.Path(flow.Search{From: []*flow.Node{g.Entry}, IncludeFrom: true, Goal: func(y *flow.Node) bool { return y == n }, AssumeRaw: map[string]bool{"values == nil": true}})
			c.R.Check(p == nil, r2, "css.cssMinifier.minifyDeclaration/value rewriting unreachable for declined values: "+shortCall(findCalls(info, a, false, load.Mod+"/css.(cssMinifier).minifyTokens", load.Mod+"/css.(cssMinifier).minifyProperty")[0]), c.pos(a), "only analysed value lists are rewritten", "value rewriting runs although parseDeclaration declined the value")
		}
	}
	_ = cssMinT
	c.r043(pk)
}

// R04.3: a first-byte digit test is a whole-value test only for one-byte numbers.
func (c *Ctx) r043(pk *packages.Package) {
	const rule = "R04.3"
	c.R.Rule(rule, "package css: numbers are minified before property rewriting, so a first byte '0' identifies zero (no leading zeros survive); for any other digit d the test X.Data[0] == 'd' says nothing about the value (10, 1.5, 100 all start with '1'). Every comparison of a token's Data[0] with a non-zero digit must therefore be dominated by the true outcome of len(X.Data) == 1 for the same X — otherwise `flex:2 10 0px` is treated as shrink factor 1")
	n := 0
	for _, fd := range load.FuncDecls(pk) {
		g := c.graph(pk, fd)
		for _, y := range g.Nodes {
			if y.Kind != flow.KCond {
				continue
			}
			b, ok := ast.Unparen(y.Expr).(*ast.BinaryExpr)
			if !ok || (b.Op != token.EQL && b.Op != token.NEQ) {
				continue
			}
			ix, ok := ast.Unparen(b.X).(*ast.IndexExpr)
			if !ok || !strings.HasSuffix(str(ix.X), ".Data") || str(ix.Index) != "0" {
				continue
			}
			lit, ok := ast.Unparen(b.Y).(*ast.BasicLit)
			if !ok || lit.Kind != token.CHAR || len(lit.Value) != 3 || lit.Value[1] < '1' || lit.Value[1] > '9' {
				continue
			}
			n++
			x := str(ix.X)
			guarded := false
			for _, f := range g.DomFacts(y) {
				if f.Value && f.Test.Kind == flow.KCond && nospace(str(f.Test.Expr)) == "len("+x+")==1" {
					guarded = true
				}
			}
			c.R.Check(guarded, rule, fmt.Sprintf("css.%s/%s tested as a one-digit value#%d", load.FuncName(fd), nospace(str(y.Expr)), n), c.pos(y.Expr), "dominated by len("+x+") == 1",
				"the first byte of "+x+" is compared with "+lit.Value+" without knowing that the number has a single digit: every value starting with that digit (10, 1.5, 100 …) is treated as "+string(lit.Value[1])+" and the rewrite changes the declaration's meaning")
		}
	}
	c.R.Floor(rule, "non-zero digit tests", n, 3)
}

// ---------------------------------------------------------------------------
// C09

func runC09(c *Ctx) {
	runC09own(c)
	if pk := c.P.Pkg("js"); pk != nil {
		// a reserved word handed out as a name, or `in` without parentheses in a for-init, is output the parser rejects
		c.alsoUnder(map[string]string{"R02.3": "R09.5"}, nil, func() { c.r023(pk) })
		c.alsoUnder(map[string]string{"R01.16": "R09.6"}, nil, func() { c.r0116(pk) })
		// the for-init flag leaking out of an expression printer removes the parentheses of a later `in`: invalid output
		c.alsoUnder(map[string]string{"R01.3": "R09.13"}, nil, func() { c.r013(pk, "R01.3", map[string]bool{"inFor": true}) })
		c.r0911(pk)
		c.r0912(pk)
		c.r0915(pk)
		c.r0918(pk)
		c.r0920(pk, "R09.20")
	}
	// a JSON number without its leading zero (`.5`) is not JSON
	// … and a JSON string that is rewritten can end the script element it is embedded in (`<\/script>` → `</script>`)
	c.alsoUnder(map[string]string{"R07.3": "R09.7", "R07.12": "R09.10", "R07.1": "R09.14"}, nil, func() { runC07own(c) })
	c.r098()
	// a declaration that ends in a dangling `/` is not valid CSS
	if pk := c.P.Pkg("css"); pk != nil {
		c.alsoUnder(map[string]string{"R04.18": "R09.19"}, nil, func() { c.r0418(pk) })
		c.r0427(pk, "R09.28")
	}
	// `]]>` in the character data of XML / SVG output is not well-formed
	c.r069("R09.16", "xml")
	c.r069("R09.17", "svg")
	if pk := c.P.Pkg("svg"); pk != nil {
		c.r0526(pk, "R09.27")
	}
}

func runC09own(c *Ctx) {
	const rule = "R09.1"
	c.R.Rule(rule, "in jsMinifier.minifyStmt, for each case whose node type is an ECMA-262 production terminated by `;` (ExprStmt, VarDecl, ReturnStmt, BranchStmt, ThrowStmt, DebuggerStmt, ImportStmt, ExportStmt, DirectivePrologueStmt), every path from an emission (m.write / a printer call) to the end of the case passes m.requireSemicolon() or a delegation to minifyStmt; the only bypass is the outcome `exported declaration is a function or class`. In minifyClassDecl, every path from the printing of a field name to the next class element passes requireSemicolon()")
	pk := c.pkg(rule, "js")
	if pk == nil {
		return
	}
	info := pk.TypesInfo
	fd := c.fn(rule, pk, "jsMinifier.minifyStmt")
	if fd == nil {
		return
	}
	g := c.graph(pk, fd)
	need := []string{"ExprStmt", "VarDecl", "ReturnStmt", "BranchStmt", "ThrowStmt", "DebuggerStmt", "ImportStmt", "ExportStmt", "DirectivePrologueStmt"}
	emits := func(pk *packages.Package, y *flow.Node) bool {
		a := y.Ast()
		if a == nil || y.Kind != flow.KStmt {
			return false
		}
		return len(findCalls(info, a, false, jsWrite, load.Mod+"/js.(jsMinifier).minifyExpr", load.Mod+"/js.(jsMinifier).minifyVarDecl", load.Mod+"/js.(jsMinifier).minifyAlias")) > 0
	}
	reqSemi := func(y *flow.Node) bool {
		a := y.Ast()
		return a != nil && y.Kind == flow.KStmt && len(findCalls(info, a, false, load.Mod+"/js.(jsMinifier).requireSemicolon", jsMinStmt)) > 0
	}
	declBypass := func(y *flow.Node) bool {
		// !isHoistable && !isClass false outcomes, i.e. isHoistable true or isClass true
		if y.Kind != flow.KTrue || y.Of.Kind != flow.KCond {
			return false
		}
		s := str(y.Of.Expr)
		return s == "isHoistable" || s == "isClass"
	}
	cases := 0
	for _, t := range need {
		var cn *flow.Node
		for _, n := range g.Nodes {
			if n.Kind == flow.KTypeCase && str(n.Expr) == "*js."+t {
				cn = n
			}
		}
		construct := "js.jsMinifier.minifyStmt/case *js." + t + "/terminated by requireSemicolon"
		if cn == nil {
			c.R.Bad(rule, construct, c.pos(fd), "no case for *js."+t)
			continue
		}
		cases++
		label := "case *js." + t
		var bad string
		n := 0
		for _, y := range g.Nodes {
			if !emits(pk, y) || c.caseLabel(y.Ast()) != label {
				continue
			}
			n++
			if p := g.Path(flow.Search{From: []*flow.Node{y}, Goal: func(z *flow.Node) bool { return z.Kind == flow.KExit }, Avoid: func(z *flow.Node) bool { return reqSemi(z) || declBypass(z) }}); p != nil {
				bad = "after emitting at " + c.pos(y.Ast()) + " the case can be left without requireSemicolon(): the next statement is printed directly after it (`throw a` + `b()` → `throw ab()`): " + pathStr(c, g, p)
			}
		}
		if n == 0 {
			c.R.Unres(rule, construct, c.pos(cn.Expr), "no emission found in the case")
			continue
		}
		c.R.Check(bad == "", rule, construct, c.pos(cn.Expr), fmt.Sprintf("%d emission(s), all followed by requireSemicolon", n), bad)
	}
	c.R.Floor(rule, "semicolon-terminated statement cases", cases, 9)
	// class fields
	if cfd := c.fn(rule, pk, "jsMinifier.minifyClassDecl"); cfd != nil {
		cg := c.graph(pk, cfd)
		k := 0
		for _, y := range cg.Nodes {
			a := y.Ast()
			if a == nil || y.Kind != flow.KStmt {
				continue
			}
			isFieldName := false
			for _, call := range findCalls(info, a, false, load.Mod+"/js.(jsMinifier).minifyPropertyName") {
				if strings.HasSuffix(str(call.Args[0]), ".Name") {
					isFieldName = true
				}
			}
			if !isFieldName {
				continue
			}
			k++
			p := cg.Path(flow.Search{From: []*flow.Node{y}, Goal: func(z *flow.Node) bool { return z.Kind == flow.KExit || z.Kind == flow.KRange }, Avoid: reqSemi})
			c.R.Check(p == nil, rule, "js.jsMinifier.minifyClassDecl/class field terminated by requireSemicolon", c.pos(a), "requireSemicolon on every path to the next element", "a class field can be printed without a terminating `;`: the next element is glued onto it (`a=1` + `b(){}` → `a=1b(){}`): "+pathStr(c, cg, p))
		}
		c.R.Floor(rule, "class field printers", k, 1)
	}
	c.r019(pk, "R09.3")
	c.r094(pk)
	c.r0921(pk)
	c.r0922(pk)
	c.r0923(pk)
	c.r0924(pk)
	c.r0925(pk)
	c.r0148(pk, "R09.26")
	c.r0930(pk)
	// `a||b??c` is a syntax error: the level tests of the conditional rewrites are validity clauses too
	c.alsoUnder(map[string]string{"R01.38": "R09.29"}, nil, func() { c.r0138(pk) })
	// code minified into an attribute value is valid only if the browser decodes the attribute back to it
	c.alsoUnder(map[string]string{"R11.9": "R09.31"}, func(construct string) bool {
		return strings.Contains(construct, "escape") || strings.Contains(construct, "semicolon") || strings.HasPrefix(construct, "floor/")
	}, func() { c.r119() })
}

// R09.4: `1.a` is not a member access — a property written after a number needs the integer test.
func (c *Ctx) r094(pk *packages.Package) {
	const rule = "R09.4"
	c.R.Rule(rule, "in the DotExpr case of jsMinifier.minifyExpr every write of the property name (m.write(expr.Y.Data)), and in the IndexExpr case every write of a string key as an identifier name (the string's contents without its quotes), is reached only through the optional-chaining branch (`?.`) or through the test that inspects the bytes written last (m.prev) for digits — inline, or in a method of the printer whose body does — the test that adds the second dot after an integer (`5..a`). A path that writes a number and the property with its own dot logic bypasses it: `(1.0).toString()` → `1.toString()`, `(1n).a` → `1n..a`, `1[\"toString\"]()` → `1.toString()`, all syntax errors")
	info := pk.TypesInfo
	fd := c.fn(rule, pk, "jsMinifier.minifyExpr")
	if fd == nil {
		return
	}
	g := c.graph(pk, fd)
	prevDigits := func(p *packages.Package, root *ast.BlockStmt) bool {
		s := nospace(c.src(root))
		return (strings.Contains(s, "'0'") || strings.Contains(s, "'9'")) && strings.Contains(s, ".prev")
	}
	digitTest := func(y *flow.Node) bool {
		if y.Kind != flow.KCond {
			return false
		}
		s := str(y.Expr)
		// a method of the printer that looks at m.prev for digits
		viaHelper := false
		ast.Inspect(y.Expr, func(x ast.Node) bool {
			if ce, ok := x.(*ast.CallExpr); ok {
				if p, d := c.calleeDecl(info, ce); d != nil && d.Body != nil && d.Recv != nil && prevDigits(p, d.Body) {
					viaHelper = true
				}
			}
			return true
		})
		if viaHelper {
			return true
		}
		if !strings.Contains(s, "'0'") && !strings.Contains(s, "'9'") {
			return false
		}
		// the compared byte comes from m.prev
		ok := false
		ast.Inspect(y.Expr, func(x ast.Node) bool {
			if id, isId := x.(*ast.Ident); isId {
				if d := c.singleDef(pk, id); d != nil && strings.Contains(str(d), ".prev[") {
					ok = true
				}
			}
			if e, isE := x.(ast.Expr); isE && strings.Contains(str(e), ".prev[") {
				ok = true
			}
			return true
		})
		return ok
	}
	optional := func(y *flow.Node) bool {
		return y.Kind == flow.KTrue && y.Of.Kind == flow.KCond && nospace(str(y.Of.Expr)) == "expr.Optional"
	}
	for _, cs := range []struct{ label, what string }{{"*js.DotExpr", "property write"}, {"*js.IndexExpr", "string key written as a name"}} {
		caseTrue := caseHead(g, cs.label)
		if caseTrue == nil {
			c.R.Unres(rule, "js.jsMinifier.minifyExpr/case "+cs.label, c.pos(fd), "case not found")
			continue
		}
		n := 0
		for _, y := range g.Nodes {
			a := y.Ast()
			if a == nil || y.Kind != flow.KStmt || c.caseLabel(a) != "case "+cs.label {
				continue
			}
			writesProp := false
			for _, call := range findCalls(info, a, false, jsWrite) {
				arg := nospace(str(call.Args[0]))
				if cs.label == "*js.DotExpr" && arg == "expr.Y.Data" {
					writesProp = true
				}
				if cs.label == "*js.IndexExpr" {
					// a slice of the literal's data (the contents of the string)
					if se, ok := ast.Unparen(call.Args[0]).(*ast.SliceExpr); ok && strings.HasSuffix(nospace(str(se.X)), ".Data") {
						writesProp = true
					}
				}
			}
			if !writesProp {
				continue
			}
			n++
			p := g.Path(flow.Search{From: []*flow.Node{caseTrue}, Goal: func(z *flow.Node) bool { return z == y }, Avoid: func(z *flow.Node) bool { return digitTest(z) || optional(z) }})
			c.R.Check(p == nil, rule, fmt.Sprintf("js.jsMinifier.minifyExpr/case %s/%s#%d behind the trailing-digit test", cs.label, cs.what, n), c.pos(a), "only after the m.prev digit test (or `?.`)",
				"the property name can be written without the test that separates it from a preceding integer: a numeric literal followed by `.name` is printed with the wrong number of dots (`1.toString()` / `1n..a`), which is not valid JavaScript: "+pathStr(c, g, p))
		}
		c.R.Floor(rule, "property writes in the "+cs.label+" case", n, 1)
	}
}

// R09.8: the quoting of a url() is decided on the bytes that are written.
func (c *Ctx) r098() {
	const rule = "R09.8"
	c.R.Rule(rule, "in cssMinifier.minifyTokens a url() is written without quotes only if css.IsURLUnquoted holds for the bytes that are written: from every assignment to the uri variable that can follow an evaluation of css.IsURLUnquoted(uri) (the data-URI rewrite) no path reaches the unquoted write without evaluating css.IsURLUnquoted(uri) again. A decision taken before minify.DataURI re-encoded the payload lets `(`, `)` or quotes into an unquoted url(): `url(data:,alert('hi'))` is a bad-url token and the rest of the declaration is scrambled")
	pk := c.pkg(rule, "css")
	if pk == nil {
		return
	}
	info := pk.TypesInfo
	fd := c.fn(rule, pk, "cssMinifier.minifyTokens")
	if fd == nil {
		return
	}
	g := c.graph(pk, fd)
	isURLUnq := load.ParseMod + "/css.IsURLUnquoted"
	var uriName string
	evals := func(y *flow.Node) bool {
		a := y.Ast()
		if a == nil || y.Kind == flow.KRange || y.Kind == flow.KSelect {
			return false
		}
		var root ast.Node = a
		if y.Kind == flow.KCond {
			root = y.Expr
		}
		found := false
		ast.Inspect(root, func(q ast.Node) bool {
			if call := isCall(info, q, isURLUnq); call != nil {
				found = true
				if uriName == "" {
					uriName = str(call.Args[0])
				}
			}
			return true
		})
		return found
	}
	var evalNodes []*flow.Node
	for _, y := range g.Nodes {
		if evals(y) {
			evalNodes = append(evalNodes, y)
		}
	}
	if len(evalNodes) == 0 || uriName == "" {
		c.R.Unres(rule, "css.cssMinifier.minifyTokens/url quoting", c.pos(fd), "no call of css.IsURLUnquoted found")
		return
	}
	// the unquoted write: values[i].Data = append(append(urlBytes, uri...), ')') — an assignment that uses uri and urlBytes but no delimiter variable
	var writes []*flow.Node
	for _, y := range g.Nodes {
		as, ok := y.Stmt.(*ast.AssignStmt)
		if !ok || y.Kind != flow.KStmt || len(as.Rhs) != 1 {
			continue
		}
		sx := nospace(str(as.Rhs[0]))
		if strings.Contains(sx, "urlBytes") && strings.Contains(sx, uriName+"...") && !strings.Contains(sx, "delim") {
			writes = append(writes, y)
		}
	}
	if len(writes) == 0 {
		c.R.Unres(rule, "css.cssMinifier.minifyTokens/url quoting", c.pos(fd), "the unquoted write of the url was not found")
		return
	}
	n := 0
	for _, a := range g.Nodes {
		if _, ok := assignsTo(a, func(l ast.Expr) bool { return str(l) == uriName }); !ok {
			continue
		}
		// only assignments that can follow an evaluation
		after := false
		for _, e := range evalNodes {
			if e != a && g.Path(flow.Search{From: []*flow.Node{e}, Goal: func(q *flow.Node) bool { return q == a }}) != nil {
				after = true
			}
		}
		if !after {
			continue
		}
		for _, w := range writes {
			n++
			p := g.Path(flow.Search{From: []*flow.Node{a}, Goal: func(q *flow.Node) bool { return q == w }, Avoid: func(q *flow.Node) bool { return q != a && evals(q) }})
			c.R.Check(p == nil, rule, fmt.Sprintf("css.cssMinifier.minifyTokens/%s re-examined after %s", uriName, str0(a.Stmt)), c.pos(a.Stmt), "IsURLUnquoted evaluated again before the unquoted write", "the uri is rewritten after the quoting decision and written without quotes on a path that never re-evaluates css.IsURLUnquoted("+uriName+"): "+pathStr(c, g, p))
		}
	}
	c.R.Exists(rule, "css.cssMinifier.minifyTokens/url quoting sites", "-", fmt.Sprintf("%d (rewrite, unquoted write) pairs", n))
	// R09.9: the quoted form
	const r9 = "R09.9"
	c.R.Rule(r9, "when the url is written in quotes (`url(` delim uri delim `)`), uri must not contain the delimiter. The delimiter is taken from the source, where that holds; minify.DataURI then decodes the payload and re-encodes it with a table that leaves `'` alone (`%27` → `'`). So from every assignment of a minify.DataURI result to uri, each path to the quoted write either knows the delimiter not to be the apostrophe (DataURI percent-encodes `\"`) or passes a test that looks for a quote in uri (bytes.IndexByte / bytes.Contains… over uri) — without it `url('data:text/x,it%27s')` becomes `url('data:text/x,it's')`, a bad-url token")
	var qwrites []*flow.Node
	for _, y := range g.Nodes {
		as, ok := y.Stmt.(*ast.AssignStmt)
		if !ok || y.Kind != flow.KStmt || len(as.Rhs) != 1 {
			continue
		}
		sx := nospace(str(as.Rhs[0]))
		if strings.Contains(sx, "urlBytes") && strings.Contains(sx, uriName+"...") && strings.Contains(sx, "delim") {
			qwrites = append(qwrites, y)
		}
	}
	looksForQuote := func(q *flow.Node) bool {
		// the delimiter is known not to be the apostrophe (DataURI percent-encodes the double quote)
		if (q.Kind == flow.KFalse || q.Kind == flow.KTrue) && q.Of != nil && q.Of.Kind == flow.KCond {
			if be, ok := ast.Unparen(q.Of.Expr).(*ast.BinaryExpr); ok && (be.Op == token.EQL || be.Op == token.NEQ) {
				for _, pr := range [][2]ast.Expr{{be.X, be.Y}, {be.Y, be.X}} {
					if strings.Contains(str(pr[0]), "delim") {
						if k, isK := intConst(info, pr[1]); isK {
							notApos := (k == '\'' && ((be.Op == token.EQL) == (q.Kind == flow.KFalse))) || (k == '"' && ((be.Op == token.EQL) == (q.Kind == flow.KTrue)))
							if notApos {
								return true
							}
						}
					}
				}
			}
		}
		if q.Kind != flow.KCond {
			return false
		}
		hit := false
		ast.Inspect(q.Expr, func(x ast.Node) bool {
			if call, ok := x.(*ast.CallExpr); ok && len(call.Args) >= 1 && str(call.Args[0]) == uriName {
				if nm := calleeName(info, call); strings.HasPrefix(nm, "bytes.Index") || strings.HasPrefix(nm, "bytes.Contains") {
					hit = true
				}
			}
			return true
		})
		return hit
	}
	n9 := 0
	for _, a := range g.Nodes {
		rhs, ok := assignsTo(a, func(l ast.Expr) bool { return str(l) == uriName })
		if !ok || isCall(info, ast.Unparen(rhs), load.Mod+".DataURI") == nil {
			continue
		}
		for _, w := range qwrites {
			n9++
			p := g.Path(flow.Search{From: []*flow.Node{a}, Goal: func(q *flow.Node) bool { return q == w }, Avoid: looksForQuote})
			c.R.Check(p == nil, r9, fmt.Sprintf("css.cssMinifier.minifyTokens/quoted write#%d after %s", n9, str0(a.Stmt)), c.pos(w.Stmt), "a test for a quote in the decoded uri lies on every path", "the data URI is decoded and re-encoded (an apostrophe stays literal) and then written between the source's quotes without looking for that quote in it: "+pathStr(c, g, p))
		}
	}
	c.R.Floor(r9, "(DataURI result, quoted write) pairs", n9, 1)
}

// R04.9: two components are the same only when they are the same bytes.
func (c *Ctx) r049(pk *packages.Package) {
	const rule = "R04.9"
	c.R.Rule(rule, "css.Token.Equal is the licence to drop a repeated component of a box shorthand (`margin:1px 1px` → `margin:1px`). It may call two tokens equal only when their bytes are equal: every path to `return true` passes the true outcome of bytes.Equal over the two Data fields — custom property names, strings and identifiers in functions are case-sensitive (`margin:var(--gap) var(--Gap)` must keep both)")
	fd := c.fn(rule, pk, "Token.Equal")
	if fd == nil {
		return
	}
	info := pk.TypesInfo
	g := c.graph(pk, fd)
	exact := func(y *flow.Node) bool {
		if y.Kind != flow.KTrue || y.Of == nil || y.Of.Kind != flow.KCond {
			return false
		}
		call, ok := ast.Unparen(y.Of.Expr).(*ast.CallExpr)
		if !ok || calleeName(info, call) != "bytes.Equal" || len(call.Args) != 2 {
			return false
		}
		return strings.HasSuffix(str(call.Args[0]), ".Data") && strings.HasSuffix(str(call.Args[1]), ".Data") && str(call.Args[0]) != str(call.Args[1])
	}
	n := 0
	for _, y := range g.Nodes {
		rs := retStmt(y)
		if rs == nil || len(rs.Results) != 1 {
			continue
		}
		if tv, ok := info.Types[rs.Results[0]]; !ok || tv.Value == nil || tv.Value.String() != "true" {
			// a computed result: must itself be the exact comparison
			if call, ok := ast.Unparen(rs.Results[0]).(*ast.CallExpr); ok && calleeName(info, call) == "bytes.Equal" {
				continue
			}
			if tv.Value != nil && tv.Value.String() == "false" {
				continue
			}
		}
		n++
		y := y
		p := g.Path(flow.Search{From: []*flow.Node{g.Entry}, Goal: func(q *flow.Node) bool { return q == y }, Avoid: exact})
		c.R.Check(p == nil, rule, fmt.Sprintf("css.Token.Equal/return %s#%d behind bytes.Equal", str(rs.Results[0]), n), c.pos(rs), "only after bytes.Equal(t.Data, t2.Data) held", "two tokens are called equal on a path that never compares their bytes exactly: "+pathStr(c, g, p))
	}
	c.R.Floor(rule, "positive returns of Token.Equal", n, 1)
}

// R04.10: the separator before an attribute selector flag.
func (c *Ctx) r0410(pk *packages.Package) {
	const rule = "R04.10"
	c.R.Rule(rule, "inside an attribute selector the parser drops white space, so `[type=radio i]` arrives as `radio`,`i`: cssMinifier.minifySelectors must put a space back before a flag or the flag becomes part of the value. (a) The write of the separator is decided by the current token alone — the dominating conditions mention only the range variable, the in-attribute state and constants; whether the value was quoted in the source is irrelevant (`[type=radio i]` has no quotes to begin with). (b) The byte test on the flag holds for i, I, s and S (Selectors Level 4 §6.3: attribute modifiers `i` and `s`, ASCII case-insensitive) and for nothing else")
	fd := c.fn(rule, pk, "cssMinifier.minifySelectors")
	if fd == nil {
		return
	}
	info := pk.TypesInfo
	g := c.graph(pk, fd)
	// the range variable and the in-attribute flag (the bool assigned true under a LeftBracketToken test)
	allowed := map[types.Object]bool{}
	for _, y := range g.Nodes {
		if y.Kind == flow.KRange {
			if rs, ok := y.Stmt.(*ast.RangeStmt); ok && rs.Value != nil {
				if id, ok := rs.Value.(*ast.Ident); ok {
					allowed[info.ObjectOf(id)] = true
				}
			}
		}
		if as, ok := y.Stmt.(*ast.AssignStmt); ok && y.Kind == flow.KStmt && len(as.Lhs) == 1 && len(as.Rhs) == 1 {
			if tv, ok := info.Types[as.Rhs[0]]; ok && tv.Value != nil && tv.Value.String() == "true" {
				for _, f := range g.DomFacts(y) {
					if f.Value && f.Test.Kind == flow.KCond && strings.Contains(str(f.Test.Expr), "LeftBracketToken") {
						if id, ok := as.Lhs[0].(*ast.Ident); ok {
							allowed[info.ObjectOf(id)] = true
						}
					}
				}
			}
		}
	}
	n := 0
	for _, y := range g.Nodes {
		a := y.Ast()
		if a == nil || y.Kind != flow.KStmt || !strings.Contains(str0(a), "Write(spaceBytes)") {
			continue
		}
		n++
		var foreign []string
		var pred []ast.Expr
		v := ""
		for _, f := range g.DomFacts(y) {
			if f.Test.Kind != flow.KCond {
				continue
			}
			ast.Inspect(f.Test.Expr, func(q ast.Node) bool {
				if id, ok := q.(*ast.Ident); ok {
					if o, isVar := info.Uses[id].(*types.Var); isVar && !o.IsField() && o.Parent() != o.Pkg().Scope() && !allowed[o] {
						foreign = append(foreign, id.Name)
					}
				}
				if ix, ok := q.(*ast.IndexExpr); ok && strings.HasSuffix(str(ix.X), ".Data") && str(ix.Index) == "0" {
					v = str(ix)
				}
				return true
			})
			if f.Value && strings.Contains(str(f.Test.Expr), ".Data[0]") {
				pred = append(pred, f.Test.Expr)
			}
		}
		c.R.Check(len(foreign) == 0, rule, fmt.Sprintf("css.cssMinifier.minifySelectors/separator#%d decided by the current token", n), c.pos(a), "conditions over the token and the in-attribute state only", "the space before an attribute selector flag also depends on "+strings.Join(foreign, ", ")+": a flag after a value that needs no rewriting (`[type=radio i]`) is glued to the value (`[type=radioi]`)")
		// the flag letters: the dominating true outcomes over Data[0] are alternatives of one `||` chain split into leaves,
		// so evaluate the enclosing if condition instead
		var cond ast.Expr
		for x := c.P.Parent(a); x != nil; x = c.P.Parent(x) {
			if ifs, ok := x.(*ast.IfStmt); ok && strings.Contains(str(ifs.Cond), ".Data[0]") {
				cond = ifs.Cond
				break
			}
		}
		_ = pred
		if cond != nil {
			ast.Inspect(cond, func(q ast.Node) bool {
				if ix, ok := q.(*ast.IndexExpr); ok && strings.HasSuffix(str(ix.X), ".Data") && str(ix.Index) == "0" {
					v = str(ix)
				}
				return true
			})
		}
		if cond == nil || v == "" {
			c.R.Unres(rule, fmt.Sprintf("css.cssMinifier.minifySelectors/separator#%d flag letters", n), c.pos(a), "no byte test over the token's first byte encloses the separator write")
			continue
		}
		var conj []ast.Expr
		var flat func(e ast.Expr)
		flat = func(e ast.Expr) {
			e = ast.Unparen(e)
			if b, ok := e.(*ast.BinaryExpr); ok && b.Op == token.LAND {
				flat(b.X)
				flat(b.Y)
				return
			}
			conj = append(conj, e)
		}
		flat(cond)
		var got []string
		undecided := false
		for b := int64(0); b < 256; b++ {
			res := true
			used := false
			for _, e := range conj {
				if !strings.Contains(str(e), v) {
					continue
				}
				used = true
				r, ok := evalBytePred(info, e, v, b)
				if !ok {
					undecided = true
				}
				res = res && r
			}
			if used && res {
				got = append(got, string(rune(b)))
			}
		}
		sort.Strings(got)
		want := "I,S,i,s"
		if undecided {
			c.R.Unres(rule, fmt.Sprintf("css.cssMinifier.minifySelectors/separator#%d flag letters", n), c.pos(cond), "the flag test is not a pure byte predicate")
			continue
		}
		c.R.Check(strings.Join(got, ",") == want, rule, fmt.Sprintf("css.cssMinifier.minifySelectors/separator#%d flag letters", n), c.pos(cond), "i I s S", "the separator is written before the one-letter identifiers {"+strings.Join(got, ",")+"}, the attribute modifiers are {"+want+"}: a missing one is glued to the value (`[b=\"c\" s]` → `[b=cs]`)")
	}
	c.R.Floor(rule, "separator writes in minifySelectors", n, 1)
}

// R09.11: braces are dropped only around a Statement.
func (c *Ctx) r0911(pk *packages.Package) {
	const rule = "R09.11"
	c.R.Rule(rule, "the body of for / while / do / if / with / a label is a Statement; let, const, class and function declarations are not statements. jsMinifier.minifyBlockAsStmt prints the single item of a block without braces (m.minifyStmt(….List[0])) only on the false outcome of a flag that is set (a) in a range over the block scope's Declared list whenever an entry is a js.LexicalDecl — which covers let, const and class — and (b) when the item is a *js.FuncDecl (function declarations live in the function scope and are invisible to (a)). `for(;;){class A{}}` → `for(;;)class A{}` and `while(a){function f(){}}` → `for(;a;)function f(){}` are SyntaxErrors")
	fd := c.fn(rule, pk, "jsMinifier.minifyBlockAsStmt")
	if fd == nil {
		return
	}
	info := pk.TypesInfo
	g := c.graph(pk, fd)
	var bare *flow.Node
	for _, y := range g.Nodes {
		a := y.Ast()
		if a == nil || y.Kind != flow.KStmt {
			continue
		}
		for _, call := range findCalls(info, a, false, load.Mod+"/js.(jsMinifier).minifyStmt") {
			if strings.HasSuffix(nospace(str(call.Args[0])), ".List[0]") {
				bare = y
			}
		}
	}
	if bare == nil {
		c.R.Unres(rule, "js.jsMinifier.minifyBlockAsStmt/bare statement", c.pos(fd), "the call m.minifyStmt(….List[0]) was not found")
		return
	}
	// flags whose false outcome dominates the bare print
	flags := map[types.Object]bool{}
	for _, f := range g.DomFacts(bare) {
		if f.Value || f.Test.Kind != flow.KCond {
			continue
		}
		if id, ok := ast.Unparen(f.Test.Expr).(*ast.Ident); ok {
			if o := info.Uses[id]; o != nil {
				flags[o] = true
			}
		}
	}
	lexical, funcDecl := false, false
	for _, y := range g.Nodes {
		as, ok := y.Stmt.(*ast.AssignStmt)
		if !ok || y.Kind != flow.KStmt || len(as.Lhs) != 1 || len(as.Rhs) != 1 {
			continue
		}
		id, ok := as.Lhs[0].(*ast.Ident)
		if !ok || !flags[info.ObjectOf(id)] {
			continue
		}
		if tv, ok := info.Types[as.Rhs[0]]; !ok || tv.Value == nil || tv.Value.String() != "true" {
			continue
		}
		inDeclaredRange := false
		for _, f := range g.DomFacts(y) {
			if f.Test.Kind == flow.KRange && f.Value {
				if rs, ok := f.Test.Stmt.(*ast.RangeStmt); ok && strings.Contains(nospace(str(rs.X)), ".Scope.Declared") {
					inDeclaredRange = true
				}
			}
		}
		for _, f := range g.DomFacts(y) {
			if !f.Value || f.Test.Kind != flow.KCond {
				continue
			}
			s := nospace(str(f.Test.Expr))
			if inDeclaredRange && strings.HasSuffix(s, ".Decl==js.LexicalDecl") {
				lexical = true
			}
			// ok of `_, ok := X.List[0].(*js.FuncDecl)`
			if okid, isId := ast.Unparen(f.Test.Expr).(*ast.Ident); isId {
				if def, isTA := c.singleDef(pk, okid).(*ast.TypeAssertExpr); isTA && def.Type != nil && namedTypeName(info.TypeOf(def.Type)) == pjs+".FuncDecl" && strings.HasSuffix(nospace(str(def.X)), ".List[0]") {
					funcDecl = true
				}
			}
		}
	}
	c.R.Check(len(flags) > 0 && lexical, rule, "js.jsMinifier.minifyBlockAsStmt/braces kept for let, const and class", c.pos(bare.Ast()), "flag set for every LexicalDecl of the block scope", "the single item of a block is printed without braces although the block scope was not searched for lexical declarations: a class (or let/const) declaration becomes the body of a loop or if — a SyntaxError")
	c.R.Check(len(flags) > 0 && funcDecl, rule, "js.jsMinifier.minifyBlockAsStmt/braces kept for a function declaration", c.pos(bare.Ast()), "flag set when the item is a *js.FuncDecl", "the single item of a block is printed without braces even when it is a function declaration: `while(a){function f(){}}` becomes `for(;a;)function f(){}`, a SyntaxError")
}

// R09.12: no optional chain through a tagged template.
func (c *Ctx) r0912(pk *packages.Package) {
	const rule = "R09.12"
	c.R.Rule(rule, "ECMAScript forbids a template literal in an optional chain (`a?.`t``, `a?.b`t`` are early errors). js.toNullishExpr turns `a==null?undefined:a.b` into `a?.b` by walking from the guarded expression down to the variable and marking the link next to it optional: the walk descends only through *js.CallExpr, *js.DotExpr and *js.IndexExpr (set read off its type assertions), and no statement of package js sets the Optional field of a *js.TemplateExpr")
	info := pk.TypesInfo
	fd := c.fn(rule, pk, "toNullishExpr")
	if fd != nil {
		allowed := map[string]bool{"CallExpr": true, "DotExpr": true, "IndexExpr": true}
		got := map[string]bool{}
		ast.Inspect(fd.Body, func(x ast.Node) bool {
			if ta, ok := x.(*ast.TypeAssertExpr); ok && ta.Type != nil {
				if n := namedTypeName(deref(info.TypeOf(ta.Type))); strings.HasPrefix(n, pjs+".") {
					got[n[len(pjs)+1:]] = true
				}
			}
			return true
		})
		var extra []string
		for t := range got {
			if !allowed[t] {
				extra = append(extra, "*js."+t)
			}
		}
		sort.Strings(extra)
		c.R.Check(len(extra) == 0 && len(got) >= 3, rule, "js.toNullishExpr/links an optional chain may run through", c.pos(fd), "call, member and index links only", "the walk also descends through "+strings.Join(extra, ", ")+": ``a==null?undefined:a.b`t` `` becomes ``a?.b`t` ``, which no parser accepts")
	}
	n := 0
	for _, f := range load.FuncDecls(pk) {
		if f.Body == nil {
			continue
		}
		ast.Inspect(f.Body, func(x ast.Node) bool {
			as, ok := x.(*ast.AssignStmt)
			if !ok {
				return true
			}
			for i, l := range as.Lhs {
				sel, ok := l.(*ast.SelectorExpr)
				if !ok || sel.Sel.Name != "Optional" || i >= len(as.Rhs) {
					continue
				}
				n++
				if namedTypeName(deref(info.TypeOf(sel.X))) == pjs+".TemplateExpr" {
					c.R.Bad(rule, fmt.Sprintf("js.%s/%s", load.FuncName(f), nospace(str(l))), c.pos(as), "a tagged template is made the optional link of a chain: the output (``a?.`t` ``) is a SyntaxError")
				}
			}
			return true
		})
	}
	c.R.Floor(rule, "assignments to an Optional field", n, 3)
}

// R04.11: the quotes of an attribute selector value go only when the value is an identifier.
func (c *Ctx) r0411(pk *packages.Package) {
	const rule = "R04.11"
	c.R.Rule(rule, "`[data-n=\"-1\"]` may lose its quotes only if the value is a CSS identifier — otherwise the selector is invalid and the whole rule is dropped by the browser (`[data-n=-1]`). What an identifier is, the tokenizer of the parse library defines (css.IsIdent: a leading `-` must be followed by a name-start character, escapes, non-ASCII). In cssMinifier.minifySelectors the write of the unquoted bytes is dominated by the true outcome of css.IsIdent over those bytes, or of a one-parameter helper in which every way of answering true goes through css.IsIdent of its parameter")
	info := pk.TypesInfo
	fd := c.fn(rule, pk, "cssMinifier.minifySelectors")
	if fd == nil {
		return
	}
	g := c.graph(pk, fd)
	isIdentFn := load.ParseMod + "/css.IsIdent"
	// helperOK: fn(p) returns true only via css.IsIdent(p)
	helperOK := func(call *ast.CallExpr) bool {
		fo, _ := callee(info, call).(*types.Func)
		if fo == nil || fo.Pkg() != pk.Types || len(call.Args) != 1 {
			return false
		}
		hd := load.Func(pk, fo.Name())
		if hd == nil || hd.Body == nil || len(hd.Type.Params.List) != 1 || len(hd.Type.Params.List[0].Names) != 1 {
			return false
		}
		pn := hd.Type.Params.List[0].Names[0].Name
		hg := c.graph(pk, hd)
		ok := true
		viaIdent := func(q *flow.Node) bool {
			if q.Kind != flow.KTrue || q.Of == nil || q.Of.Kind != flow.KCond {
				return false
			}
			cl := isCall(info, ast.Unparen(q.Of.Expr), isIdentFn)
			return cl != nil && nospace(str(cl.Args[0])) == pn
		}
		for _, y := range hg.Nodes {
			rs := retStmt(y)
			if rs == nil || len(rs.Results) != 1 {
				continue
			}
			r := ast.Unparen(rs.Results[0])
			if tv, isK := info.Types[r]; isK && tv.Value != nil {
				if tv.Value.String() == "false" {
					continue
				}
				// return true: every path to it passes IsIdent(p) == true
				y := y
				if hg.Path(flow.Search{From: []*flow.Node{hg.Entry}, Goal: func(q *flow.Node) bool { return q == y }, Avoid: viaIdent}) != nil {
					ok = false
				}
				continue
			}
			// return <expr>: a conjunction one of whose conjuncts is css.IsIdent(p)
			has := false
			var flat func(e ast.Expr)
			flat = func(e ast.Expr) {
				e = ast.Unparen(e)
				if b, isB := e.(*ast.BinaryExpr); isB && b.Op == token.LAND {
					flat(b.X)
					flat(b.Y)
					return
				}
				if cl := isCall(info, e, isIdentFn); cl != nil && nospace(str(cl.Args[0])) == pn {
					has = true
				}
			}
			flat(r)
			if !has {
				ok = false
			}
		}
		return ok
	}
	n := 0
	for _, y := range g.Nodes {
		a := y.Ast()
		if a == nil || y.Kind != flow.KStmt {
			continue
		}
		var written string
		flowInspectCalls(a, func(call *ast.CallExpr) {
			if sel, ok := call.Fun.(*ast.SelectorExpr); ok && sel.Sel.Name == "Write" && len(call.Args) == 1 {
				if id, ok := ast.Unparen(call.Args[0]).(*ast.Ident); ok {
					written = id.Name
				}
			}
		})
		if written == "" {
			continue
		}
		// only the write of the stripped string: the variable is defined as X.Data[1:len(X.Data)-1]
		isStripped := false
		for _, q := range g.Nodes {
			if as, ok := q.Stmt.(*ast.AssignStmt); ok && q.Kind == flow.KStmt && len(as.Lhs) == 1 && len(as.Rhs) == 1 && nospace(str(as.Lhs[0])) == written {
				if se, ok := ast.Unparen(as.Rhs[0]).(*ast.SliceExpr); ok && strings.HasSuffix(nospace(str(se.X)), ".Data") && se.Low != nil && se.High != nil && g.Dominates(q, y) {
					isStripped = true
				}
			}
		}
		if !isStripped {
			continue
		}
		n++
		good := false
		via := ""
		for _, f := range g.DomFacts(y) {
			if !f.Value || f.Test.Kind != flow.KCond {
				continue
			}
			call, ok := ast.Unparen(f.Test.Expr).(*ast.CallExpr)
			if !ok || len(call.Args) != 1 || nospace(str(call.Args[0])) != written {
				continue
			}
			if calleeName(info, call) == isIdentFn {
				good = true
			} else if helperOK(call) {
				good = true
			} else {
				via = calleeName(info, call)
			}
		}
		c.R.Check(good, rule, fmt.Sprintf("css.cssMinifier.minifySelectors/attribute value unquoted#%d only when it is an identifier", n), c.pos(a), "behind css.IsIdent("+written+")", "the value is written without its quotes on the verdict of "+via+", which can say yes where the tokenizer's css.IsIdent says no (`-1`, a lone `-`): the selector becomes invalid and the rule is dropped")
	}
	c.R.Floor(rule, "unquoted attribute values", n, 1)
}

// R04.15: hsl() is converted to a hex colour only when saturation and lightness are percentages.
func (c *Ctx) r0415(pk *packages.Package) {
	const rule = "R04.15"
	c.R.Rule(rule, "css.HSL2RGB takes saturation and lightness as fractions of one; the minifier divides percentages by 100 and leaves plain numbers as they are. `hsl(0 50 50)` (numbers: CSS Color 4 reads them as 50%) therefore reaches the conversion with s = l = 50 and comes out as #613c3c instead of #bf4040, and the legacy `hsl(0,50,50)`, which a browser rejects, becomes a valid colour. Every call of css.HSL2RGB in cssMinifier.minifyTokens is dominated by the true outcomes of `args[2].TokenType == css.PercentageToken` and `args[4].TokenType == css.PercentageToken` — for hsl as well as hsla: a condition `fun == Hsl || fun == Hsla && …` applies the type tests to hsla only")
	info := pk.TypesInfo
	fd := c.fn(rule, pk, "cssMinifier.minifyTokens")
	if fd == nil {
		return
	}
	g := c.graph(pk, fd)
	n := 0
	for _, y := range g.Nodes {
		a := y.Ast()
		if a == nil || y.Kind != flow.KStmt || len(findCalls(info, a, false, load.ParseMod+"/css.HSL2RGB")) == 0 {
			continue
		}
		n++
		have := map[string]bool{}
		for _, f := range g.DomFacts(y) {
			if !f.Value || f.Test.Kind != flow.KCond {
				continue
			}
			be, ok := ast.Unparen(f.Test.Expr).(*ast.BinaryExpr)
			if !ok || be.Op != token.EQL {
				continue
			}
			l, r := nospace(str(be.X)), nospace(str(be.Y))
			if l == "css.PercentageToken" {
				l, r = r, l
			}
			if r == "css.PercentageToken" {
				have[l] = true
			}
		}
		var missing []string
		for _, w := range []string{"args[2].TokenType", "args[4].TokenType"} {
			if !have[w] {
				missing = append(missing, w)
			}
		}
		c.R.Check(len(missing) == 0, rule, fmt.Sprintf("css.cssMinifier.minifyTokens/HSL2RGB#%d only for percentages", n), c.pos(a), "behind the percentage tests of saturation and lightness", "the conversion is reached without "+strings.Join(missing, " and ")+" being a percentage: numbers are handed to HSL2RGB unscaled (`hsl(0 50 50)` → #613c3c, the colour is #bf4040)")
	}
	c.R.Floor(rule, "HSL2RGB calls", n, 1)
}

// R04.16: the URL of an @import is taken over whole.
func (c *Ctx) r0416(pk *packages.Package) {
	const rule = "R04.16"
	c.R.Rule(rule, "`@import url( \"x.css\" )` → `@import \"x.css\"`: the minifier takes the content out of the url( ) token of an @import rule, stripping blanks, and quotes it if it is not quoted yet. In cssMinifier.minifyGrammar, on the alias of values[1].Data in the Import branch: (a) a byte of the token is compared with a quote character only at an index that is a variable (the cursor that was moved over the blanks) — a constant index looks at the blank in `url( \"x\")` and wraps the quoted string in another pair of quotes (`\"\"x.css\"\"`); (b) the token is never resliced with a constant upper bound (`url[:2]` replaces the content by the empty string, which the old code did for every one-byte URL: `@import url(x)` → `@import \"\"`)")
	info := pk.TypesInfo
	fd := c.fn(rule, pk, "cssMinifier.minifyGrammar")
	if fd == nil {
		return
	}
	// the Import branch: the if whose condition mentions Import and values[1]
	var branch *ast.IfStmt
	ast.Inspect(fd.Body, func(x ast.Node) bool {
		if ifs, ok := x.(*ast.IfStmt); ok && branch == nil {
			cs := nospace(str(ifs.Cond))
			if strings.Contains(cs, "==Import") && strings.Contains(cs, "values[1]") {
				branch = ifs
			}
		}
		return true
	})
	if branch == nil {
		c.R.Unres(rule, "css.cssMinifier.minifyGrammar/@import branch", c.pos(fd), "no test of the at-rule against Import with values[1] found")
		return
	}
	// alias of values[1].Data
	var alias types.Object
	ast.Inspect(branch.Body, func(x ast.Node) bool {
		if as, ok := x.(*ast.AssignStmt); ok && as.Tok == token.DEFINE && len(as.Lhs) == 1 && len(as.Rhs) == 1 && nospace(str(as.Rhs[0])) == "values[1].Data" {
			if id, ok := as.Lhs[0].(*ast.Ident); ok && alias == nil {
				alias = info.Defs[id]
			}
		}
		return true
	})
	if alias == nil {
		c.R.Unres(rule, "css.cssMinifier.minifyGrammar/@import branch/alias of the URL token", c.pos(branch), "values[1].Data is not bound to a local")
		return
	}
	isAlias := func(e ast.Expr) bool {
		id, ok := ast.Unparen(e).(*ast.Ident)
		return ok && info.Uses[id] == alias
	}
	nq, ns := 0, 0
	ast.Inspect(branch.Body, func(x ast.Node) bool {
		switch e := x.(type) {
		case *ast.BinaryExpr:
			if e.Op != token.EQL && e.Op != token.NEQ {
				return true
			}
			for _, pr := range [][2]ast.Expr{{e.X, e.Y}, {e.Y, e.X}} {
				ie, ok := ast.Unparen(pr[0]).(*ast.IndexExpr)
				if !ok || !isAlias(ie.X) {
					continue
				}
				tv, ok := info.Types[pr[1]]
				if !ok || tv.Value == nil {
					continue
				}
				if v := tv.Value.ExactString(); v != "34" && v != "39" {
					continue
				}
				nq++
				_, isConst := intConst(info, ie.Index)
				c.R.Check(!isConst, rule, fmt.Sprintf("css.cssMinifier.minifyGrammar/@import: quote test#%d at the start of the content", nq), c.pos(e), "indexed by the cursor", "the test for a quoted URL looks at the fixed position "+str(ie.Index)+": with a blank after `url(` it sees the blank, takes the quoted string for an unquoted URL and adds quotes around the quotes (`@import url( \"x.css\")` → `@import \"\"x.css\"\"`)")
			}
		case *ast.SliceExpr:
			if !isAlias(e.X) || e.High == nil {
				return true
			}
			if _, isConst := intConst(info, e.High); isConst {
				ns++
				c.R.Bad(rule, fmt.Sprintf("css.cssMinifier.minifyGrammar/@import: URL token cut at a constant#%d", ns), c.pos(e), "the token is resliced to "+str(e)+": whatever the URL was, a fixed prefix is kept — the old code did that for a content of one byte (`@import url(x)` → `@import \"\"`)")
			}
		}
		return true
	})
	c.R.Floor(rule, "quote tests on the URL token of @import", nq, 1)
}

// R04.17: a quoted font family that spells a keyword keeps its quotes.
func (c *Ctx) r0417(pk *packages.Package) {
	const rule = "R04.17"
	c.R.Rule(rule, "CSS Fonts §3.1: `font-family: \"serif\"` names a font called serif, `font-family: serif` the generic family; likewise `\"inherit\"`, `\"initial\"`, `\"unset\"`, `\"default\"` — family names that equal a keyword must stay quoted. In cssMinifier.minifyProperty, case Font_Family, the assignment that replaces a string token's data by its unquoted content is dominated by the outcome of a test that can tell a keyword: a look-up in a package-level set that contains at least serif, sans-serif, monospace, cursive, fantasy, inherit and initial, or comparisons of a hash of the content with those names")
	info := pk.TypesInfo
	fd := c.fn(rule, pk, "cssMinifier.minifyProperty")
	if fd == nil {
		return
	}
	g := c.graph(pk, fd)
	need := []string{"serif", "sans-serif", "monospace", "cursive", "fantasy", "inherit", "initial"}
	n := 0
	for _, y := range g.Nodes {
		as, ok := y.Stmt.(*ast.AssignStmt)
		if !ok || y.Kind != flow.KStmt || len(as.Lhs) != 1 || len(as.Rhs) != 1 {
			continue
		}
		if !strings.HasSuffix(nospace(str(as.Lhs[0])), "].Data") {
			continue
		}
		inFamily, unquoteFlag := false, false
		keyword := false
		for _, f := range g.DomFacts(y) {
			switch f.Test.Kind {
			case flow.KCase:
				if f.Value && nospace(str(f.Test.Expr)) == "Font_Family" {
					inFamily = true
				}
			case flow.KCond:
				cs := nospace(str(f.Test.Expr))
				if strings.Contains(cs, "css.StringToken") && f.Value {
					unquoteFlag = true
				}
				// a test against a keyword set: an index into a package-level map whose keys cover the keywords
				ast.Inspect(f.Test.Expr, func(z ast.Node) bool {
					ie, ok := z.(*ast.IndexExpr)
					if !ok {
						return true
					}
					id, ok := ast.Unparen(ie.X).(*ast.Ident)
					if !ok {
						return true
					}
					if v, ok := info.Uses[id].(*types.Var); ok && v.Parent() == v.Pkg().Scope() {
						val, _, err := c.Ev.PackageVar(pk, v.Name())
						if m, ok := val.(*eval.Map); ok && err == nil {
							have := map[string]bool{}
							for _, e := range m.Entries {
								if k, ok := e.Key.(string); ok {
									have[strings.ToLower(k)] = true
								}
							}
							all := true
							for _, k := range need {
								if !have[k] {
									all = false
								}
							}
							if all {
								keyword = true
							}
						}
					}
					return true
				})
			}
		}
		if !inFamily || !unquoteFlag {
			continue
		}
		n++
		c.R.Check(keyword, rule, fmt.Sprintf("css.cssMinifier.minifyProperty/case Font_Family/quotes removed#%d not from a keyword", n), c.pos(as), "behind a look-up in a keyword set", "the quotes of a family name are removed whenever its words are identifiers: `font-family:\"serif\"` → `font-family:serif` selects the generic family instead of the font called serif, `\"inherit\"` becomes the CSS-wide keyword (the suite pins `\"Sans-Serif\"` → `sans-serif`)")
	}
	c.R.Floor(rule, "unquoting assignments in case Font_Family", n, 1)
}

// R04.18: the position of a background layer is minified, its size is not mistaken for one.
func (c *Ctx) r0418(pk *packages.Package) {
	const rule = "R04.18"
	c.R.Rule(rule, "`background: <position> / <size>`: what follows the slash is the size. The loop of cssMinifier.minifyProperty, case Background, that rewrites a run of numbers and side keywords as a background-position (minifyProperty(Background_Position, values[i:j]), default `0 0` removed) walks over the whole layer; it must step over the size when it meets the slash — a branch on `values[i]` being the `/` delimiter that advances i and continues — or `0 0 / 0 0` has its size removed as if it were a default position and the declaration ends in a dangling `/`")
	info := pk.TypesInfo
	fd := c.fn(rule, pk, "cssMinifier.minifyProperty")
	if fd == nil {
		return
	}
	n := 0
	ast.Inspect(fd.Body, func(x ast.Node) bool {
		fs, ok := x.(*ast.ForStmt)
		if !ok {
			return true
		}
		// the innermost for statement whose body holds the Background_Position rewrite
		holds := false
		ast.Inspect(fs.Body, func(z ast.Node) bool {
			if inner, ok := z.(*ast.ForStmt); ok && inner != fs {
				// a nested loop holding the call makes the nested one the candidate
				nested := false
				ast.Inspect(inner.Body, func(w ast.Node) bool {
					if ce, ok := w.(*ast.CallExpr); ok && strings.HasSuffix(calleeName(info, ce), ".(cssMinifier).minifyProperty") && len(ce.Args) == 2 && nospace(str(ce.Args[0])) == "Background_Position" {
						nested = true
					}
					return true
				})
				if nested {
					return false
				}
			}
			if ce, ok := z.(*ast.CallExpr); ok && strings.HasSuffix(calleeName(info, ce), ".(cssMinifier).minifyProperty") && len(ce.Args) == 2 && nospace(str(ce.Args[0])) == "Background_Position" {
				holds = true
			}
			return true
		})
		if !holds {
			return true
		}
		// loop variable
		loopVar := ""
		if as, ok := fs.Init.(*ast.AssignStmt); ok && len(as.Lhs) == 1 {
			loopVar = nospace(str(as.Lhs[0]))
		}
		if loopVar == "" {
			return true
		}
		n++
		skips := false
		for _, st := range fs.Body.List {
			ifs, ok := st.(*ast.IfStmt)
			if !ok {
				continue
			}
			cs := nospace(str(ifs.Cond))
			if !strings.Contains(cs, "["+loopVar+"].TokenType==css.DelimToken") || !strings.Contains(cs, "'/'") {
				continue
			}
			advances, continues := false, false
			ast.Inspect(ifs.Body, func(z ast.Node) bool {
				if inc, ok := z.(*ast.IncDecStmt); ok && inc.Tok == token.INC && nospace(str(inc.X)) == loopVar {
					advances = true
				}
				if bs, ok := z.(*ast.BranchStmt); ok && bs.Tok == token.CONTINUE {
					continues = true
				}
				return true
			})
			if advances && continues {
				skips = true
			}
		}
		c.R.Check(skips, rule, fmt.Sprintf("css.cssMinifier.minifyProperty/case Background/position rewrite#%d steps over the size", n), c.pos(fs), "a branch on the `/` delimiter advances past the size and continues", "the loop that rewrites background positions has no branch that steps over what follows the `/`: the size is rewritten as a position, and a size of `0 0` is removed as the default position — `background:url(a.png) 0 0 / 0 0` → `background:url(a.png)0 0/`, which is invalid")
		return false
	})
	c.R.Floor(rule, "loops holding the background-position rewrite", n, 1)
}

// R04.19: the value of a custom property is written as it is, trimmed at most.
func (c *Ctx) r0419(pk *packages.Package) {
	const rule = "R04.19"
	c.R.Rule(rule, "CSS Variables §2: the value of a custom property is a token sequence that scripts read back (`getPropertyValue`) and that is substituted anywhere — no rewriting is meaning-preserving in general, and white space inside its strings and url()s is data. In cssMinifier.minifyGrammar, case css.CustomPropertyGrammar, every assignment to the value that is written derives from the token's Data through parse.TrimWhitespace alone (or is the constant single space for an empty value); any other function applied to it — a white space collapser that tracks quotes but not escapes — cannot be judged here and is reported as undecided")
	info := pk.TypesInfo
	fd := c.fn(rule, pk, "cssMinifier.minifyGrammar")
	if fd == nil {
		return
	}
	var clause *ast.CaseClause
	ast.Inspect(fd.Body, func(x ast.Node) bool {
		if cc, ok := x.(*ast.CaseClause); ok && len(cc.List) == 1 && nospace(str(cc.List[0])) == "css.CustomPropertyGrammar" {
			clause = cc
		}
		return true
	})
	if clause == nil {
		c.R.Unres(rule, "css.cssMinifier.minifyGrammar/case css.CustomPropertyGrammar", c.pos(fd), "case not found")
		return
	}
	n := 0
	ast.Inspect(clause, func(x ast.Node) bool {
		as, ok := x.(*ast.AssignStmt)
		if !ok {
			return true
		}
		for i, l := range as.Lhs {
			if _, isId := l.(*ast.Ident); !isId || i >= len(as.Rhs) {
				continue
			}
			rhs := as.Rhs[i]
			if !isByteSlice(info.TypeOf(rhs)) {
				continue
			}
			n++
			var foreign []string
			ast.Inspect(rhs, func(z ast.Node) bool {
				ce, ok := z.(*ast.CallExpr)
				if !ok {
					return true
				}
				cn := calleeName(info, ce)
				switch {
				case cn == load.ParseMod+".TrimWhitespace", cn == "len", cn == "":
				case strings.HasSuffix(cn, ".Values"), strings.HasSuffix(cn, ".(Parser).Values"):
				default:
					foreign = append(foreign, cn[strings.LastIndex(cn, ".")+1:])
				}
				return true
			})
			construct := fmt.Sprintf("css.cssMinifier.minifyGrammar/case css.CustomPropertyGrammar/value#%d is the token data, trimmed", n)
			if len(foreign) == 0 {
				c.R.OK(rule, construct, c.pos(as), "only parse.TrimWhitespace is applied")
			} else {
				c.R.Unres(rule, construct, c.pos(as), "the custom property value passes through "+strings.Join(foreign, ", ")+" before it is written: whether that leaves every string, url() and escape of the value intact cannot be decided by this rule (`--label:\"5\\\\\"  screen\"` — a collapser that takes `\\\\\"` for the end of the string rewrites the rest of it)")
			}
		}
		return true
	})
	c.R.Floor(rule, "assignments of the custom property value", n, 1)
}

// R04.21: an integer literal is never given an exponent.
func (c *Ctx) r0421(pk *packages.Package) {
	const rule = "R04.21"
	c.R.Rule(rule, "CSS Syntax §4.3.12 / CSS Values §5.1: a number token written with an exponent has the type flag `number` and is not an <integer> — `order:1e3`, `column-count:1e3`, `grid-row:1e3`, `repeat(1e3,1px)`, `steps(1e3)` are invalid and the declaration is dropped. The minifier does not know which positions require an <integer>, so a literal written as an integer keeps that form: in cssMinifier.minifyTokens, case css.NumberToken, every call of minify.Number (the rewriter that introduces exponents) on the token's data is reached only through the false outcome of a test of the same data by a digit predicate (a function of the module over []byte whose body compares with '0' and '9', or an inline search for '.'); a path that reaches it otherwise lets an integer through")
	info := pk.TypesInfo
	fd := c.fn(rule, pk, "cssMinifier.minifyTokens")
	if fd == nil {
		return
	}
	g := c.graph(pk, fd)
	// digit predicates: functions of the package with one []byte parameter and a bool result that compare with '0' / '9'
	isDigitPred := func(call *ast.CallExpr) bool {
		f, _ := callee(info, call).(*types.Func)
		if f == nil || f.Pkg() == nil || !strings.HasPrefix(f.Pkg().Path(), load.Mod) {
			return false
		}
		sig := f.Type().(*types.Signature)
		if sig.Results().Len() != 1 || !types.Identical(sig.Results().At(0).Type(), types.Typ[types.Bool]) {
			return false
		}
		var decl *ast.FuncDecl
		for _, p := range c.P.Roots {
			if p.Types == f.Pkg() {
				for _, d := range load.FuncDecls(p) {
					if p.TypesInfo.Defs[d.Name] == f {
						decl = d
					}
				}
			}
		}
		if decl == nil || decl.Body == nil {
			return false
		}
		s := nospace(c.src(decl.Body))
		return strings.Contains(s, "'0'") && strings.Contains(s, "'9'")
	}
	n := 0
	for _, y := range g.Nodes {
		a := y.Ast()
		if a == nil || y.Kind != flow.KStmt || c.caseLabel(a) != "case css.NumberToken" {
			continue
		}
		for _, call := range findCalls(info, a, false, load.Mod+".Number") {
			if len(call.Args) < 1 {
				continue
			}
			n++
			arg := nospace(str(call.Args[0]))
			test := func(q *flow.Node) bool {
				if q.Kind != flow.KFalse || q.Of == nil || q.Of.Kind != flow.KCond {
					return false
				}
				hit := false
				ast.Inspect(q.Of.Expr, func(z ast.Node) bool {
					ce, ok := z.(*ast.CallExpr)
					if !ok {
						return true
					}
					for _, ca := range ce.Args {
						if nospace(str(ca)) == arg && (isDigitPred(ce) || strings.Contains(str(q.Of.Expr), "'.'")) {
							hit = true
						}
					}
					return true
				})
				return hit
			}
			// from the head of the case to the call, not through "the digit predicate is false"
			var heads []*flow.Node
			for _, h := range g.Nodes {
				if h.Kind == flow.KTrue && h.Of != nil && h.Of.Kind == flow.KCase && nospace(str(h.Of.Expr)) == "css.NumberToken" && g.Dominates(h, y) {
					heads = append(heads, h)
				}
			}
			if len(heads) == 0 {
				c.R.Unres(rule, fmt.Sprintf("css.cssMinifier.minifyTokens/case css.NumberToken/minify.Number#%d", n), c.pos(call), "head of the case not found in the flow graph")
				continue
			}
			p := g.Path(flow.Search{From: heads, Goal: func(q *flow.Node) bool { return q == y }, Avoid: test})
			c.R.Check(p == nil, rule, fmt.Sprintf("css.cssMinifier.minifyTokens/case css.NumberToken/minify.Number#%d only for literals that are not integers", n), c.pos(call), "behind the false outcome of a digit predicate on "+arg,
				"minify.Number is applied to a number token without a test that the literal is not an integer: `order:1000` becomes `order:1e3`, which is not an <integer> and invalidates the declaration: "+pathStr(c, g, p))
		}
	}
	c.R.Floor(rule, "calls of minify.Number in the NumberToken case", n, 1)
}

// R04.22: only names that are case-insensitive are lower-cased in a selector.
func (c *Ctx) r0422(pk *packages.Package) {
	const rule = "R04.22"
	c.R.Rule(rule, "Selectors 4 §3.5 / HTML §15.3.8: in an HTML document a type selector matches HTML elements case-insensitively, other elements (SVG's foreignObject, linearGradient, clipPath …) case-sensitively; namespace prefixes, and the arguments of ::part(), :state(), ::highlight(), are case-sensitive; names of pseudo-classes and pseudo-elements are not. In cssMinifier.minifySelectors every path from the head of the token loop to the in-place lower-casing of an identifier (parse.ToLower(val.Data)) either runs through the true outcome of a flag that is assigned from a comparison with css.ColonToken (the name of a pseudo), or passes three tests: (a) of a nesting counter that is incremented for css.FunctionToken (not inside a function's arguments), (b) of a following `|` (not a namespace prefix), (c) of the identifier by a letter-case predicate of the module (body compares with 'a' and 'z': mixed-case names are left alone, `foreignObject{}` stays)")
	info := pk.TypesInfo
	fd := c.fn(rule, pk, "cssMinifier.minifySelectors")
	if fd == nil {
		return
	}
	g := c.graph(pk, fd)
	// flags assigned from a comparison with css.ColonToken; counters incremented under css.FunctionToken
	colonFlags, counters := map[types.Object]bool{}, map[types.Object]bool{}
	ast.Inspect(fd.Body, func(x ast.Node) bool {
		switch s := x.(type) {
		case *ast.AssignStmt:
			if len(s.Lhs) == 1 && len(s.Rhs) == 1 && strings.Contains(nospace(str(s.Rhs[0])), "css.ColonToken") {
				if id, ok := s.Lhs[0].(*ast.Ident); ok {
					if o := info.Uses[id]; o != nil {
						colonFlags[o] = true
					} else if o := info.Defs[id]; o != nil {
						colonFlags[o] = true
					}
				}
			}
		case *ast.IfStmt:
			for cur := s; cur != nil; {
				if strings.Contains(nospace(str(cur.Cond)), "css.FunctionToken") {
					for _, st := range cur.Body.List {
						if inc, ok := st.(*ast.IncDecStmt); ok && inc.Tok == token.INC {
							if id, ok := inc.X.(*ast.Ident); ok {
								counters[info.Uses[id]] = true
							}
						}
					}
				}
				cur = elseIf(cur)
			}
		}
		return true
	})
	mentions := func(e ast.Expr, set map[types.Object]bool) bool {
		hit := false
		ast.Inspect(e, func(z ast.Node) bool {
			if id, ok := z.(*ast.Ident); ok && set[info.Uses[id]] {
				hit = true
			}
			return true
		})
		return hit
	}
	outcome := func(q *flow.Node) *flow.Node {
		if (q.Kind == flow.KTrue || q.Kind == flow.KFalse) && q.Of != nil && q.Of.Kind == flow.KCond {
			return q.Of
		}
		return nil
	}
	pseudo := func(q *flow.Node) bool {
		t := outcome(q)
		if t == nil || q.Kind != flow.KTrue {
			return false
		}
		id, ok := ast.Unparen(t.Expr).(*ast.Ident)
		return ok && colonFlags[info.Uses[id]]
	}
	clauses := []struct {
		name string
		hit  func(q *flow.Node) bool
		why  string
	}{
		{"not inside the arguments of a function", func(q *flow.Node) bool {
			t := outcome(q)
			return t != nil && mentions(t.Expr, counters)
		}, "an identifier inside the parentheses of a functional pseudo is lower-cased: `::part(Foo)`, `:state(Foo)` and `::highlight(Foo)` name case-sensitive things"},
		{"not a namespace prefix", func(q *flow.Node) bool {
			t := outcome(q)
			if t == nil {
				return false
			}
			chars, strs, _ := c.constsIn(pk, t.Expr)
			if chars['|'] || strs["|"] {
				return true
			}
			// a flag computed from the next token
			hit := false
			ast.Inspect(t.Expr, func(z ast.Node) bool {
				if id, ok := z.(*ast.Ident); ok {
					if d := c.singleDef(pk, id); d != nil {
						ch, st, _ := c.constsIn(pk, d)
						if ch['|'] || st["|"] {
							hit = true
						}
					}
				}
				return true
			})
			return hit
		}, "an identifier in front of `|` is lower-cased: `@namespace Foo url(x);Foo|a{}` no longer refers to the declared prefix"},
		{"not a mixed-case name", func(q *flow.Node) bool {
			t := outcome(q)
			if t == nil {
				return false
			}
			hit := false
			ast.Inspect(t.Expr, func(z ast.Node) bool {
				if ce, ok := z.(*ast.CallExpr); ok {
					if p, d := c.calleeDecl(info, ce); d != nil && d.Body != nil {
						chars, _, _ := c.constsIn(p, d.Body)
						if chars['a'] && chars['z'] {
							hit = true
						}
					}
				}
				return true
			})
			return hit
		}, "an element name with lower-case letters is lower-cased: `foreignObject{}`, `linearGradient{}` no longer match the SVG elements in an HTML document"},
	}
	var heads []*flow.Node
	for _, q := range g.Nodes {
		if q.Kind == flow.KRange {
			heads = append(heads, q)
		}
	}
	n := 0
	for _, y := range g.Nodes {
		a := y.Ast()
		if a == nil || y.Kind != flow.KStmt {
			continue
		}
		for _, call := range findCalls(info, a, false, load.ParseMod+".ToLower") {
			if len(call.Args) != 1 || !strings.HasSuffix(nospace(str(call.Args[0])), ".Data") {
				continue
			}
			n++
			for _, cl := range clauses {
				p := g.Path(flow.Search{From: heads, Goal: func(q *flow.Node) bool { return q == y }, Avoid: func(q *flow.Node) bool { return pseudo(q) || cl.hit(q) }})
				c.R.Check(p == nil, rule, fmt.Sprintf("css.cssMinifier.minifySelectors/lower-casing#%d: %s", n, cl.name), c.pos(call), "tested on every path that is not the name of a pseudo", cl.why+": "+pathStr(c, g, p))
			}
		}
	}
	c.R.Floor(rule, "in-place lower-casing of selector identifiers", n, 1)
}

// R04.24 (known finding K16): `initial` replaces a value only where it is the whole value.
func (c *Ctx) r0424(pk *packages.Package) {
	const rule = "R04.24"
	c.R.Rule(rule, "CSS Cascade 4 §7.3: the CSS-wide keywords are values of a whole declaration; `border-color:initial red initial` is not a valid declaration and is dropped. In cssMinifier.minifyProperty every store of initialBytes into an element of the value list addresses element 0 (of a list that is, or has just been cut to, one value) — a store at a loop index writes the keyword next to other values. The test-suite pins `border-color: currentcolor red currentcolor` → `initial red initial`")
	info := pk.TypesInfo
	fd := c.fn(rule, pk, "cssMinifier.minifyProperty")
	if fd == nil {
		return
	}
	n := 0
	ast.Inspect(fd.Body, func(x ast.Node) bool {
		as, ok := x.(*ast.AssignStmt)
		if !ok || len(as.Lhs) != 1 || len(as.Rhs) != 1 {
			return true
		}
		if s, ok := c.exprBytesText(pk, as.Rhs[0]); !ok || s != "initial" {
			return true
		}
		se, ok := as.Lhs[0].(*ast.SelectorExpr)
		if !ok || se.Sel.Name != "Data" {
			return true
		}
		ie, ok := ast.Unparen(se.X).(*ast.IndexExpr)
		if !ok {
			return true
		}
		n++
		construct := fmt.Sprintf("css.cssMinifier.minifyProperty/%s/initial written to %s as the whole value", c.caseLabel(as), nospace(str(as.Lhs[0])))
		if v, isK := intConst(info, ie.Index); isK && v == 0 {
			c.R.OK(rule, construct, c.pos(as), "element 0")
		} else {
			c.R.Bad(rule, construct, c.pos(as), "the keyword is stored at index "+str(ie.Index)+" of a list with several values: `border-color:currentcolor red currentcolor` → `border-color:initial red initial`, which no browser accepts — the declaration is lost")
		}
		return true
	})
	c.R.Floor(rule, "stores of initialBytes into the value list", n, 3)
}

// R04.25: the arguments of every function are below the top level.
func (c *Ctx) r0425(pk *packages.Package) {
	const rule = "R04.25"
	c.R.Rule(rule, "cssMinifier.minifyTokens drops the unit of a zero length only at the top level of a value (`fun == 0`): inside a function the unit can be required — the arguments of hypot(), abs(), mod(), calc-size() must agree in type, and a number is not a length there. The function is told where it is by the hash of the enclosing function's name, which is 0 for every name that is not in the hash table. Every recursive call for the arguments of a function passes a value that is known not to be 0: a non-zero constant, or a variable under the false outcome of `v == 0` (true outcome of `v != 0`)")
	info := pk.TypesInfo
	fd := c.fn(rule, pk, "cssMinifier.minifyTokens")
	if fd == nil {
		return
	}
	g := c.graph(pk, fd)
	self := info.Defs[fd.Name]
	n := 0
	for _, y := range g.Nodes {
		a := y.Ast()
		if a == nil || y.Kind != flow.KStmt {
			continue
		}
		for _, ce := range allCalls(a) {
			if callee(info, ce) != self || len(ce.Args) != 3 {
				continue
			}
			n++
			arg := ast.Unparen(ce.Args[1])
			good, why := false, ""
			if v, isK := intConst(info, arg); isK {
				good = v != 0
				why = "the constant 0 is passed"
			} else {
				as := nospace(str(arg))
				for _, f := range g.DomFacts(y) {
					if f.Test.Kind != flow.KCond {
						continue
					}
					be, ok := ast.Unparen(f.Test.Expr).(*ast.BinaryExpr)
					if !ok {
						continue
					}
					var other ast.Expr
					if nospace(str(be.X)) == as {
						other = be.Y
					} else if nospace(str(be.Y)) == as {
						other = be.X
					} else {
						continue
					}
					if v, isK := intConst(info, other); isK && v == 0 {
						if be.Op == token.EQL && !f.Value || be.Op == token.NEQ && f.Value {
							good = true
						}
					}
				}
				why = as + " is the hash of the function's name, which is 0 for a function that is not in the hash table"
			}
			c.R.Check(good, rule, fmt.Sprintf("css.cssMinifier.minifyTokens/recursion into function arguments#%d is marked as inside a function", n), c.pos(ce), "a value known not to be 0",
				"the arguments of a function are minified as if they stood at the top level of the value — "+why+": `width:hypot(0px,3px)` → `hypot(0,3px)` and `abs(0px)` → `abs(0)`, which are not lengths")
		}
	}
	c.R.Floor(rule, "recursive calls of minifyTokens", n, 1)
}

// R04.26: values are removed from a box-shadow by position only when every item's kind is known.
func (c *Ctx) r0426(pk *packages.Package) {
	const rule = "R04.26"
	c.R.Rule(rule, "cssMinifier.minifyProperty, case Box_Shadow, removes the blur and spread of a shadow when they are zero; which value is the blur is decided by counting the lengths of the list item. var(), attr() and env() stand for anything — the colour, or several lengths — and Token.IsLength counts them as one length: `box-shadow:var(--c) 0 0 0` (a colour and three lengths) became `var(--c)0`, a shadow without its vertical offset (invalid). In the case clause a test of the items for those functions exists (a condition that mentions the hash constants Var, Attr and Env), and under its true outcome the list of positions that the removals measure (`len(L) == k` in front of each removal) is emptied, or a flag is set whose false outcome dominates every removal")
	info := pk.TypesInfo
	fd := c.fn(rule, pk, "cssMinifier.minifyProperty")
	if fd == nil {
		return
	}
	var clause *ast.CaseClause
	ast.Inspect(fd.Body, func(x ast.Node) bool {
		if cc, ok := x.(*ast.CaseClause); ok && clause == nil {
			for _, e := range cc.List {
				if id, ok := ast.Unparen(e).(*ast.Ident); ok && id.Name == "Box_Shadow" {
					if _, isK := info.Uses[id].(*types.Const); isK {
						clause = cc
					}
				}
			}
		}
		return true
	})
	if clause == nil {
		c.R.Unres(rule, "css.cssMinifier.minifyProperty/case Box_Shadow", c.pos(fd), "case not found")
		return
	}
	g := c.graph(pk, fd)
	mentions := func(e ast.Node, names ...string) bool {
		seen := map[string]bool{}
		ast.Inspect(e, func(z ast.Node) bool {
			if id, ok := z.(*ast.Ident); ok {
				if _, isK := info.Uses[id].(*types.Const); isK {
					seen[id.Name] = true
				}
			}
			return true
		})
		for _, n := range names {
			if !seen[n] {
				return false
			}
		}
		return true
	}
	// the veto: an if inside the clause whose condition names the three substitution functions
	var veto *ast.IfStmt
	ast.Inspect(clause, func(x ast.Node) bool {
		if ifs, ok := x.(*ast.IfStmt); ok && veto == nil && mentions(ifs.Cond, "Var", "Attr", "Env") {
			veto = ifs
		}
		return true
	})
	emptied := map[types.Object]bool{}
	flags := map[types.Object]bool{}
	if veto != nil {
		ast.Inspect(veto.Body, func(x ast.Node) bool {
			as, ok := x.(*ast.AssignStmt)
			if !ok || len(as.Lhs) != 1 || len(as.Rhs) != 1 {
				return true
			}
			id, ok := as.Lhs[0].(*ast.Ident)
			if !ok {
				return true
			}
			o := info.Uses[id]
			switch r := ast.Unparen(as.Rhs[0]).(type) {
			case *ast.SliceExpr:
				if v, isK := intConst(info, r.High); r.High != nil && isK && v == 0 && nospace(str(r.X)) == id.Name {
					emptied[o] = true
				}
			case *ast.Ident:
				if r.Name == "nil" {
					emptied[o] = true
				}
				if r.Name == "true" {
					flags[o] = true
				}
			}
			return true
		})
	}
	n := 0
	for _, y := range g.Nodes {
		as, ok := y.Stmt.(*ast.AssignStmt)
		if !ok || y.Kind != flow.KStmt || len(as.Lhs) != 1 || len(as.Rhs) != 1 || c.caseLabel(as) != "case Box_Shadow" {
			continue
		}
		call, ok := ast.Unparen(as.Rhs[0]).(*ast.CallExpr)
		if !ok || str(call.Fun) != "append" || len(call.Args) != 2 || !call.Ellipsis.IsValid() {
			continue
		}
		if _, isSl := ast.Unparen(call.Args[0]).(*ast.SliceExpr); !isSl {
			continue
		}
		n++
		good := false
		for _, f := range g.DomFacts(y) {
			if f.Test.Kind != flow.KCond {
				continue
			}
			e := ast.Unparen(f.Test.Expr)
			if be, ok := e.(*ast.BinaryExpr); ok && f.Value && be.Op == token.EQL {
				for _, side := range []ast.Expr{be.X, be.Y} {
					if ce, ok := ast.Unparen(side).(*ast.CallExpr); ok && str(ce.Fun) == "len" && len(ce.Args) == 1 {
						if id, ok := ast.Unparen(ce.Args[0]).(*ast.Ident); ok && emptied[info.Uses[id]] {
							good = true
						}
					}
				}
			}
			if id, ok := e.(*ast.Ident); ok && !f.Value && flags[info.Uses[id]] {
				good = true
			}
			if u, ok := e.(*ast.UnaryExpr); ok && u.Op == token.NOT && f.Value {
				if id, ok := ast.Unparen(u.X).(*ast.Ident); ok && flags[info.Uses[id]] {
					good = true
				}
			}
		}
		c.R.Check(veto != nil && good, rule, fmt.Sprintf("css.cssMinifier.minifyProperty/case Box_Shadow/removal#%d only from a shadow without substitution functions", n), c.pos(as), "the positions it measures are emptied under the test for var(), attr(), env()",
			"a zero is removed from a shadow by counting its lengths although an item may be var(), attr() or env(), which Token.IsLength counts as one length whatever it stands for: `box-shadow:var(--c) 0 0 0` → `box-shadow:var(--c)0`")
	}
	c.R.Floor(rule, "removals of a zero blur or spread", n, 2)
}

// R04.27 (= R09.28): white space is trimmed from the end of a URL only when it is not escaped.
func (c *Ctx) r0427(pk *packages.Package, rule string) {
	c.R.Rule(rule, "`@import url(a\\ )` names the URL `a ` — the backslash escapes the space. cssMinifier.minifyGrammar rewrites `@import url(x)` to `@import \"x\"` and trims white space inside the parentheses by walking an index backwards; a trimmed escaped space left the backslash in front of the closing quote (`@import \"a\\\"`), an unterminated string. Every loop of minifyGrammar that steps an index backwards over white space (parse.IsWhitespace / parse.IsNewline in its condition, a decrement in its body) compares a byte with the backslash")
	fd := c.fn(rule, pk, "cssMinifier.minifyGrammar")
	if fd == nil {
		return
	}
	info := pk.TypesInfo
	n := 0
	ast.Inspect(fd.Body, func(x ast.Node) bool {
		fs, ok := x.(*ast.ForStmt)
		if !ok || fs.Cond == nil {
			return true
		}
		ws := false
		ast.Inspect(fs.Cond, func(z ast.Node) bool {
			if ce, ok := z.(*ast.CallExpr); ok && strings.HasSuffix(calleeName(info, ce), ".IsWhitespace") {
				ws = true
			}
			return true
		})
		dec := false
		for _, st := range fs.Body.List {
			if ids, ok := st.(*ast.IncDecStmt); ok && ids.Tok == token.DEC {
				dec = true
			}
		}
		if ids, ok := fs.Post.(*ast.IncDecStmt); ok && ids.Tok == token.DEC {
			dec = true
		}
		if !ws || !dec {
			return true
		}
		n++
		chars, _, _ := c.constsIn(pk, fs)
		c.R.Check(chars['\\'], rule, fmt.Sprintf("css.cssMinifier.minifyGrammar/backward trim#%d stops at an escaped space", n), c.pos(fs), "the loop compares a byte with the backslash",
			"white space is trimmed from the end of the URL without a look at the byte in front of it: `@import url(a\\ );` becomes `@import \"a\\\"`, an unterminated string")
		return true
	})
	c.R.Floor(rule, "backward trims in minifyGrammar", n, 1)
}

// R04.28: minify.Decimal only sees numbers that are written without an exponent.
func (c *Ctx) r0428(pk *packages.Package) {
	const rule = "R04.28"
	c.R.Rule(rule, "minify.Decimal minifies a decimal and `does not parse or output exponents`: given `1.26e10` it takes the digits of the exponent for decimals and removes its trailing zero (`1.26e1`), with a precision it rounds across the `e`. CSS3 numbers may be written with an exponent, and with KeepCSS2 package css sends every number to Decimal. (a) every call of minify.Decimal in package css is dominated by the false outcomes of tests of its argument for the bytes 'e' and 'E'; (b) a function that makes that call does not return its byte slice parameter as it was given — Token.IsZero relies on every number being minified")
	info := pk.TypesInfo
	n := 0
	for _, fd := range load.FuncDecls(pk) {
		if fd.Body == nil {
			continue
		}
		calls := findCalls(info, fd.Body, false, load.Mod+".Decimal")
		if len(calls) == 0 {
			continue
		}
		g := c.graph(pk, fd)
		for _, call := range calls {
			if len(call.Args) < 1 {
				continue
			}
			n++
			arg := nospace(str(call.Args[0]))
			seen := map[rune]bool{}
			if y := g.NodeOf(call); y != nil {
				for _, f := range g.DomFacts(y) {
					if f.Test.Kind != flow.KCond {
						continue
					}
					be, ok := ast.Unparen(f.Test.Expr).(*ast.BinaryExpr)
					if !ok {
						continue
					}
					for _, side := range []ast.Expr{be.X, be.Y} {
						side = ast.Unparen(side)
						if id, ok := side.(*ast.Ident); ok {
							// `i := bytes.IndexByte(x, c)` tested as `i != -1`
							if d := c.singleDef(pk, id); d != nil {
								side = ast.Unparen(d)
							}
						}
						ce, ok := side.(*ast.CallExpr)
						if !ok || calleeName(info, ce) != "bytes.IndexByte" || len(ce.Args) != 2 || nospace(str(ce.Args[0])) != arg {
							continue
						}
						// `IndexByte(x, c) != -1` false, or `IndexByte(x, c) == -1` true: the byte does not occur
						absent := be.Op == token.NEQ && !f.Value || be.Op == token.EQL && f.Value
						if chars, _, _ := c.constsIn(pk, ce.Args[1]); absent {
							for ch := range chars {
								seen[ch] = true
							}
						}
					}
				}
			}
			c.R.Check(seen['e'] && seen['E'], rule, fmt.Sprintf("css.%s/minify.Decimal#%d only for a number without an exponent", load.FuncName(fd), n), c.pos(call), "behind tests that "+arg+" holds neither 'e' nor 'E'",
				"a number that may be written with an exponent is handed to minify.Decimal, which does not know exponents: with KeepCSS2 `width:1.26e10px` becomes `width:1.26e1px`, `00e3px` becomes `e3px`")
		}
		// (b) the function that guards minify.Decimal does not hand a number back as it was given: Token.IsZero and the cut of
		// a zero's unit rely on every number being minified (`starting with a zero means it is zero`)
		if fd.Type.Params != nil && fd.Type.Results != nil {
			params := map[types.Object]bool{}
			for _, f := range fd.Type.Params.List {
				for _, nm := range f.Names {
					if sl, ok := info.TypeOf(f.Type).Underlying().(*types.Slice); ok && isByteType(sl.Elem()) {
						params[info.Defs[nm]] = true
					}
				}
			}
			var raw []string
			ast.Inspect(fd.Body, func(z ast.Node) bool {
				if _, isLit := z.(*ast.FuncLit); isLit {
					return false
				}
				if rs, ok := z.(*ast.ReturnStmt); ok && len(rs.Results) == 1 {
					if id, ok := ast.Unparen(rs.Results[0]).(*ast.Ident); ok && params[info.Uses[id]] {
						raw = append(raw, c.pos(rs))
					}
				}
				return true
			})
			if len(params) > 0 {
				c.R.Check(len(raw) == 0, rule, fmt.Sprintf("css.%s/no number is handed back unminified", load.FuncName(fd)), c.pos(fd), "every return is the result of a minifying call",
					"a number is returned as it was given ("+strings.Join(raw, ", ")+"): Token.IsZero takes every number that starts with `0` for zero, so with KeepCSS2 `margin:0.5e1px` (5px) becomes `margin:0`")
			}
		}
	}
	c.R.Floor(rule, "calls of minify.Decimal", n, 1)
}

// R04.29: the hue handed to the colour conversion lies in [0,1).
func (c *Ctx) r0429(pk *packages.Package) {
	const rule = "R04.29"
	c.R.Rule(rule, "cssMinifier.minifyTokens turns hsl()/hsla() into a hex colour: the hue is divided by 360 and reduced with math.Modf, which keeps the sign — for a negative hue the fraction lies in (-1,0]. css.HSL2RGB of the dependency adds 1 at most once per channel, after having subtracted 1/3 for blue: hues between -360 and -240 degrees gave a negative blue channel. On every path from the assignment of the Modf fraction to the call of HSL2RGB lies a test of that value against 0 (the wrap into [0,1))")
	info := pk.TypesInfo
	fd := c.fn(rule, pk, "cssMinifier.minifyTokens")
	if fd == nil {
		return
	}
	g := c.graph(pk, fd)
	n := 0
	for _, y := range g.Nodes {
		as, ok := y.Stmt.(*ast.AssignStmt)
		if !ok || y.Kind != flow.KStmt || len(as.Rhs) != 1 || len(as.Lhs) != 2 {
			continue
		}
		ce, ok := ast.Unparen(as.Rhs[0]).(*ast.CallExpr)
		if !ok || calleeName(info, ce) != "math.Modf" {
			continue
		}
		frac := nospace(str(as.Lhs[1]))
		// the calls of HSL2RGB that take the fraction as their hue
		for _, z := range g.Nodes {
			a := z.Ast()
			if a == nil || z.Kind != flow.KStmt {
				continue
			}
			for _, call := range findCalls(info, a, false, load.ParseMod+"/css.HSL2RGB") {
				if len(call.Args) < 1 || nospace(str(call.Args[0])) != frac {
					continue
				}
				n++
				z := z
				wraps := func(q *flow.Node) bool {
					if q.Kind != flow.KCond {
						return false
					}
					be, ok := ast.Unparen(q.Expr).(*ast.BinaryExpr)
					if !ok {
						return false
					}
					isZero := func(e ast.Expr) bool {
						tv, ok := info.Types[e]
						return ok && tv.Value != nil && constant.Sign(tv.Value) == 0
					}
					return (be.Op == token.LSS || be.Op == token.GTR || be.Op == token.LEQ || be.Op == token.GEQ) &&
						(nospace(str(be.X)) == frac && isZero(be.Y) || nospace(str(be.Y)) == frac && isZero(be.X))
				}
				p := g.Path(flow.Search{From: []*flow.Node{y}, Goal: func(q *flow.Node) bool { return q == z }, Avoid: wraps})
				c.R.Check(p == nil, rule, fmt.Sprintf("css.cssMinifier.minifyTokens/hue#%d wrapped into [0,1) before the conversion", n), c.pos(call), "a test of "+frac+" against 0 lies between math.Modf and HSL2RGB",
					"the fraction that math.Modf returns for a negative hue is negative and goes into HSL2RGB as it is: `hsl(-285 100% 50%)` gets a garbage blue channel (#bfff42 instead of #bfff00)")
			}
		}
	}
	c.R.Floor(rule, "hues converted with HSL2RGB", n, 1)
}

// R04.31: properties that share the code of a case clause have values of the same shape.
func (c *Ctx) r0431(pk *packages.Package) {
	const rule = "R04.31"
	c.R.Rule(rule, "cssMinifier.minifyProperty rewrites values by position (the second of two components is the vertical position, the fourth of four the left side …). A case clause that lists several properties applies one such reading to all of them: every property of a multi-property case clause belongs to the same group of ref.CSSValueShape (sides, line, color, number, position, position-axis). `case Background_Position, Background_Position_X, Background_Position_Y` read `background-position-x:right 10px` as a horizontal and a vertical position (`100% 10px`)")
	info := pk.TypesInfo
	fd := c.fn(rule, pk, "cssMinifier.minifyProperty")
	if fd == nil {
		return
	}
	n := 0
	ast.Inspect(fd.Body, func(x ast.Node) bool {
		cc, ok := x.(*ast.CaseClause)
		if !ok || len(cc.List) < 2 {
			return true
		}
		var names []string
		for _, e := range cc.List {
			id, ok := ast.Unparen(e).(*ast.Ident)
			if !ok {
				return true
			}
			k, ok := info.Uses[id].(*types.Const)
			if !ok || !strings.HasSuffix(k.Type().String(), "css.Hash") {
				return true
			}
			names = append(names, strings.ToLower(strings.ReplaceAll(id.Name, "_", "-")))
		}
		n++
		groups := map[string][]string{}
		for _, nm := range names {
			g := ref.CSSValueShape[nm]
			if g == "" {
				g = "not in the reference (" + nm + ")"
			}
			groups[g] = append(groups[g], nm)
		}
		var desc []string
		for g, ns := range groups {
			sort.Strings(ns)
			desc = append(desc, g+": "+strings.Join(ns, ", "))
		}
		sort.Strings(desc)
		c.R.Check(len(groups) == 1, rule, "css.cssMinifier.minifyProperty/case "+strings.Join(names, ", ")+" lists properties of one value shape", c.pos(cc), desc[0],
			"one case clause rewrites properties whose values have different shapes ("+strings.Join(desc, "; ")+"): a rewrite by position reads the components of one of them wrongly — `background-position-x:right 10px` became `100% 10px`")
		return true
	})
	c.R.Floor(rule, "case clauses with several properties", n, 4)
}

// R04.32: the property tests of minifyTokens see a vendor-prefixed alias under the name of the property it prefixes.
func (c *Ctx) r0432(pk *packages.Package) {
	const rule = "R04.32"
	c.R.Rule(rule, "cssMinifier.minifyTokens exempts properties from a rewrite by comparing the property's hash (`prop != Flex`: a zero <flex-basis> keeps its unit, `1 0` would be a grow and a shrink factor). A vendor-prefixed alias (-webkit-flex, -ms-flex) takes the same values and has no hash of its own: the hash minifyDeclaration hands to minifyTokens is not only the hash of the whole property name — some definition of it hashes the name behind the prefix, under a test of the leading `-`")
	info := pk.TypesInfo
	ft := c.fn(rule, pk, "cssMinifier.minifyTokens")
	fd := c.fn(rule, pk, "cssMinifier.minifyDeclaration")
	if ft == nil || fd == nil {
		return
	}
	isHash := func(e ast.Expr) bool {
		t := info.TypeOf(e)
		return t != nil && strings.HasSuffix(types.TypeString(t, nil), "/css.Hash")
	}
	var prop types.Object
	if len(ft.Type.Params.List) > 0 && len(ft.Type.Params.List[0].Names) > 0 {
		prop = info.Defs[ft.Type.Params.List[0].Names[0]]
	}
	exempt := map[string]bool{}
	ast.Inspect(ft.Body, func(n ast.Node) bool {
		be, ok := n.(*ast.BinaryExpr)
		if !ok || be.Op != token.NEQ || !isHash(be.X) || !isHash(be.Y) {
			return true
		}
		for _, pr := range [][2]ast.Expr{{be.X, be.Y}, {be.Y, be.X}} {
			id, ok := ast.Unparen(pr[0]).(*ast.Ident)
			if !ok || prop == nil || info.Uses[id] != prop {
				continue
			}
			if tv, ok := info.Types[pr[1]]; ok && tv.Value != nil && constant.Sign(tv.Value) != 0 {
				exempt[nospace(str(pr[1]))] = true
			}
		}
		return true
	})
	var names []string
	for k := range exempt {
		names = append(names, k)
	}
	sort.Strings(names)
	if len(names) == 0 {
		c.R.OK(rule, "css.cssMinifier.minifyTokens/no property is exempted from a rewrite", c.pos(ft), "no comparison prop != <property> in minifyTokens")
		return
	}
	name := paramOfType(info, fd, "[]byte")
	n := 0
	for _, call := range findCalls(info, fd.Body, false, load.Mod+"/css.(cssMinifier).minifyTokens") {
		if len(call.Args) == 0 {
			continue
		}
		n++
		id, _ := ast.Unparen(call.Args[0]).(*ast.Ident)
		stripped := false
		if id != nil && name != nil {
			obj := info.Uses[id]
			var visit func(x ast.Node, underDash bool)
			visit = func(x ast.Node, underDash bool) {
				ast.Inspect(x, func(y ast.Node) bool {
					switch y := y.(type) {
					case *ast.IfStmt:
						chars, _, _ := c.constsIn(pk, y.Cond)
						if y.Init != nil {
							visit(y.Init, underDash)
						}
						visit(y.Body, underDash || chars['-'])
						if y.Else != nil {
							visit(y.Else, underDash)
						}
						return false
					case *ast.AssignStmt:
						for i, l := range y.Lhs {
							lid, ok := l.(*ast.Ident)
							if !ok || i >= len(y.Rhs) || (info.Uses[lid] != obj && info.Defs[lid] != obj) {
								continue
							}
							for _, h := range findCalls(info, y.Rhs[i], false, load.Mod+"/css.ToHash") {
								if len(h.Args) != 1 {
									continue
								}
								se, ok := ast.Unparen(h.Args[0]).(*ast.SliceExpr)
								if !ok || se.Low == nil {
									continue
								}
								if b, ok := ast.Unparen(se.X).(*ast.Ident); ok && info.Uses[b] == name && underDash {
									stripped = true
								}
							}
						}
					}
					return true
				})
			}
			visit(fd.Body, false)
		}
		c.R.Check(stripped, rule, fmt.Sprintf("css.cssMinifier.minifyDeclaration/property tests of minifyTokens (%s) see the name behind a vendor prefix", strings.Join(names, ", ")), c.pos(call),
			"the hash handed to minifyTokens is also computed from the property name behind its `-vendor-` prefix",
			"minifyTokens gets the hash of the whole property name, which is 0 for -webkit-flex / -ms-flex: the exemption of "+strings.Join(names, ", ")+" does not apply and `-webkit-flex:1 0px` becomes `-webkit-flex:1 0` (grow 1, shrink 0 instead of a zero basis)")
	}
	c.R.Floor(rule, "calls of minifyTokens in minifyDeclaration", n, 1)
}

// R09.30: the parentheses around the identifiers let and async stay.
func (c *Ctx) r0930(pk *packages.Package) {
	const rule = "R09.30"
	c.R.Rule(rule, "ECMA-262 restricts what an expression may start with by look-ahead on identifiers: an ExpressionStatement and a for-init not with `let [`, the left-hand side of for-in / for-of not with `let`, of for-of not with `async of`. `(let)[0]=1`, `for((let) of x);` and `for((async) of x);` are valid because of their parentheses. jsMinifier.minifyExpr, case *js.GroupExpr, drops the parentheses by comparing levels; every path from the head of the case to the print of the content at the level of the parent passes a test whose condition mentions both identifiers (reference: ref.JSLookaheadIdents)")
	info := pk.TypesInfo
	fd := c.fn(rule, pk, "jsMinifier.minifyExpr")
	if fd == nil {
		return
	}
	g := c.graph(pk, fd)
	head := caseHead(g, "*js.GroupExpr")
	if head == nil {
		c.R.Unres(rule, "js.jsMinifier.minifyExpr/case *js.GroupExpr", c.pos(fd), "case not found")
		return
	}
	var prec types.Object
	if fd.Type.Params != nil {
		for _, f := range fd.Type.Params.List {
			for _, nm := range f.Names {
				if t := info.TypeOf(f.Type); t != nil && strings.HasSuffix(t.String(), "js.OpPrec") {
					prec = info.Defs[nm]
				}
			}
		}
	}
	asks := func(q *flow.Node) bool {
		if q.Kind != flow.KCond {
			return false
		}
		var whole ast.Node = q.Expr
		for x := c.P.Parent(q.Expr); x != nil; x = c.P.Parent(x) {
			if ifs, ok := x.(*ast.IfStmt); ok {
				if ifs.Cond.Pos() <= q.Expr.Pos() && q.Expr.End() <= ifs.Cond.End() {
					whole = ifs.Cond
				}
				break
			}
			if _, ok := x.(ast.Stmt); ok {
				break
			}
		}
		_, strs, _ := c.constsIn(pk, whole)
		for _, id := range ref.JSLookaheadIdents {
			if !strs[id] {
				return false
			}
		}
		return true
	}
	n := 0
	for _, y := range g.Nodes {
		a := y.Ast()
		if a == nil || y.Kind != flow.KStmt || c.caseLabel(a) != "case *js.GroupExpr" {
			continue
		}
		for _, call := range findCalls(info, a, false, load.Mod+"/js.(jsMinifier).minifyExpr") {
			if len(call.Args) != 2 {
				continue
			}
			id, ok := ast.Unparen(call.Args[1]).(*ast.Ident)
			if !ok || info.Uses[id] != prec {
				continue // printed inside its own parentheses at a constant level
			}
			n++
			y := y
			p := g.Path(flow.Search{From: []*flow.Node{head}, Goal: func(q *flow.Node) bool { return q == y }, Avoid: asks})
			c.R.Check(p == nil, rule, fmt.Sprintf("js.jsMinifier.minifyExpr/case *js.GroupExpr/content printed without parentheses#%d only after a look at the identifiers let and async", n), c.pos(call), "every path from the head of the case to the print passes a test that mentions "+strings.Join(ref.JSLookaheadIdents, " and "),
				"the parentheses of a group are dropped by comparing levels only: `(let)[0]=1` → `let[0]=1` (a lexical declaration with an array pattern: SyntaxError), `for((async) of x);` → `for(async of x);` (SyntaxError), `for((let) of x);` → `for(let of x);`: "+pathStr(c, g, p))
		}
	}
	c.R.Floor(rule, "prints of a group's content without parentheses", n, 1)
	// (b) the head of a for-of whose `var` was hoisted away: the declaration is printed without its keyword, the bare identifier
	// is what the head starts with (`var async;for(var async of x);` → `for(async of x);`)
	if sfd := c.fn(rule, pk, "jsMinifier.minifyStmt"); sfd != nil {
		sg := c.graph(pk, sfd)
		shead := caseHead(sg, "*js.ForOfStmt")
		if shead == nil {
			c.R.Unres(rule, "js.jsMinifier.minifyStmt/case *js.ForOfStmt", c.pos(sfd), "case not found")
			return
		}
		sasks := func(q *flow.Node) bool {
			if q.Kind != flow.KCond {
				return false
			}
			var whole ast.Node = q.Expr
			for x := c.P.Parent(q.Expr); x != nil; x = c.P.Parent(x) {
				if ifs, ok := x.(*ast.IfStmt); ok {
					if ifs.Cond.Pos() <= q.Expr.Pos() && q.Expr.End() <= ifs.Cond.End() {
						whole = ifs.Cond
					}
					break
				}
				if _, ok := x.(ast.Stmt); ok {
					break
				}
			}
			_, strs, _ := c.constsIn(pk, whole)
			for _, id := range ref.JSLookaheadIdents {
				if !strs[id] {
					return false
				}
			}
			return true
		}
		k := 0
		for _, y := range sg.Nodes {
			a := y.Ast()
			if a == nil || y.Kind != flow.KStmt || c.caseLabel(a) != "case *js.ForOfStmt" {
				continue
			}
			for _, call := range findCalls(info, a, false, load.Mod+"/js.(jsMinifier).minifyVarDecl") {
				k++
				y := y
				p := sg.Path(flow.Search{From: []*flow.Node{shead}, Goal: func(q *flow.Node) bool { return q == y }, Avoid: sasks})
				c.R.Check(p == nil, rule, fmt.Sprintf("js.jsMinifier.minifyStmt/case *js.ForOfStmt/declaration printed#%d only after a look at the identifiers let and async", k), c.pos(call), "every path from the head of the case to the print passes a test that mentions "+strings.Join(ref.JSLookaheadIdents, " and "),
					"the declaration of a for-of head is printed without a look at its identifier: when its `var` was hoisted away the head starts with the bare name — `var async;for(var async of x);` → `for(async of x);` (SyntaxError), `var let;for(var let of x);` → `for(let of x);`: "+pathStr(c, sg, p))
			}
		}
		c.R.Floor(rule, "declarations printed in a for-of head", k, 1)
	}
}

// R04.33: the cases of a unit conversion agree on its direction and use the factors of the units.
func (c *Ctx) r0433(pk *packages.Package) {
	const rule = "R04.33"
	c.R.Rule(rule, "where package css converts between the units of one dimension — a switch whose cases name at least two unit hashes of one row of ref.CSSUnitFactor (angle: deg, grad, rad, turn; time: s, ms; …) and multiply or divide a value by a constant — every constant is the factor of its unit towards the canonical unit of the row or its reciprocal, and all cases of the switch convert in the same direction (sibling agreement). `case Grad: d *= 1.1111111111111111` next to `case Turn: d *= 360.0` converts one unit from degrees and the other to degrees: hsl(100grad,100%,50%) became #26ff00 instead of #80ff00")
	info := pk.TypesInfo
	n := 0
	approx := func(a, b float64) bool { return math.Abs(a-b) <= 1e-6*math.Max(math.Abs(a), math.Abs(b)) }
	for _, fd := range load.FuncDecls(pk) {
		if fd.Body == nil {
			continue
		}
		ast.Inspect(fd.Body, func(z ast.Node) bool {
			sw, ok := z.(*ast.SwitchStmt)
			if !ok {
				return true
			}
			type conv struct {
				unit string
				m    float64
				at   ast.Node
			}
			var convs []conv
			dim := ""
			for _, st := range sw.Body.List {
				cc, ok := st.(*ast.CaseClause)
				if !ok {
					continue
				}
				for _, e := range cc.List {
					var unit string
					if id, ok := ast.Unparen(e).(*ast.Ident); ok {
						if k, isConst := info.Uses[id].(*types.Const); isConst && k.Pkg() == pk.Types {
							unit = strings.ToLower(k.Name())
						}
					}
					if s, ok := c.constString(info, e); ok && unit == "" {
						unit = strings.ToLower(s)
					}
					d := ""
					for dn, row := range ref.CSSUnitFactor {
						if _, ok := row[unit]; ok {
							d = dn
						}
					}
					if d == "" || (dim != "" && d != dim) {
						continue
					}
					dim = d
					// the factor applied in the clause
					for _, bs := range cc.Body {
						as, ok := bs.(*ast.AssignStmt)
						if !ok || len(as.Lhs) != 1 || len(as.Rhs) != 1 {
							continue
						}
						var k float64
						var has bool
						fl := func(e ast.Expr) (float64, bool) {
							if tv, ok := info.Types[e]; ok && tv.Value != nil {
								f, _ := constant.Float64Val(constant.ToFloat(tv.Value))
								return f, true
							}
							return 0, false
						}
						switch as.Tok {
						case token.MUL_ASSIGN:
							k, has = fl(as.Rhs[0])
						case token.QUO_ASSIGN:
							if v, ok := fl(as.Rhs[0]); ok && v != 0 {
								k, has = 1/v, true
							}
						case token.ASSIGN:
							if be, ok := ast.Unparen(as.Rhs[0]).(*ast.BinaryExpr); ok && nospace(str(be.X)) == nospace(str(as.Lhs[0])) {
								if v, ok := fl(be.Y); ok && v != 0 {
									if be.Op == token.MUL {
										k, has = v, true
									} else if be.Op == token.QUO {
										k, has = 1/v, true
									}
								}
							}
						}
						if has {
							convs = append(convs, conv{unit, k, as})
						}
					}
				}
			}
			if len(convs) < 2 {
				return true
			}
			dirs := map[string]bool{}
			for _, cv := range convs {
				n++
				f := ref.CSSUnitFactor[dim][cv.unit]
				dir := ""
				switch {
				case approx(cv.m, f):
					dir = "to " + ref.CSSCanonicalUnit[dim]
				case approx(cv.m, 1/f):
					dir = "from " + ref.CSSCanonicalUnit[dim]
				}
				if f == 1 && approx(cv.m, 1) {
					dir = ""
				} else if dir != "" {
					dirs[dir] = true
				}
				construct := fmt.Sprintf("css.%s/%s factor of %s#%d", load.FuncName(fd), dim, cv.unit, n)
				if dir == "" && !(f == 1 && approx(cv.m, 1)) {
					c.R.Bad(rule, construct, c.pos(cv.at), fmt.Sprintf("%v is neither the factor of %s towards %s (%v) nor its reciprocal", cv.m, cv.unit, ref.CSSCanonicalUnit[dim], f))
				} else {
					c.R.OK(rule, construct, c.pos(cv.at), fmt.Sprintf("%v converts %s", cv.m, dir))
				}
			}
			var ds []string
			for d := range dirs {
				ds = append(ds, d)
			}
			sort.Strings(ds)
			c.R.Check(len(dirs) <= 1, rule, fmt.Sprintf("css.%s/%s conversion converts in one direction", load.FuncName(fd), dim), c.pos(sw), strings.Join(ds, ", "),
				"the cases of one conversion disagree on its direction ("+strings.Join(ds, " and ")+"): one of the factors is the reciprocal of what it should be — `hsl(100grad,100%,50%)` came out as #26ff00 instead of #80ff00")
			return true
		})
	}
	if n == 0 {
		c.R.OK(rule, "css/no unit conversion by constants", "-", "no switch over the units of one dimension multiplies by constants (the multiplier table of minifyDimension is commented out)")
	}
}

// constString: the value of a constant string expression, also through a []byte("…") conversion.
func (c *Ctx) constString(info *types.Info, e ast.Expr) (string, bool) {
	e = ast.Unparen(e)
	if tv, ok := info.Types[e]; ok && tv.Value != nil && tv.Value.Kind() == constant.String {
		return constant.StringVal(tv.Value), true
	}
	if ce, ok := e.(*ast.CallExpr); ok && len(ce.Args) == 1 {
		if tv, ok := info.Types[ce.Args[0]]; ok && tv.Value != nil && tv.Value.Kind() == constant.String {
			return constant.StringVal(tv.Value), true
		}
	}
	return "", false
}

// R04.34: the alpha of an eight-digit hex colour is dropped or replaced only when both of its digits were examined.
func (c *Ctx) r0434(pk *packages.Package) {
	const rule = "R04.34"
	c.R.Rule(rule, "`#rrggbbaa` has two alpha digits; `#ff00000c` is a faint red, not the transparent black `#0000`. In css.minifyColor every assignment to the local that holds the colour's bytes which is dominated by the true outcome of `len(data) == 9` — the opaque colour `data[:7]`, the transparent black, the four-digit form — is dominated, for each of the two alpha positions 7 and 8, by an outcome that has compared that position for equality (with a constant or with the other position)")
	info := pk.TypesInfo
	fd := c.fn(rule, pk, "minifyColor")
	if fd == nil {
		return
	}
	g := c.graph(pk, fd)
	// outcome of an atom that holds an equality: the true outcome of `==`, the false outcome of `!=`
	holdsEq := func(q *flow.Node) *ast.BinaryExpr {
		if (q.Kind != flow.KTrue && q.Kind != flow.KFalse) || q.Of == nil || q.Of.Kind != flow.KCond {
			return nil
		}
		be, ok := ast.Unparen(q.Of.Expr).(*ast.BinaryExpr)
		if !ok {
			return nil
		}
		if be.Op == token.EQL && q.Kind == flow.KTrue || be.Op == token.NEQ && q.Kind == flow.KFalse {
			return be
		}
		return nil
	}
	n := 0
	for _, y := range g.Nodes {
		var lhs *ast.Ident
		if _, ok := assignsTo(y, func(l ast.Expr) bool {
			id, isId := ast.Unparen(l).(*ast.Ident)
			if isId && info.Uses[id] != nil {
				if sl, isSl := info.TypeOf(id).Underlying().(*types.Slice); isSl && types.TypeString(sl.Elem(), nil) == "byte" {
					lhs = id
					return true
				}
			}
			return false
		}); !ok {
			continue
		}
		obj := info.Uses[lhs]
		// dominated by len(<that local>) == 9 ?
		eight := false
		examined := map[int64]bool{}
		for _, q := range g.Nodes {
			be := holdsEq(q)
			if be == nil || !g.Dominates(q, y) {
				continue
			}
			for _, side := range [][2]ast.Expr{{be.X, be.Y}, {be.Y, be.X}} {
				if call, isCall := ast.Unparen(side[0]).(*ast.CallExpr); isCall && len(call.Args) == 1 && nospace(str(call.Fun)) == "len" && mentionsObject(info, call.Args[0], obj) {
					if k, isK := intConst(info, side[1]); isK && k == 9 {
						eight = true
					}
				}
				if ix, isIx := ast.Unparen(side[0]).(*ast.IndexExpr); isIx && mentionsObject(info, ix.X, obj) {
					if k, isK := intConst(info, ix.Index); isK {
						examined[k] = true
					}
				}
			}
		}
		if !eight {
			continue
		}
		n++
		var missing []string
		for _, k := range []int64{7, 8} {
			if !examined[k] {
				missing = append(missing, fmt.Sprintf("%s[%d]", lhs.Name, k))
			}
		}
		c.R.Check(len(missing) == 0, rule, fmt.Sprintf("css.minifyColor/%s = %s of an eight-digit colour examines both alpha digits", lhs.Name, nospace(str(y.Stmt.(*ast.AssignStmt).Rhs[0]))), c.pos(y.Stmt), "equalities on positions 7 and 8 dominate the assignment",
			"the alpha of `#rrggbbaa` is dropped or replaced although "+strings.Join(missing, " and ")+" was not examined on the way: `a{color:#ff00000c}` (alpha 0c, faintly visible) becomes `#0000`, `#ff0000f0` would lose its alpha")
	}
	c.R.Floor(rule, "rewrites of an eight-digit hex colour", n, 3)
}
