package rules

import (
	"fmt"
	"go/ast"
	"go/constant"
	"go/token"
	"go/types"
	"sort"
	"regexp"
	"strings"

	"golang.org/x/tools/go/packages"

	"verif/checker/internal/flow"
	"verif/checker/internal/load"
	"verif/checker/internal/eval"
	"verif/checker/internal/ref"
)

func init() {
	mutant(&Mutant{Name: "c03-space-dropped-after-template", Property: "C03", File: "html/html.go",
		Old: "\t\t\topenColgroup := inColgroup // the end tag of the previous colgroup is missing\n", New: "\t\t\tif t.Hash == Template {\n\t\t\t\tomitSpace = true\n\t\t\t}\n\t\t\topenColgroup := inColgroup // the end tag of the previous colgroup is missing\n",
		Rule: "R03.19", Construct: "only after a block-level tag"})
	register(&Property{
		ID:    "C03",
		Level: "other",
		Explain: "Tree equality under the HTML5 tree builder is a runtime notion and not decided. Three local clauses are: (R03.1) inside the text-token case the whitespace/entity rewriting calls are unreachable while inside a raw-text element (rawTagHash != 0) or inside pre, i.e. such content reaches the writer or the embedded minifier unmodified; " +
			"(R03.2) end-tag omission is default-deny for unknown elements: every guard that licenses omitting an end tag and reads the next token's traits is evaluated as a boolean function over the finite domain token kind × trait bits and must be false for an element the minifier knows nothing about (Traits = 0); the unconditional omission sets are subsets of the HTML standard's optional-tag lists; " +
			"(R03.3) every attribute value written after `=` is the result of the one quoting routine html.EscapeAttrVal. The trait tables themselves are decided under C17. Not covered: whitespace significance per document, optional-tag inference in every parent context, `</script` inside script text.",
		Run: runC03,
	})
	mutant(&Mutant{Name: "c03-anchor-name-dropped-ignoring-case", Property: "C03", File: "html/html.go",
		Old: "if bytes.Equal(id.AttrVal, name.AttrVal) {", New: "if bytes.EqualFold(id.AttrVal, name.AttrVal) {",
		Rule: "R03.10", Construct: "dropped as a duplicate"})
	mutant(&Mutant{Name: "c03-pre-newline-removed-in-advance", Property: "C03", File: "html/html.go",
		Old: "\t\t\t// keep space after phrasing tags (<i>, <span>, ...) FontAwesome etc.\n", New: "\t\t\tif t.Hash == Pre {\n\t\t\t\tif next := tb.Peek(0); next.TokenType == html.TextToken && 0 < len(next.Data) && next.Data[0] == '\\n' {\n\t\t\t\t\tnext.Data = next.Data[1:]\n\t\t\t\t}\n\t\t\t}\n\t\t\t// keep space after phrasing tags (<i>, <span>, ...) FontAwesome etc.\n",
		Rule: "R03.5", Construct: "rewritten ahead of its turn"})
	mutant(&Mutant{Name: "c03-end-tag-omitted-before-template", Property: "C03", File: "html/html.go",
		Old: "if next.TokenType == html.StartTagToken && (next.Hash == Script || next.Hash == Template) {\n\t\t\t\t\t\t\tomitEndTag = false", New: "if next.TokenType == html.StartTagToken && next.Hash == Style {\n\t\t\t\t\t\t\tomitEndTag = false",
		Rule: "R03.11", Construct: "not in front of script or template"})
	mutant(&Mutant{Name: "c03-empty-colgroup-dropped", Property: "C03", File: "html/html.go",
		Old: "keepTag = next.TokenType != html.StartTagToken || next.Hash != Col", New: "keepTag = false",
		Rule: "R03.9", Construct: "colgroup tag dropped"})
	mutant(&Mutant{Name: "c03-body-start-dropped-before-script", Property: "C03", File: "html/html.go",
		Old: "next.Hash == Link || next.Hash == Script || next.Hash == Style", New: "next.Hash == Link || next.Hash == Style",
		Rule: "R03.8", Construct: "body start tag dropped"})
	mutant(&Mutant{Name: "c03-rt-end-tag-dropped-blindly", Property: "C03", File: "html/html.go",
		Old: "t.Hash == Td || t.Hash == Option || t.Hash == Dd || t.Hash == Dt || t.Hash == Li {", New: "t.Hash == Td || t.Hash == Option || t.Hash == Dd || t.Hash == Dt || t.Hash == Li || t.Hash == Rt {",
		Rule: "R03.2", Construct: "needs no look-ahead"})
	mutant(&Mutant{Name: "c03-p-end-tag-decision-as-switch", Property: "C03", File: "html/html.go",
		Old: "\t\t\t\t\t\t\tif next.TokenType == html.ErrorToken || next.TokenType == html.EndTagToken && next.Traits != 0 && next.Traits&keepPTag == 0 || next.TokenType == html.StartTagToken && next.Traits&omitPTag != 0 {\n\t\t\t\t\t\t\t\tomitEndTag = true // omit p end tag\n\t\t\t\t\t\t\t}\n", New: "\t\t\t\t\t\t\tswitch next.TokenType {\n\t\t\t\t\t\t\tcase html.ErrorToken:\n\t\t\t\t\t\t\t\tomitEndTag = true\n\t\t\t\t\t\t\tcase html.EndTagToken:\n\t\t\t\t\t\t\t\tomitEndTag = next.Traits&keepPTag == 0\n\t\t\t\t\t\t\tcase html.StartTagToken:\n\t\t\t\t\t\t\t\tomitEndTag = next.Traits&omitPTag != 0\n\t\t\t\t\t\t\t}\n",
		Rule: "R03.2", Construct: "assigned condition"})
	mutant(&Mutant{Name: "c03-every-type-attribute-lowercased", Property: "C03", File: "html/html.go",
		Old: "attr.Hash == Type && (t.Hash == A || t.Hash == Link || t.Hash == Embed || t.Hash == Object || t.Hash == Source || t.Hash == Script) {", New: "attr.Hash == Type {",
		Rule: "R03.7", Construct: "Mediatype applied"})
	mutant(&Mutant{Name: "c03-checkbox-empty-value-dropped", Property: "C03", File: "html/html.go",
		Old: "isOnOff := parse.EqualFold(t.AttrVal, radioBytes) || parse.EqualFold(t.AttrVal, checkboxBytes)", New: "isOnOff := parse.EqualFold(t.AttrVal, radioBytes)",
		Rule: "R03.6", Construct: "input value removal"})
	mutant(&Mutant{Name: "c03-attribute-pointers-taken-while-peeking", Property: "C03", File: "html/buffer.go",
		Old: "\tfor i := z.pos; i < z.pos+n; i++ {\n\t\tattr := &z.buf[i]\n", New: "\tfor i := 0; i < n; i++ {\n\t\tattr := z.Peek(i)\n",
		Rule: "R03.5", Construct: "token pointers are not kept"})
	mutant(&Mutant{Name: "c03-peek-reuse-without-compaction", Property: "C03", File: "html/buffer.go",
		Old: "\t\t} else {\n\t\t\tbuf = z.buf\n\t\t}\n\t\tcopy(buf[:d], z.buf[z.pos:])\n", New: "\t\t\tcopy(buf[:d], z.buf[z.pos:])\n\t\t} else {\n\t\t\tbuf = z.buf\n\t\t}\n",
		Rule: "R03.5", Construct: "unread tokens moved"})
	mutant(&Mutant{Name: "c03-raw-template-rewritten", Property: "C03", File: "html/html.go",
		Old: "\t\t\t} else if inPre || rawTagHash != 0 {", New: "\t\t\t} else if inPre {",
		Rule: "R03.1", Construct: "raw text"})
	mutant(&Mutant{Name: "c03-pre-collapsed", Property: "C03", File: "html/html.go",
		Old: "\t\t\t} else if inPre || rawTagHash != 0 {", New: "\t\t\t} else if inPre && len(t.Data) < 4 || rawTagHash != 0 {",
		Rule: "R03.1", Construct: "in pre"})
	mutant(&Mutant{Name: "c03-p-before-unknown-end", Property: "C03", File: "html/html.go",
		Old: "next.TokenType == html.EndTagToken && next.Traits != 0 && next.Traits&keepPTag == 0", New: "next.TokenType == html.EndTagToken && next.Traits&keepPTag == 0",
		Rule: "R03.2", Construct: "omitEndTag"})
	mutant(&Mutant{Name: "c03-omit-span-end", Property: "C03", File: "html/html.go",
		Old: "t.Hash == Rb || t.Hash == Rt || t.Hash == Rtc || t.Hash == Rp {", New: "t.Hash == Rb || t.Hash == Rt || t.Hash == Rtc || t.Hash == Rp || t.Hash == Span {",
		Rule: "R03.2", Construct: "enclosing element set"})
	mutant(&Mutant{Name: "c03-omit-span-end-blindly", Property: "C03", File: "html/html.go",
		Old: "t.Hash == Td || t.Hash == Option || t.Hash == Dd || t.Hash == Dt || t.Hash == Li {", New: "t.Hash == Td || t.Hash == Option || t.Hash == Dd || t.Hash == Dt || t.Hash == Li || t.Hash == Span {",
		Rule: "R03.2", Construct: "unconditional"})
	mutant(&Mutant{Name: "c03-lookahead-skips-template", Property: "C03", File: "html/html.go",
		Old: "\t\t\t\t\t\t\tif next.TokenType == html.TextToken && parse.IsAllWhitespace(next.Data) {\n\t\t\t\t\t\t\t\tcontinue\n", New: "\t\t\t\t\t\t\tif next.TokenType == html.TextToken && parse.IsAllWhitespace(next.Data) || next.TokenType == html.TemplateToken {\n\t\t\t\t\t\t\t\tcontinue\n",
		Rule: "R03.4", Construct: "look-ahead skips TemplateToken"})
	mutant(&Mutant{Name: "c03-table-section-end-omitted-before-row", Property: "C03", File: "html/html.go",
		Old: "next.TokenType == html.StartTagToken && (next.Hash == Thead || next.Hash == Tbody || next.Hash == Tfoot) {", New: "next.TokenType == html.StartTagToken && (next.Hash == Thead || next.Hash == Tbody || next.Hash == Tfoot || next.Hash == Tr) {",
		Rule: "R03.2", Construct: "table section followed by a tag that closes it"})
	mutant(&Mutant{Name: "c03-table-section-end-omitted-blindly", Property: "C03", File: "html/html.go",
		Old: "\t\t\t\t\tif t.Hash == Tr || t.Hash == Th || t.Hash == Td ||", New: "\t\t\t\t\tif t.Hash == Tbody || t.Hash == Tr || t.Hash == Th || t.Hash == Td ||",
		Rule: "R03.2", Construct: "needs no look-ahead"})
	mutant(&Mutant{Name: "c03-veto-does-not-look-past-comments", Property: "C03", File: "html/html.go",
		Old: "for next.TokenType == html.TextToken && parse.IsAllWhitespace(next.Data) || next.TokenType == html.CommentToken && !o.KeepComments && !o.KeepSpecialComments {", New: "for next.TokenType == html.TextToken && parse.IsAllWhitespace(next.Data) {",
		Rule: "R03.14", Construct: "looks past comments"})
	mutant(&Mutant{Name: "c03-option-text-dropped-outside-select", Property: "C03", File: "html/html.go",
		Old: "\t\t\t\tif inSelect && (t.Hash == Option || t.Hash == Optgroup) {", New: "\t\t\t\tif t.Hash == Option || t.Hash == Optgroup {",
		Rule: "R03.13", Construct: "only inside a select element"})
	mutant(&Mutant{Name: "c03-option-end-tag-blind-outside-select", Property: "C03", File: "html/html.go",
		Old: "t.Hash == Option && inSelect || t.Hash == Dd", New: "t.Hash == Option || t.Hash == Dd",
		Rule: "R03.2", Construct: "needs no look-ahead"})
	mutant(&Mutant{Name: "c03-colgroup-start-dropped-after-open-colgroup", Property: "C03", File: "html/html.go",
		Old: "keepTag = next.TokenType != html.StartTagToken || next.Hash != Col || openColgroup\n", New: "keepTag = next.TokenType != html.StartTagToken || next.Hash != Col\n\t\t\t\t\t\t\t_ = openColgroup\n",
		Rule: "R03.15", Construct: "colgroup start tag kept while a colgroup is open"})
	mutant(&Mutant{Name: "c03-optgroup-lookahead-stops-at-comment", Property: "C03", File: "html/html.go",
		Old: "if next.TokenType == html.TextToken || next.TokenType == html.CommentToken {\n\t\t\t\t\t\t\t\tcontinue", New: "if next.TokenType == html.TextToken {\n\t\t\t\t\t\t\t\tcontinue",
		Rule: "R03.17", Construct: "optgroup look-ahead#1 steps over comments"})
	mutant(&Mutant{Name: "c03-veto-skips-comments-by-own-predicate", Property: "C03", File: "html/html.go",
		Old: "next.TokenType == html.CommentToken && !o.KeepComments && !o.KeepSpecialComments {", New: "next.TokenType == html.CommentToken && !o.KeepComments && (!o.KeepSpecialComments || len(next.Text) < 2) {",
		Rule: "R03.14", Construct: "skips only comments that are never written"})
	mutant(&Mutant{Name: "c03-attr-unescaped", Property: "C03", File: "html/html.go",
		Old: "\t\t\t\t\t\tval = html.EscapeAttrVal(&attrByteBuffer, val, quote, o.KeepQuotes || isXML)\n", New: "\t\t\t\t\t\tif quote != 0 || len(val) > 3 {\n\t\t\t\t\t\t\tval = html.EscapeAttrVal(&attrByteBuffer, val, quote, o.KeepQuotes || isXML)\n\t\t\t\t\t\t}\n",
		Rule: "R03.3", Construct: "attribute value"})
}

func runC03(c *Ctx) {
	defer c.tokenBuffer("R03.5", "html")
	defer c.alsoUnder(map[string]string{"R13.1": "R03.24"}, func(construct string) bool { return strings.Contains(construct, "html.") || strings.HasPrefix(construct, "floor/") }, func() { c.r131() })
	defer c.r036()
	defer c.r037()
	pk := c.pkg("R03", "html")
	if pk == nil {
		return
	}
	fd := c.fn("R03", pk, "Minifier.Minify")
	if fd == nil {
		return
	}
	c.r031(pk, fd)
	c.r032(pk, fd)
	c.r038(pk, fd)
	c.r0310(pk, fd)
	c.r0311(pk, fd)
	c.r0313(pk, fd)
	c.r0314(pk, fd)
	c.r0315(pk, fd)
	c.r0317(pk, fd)
	c.r0319(pk, fd)
	c.r0320(pk, fd)
	c.r0321(pk, fd)
	c.r0322(pk, fd)
	c.r0323(pk, fd)
	c.r0325(pk)
	c.r0326(pk, fd)
	c.r0327(pk, fd)
	c.r0328(pk)
	// an attribute wrongly marked boolean loses its value: the table check of C17, restricted to the attribute traits
	// an attribute value that holds code decodes to the same value only if the code was minified as the browser reads it
	c.alsoUnder(map[string]string{"R11.9": "R03.16"}, nil, func() { c.r119() })
	// a script whose string literal contains a live `</script` is cut short by the HTML parser
	if jp := c.P.Pkg("js"); jp != nil {
		c.r0920(jp, "R03.18")
	}
	c.alsoUnder(map[string]string{"R17.htmltraits": "R03.12"}, func(construct string) bool { return strings.HasPrefix(construct, "html.attrMap[") || strings.HasPrefix(construct, "floor/attrMap") }, func() { c.ruleHTMLTraits() })
	c.r033(pk, fd)
	c.r034(pk, fd)
}

// R03.4: the end-tag-omission look-ahead only skips tokens that leave no trace in the output.
func (c *Ctx) r034(pk *packages.Package, fd *ast.FuncDecl) {
	const rule = "R03.4"
	c.R.Rule(rule, "in the look-ahead loops that decide end-tag omission (loops over tb.Peek(i) that contain `omitEndTag = true`), the true outcome of a test next.TokenType == html.X may lead to the loop's `continue` (token skipped, decision taken on a later token) only for X = TextToken (whitespace-only / ignored text), and for X = CommentToken only if that outcome is unreachable when o.KeepComments or o.KeepSpecialComments is set — or if the decision is afterwards subject to the veto that keeps the end tag in front of any comment that may be written (R03.14): a token that is written to the output stands between the omitted end tag and the token the decision was based on, and the tree builder does not close the element on it")
	info := pk.TypesInfo
	g := c.graph(pk, fd)
	loops := 0
	ast.Inspect(fd.Body, func(x ast.Node) bool {
		fs, ok := x.(*ast.ForStmt)
		if !ok {
			return true
		}
		hasOmit := flow.Contains(fs.Body, func(y ast.Node) bool {
			as, ok := y.(*ast.AssignStmt)
			return ok && len(as.Lhs) == 1 && str(as.Lhs[0]) == "omitEndTag"
		})
		hasPeek := flow.Contains(fs.Body, func(y ast.Node) bool {
			call, ok := y.(*ast.CallExpr)
			return ok && strings.HasSuffix(str(call.Fun), ".Peek")
		})
		if !hasOmit || !hasPeek || flow.Contains(fs.Body, func(y ast.Node) bool { f2, ok := y.(*ast.ForStmt); return ok && f2 != fs }) {
			return true
		}
		loops++
		inLoop := func(n *flow.Node) bool {
			a := n.Ast()
			if a == nil && n.Of != nil {
				a = n.Of.Ast()
			}
			return a == nil || fs.Body.Pos() <= a.Pos() && a.End() <= fs.Body.End()
		}
		isCont := func(y *flow.Node) bool {
			b, ok := y.Stmt.(*ast.BranchStmt)
			return y.Kind == flow.KStmt && ok && b.Tok == token.CONTINUE && inLoop(y)
		}
		for _, n := range g.Nodes {
			if n.Kind != flow.KCond || !inLoop(n) {
				continue
			}
			b, ok := ast.Unparen(n.Expr).(*ast.BinaryExpr)
			if !ok || b.Op != token.EQL || !strings.HasSuffix(str(b.X), ".TokenType") {
				continue
			}
			tok := tokenName(b.Y)
			var tn *flow.Node
			for _, s := range n.Succs {
				if s.Kind == flow.KTrue {
					tn = s
				}
			}
			isOtherTokTest := func(y *flow.Node) bool {
				if y.Kind != flow.KCond || y == n {
					return false
				}
				bb, ok := ast.Unparen(y.Expr).(*ast.BinaryExpr)
				return ok && strings.HasSuffix(str(bb.X), ".TokenType")
			}
			p := g.Path(flow.Search{From: []*flow.Node{tn}, Goal: isCont, Avoid: func(y *flow.Node) bool { return !inLoop(y) || isOtherTokTest(y) }})
			if p == nil {
				continue
			}
			construct := fmt.Sprintf("html.Minifier.Minify/%s/look-ahead skips %s", c.caseLabel(fs), tok)
			switch tok {
			case "TextToken":
				c.R.OK(rule, construct, c.pos(n.Expr), "whitespace-only / ignored text leaves no trace")
			case "CommentToken":
				bad := ""
				for _, key := range []string{"o.KeepComments", "o.KeepSpecialComments"} {
					if pp := unreachableWhen(g, tn, key, true); pp != nil {
						bad = key
					}
				}
				if bad != "" {
					// a veto behind the loop that keeps the end tag whenever a comment follows (R03.14) covers the kept ones
					ast.Inspect(fd.Body, func(z ast.Node) bool {
						vi, ok := z.(*ast.IfStmt)
						if !ok || vi.Pos() < fs.End() {
							return true
						}
						vc := nospace(str(vi.Cond))
						if !strings.Contains(vc, ".TokenType==html.CommentToken") || !strings.Contains(vc, ".Hash==Script") {
							return true
						}
						clears := false
						for _, b := range vi.Body.List {
							if as, ok := b.(*ast.AssignStmt); ok && len(as.Lhs) == 1 && str(as.Lhs[0]) == "omitEndTag" && str(as.Rhs[0]) == "false" {
								clears = true
							}
						}
						// same chain: the veto is in the block that contains the if-chain of this loop
						if clears {
							for p := c.P.Parent(fs); p != nil; p = c.P.Parent(p) {
								if blk, ok := p.(*ast.BlockStmt); ok && blk.Pos() <= vi.Pos() && vi.End() <= blk.End() {
									bad = ""
									break
								}
								if _, isCase := p.(*ast.CaseClause); isCase {
									break
								}
							}
						}
						return true
					})
					if bad == "" {
						c.R.OK(rule, construct, c.pos(n.Expr), "kept comments fall under the veto behind the look-ahead (R03.14)")
						continue
					}
				}
				c.R.Check(bad == "", rule, construct, c.pos(n.Expr), "only when comments are dropped", "a comment that is kept in the output ("+bad+") is skipped by the look-ahead: `<div><p>x</p><!--c--></div>` loses </p> and the comment re-parses inside the paragraph")
			default:
				c.R.Bad(rule, construct, c.pos(n.Expr), "a "+tok+" is skipped when deciding whether the end tag may be omitted, although it is written to the output between the omitted end tag and the token the decision is based on")
			}
		}
		return true
	})
	c.R.Floor(rule, "end-tag look-ahead loops", loops, 2)
	_ = info
}

func (c *Ctx) r031(pk *packages.Package, fd *ast.FuncDecl) {
	const rule = "R03.1"
	c.R.Rule(rule, "in the TextToken case of html.(*Minifier).Minify every call that rewrites the text (parse.ReplaceMultipleWhitespaceAndEntities / ReplaceMultipleWhitespace / ReplaceEntities / TrimWhitespace on t.Data, and every reslice assignment of t.Data) is unreachable from the case entry under the stipulation rawTagHash != 0, and unreachable under the stipulation inPre (neither variable is assigned inside the case)")
	info := pk.TypesInfo
	g := c.graph(pk, fd)
	var start *flow.Node
	for _, y := range g.Nodes {
		if y.Kind == flow.KTrue && y.Of.Kind == flow.KCase && str(y.Of.Expr) == "html.TextToken" {
			start = y
		}
	}
	if start == nil {
		c.R.Unres(rule, "html.Minifier.Minify/case html.TextToken", c.pos(fd), "case not found")
		return
	}
	// region = nodes of the case
	inCase := func(n *flow.Node) bool {
		a := n.Ast()
		return a != nil && c.caseLabel(a) == "case html.TextToken"
	}
	// the state variables are not assigned inside the case
	for _, v := range []string{"rawTagHash", "inPre"} {
		for _, n := range g.Nodes {
			if _, ok := assignsTo(n, func(l ast.Expr) bool { return str(l) == v }); ok && inCase(n) {
				c.R.Unres(rule, "html.Minifier.Minify/case html.TextToken/"+v+" stable", c.pos(n.Stmt), v+" is assigned inside the text case; the stipulation used by this rule does not hold")
			}
		}
	}
	k := 0
	for _, n := range g.Nodes {
		a := n.Ast()
		if a == nil || n.Kind == flow.KSelect || n.Kind == flow.KRange || !inCase(a2n(n)) {
			continue
		}
		rewrite := ""
		for _, call := range findCalls(info, a, false, load.ParseMod+".ReplaceMultipleWhitespaceAndEntities", load.ParseMod+".ReplaceMultipleWhitespace", load.ParseMod+".ReplaceEntities", load.ParseMod+".TrimWhitespace") {
			if len(call.Args) > 0 && str(call.Args[0]) == "t.Data" {
				rewrite = str(call.Fun)
			}
		}
		if rhs, ok := assignsTo(n, func(l ast.Expr) bool { return str(l) == "t.Data" }); ok && strings.HasPrefix(nospace(str(rhs)), "t.Data[") {
			rewrite = "trim " + str(rhs)
		}
		if rewrite == "" {
			continue
		}
		k++
		for _, st := range []struct{ key, what, why string }{
			{"rawTagHash != 0", "raw text", "the content of a script/style/textarea/… element (for instance one that contains a template and is therefore not handed to its minifier) is whitespace-collapsed and entity-decoded like ordinary text"},
			{"inPre", "pre", "text inside <pre> is whitespace-collapsed"},
		} {
			construct := fmt.Sprintf("html.Minifier.Minify/case html.TextToken/%s#%d unreachable in %s", rewrite, k, st.what)
			p := g.Path(flow.Search{From: []*flow.Node{start}, Goal: func(y *flow.Node) bool { return y == n }, AssumeRaw: map[string]bool{st.key: true}, Avoid: func(y *flow.Node) bool { return !inCaseOrVirtual(c, y) }})
			c.R.Check(p == nil, rule, construct, c.pos(a), "not reachable when "+st.key, st.why+": "+pathStr(c, g, p))
		}
	}
	c.R.Floor(rule, "text rewriting sites", k, 3)
}

func a2n(n *flow.Node) *flow.Node { return n }

// inCaseOrVirtual: stay inside the TextToken case (virtual nodes have no syntax and are allowed).
func inCaseOrVirtual(c *Ctx, y *flow.Node) bool {
	a := y.Ast()
	if a == nil {
		if y.Of != nil && y.Of.Ast() != nil {
			return c.caseLabel(y.Of.Ast()) == "case html.TextToken" || y.Of.Kind == flow.KCase
		}
		return true
	}
	return c.caseLabel(a) == "case html.TextToken"
}

// evalIntExpr evaluates an expression built from the abstract variables in env, integer constants,
// & | == != < <= > >= && || !.
func evalIntExpr(info *types.Info, e ast.Expr, env map[string]int64) (int64, bool) {
	e = ast.Unparen(e)
	if v, ok := env[nospace(str(e))]; ok {
		return v, true
	}
	if v, ok := intConst(info, e); ok {
		return v, true
	}
	b2i := func(b bool) int64 {
		if b {
			return 1
		}
		return 0
	}
	switch x := e.(type) {
	case *ast.UnaryExpr:
		if x.Op == token.NOT {
			v, ok := evalIntExpr(info, x.X, env)
			return b2i(v == 0), ok
		}
	case *ast.BinaryExpr:
		l, ok1 := evalIntExpr(info, x.X, env)
		if !ok1 {
			return 0, false
		}
		// short circuit so that unevaluable right operands do not matter when decided
		if x.Op == token.LAND && l == 0 {
			return 0, true
		}
		if x.Op == token.LOR && l != 0 {
			return 1, true
		}
		r, ok2 := evalIntExpr(info, x.Y, env)
		if !ok2 {
			return 0, false
		}
		switch x.Op {
		case token.LAND:
			return b2i(l != 0 && r != 0), true
		case token.LOR:
			return b2i(l != 0 || r != 0), true
		case token.AND:
			return l & r, true
		case token.OR:
			return l | r, true
		case token.EQL:
			return b2i(l == r), true
		case token.NEQ:
			return b2i(l != r), true
		case token.LSS:
			return b2i(l < r), true
		case token.LEQ:
			return b2i(l <= r), true
		case token.GTR:
			return b2i(l > r), true
		case token.GEQ:
			return b2i(l >= r), true
		}
	}
	return 0, false
}

func (c *Ctx) r032(pk *packages.Package, fd *ast.FuncDecl) {
	const rule = "R03.2"
	c.R.Rule(rule, "for every assignment `omitEndTag = true` in html.(*Minifier).Minify (or `omitEndTag = <condition over next>` — then the condition together with the enclosing if / `switch next.TokenType` guards is what is evaluated): if its guard reads next.Traits, the guard — evaluated over next.TokenType ∈ {Error, Text, StartTag, EndTag, Comment} × next.Traits ∈ {0, each single trait bit} — is false for (EndTag, Traits = 0) and (StartTag, Traits = 0): an element absent from tagMap (custom element, slot) never licenses omission; if its guard is a disjunction of t.Hash == K, every K is an element whose end tag the HTML standard allows to omit, and — the guard not looking at the next token — one after which a conforming document has nothing but a closing sibling or the parent's end (not rt/rp/rb/rtc: ruby base text follows them); the attribute-less tag removal set ⊆ elements whose start and end tags are both optional")
	info := pk.TypesInfo
	h := c.loadHash(rule, "html")
	if h == nil {
		return
	}
	dep := c.P.Dep(load.ParseMod + "/html")
	tok := func(name string) int64 {
		if k, ok := dep.Types.Scope().Lookup(name).(*types.Const); ok {
			v, _ := constantInt64(k)
			return v
		}
		return -1
	}
	tokens := map[string]int64{"Error": tok("ErrorToken"), "Text": tok("TextToken"), "StartTag": tok("StartTagToken"), "EndTag": tok("EndTagToken"), "Comment": tok("CommentToken")}
	traitNames := []string{"normalTag", "rawTag", "blockTag", "objectTag", "omitPTag", "keepPTag"}
	n := 0
	ast.Inspect(fd.Body, func(x ast.Node) bool {
		as, ok := x.(*ast.AssignStmt)
		if !ok || len(as.Lhs) != 1 || str(as.Lhs[0]) != "omitEndTag" || str(as.Rhs[0]) != "true" {
			return true
		}
		var ifs *ast.IfStmt
		for p := c.P.Parent(as); p != nil; p = c.P.Parent(p) {
			if i, ok := p.(*ast.IfStmt); ok && i.Body.Pos() <= as.Pos() && as.End() <= i.Body.End() {
				ifs = i
				break
			}
		}
		if ifs == nil {
			c.R.Bad(rule, "html.Minifier.Minify/omitEndTag unconditional", c.pos(as), "an end tag is omitted unconditionally")
			return true
		}
		n++
		// whatever the innermost guard looks at: every enclosing branch that selects elements by t.Hash names only
		// elements whose end tag is optional at all
		for p := c.P.Parent(ifs); p != nil; p = c.P.Parent(p) {
			outer, ok := p.(*ast.IfStmt)
			if !ok || outer.Body.Pos() > as.Pos() || as.End() > outer.Body.End() || !strings.Contains(str(outer.Cond), "t.Hash") {
				continue
			}
			if names, ok := c.hashDisjunction(info, h, outer.Cond, "t.Hash"); ok {
				var bad []string
				for _, nm := range names {
					if !ref.HTMLOptionalEndTag[nm] {
						bad = append(bad, nm)
					}
				}
				c.R.Check(len(bad) == 0, rule, fmt.Sprintf("html.Minifier.Minify/omitEndTag guard#%d enclosing element set", n), c.pos(outer.Cond), fmt.Sprintf("%d elements, all with an optional end tag", len(names)), "the end tag of "+strings.Join(bad, ", ")+" can be omitted (under a look-ahead condition), but the HTML standard never makes it optional: following content ends up inside the element")
			}
		}
		cond := ifs.Cond
		if strings.Contains(str(cond), "next.Traits") {
			construct := fmt.Sprintf("html.Minifier.Minify/omitEndTag guard#%d over next.Traits", n)
			var bad []string
			undecided := false
			for tn, tv := range tokens {
				traits := []int64{0}
				for _, t := range traitNames {
					traits = append(traits, c.traitBit(rule, pk, t))
				}
				for _, tr := range traits {
					v, ok := evalIntExpr(info, cond, map[string]int64{"next.TokenType": tv, "next.Traits": tr})
					if !ok {
						undecided = true
						continue
					}
					if tr == 0 && (tn == "EndTag" || tn == "StartTag") && v != 0 {
						bad = append(bad, fmt.Sprintf("true for (%s, Traits=0)", tn))
					}
				}
			}
			switch {
			case undecided:
				c.R.Unres(rule, construct, c.pos(cond), "guard is not a function of next.TokenType and next.Traits alone: "+str(cond))
			case len(bad) > 0:
				c.R.Bad(rule, construct, c.pos(cond), "the end tag is omitted next to an element the minifier knows nothing about ("+strings.Join(bad, ", ")+"): e.g. `<div><my-el><p>x</p></my-el>y</div>` re-parses with `y` inside the p element, because the unknown end tag is ignored while p is open")
			default:
				c.R.OK(rule, construct, c.pos(cond), "false for unknown elements (35 abstract cases evaluated)")
			}
			return true
		}
		if strings.Contains(str(cond), "next.Hash") || strings.Contains(str(cond), "next.TokenType") {
			// table sections: the start tags named by the look-ahead must be ones that close the section
			var sect []string
			for p := c.P.Parent(ifs); p != nil; p = c.P.Parent(p) {
				outer, ok := p.(*ast.IfStmt)
				if !ok || outer.Body.Pos() > as.Pos() || as.End() > outer.Body.End() {
					continue
				}
				if names, ok := c.hashDisjunction(info, h, outer.Cond, "t.Hash"); ok {
					sect = names
					break
				}
			}
			allSections := len(sect) > 0
			for _, nm := range sect {
				if nm != "thead" && nm != "tbody" && nm != "tfoot" {
					allSections = false
				}
			}
			if allSections {
				var named, bad []string
				negated := false
				ast.Inspect(cond, func(z ast.Node) bool {
					be, ok := z.(*ast.BinaryExpr)
					if !ok || str(be.X) != "next.Hash" {
						return true
					}
					if be.Op == token.NEQ {
						negated = true
					}
					if be.Op == token.EQL {
						if v, ok := intConst(info, be.Y); ok {
							if nm, ok := h.decode(v); ok {
								named = append(named, nm)
								if !ref.HTMLTableSectionClosers[nm] {
									bad = append(bad, nm)
								}
							}
						}
					}
					return true
				})
				c.R.Check(!negated && len(bad) == 0 && len(named) > 0, rule, fmt.Sprintf("html.Minifier.Minify/omitEndTag guard#%d table section followed by a tag that closes it", n), c.pos(cond), "next start tag ∈ {"+strings.Join(named, " ")+"}", "the end tag of a table section is omitted in front of "+strings.Join(bad, ", ")+" (or of everything but a named tag): a start tag that does not close the section — a `tr` — is parsed into it (`</thead><tr>` puts the body row into the thead)")
				return true
			}
			c.R.Exists(rule, fmt.Sprintf("html.Minifier.Minify/omitEndTag guard#%d (content-model dependent)", n), c.pos(cond), "reported, not judged: "+str(cond))
			return true
		}
		// disjunction of t.Hash == K
		construct := fmt.Sprintf("html.Minifier.Minify/omitEndTag guard#%d unconditional set", n)
		names, flagOf, ok := c.hashDisjunctionFlagged(info, h, cond, "t.Hash")
		if !ok {
			c.R.Unres(rule, construct, c.pos(cond), "guard shape not recognised: "+str(cond))
			return true
		}
		gFlags := c.graph(pk, fd)
		var bad []string
		for _, nm := range names {
			if !ref.HTMLOptionalEndTag[nm] {
				bad = append(bad, nm)
			}
		}
		c.R.Check(len(bad) == 0, rule, construct, c.pos(cond), fmt.Sprintf("%d elements, all with an optional end tag", len(names)), "the end tag of "+strings.Join(bad, ", ")+" is omitted, but the HTML standard does not make it optional: following content ends up inside the element")
		var blind []string
		for _, nm := range names {
			if ref.HTMLOptionalEndTag[nm] && !ref.HTMLEndTagOmissibleBlind[nm] {
				if in := ref.HTMLEndTagOmissibleBlindIn[nm]; in == "select" && c.selectFlag(info, gFlags, flagOf[nm]) {
					continue // blind inside that element only, and the disjunct is conjoined with its flag
				}
				blind = append(blind, nm)
			}
		}
		c.R.Check(len(blind) == 0, rule, construct+" needs no look-ahead", c.pos(cond), "only elements that nothing but a closing sibling or the parent's end can follow", "the end tag of "+strings.Join(blind, ", ")+" is omitted without looking at the next token, but in a conforming document text can follow it (`<ruby>漢<rt>kan</rt>字<rt>ji</rt></ruby>`): that text ends up inside the element")
		return true
	})
	// the same decision written as an assignment of a condition, possibly inside `switch next.TokenType`
	ast.Inspect(fd.Body, func(x ast.Node) bool {
		as, ok := x.(*ast.AssignStmt)
		if !ok || len(as.Lhs) != 1 || len(as.Rhs) != 1 || str(as.Lhs[0]) != "omitEndTag" {
			return true
		}
		rhs := str(as.Rhs[0])
		if rhs == "true" || rhs == "false" || !strings.Contains(rhs, "next.") {
			return true
		}
		n++
		construct := fmt.Sprintf("html.Minifier.Minify/omitEndTag guard#%d (assigned condition)", n)
		// enclosing guards up to the look-ahead loop
		type guard struct {
			cond ast.Expr
			want bool
			toks []ast.Expr // case list of switch next.TokenType
		}
		var guards []guard
		var child ast.Node = as
		for p := c.P.Parent(as); p != nil; p = c.P.Parent(p) {
			switch e := p.(type) {
			case *ast.IfStmt:
				if e.Body == child {
					guards = append(guards, guard{cond: e.Cond, want: true})
				} else if e.Else == child {
					guards = append(guards, guard{cond: e.Cond, want: false})
				}
			case *ast.CaseClause:
				if sw, ok := c.P.Parent(c.P.Parent(e)).(*ast.SwitchStmt); ok && sw.Tag != nil && str(sw.Tag) == "next.TokenType" {
					guards = append(guards, guard{toks: e.List})
				}
			case *ast.ForStmt, *ast.FuncDecl:
				p = nil
			}
			if p == nil {
				break
			}
			child = p
		}
		var bad []string
		undecided := false
		for tn, tv := range tokens {
			traits := []int64{0}
			for _, t := range traitNames {
				traits = append(traits, c.traitBit(rule, pk, t))
			}
			for _, tr := range traits {
				env := map[string]int64{"next.TokenType": tv, "next.Traits": tr}
				holds := true
				for _, gd := range guards {
					if gd.toks != nil {
						in := false
						for _, te := range gd.toks {
							if v, ok := intConst(info, te); ok && v == tv {
								in = true
							}
						}
						if !in {
							holds = false
						}
						continue
					}
					if !strings.Contains(str(gd.cond), "next.") {
						continue
					}
					v, ok := evalIntExpr(info, gd.cond, env)
					if !ok {
						undecided = true
						continue
					}
					if (v != 0) != gd.want {
						holds = false
					}
				}
				if !holds {
					continue
				}
				v, ok := evalIntExpr(info, as.Rhs[0], env)
				if !ok {
					undecided = true
					continue
				}
				if tr == 0 && (tn == "EndTag" || tn == "StartTag") && v != 0 {
					bad = append(bad, fmt.Sprintf("true for (%s, Traits=0)", tn))
				}
			}
		}
		switch {
		case undecided:
			c.R.Unres(rule, construct, c.pos(as), "the assigned condition is not a function of next.TokenType and next.Traits alone: "+rhs)
		case len(bad) > 0:
			c.R.Bad(rule, construct, c.pos(as), "the end tag is omitted next to an element the minifier knows nothing about ("+strings.Join(bad, ", ")+"): e.g. `<my-card><p>x</p></my-card><p>y</p>` re-parses with the second paragraph inside my-card, because the unknown end tag is ignored while p is open")
		default:
			c.R.OK(rule, construct, c.pos(as), "false for unknown elements")
		}
		return true
	})
	c.R.Floor(rule, "omitEndTag guards", n, 3)
	// attribute-less tag removal: the condition before the first `break` in the tag case that mentions KeepDocumentTags
	ast.Inspect(fd.Body, func(x ast.Node) bool {
		ifs, ok := x.(*ast.IfStmt)
		if !ok || !strings.Contains(str(ifs.Cond), "KeepDocumentTags") {
			return true
		}
		var names []string
		ast.Inspect(ifs.Cond, func(y ast.Node) bool {
			b, ok := y.(*ast.BinaryExpr)
			if ok && b.Op == token.EQL && str(b.X) == "t.Hash" {
				if v, ok := intConst(info, b.Y); ok {
					if nm, ok := h.decode(v); ok {
						names = append(names, nm)
					}
				}
			}
			return true
		})
		var bad []string
		for _, nm := range names {
			if !ref.HTMLOptionalBothTags[nm] {
				bad = append(bad, nm)
			}
		}
		c.R.Check(len(bad) == 0 && len(names) >= 3, rule, "html.Minifier.Minify/attribute-less tag removal set", c.pos(ifs.Cond), strings.Join(names, " "), "start and end tags of "+strings.Join(bad, ", ")+" are removed although the standard does not make both optional")
		return false
	})
}

// hashDisjunction: e is K1 || K2 … of `<lhs> == <Hash const>`; returns the decoded names.
func (c *Ctx) hashDisjunction(info *types.Info, h *hashTable, e ast.Expr, lhs string) ([]string, bool) {
	e = ast.Unparen(e)
	if b, ok := e.(*ast.BinaryExpr); ok {
		if b.Op == token.LOR {
			l, ok1 := c.hashDisjunction(info, h, b.X, lhs)
			r, ok2 := c.hashDisjunction(info, h, b.Y, lhs)
			return append(l, r...), ok1 && ok2
		}
		if b.Op == token.EQL && str(b.X) == lhs {
			if v, ok := intConst(info, b.Y); ok {
				if nm, ok := h.decode(v); ok {
					return []string{nm}, true
				}
			}
		}
	}
	return nil, false
}

// hashDisjunctionFlagged reads `t.Hash == A || t.Hash == B && flag || …` and `flag && (t.Hash == A || …)`: the element
// names and, per name, the boolean variable its disjunct is conjoined with (nil: none).
func (c *Ctx) hashDisjunctionFlagged(info *types.Info, h *hashTable, e ast.Expr, lhs string) ([]string, map[string]types.Object, bool) {
	flags := map[string]types.Object{}
	boolVar := func(x ast.Expr) types.Object {
		id, ok := ast.Unparen(x).(*ast.Ident)
		if !ok {
			return nil
		}
		o := info.Uses[id]
		if o == nil {
			return nil
		}
		if bt, ok := o.Type().Underlying().(*types.Basic); ok && bt.Info()&types.IsBoolean != 0 {
			return o
		}
		return nil
	}
	var walk func(x ast.Expr, flag types.Object) ([]string, bool)
	walk = func(x ast.Expr, flag types.Object) ([]string, bool) {
		x = ast.Unparen(x)
		if b, ok := x.(*ast.BinaryExpr); ok {
			switch b.Op {
			case token.LOR:
				l, ok1 := walk(b.X, flag)
				r, ok2 := walk(b.Y, flag)
				return append(l, r...), ok1 && ok2
			case token.LAND:
				if f := boolVar(b.Y); f != nil && flag == nil {
					return walk(b.X, f)
				}
				if f := boolVar(b.X); f != nil && flag == nil {
					return walk(b.Y, f)
				}
			case token.EQL:
				if str(b.X) == lhs {
					if v, ok := intConst(info, b.Y); ok {
						if nm, ok := h.decode(v); ok {
							flags[nm] = flag
							return []string{nm}, true
						}
					}
				}
			}
		}
		return nil, false
	}
	names, ok := walk(e, nil)
	return names, flags, ok
}

// selectFlag: a boolean variable that is only ever assigned false, or — under `t.Hash == Select` — true or the test
// `t.TokenType == html.StartTagToken`: it is true exactly between a select start tag and the next select end tag.
func (c *Ctx) selectFlag(info *types.Info, g *flow.Graph, o types.Object) bool {
	if o == nil {
		return false
	}
	n := 0
	for _, y := range g.Nodes {
		if y.Kind != flow.KStmt {
			continue
		}
		var rhs ast.Expr
		hit := false
		if as, ok := y.Stmt.(*ast.AssignStmt); ok {
			for i, l := range as.Lhs {
				if id, ok := l.(*ast.Ident); ok && info.ObjectOf(id) == o && i < len(as.Rhs) {
					hit, rhs = true, as.Rhs[i]
				}
			}
		}
		if !hit {
			continue
		}
		n++
		r := nospace(str(rhs))
		if r == "false" {
			continue
		}
		if r != "true" && r != "t.TokenType==html.StartTagToken" && r != "html.StartTagToken==t.TokenType" {
			return false
		}
		under := false
		for _, f := range g.DomFacts(y) {
			if f.Value && f.Test.Kind == flow.KCond {
				cs := nospace(str(f.Test.Expr))
				if cs == "t.Hash==Select" || cs == "Select==t.Hash" {
					under = true
				}
			}
		}
		if !under {
			return false
		}
	}
	return n >= 2
}

func (c *Ctx) r033(pk *packages.Package, fd *ast.FuncDecl) {
	const rule = "R03.3"
	c.R.Rule(rule, "in the attribute loop of html.(*Minifier).Minify, after the `=` is written (w.Write(isBytes)) every path to the next write passes `val = html.EscapeAttrVal(…)` and that next write is w.Write(val): there is one quoting routine and no attribute value bypasses it (attributes containing templates are written verbatim from the source before the `=` path is entered)")
	info := pk.TypesInfo
	g := c.graph(pk, fd)
	wObj := paramOfType(info, fd, "io.Writer")
	isWrite := func(y *flow.Node) (ast.Expr, bool) {
		a := y.Ast()
		if a == nil || y.Kind != flow.KStmt {
			return nil, false
		}
		var arg ast.Expr
		flowInspectCalls(a, func(call *ast.CallExpr) {
			if sel, ok := call.Fun.(*ast.SelectorExpr); ok && sel.Sel.Name == "Write" && len(call.Args) == 1 {
				if id, ok := ast.Unparen(sel.X).(*ast.Ident); ok && info.Uses[id] == wObj {
					arg = call.Args[0]
				}
			}
		})
		return arg, arg != nil
	}
	n := 0
	for _, y := range g.Nodes {
		arg, ok := isWrite(y)
		if !ok || !usesObj(info, arg, load.Mod+"/html.isBytes") {
			continue
		}
		n++
		construct := fmt.Sprintf("html.Minifier.Minify/attribute value after `=`#%d", n)
		escaped := func(z *flow.Node) bool {
			rhs, ok := assignsTo(z, func(l ast.Expr) bool { return str(l) == "val" })
			return ok && isCall(info, ast.Unparen(rhs), load.ParseMod+"/html.EscapeAttrVal") != nil
		}
		var bad []string
		// path to the next write avoiding the escape
		if p := g.Path(flow.Search{From: []*flow.Node{y}, Goal: func(z *flow.Node) bool { _, w := isWrite(z); return w }, Avoid: escaped}); p != nil {
			bad = append(bad, "an attribute value can be written without passing html.EscapeAttrVal (quotes / ambiguous ampersands are not handled): "+pathStr(c, g, p))
		}
		// the next write writes val
		for _, z := range g.Nodes {
			a2, w := isWrite(z)
			if !w || z == y {
				continue
			}
			// first write after y
			if g.Path(flow.Search{From: []*flow.Node{y}, Goal: func(q *flow.Node) bool { return q == z }, Avoid: func(q *flow.Node) bool { _, w := isWrite(q); return w && q != z }}) != nil {
				if str(a2) != "val" {
					bad = append(bad, "the write following `=` outputs "+str(a2)+", not the escaped value")
				}
			}
		}
		c.R.Check(len(bad) == 0, rule, construct, c.pos(y.Ast()), "escaped by html.EscapeAttrVal, then written", strings.Join(bad, "; "))
	}
	c.R.Floor(rule, "`=` writes", n, 1)
}

// R03.8: the body start tag is dropped only after a look at what it contains.
func (c *Ctx) r038(pk *packages.Package, fd *ast.FuncDecl) {
	c.tagDropLooksAhead(pk, fd, "R03.8", "Body", []string{"Meta", "Noscript", "Link", "Script", "Style", "Template"}, nil, true, "HTML §13.1.2.4: `A body element's start tag can be omitted … except if the first thing inside the body element is a meta, noscript, link, script, style, or template element` — the parser, still `in head` / `after head`, would put that element into the head and create the body after it (`<body><script>a</script>` → the script no longer runs with document.body present). In html.(*Minifier).Minify the `break` that drops an attribute-less html/head/body tag is reached, for a token that may be a Body start tag, only through a test of the look-ahead token's Hash against those six elements",
		"an attribute-less <body> start tag is dropped without looking at the first element inside: a script, style, meta, link, noscript or template that follows is parsed into the head instead")
	c.tagDropLooksAhead(pk, fd, "R03.9", "Colgroup", []string{"Col"}, []string{"Colgroup"}, false,
		"HTML §13.1.2.4: a colgroup element's start tag can be omitted only `if the first thing inside the colgroup element is a col element, and if the element is not immediately preceded by another colgroup element whose end tag has been omitted` (and never when the element is empty). In html.(*Minifier).Minify the `break` that drops an attribute-less colgroup tag is reached only through a test of the look-ahead token's Hash against Col (start tag: is there a col to re-create the element from; end tag: does another colgroup follow that it must be kept apart from)",
		"an attribute-less colgroup tag is dropped without looking at what follows: an empty `<colgroup></colgroup>` disappears, and `<colgroup><col class=a></colgroup><colgroup><col class=b></colgroup>` is merged into one column group")
}

// tagDropLooksAhead: the `break` that drops an attribute-less tag of element elem is only reached through a look-ahead test
// naming the elements `six` (startOnly: paths on which t is known not to be a start tag are exempt).
func (c *Ctx) tagDropLooksAhead(pk *packages.Package, fd *ast.FuncDecl, rule, elem string, six, alt []string, startOnly bool, text, msg string) {
	c.R.Rule(rule, text)
	info := pk.TypesInfo
	g := c.graph(pk, fd)
	// mentionsOther: expression text s compares the Hash of a token other than t with element k (either operand order)
	mentionsOther := func(s, k string) bool {
		for _, m := range regexp.MustCompile(`([A-Za-z_][A-Za-z0-9_.\[\]()]*)\.Hash[!=]=`+k+`\b|\b`+k+`[!=]=([A-Za-z_][A-Za-z0-9_.\[\]()]*)\.Hash`).FindAllStringSubmatch(s, -1) {
			who := m[1] + m[2]
			if who != "t" {
				return true
			}
		}
		return false
	}
	looksAhead := func(q *flow.Node) bool {
		if as, ok := q.Stmt.(*ast.AssignStmt); ok && q.Kind == flow.KStmt && len(as.Rhs) == 1 {
			// the verdict computed as a value: all six elements are named, on a token other than t
			s := nospace(str(as.Rhs[0]))
			all := func(names []string) bool {
				if len(names) == 0 {
					return false
				}
				for _, k := range names {
					if !mentionsOther(s, k) {
						return false
					}
				}
				return true
			}
			return all(six) || all(alt)
		}
		if q.Kind != flow.KCond {
			return false
		}
		s := nospace(str(q.Expr))
		for _, k := range append(append([]string{}, six...), alt...) {
			if mentionsOther(s, k) {
				return true
			}
		}
		return false
	}
	notBodyStart := func(q *flow.Node) bool {
		if (q.Kind != flow.KTrue && q.Kind != flow.KFalse) || q.Of == nil || q.Of.Kind != flow.KCond {
			return false
		}
		s := nospace(str(q.Of.Expr))
		t := q.Kind == flow.KTrue
		eq := func(a, b string) bool { return s == a+"=="+b || s == b+"=="+a }
		ne := func(a, b string) bool { return s == a+"!="+b || s == b+"!="+a }
		if eq("t.Hash", elem) && !t || ne("t.Hash", elem) && t {
			return true
		}
		// t.Hash equals another element: not the one in question
		if m := regexp.MustCompile(`^(?:t\.Hash==([A-Z][A-Za-z0-9_]*)|([A-Z][A-Za-z0-9_]*)==t\.Hash)$`).FindStringSubmatch(s); m != nil && t && m[1]+m[2] != elem {
			return true
		}
		return startOnly && (eq("t.TokenType", "html.StartTagToken") && !t || ne("t.TokenType", "html.StartTagToken") && t || eq("t.TokenType", "html.EndTagToken") && t)
	}
	n := 0
	for _, y := range g.Nodes {
		if y.Kind != flow.KCond || (nospace(str(y.Expr)) != "t.Hash=="+elem && nospace(str(y.Expr)) != elem+"==t.Hash") {
			continue
		}
		// only tests inside the removal condition (`!hasAttributes && (…)`): other tests of the element — state
		// tracking, end tag omission — do not decide whether the tag is written
		inRemoval := false
		for p := c.P.Parent(y.Expr); p != nil; p = c.P.Parent(p) {
			if ifs, ok := p.(*ast.IfStmt); ok {
				if ifs.Cond != nil && ifs.Cond.Pos() <= y.Expr.Pos() && y.Expr.End() <= ifs.Cond.End() && strings.Contains(str(ifs.Cond), "hasAttributes") {
					inRemoval = true
				}
				break
			}
		}
		if !inRemoval {
			continue
		}
		// the outcome nodes of this test inside the removal condition
		var from []*flow.Node
		for _, sc := range y.Succs {
			if sc.Kind == flow.KTrue {
				from = append(from, sc)
			}
		}
		if len(from) == 0 {
			continue
		}
		// is this the removal condition? some break must be reachable from it before the tag is written
		isBreak := func(q *flow.Node) bool {
			bs, ok := q.Stmt.(*ast.BranchStmt)
			return ok && q.Kind == flow.KStmt && bs.Tok == token.BREAK && bs.Label == nil
		}
		writesTag := func(q *flow.Node) bool {
			a := q.Ast()
			return a != nil && q.Kind == flow.KStmt && strings.Contains(nospace(str0(a)), "w.Write(t.Data)")
		}
		reach := g.Path(flow.Search{From: from, Goal: isBreak, Avoid: writesTag})
		if reach == nil {
			continue
		}
		n++
		p := g.Path(flow.Search{From: from, Goal: isBreak, Avoid: func(q *flow.Node) bool { return writesTag(q) || looksAhead(q) || notBodyStart(q) }})
		label := "body start tag"
		if elem != "Body" {
			label = strings.ToLower(elem) + " tag"
		}
		c.R.Check(p == nil, rule, fmt.Sprintf("html.Minifier.Minify/%s dropped#%d only after a look-ahead", label, n), c.pos(y.Expr), "a test of the next element against "+strings.ToLower(strings.Join(six, "/"))+" lies on every path", msg+": "+pathStr(c, g, p))
	}
	_ = info
	c.R.Floor(rule, "removal conditions naming "+elem, n, 1)
}

// R03.10: one attribute makes another redundant only when their values are the same bytes.
func (c *Ctx) r0310(pk *packages.Package, fd *ast.FuncDecl) {
	const rule = "R03.10"
	c.R.Rule(rule, "html.(*Minifier).Minify drops an attribute as a duplicate of another one (`<a id=x name=x>`: the name says nothing the id does not). IDs and names are compared case-sensitively by browsers (`#top` does not find `id=Top`), so the two values must be the same bytes: wherever an attribute is removed (`….Text = nil`) under a comparison of the AttrVal of two different attribute tokens, that comparison is bytes.Equal")
	info := pk.TypesInfo
	g := c.graph(pk, fd)
	n := 0
	for _, y := range g.Nodes {
		as, ok := y.Stmt.(*ast.AssignStmt)
		if !ok || y.Kind != flow.KStmt || len(as.Lhs) != 1 || len(as.Rhs) != 1 || !strings.HasSuffix(nospace(str(as.Lhs[0])), ".Text") || !isNilExpr(as.Rhs[0]) {
			continue
		}
		for _, f := range g.DomFacts(y) {
			if !f.Value || f.Test.Kind != flow.KCond {
				continue
			}
			call, ok := ast.Unparen(f.Test.Expr).(*ast.CallExpr)
			if !ok || len(call.Args) != 2 {
				continue
			}
			a0, a1 := nospace(str(call.Args[0])), nospace(str(call.Args[1]))
			if !strings.HasSuffix(a0, ".AttrVal") || !strings.HasSuffix(a1, ".AttrVal") || a0 == a1 {
				continue
			}
			n++
			cn := calleeName(info, call)
			c.R.Check(cn == "bytes.Equal", rule, fmt.Sprintf("html.Minifier.Minify/%s dropped as a duplicate#%d", nospace(str(as.Lhs[0])), n), c.pos(call), "bytes.Equal of the two values", "an attribute is removed because "+cn+" calls its value the same as another attribute's: values that differ (in case) are different names — `<a id=Top name=top>` loses the anchor `top`")
		}
	}
	c.R.Floor(rule, "attributes dropped as duplicates of another attribute", n, 1)
}

// R03.11: an omitted end tag is not followed by a script-supporting element.
func (c *Ctx) r0311(pk *packages.Package, fd *ast.FuncDecl) {
	const rule = "R03.11"
	c.R.Rule(rule, "script and template elements may appear wherever the content model lists `script-supporting elements`: between list items, table rows and cells, options, definition terms. An end tag that is omitted in front of one makes it a child of the element that was to be closed (`<ul><li>a</li><script>x</script></ul>` → the script inside the li). For every `omitEndTag = true` in html.(*Minifier).Minify: either the guards over the next token that enclose it — evaluated for a script and for a template start tag with the traits the table gives them — are false, or every path from the assignment to the test of omitEndTag passes a comparison of the next token's Hash with Script and Template")
	info := pk.TypesInfo
	g := c.graph(pk, fd)
	h := c.loadHash(rule, "html")
	m, _ := c.tableMap(rule, "html", "tagMap")
	dep := c.P.Dep(load.ParseMod + "/html")
	if h == nil || m == nil || dep == nil {
		return
	}
	startTag := int64(-1)
	if k, ok := dep.Types.Scope().Lookup("StartTagToken").(*types.Const); ok {
		startTag, _ = constantInt64(k)
	}
	traitsOf := func(name string) int64 {
		for _, e := range m.Entries {
			kv, _ := e.Key.(int64)
			if nm, ok := h.decode(kv); ok && nm == name {
				tv, _ := e.Value.(int64)
				return tv
			}
		}
		return 0
	}
	mentionsOther := func(s, k string) bool {
		for _, mm := range regexp.MustCompile(`([A-Za-z_][A-Za-z0-9_.\[\]()]*)\.Hash[!=]=`+k+`\b|\b`+k+`[!=]=([A-Za-z_][A-Za-z0-9_.\[\]()]*)\.Hash`).FindAllStringSubmatch(s, -1) {
			if mm[1]+mm[2] != "t" {
				return true
			}
		}
		return false
	}
	// (the last test of the flag in source order: the one that decides whether the tag is written; an earlier test of
	// the flag may belong to the veto itself)
	var use []*flow.Node
	for _, q := range g.Nodes {
		if q.Kind == flow.KCond && strings.Contains(nospace(str(q.Expr)), "omitEndTag") {
			if len(use) == 0 || q.Expr.Pos() > use[0].Expr.Pos() {
				use = []*flow.Node{q}
			}
		}
	}
	veto := func(q *flow.Node) bool {
		// the next token is known not to be a start tag at all
		if (q.Kind == flow.KFalse || q.Kind == flow.KTrue) && q.Of != nil && q.Of.Kind == flow.KCond {
			cs := nospace(str(q.Of.Expr))
			// (the flag was just set: the false outcome of a plain test of it is infeasible on this path, and the only
			// statements that clear it lie behind the comparison with script / template)
			if cs == "omitEndTag" && q.Kind == flow.KFalse && (len(use) == 0 || q.Of != use[0]) {
				return true
			}
			if mm := regexp.MustCompile(`^([A-Za-z_][A-Za-z0-9_.]*)\.TokenType([!=]=)html\.StartTagToken$|^html\.StartTagToken([!=]=)([A-Za-z_][A-Za-z0-9_.]*)\.TokenType$`).FindStringSubmatch(cs); mm != nil && mm[1]+mm[4] != "t" {
				op := mm[2] + mm[3]
				if op == "==" && q.Kind == flow.KFalse || op == "!=" && q.Kind == flow.KTrue {
					return true
				}
			}
		}
		var s string
		if q.Kind == flow.KCond {
			s = nospace(str(q.Expr))
		} else if as, ok := q.Stmt.(*ast.AssignStmt); ok && q.Kind == flow.KStmt && len(as.Rhs) == 1 {
			s = nospace(str(as.Rhs[0]))
		}
		return s != "" && (mentionsOther(s, "Script") || mentionsOther(s, "Template"))
	}
	// the test of the flag
	n := 0
	for _, y := range g.Nodes {
		rhs, ok := assignsTo(y, func(l ast.Expr) bool { return str(l) == "omitEndTag" })
		if !ok || str(rhs) != "true" {
			continue
		}
		n++
		// enclosing guards over `next`
		excluded := true
		sawGuard := false
		for _, el := range []string{"script", "template"} {
			env := map[string]int64{"next.TokenType": startTag, "next.Hash": h.toHash(el), "next.Traits": traitsOf(el)}
			falseSomewhere := false
			for p := c.P.Parent(y.Stmt); p != nil; p = c.P.Parent(p) {
				if _, isFor := p.(*ast.ForStmt); isFor {
					continue
				}
				if _, isFn := p.(*ast.FuncDecl); isFn {
					break
				}
				ifs, ok := p.(*ast.IfStmt)
				if !ok || ifs.Body.Pos() > y.Stmt.Pos() || y.Stmt.End() > ifs.Body.End() || !strings.Contains(str(ifs.Cond), "next.") {
					continue
				}
				sawGuard = true
				if v, ok := evalIntExpr(info, ifs.Cond, env); ok && v == 0 {
					falseSomewhere = true
				}
			}
			if !falseSomewhere {
				excluded = false
			}
		}
		construct := fmt.Sprintf("html.Minifier.Minify/omitEndTag = true#%d not in front of script or template", n)
		if sawGuard && excluded {
			c.R.OK(rule, construct, c.pos(y.Stmt), "the look-ahead guard is false for a script / template start tag")
			continue
		}
		p := g.Path(flow.Search{From: []*flow.Node{y}, Goal: func(q *flow.Node) bool {
			for _, u := range use {
				if u == q {
					return true
				}
			}
			return false
		}, Avoid: veto})
		c.R.Check(p == nil && len(use) > 0, rule, construct, c.pos(y.Stmt), "a test of the next element against script / template lies on every path to the use of the flag", "the end tag is omitted whatever follows: a script or template element in place of the next sibling (`<ul><li>a</li><script>x</script></ul>`) becomes a child of the element that should have been closed: "+pathStr(c, g, p))
	}
	c.R.Floor(rule, "omitEndTag = true assignments", n, 4)
}

// R03.13: text is thrown away unseen only where the content model has no text.
func (c *Ctx) r0313(pk *packages.Package, fd *ast.FuncDecl) {
	const rule = "R03.13"
	c.R.Rule(rule, "html.(*Minifier).Minify discards a text token without looking at it (`tb.Shift()` of a peeked TextToken, result unused) right after the tags of the select family, where only white space can stand in a conforming document. The elements named by the enclosing test of t.Hash are a subset of {select, optgroup, option}: datalist, for one, holds phrasing content as fallback for browsers without datalist support (`<datalist>or pick from the list: <select>…` loses its text). The test is conjoined with a select flag — a boolean that is only assigned false, or under `t.Hash == Select` the start-tag test — because option and optgroup also occur in datalist and, in broken documents, anywhere")
	info := pk.TypesInfo
	h := c.loadHash(rule, "html")
	if h == nil {
		return
	}
	g := c.graph(pk, fd)
	allowed := map[string]bool{"select": true, "optgroup": true, "option": true}
	n := 0
	for _, y := range g.Nodes {
		es, ok := y.Stmt.(*ast.ExprStmt)
		if !ok || y.Kind != flow.KStmt {
			continue
		}
		call, ok := es.X.(*ast.CallExpr)
		if !ok || !strings.HasSuffix(calleeName(info, call), ".(TokenBuffer).Shift") {
			continue
		}
		isText := false
		for _, f := range g.DomFacts(y) {
			if f.Value && f.Test.Kind == flow.KCond {
				s := nospace(str(f.Test.Expr))
				if strings.HasSuffix(s, ".TokenType==html.TextToken") && !strings.HasPrefix(s, "t.") {
					isText = true
				}
			}
		}
		if !isText {
			continue
		}
		n++
		// the enclosing element test
		var names, unflagged []string
		found := false
		for p := c.P.Parent(es); p != nil && !found; p = c.P.Parent(p) {
			if ifs, ok := p.(*ast.IfStmt); ok && strings.Contains(str(ifs.Cond), "t.Hash") {
				if nm, fl, ok := c.hashDisjunctionFlagged(info, h, ifs.Cond, "t.Hash"); ok {
					names, found = nm, true
					for _, k := range nm {
						if !c.selectFlag(info, g, fl[k]) {
							unflagged = append(unflagged, k)
						}
					}
				}
			}
			if _, isCase := p.(*ast.CaseClause); isCase {
				break
			}
		}
		var bad []string
		for _, nm := range names {
			if !allowed[nm] {
				bad = append(bad, nm)
			}
		}
		c.R.Check(found && len(unflagged) == 0, rule, fmt.Sprintf("html.Minifier.Minify/text token discarded#%d only inside a select element", n), c.pos(es), "conjoined with the select flag", "the text after a tag of "+strings.Join(unflagged, ", ")+" is discarded whether or not the tag stands inside a select element: an option in a datalist or anywhere else in the document can be followed by text (`<datalist><option>b</option> or <option>d</option></datalist>`, `<p>a <option>b</option> c`), which disappears")
		c.R.Check(found && len(bad) == 0, rule, fmt.Sprintf("html.Minifier.Minify/text token discarded#%d only in the select family", n), c.pos(es), "after tags of "+strings.Join(names, ", "), "a text token is discarded unseen after a tag of "+strings.Join(bad, ", ")+" (or without a test of the element at all): that element may contain text, which disappears from the document")
	}
	c.R.Floor(rule, "discarded text tokens", n, 2)
}

// R03.14: the script/template veto looks past comments, which the minifier drops.
func (c *Ctx) r0314(pk *packages.Package, fd *ast.FuncDecl) {
	const rule = "R03.14"
	c.R.Rule(rule, "the look-ahead that keeps an end tag in front of a script or template element (R03.11) must see that element through everything the minifier removes between the two: white space text and comments. In html.(*Minifier).Minify the loop that precedes the comparison of the next token's Hash with Script / Template skips text tokens and names html.CommentToken in its condition, and the veto condition itself names html.CommentToken (a comment that is kept would become a child of the unclosed element just as a script would). `<ul><li>a</li><!--c--><script>x</script></ul>` → the script inside the li")
	n := 0
	ast.Inspect(fd.Body, func(x ast.Node) bool {
		blk, ok := x.(*ast.BlockStmt)
		if !ok {
			return true
		}
		for i, st := range blk.List {
			ifs, ok := st.(*ast.IfStmt)
			if !ok {
				continue
			}
			cs := nospace(str(ifs.Cond))
			if !strings.Contains(cs, ".Hash==Script") || !strings.Contains(cs, ".Hash==Template") {
				continue
			}
			// only the veto: its body clears omitEndTag
			clears := false
			for _, b := range ifs.Body.List {
				if as, ok := b.(*ast.AssignStmt); ok && len(as.Lhs) == 1 && str(as.Lhs[0]) == "omitEndTag" && str(as.Rhs[0]) == "false" {
					clears = true
				}
			}
			if !clears {
				continue
			}
			n++
			var loop *ast.ForStmt
			for j := i - 1; j >= 0; j-- {
				if f, ok := blk.List[j].(*ast.ForStmt); ok {
					loop = f
					break
				}
			}
			okLoop := loop != nil && loop.Cond != nil && strings.Contains(nospace(str(loop.Cond)), "html.CommentToken") && strings.Contains(nospace(str(loop.Cond)), "html.TextToken")
			// which comments are skipped: only "no comment is ever written" can be decided here — the conjuncts next to the
			// token test are exactly !o.KeepComments and !o.KeepSpecialComments
			if okLoop {
				var disj []ast.Expr
				var splitOr func(e ast.Expr)
				splitOr = func(e ast.Expr) {
					e = ast.Unparen(e)
					if b, ok := e.(*ast.BinaryExpr); ok && b.Op == token.LOR {
						splitOr(b.X)
						splitOr(b.Y)
						return
					}
					disj = append(disj, e)
				}
				splitOr(loop.Cond)
				for _, d := range disj {
					if !strings.Contains(nospace(str(d)), "html.CommentToken") {
						continue
					}
					var conj []string
					var splitAnd func(e ast.Expr)
					splitAnd = func(e ast.Expr) {
						e = ast.Unparen(e)
						if b, ok := e.(*ast.BinaryExpr); ok && b.Op == token.LAND {
							splitAnd(b.X)
							splitAnd(b.Y)
							return
						}
						conj = append(conj, nospace(str(e)))
					}
					splitAnd(d)
					have := map[string]bool{}
					other := ""
					for _, cj := range conj {
						switch {
						case cj == "!o.KeepComments" || cj == "!o.KeepSpecialComments":
							have[cj] = true
						case strings.HasSuffix(cj, ".TokenType==html.CommentToken") || strings.HasPrefix(cj, "html.CommentToken=="):
						default:
							other = cj
						}
					}
					good := have["!o.KeepComments"] && have["!o.KeepSpecialComments"] && other == ""
					c.R.Check(good, rule, fmt.Sprintf("html.Minifier.Minify/script-template veto#%d skips only comments that are never written", n), c.pos(d), "comments are skipped only with both keep options off", "the look-ahead skips a comment under a condition of its own ("+other+") instead of `!o.KeepComments && !o.KeepSpecialComments`: whether a comment is written is decided by the CommentToken case (conditional comments by prefix and by `[endif]` suffix, SSI tags), and a comment that is written after an omitted end tag becomes a child of the unclosed element (`<li>a</li><!--<![endif]-->` with KeepSpecialComments)")
				}
			}
			c.R.Check(okLoop, rule, fmt.Sprintf("html.Minifier.Minify/script-template veto#%d looks past comments", n), c.pos(ifs), "the skipping loop covers white space text and comments", "the look-ahead in front of the veto does not skip comment tokens: a comment between the end tag and a script / template element hides that element, the end tag is omitted, the comment is dropped, and the element is parsed into the unclosed one")
			c.R.Check(strings.Contains(cs, "html.CommentToken"), rule, fmt.Sprintf("html.Minifier.Minify/script-template veto#%d keeps the end tag in front of a kept comment", n), c.pos(ifs.Cond), "the veto names html.CommentToken", "a comment that is kept (KeepComments, KeepSpecialComments) is written right after the omitted end tag and becomes a child of the unclosed element")
		}
		return true
	})
	c.R.Floor(rule, "script/template vetoes", n, 1)
}

// R03.15: the colgroup start tag stays while the previous colgroup is still open.
func (c *Ctx) r0315(pk *packages.Package, fd *ast.FuncDecl) {
	const rule = "R03.15"
	c.R.Rule(rule, "HTML §13.1.2.4: a colgroup start tag may be omitted if the first thing inside is a col element *and the element is not immediately preceded by another colgroup element whose end tag has been omitted* — without its start tag the col elements are parsed into the colgroup that is still open (`<colgroup span=2><colgroup><col>` → the col inside the first group; `<colgroup><col><colgroup><col>` → one group). In html.(*Minifier).Minify the verdict on a colgroup start tag (the assignment `keepTag = …` that names Col on the look-ahead token) has a disjunct that is a colgroup flag, or a copy of one taken before the flag is updated: a boolean assigned only false, or under `t.Hash == Colgroup` the start-tag test")
	info := pk.TypesInfo
	g := c.graph(pk, fd)
	isColgroupFlag := func(o types.Object) bool {
		if o == nil {
			return false
		}
		n, pos := 0, 0
		for _, y := range g.Nodes {
			as, ok := y.Stmt.(*ast.AssignStmt)
			if !ok || y.Kind != flow.KStmt {
				continue
			}
			for i, l := range as.Lhs {
				id, ok := l.(*ast.Ident)
				if !ok || info.ObjectOf(id) != o || i >= len(as.Rhs) {
					continue
				}
				n++
				r := nospace(str(as.Rhs[i]))
				if r == "false" {
					continue
				}
				if r != "true" && r != "t.TokenType==html.StartTagToken" && r != "html.StartTagToken==t.TokenType" {
					return false
				}
				under := false
				for _, f := range g.DomFacts(y) {
					if f.Value && f.Test.Kind == flow.KCond {
						if cs := nospace(str(f.Test.Expr)); cs == "t.Hash==Colgroup" || cs == "Colgroup==t.Hash" {
							under = true
						}
					}
				}
				if !under {
					return false
				}
				pos++
			}
		}
		return n >= 2 && pos >= 1
	}
	flagOrCopy := func(o types.Object) bool {
		if isColgroupFlag(o) {
			return true
		}
		// a copy: exactly one definition, from a colgroup flag
		n := 0
		ok := false
		for _, y := range g.Nodes {
			as, isAs := y.Stmt.(*ast.AssignStmt)
			if !isAs || y.Kind != flow.KStmt {
				continue
			}
			for i, l := range as.Lhs {
				if id, isId := l.(*ast.Ident); isId && info.ObjectOf(id) == o && i < len(as.Rhs) {
					n++
					if rid, isR := ast.Unparen(as.Rhs[i]).(*ast.Ident); isR && isColgroupFlag(info.Uses[rid]) {
						ok = true
					}
				}
			}
		}
		return n == 1 && ok
	}
	n := 0
	for _, y := range g.Nodes {
		as, ok := y.Stmt.(*ast.AssignStmt)
		if !ok || y.Kind != flow.KStmt || len(as.Lhs) != 1 || len(as.Rhs) != 1 || str(as.Lhs[0]) != "keepTag" {
			continue
		}
		rs := nospace(str(as.Rhs[0]))
		if !(strings.Contains(rs, ".Hash!=Col") || strings.Contains(rs, ".Hash==Col")) || strings.Contains(rs, ".Hash==Colgroup") || strings.Contains(rs, ".Hash!=Colgroup") {
			continue
		}
		n++
		has := false
		var walk func(e ast.Expr)
		walk = func(e ast.Expr) {
			e = ast.Unparen(e)
			if b, ok := e.(*ast.BinaryExpr); ok && b.Op == token.LOR {
				walk(b.X)
				walk(b.Y)
				return
			}
			if id, ok := e.(*ast.Ident); ok && flagOrCopy(info.Uses[id]) {
				has = true
			}
		}
		walk(as.Rhs[0])
		c.R.Check(has, rule, fmt.Sprintf("html.Minifier.Minify/colgroup start tag kept while a colgroup is open#%d", n), c.pos(as), "the verdict has the open-colgroup flag as a disjunct", "the colgroup start tag is dropped whenever a col follows, also right after a colgroup whose end tag is missing: its col elements are then parsed into that earlier group (`<colgroup span=2><colgroup><col></colgroup>` → one group of span 2 with a col in it)")
	}
	c.R.Floor(rule, "verdicts on a colgroup start tag", n, 1)
}

// R03.17: the optgroup end tag is judged on the next element, not on a comment in front of it.
func (c *Ctx) r0317(pk *packages.Package, fd *ast.FuncDecl) {
	const rule = "R03.17"
	c.R.Rule(rule, "an optgroup end tag may be omitted unless an option follows outside the group. The look-ahead of html.(*Minifier).Minify omits it for every next token that is not an option start tag, after stepping over text tokens; a comment, which the minifier removes, must be stepped over too — otherwise `</optgroup><!--c--><option>b` loses the end tag and the comment, and option b is parsed into the group. In the `t.Hash == Optgroup` branch the loop's continue condition names html.CommentToken next to html.TextToken (a comment that is kept then falls under the veto of R03.14)")
	n := 0
	ast.Inspect(fd.Body, func(x ast.Node) bool {
		ifs, ok := x.(*ast.IfStmt)
		if !ok {
			return true
		}
		cs := nospace(str(ifs.Cond))
		if cs != "t.Hash==Optgroup" && cs != "Optgroup==t.Hash" {
			return true
		}
		// the branch that sets omitEndTag
		sets := false
		ast.Inspect(ifs.Body, func(z ast.Node) bool {
			if as, ok := z.(*ast.AssignStmt); ok && len(as.Lhs) == 1 && str(as.Lhs[0]) == "omitEndTag" {
				sets = true
			}
			return true
		})
		if !sets {
			return true
		}
		n++
		skips := false
		ast.Inspect(ifs.Body, func(z ast.Node) bool {
			inner, ok := z.(*ast.IfStmt)
			if !ok {
				return true
			}
			hasContinue := false
			for _, st := range inner.Body.List {
				if bs, ok := st.(*ast.BranchStmt); ok && bs.Tok == token.CONTINUE {
					hasContinue = true
				}
			}
			ic := nospace(str(inner.Cond))
			if hasContinue && strings.Contains(ic, "html.TextToken") && strings.Contains(ic, "html.CommentToken") {
				skips = true
			}
			return true
		})
		c.R.Check(skips, rule, fmt.Sprintf("html.Minifier.Minify/optgroup look-ahead#%d steps over comments", n), c.pos(ifs), "text and comment tokens are stepped over", "the look-ahead decides on a comment token as if it were the next element: it is not an option, so `</optgroup>` is omitted, the comment is removed and a following option is parsed into the group (`<select><optgroup label=x><option>a</option></optgroup><!--c--><option>b</option></select>`)")
		return false
	})
	c.R.Floor(rule, "optgroup end tag look-aheads", n, 1)
}

// R03.19: only a block-level tag makes the following white space redundant.
func (c *Ctx) r0319(pk *packages.Package, fd *ast.FuncDecl) {
	const rule = "R03.19"
	c.R.Rule(rule, "omitSpace tells the text that follows to drop its leading white space because what was written before already separates it. After a tag that is true only when the tag breaks the line: in the start / end tag case of html.(*Minifier).Minify every assignment `omitSpace = true` is dominated by the true outcome of a test of the blockTag trait (which R17.htmltraits confines to block-level elements). An element that is not rendered — template, script, style — does not separate the words on either side of it: `a<template>x</template> b` must keep its space")
	g := c.graph(pk, fd)
	n := 0
	for _, y := range g.Nodes {
		as, ok := y.Stmt.(*ast.AssignStmt)
		if !ok || y.Kind != flow.KStmt || len(as.Lhs) != 1 || len(as.Rhs) != 1 || nospace(str(as.Lhs[0])) != "omitSpace" || nospace(str(as.Rhs[0])) != "true" {
			continue
		}
		if !strings.Contains(c.caseLabel(as), "html.StartTagToken") {
			continue
		}
		n++
		good := false
		for _, f := range g.DomFacts(y) {
			if !f.Value || f.Test.Kind != flow.KCond {
				continue
			}
			s := nospace(str(f.Test.Expr))
			if strings.Contains(s, "Traits&blockTag") && (strings.HasSuffix(s, "!=0") || strings.HasPrefix(s, "0!=")) {
				good = true
			}
		}
		c.R.Check(good, rule, fmt.Sprintf("html.Minifier.Minify/tag case/omitSpace = true#%d only after a block-level tag", n), c.pos(as), "behind t.Traits&blockTag != 0", "the white space after this tag is declared redundant although the tag is not known to be block-level: the space that separates the text on both sides of an unrendered or inline element is lost (`a<template>x</template> b` → `…</template>b`)")
	}
	c.R.Floor(rule, "assignments omitSpace = true in the tag case", n, 2)
}

// R03.20: a document tag is not dropped in front of a comment that is kept.
func (c *Ctx) r0320(pk *packages.Package, fd *ast.FuncDecl) {
	const rule = "R03.20"
	c.R.Rule(rule, "HTML §13.1.2.4: the start tags of html and body, and the end tags of html, head and body, may be omitted only where no comment follows (head's start tag: only in front of an element) — a comment that stays in the output is otherwise parsed into another element (`<body><!--c--><p>` → the comment becomes a child of head; `</body><!--d-->` → a child of the last paragraph). In html.(*Minifier).Minify the `break` that drops an html, head or body tag is, under the stipulation that comments are kept (o.KeepComments), reachable only through the false outcome of a test of the following token against html.CommentToken")
	g := c.graph(pk, fd)
	n := 0
	ast.Inspect(fd.Body, func(x ast.Node) bool {
		ifs, ok := x.(*ast.IfStmt)
		if !ok || !strings.Contains(nospace(str(ifs.Cond)), "o.KeepDocumentTags") {
			return true
		}
		// the break statements directly in the body of an `if !keepTag` (the drop)
		ast.Inspect(ifs.Body, func(z ast.Node) bool {
			inner, ok := z.(*ast.IfStmt)
			if !ok || len(inner.Body.List) != 1 {
				return true
			}
			br, ok := inner.Body.List[0].(*ast.BranchStmt)
			if !ok || br.Tok != token.BREAK || !strings.Contains(nospace(str(inner.Cond)), "keepTag") {
				return true
			}
			goal := g.NodeOf(br)
			var head *flow.Node
			if len(ifs.Body.List) > 0 {
				head = g.NodeOf(ifs.Body.List[0])
			}
			if goal == nil || head == nil {
				return true
			}
			n++
			veto := func(q *flow.Node) bool {
				if q.Kind != flow.KFalse || q.Of == nil || q.Of.Kind != flow.KCond {
					return false
				}
				s := nospace(str(q.Of.Expr))
				return strings.HasSuffix(s, ".TokenType==html.CommentToken") || strings.HasPrefix(s, "html.CommentToken==")
			}
			// the look-ahead may also be stored in the flag that the drop tests: keepTag = next.TokenType == html.CommentToken
			vetoAssign := func(q *flow.Node) bool {
				as, ok := q.Stmt.(*ast.AssignStmt)
				if !ok || q.Kind != flow.KStmt || len(as.Lhs) != 1 || len(as.Rhs) != 1 {
					return false
				}
				r := nospace(str(as.Rhs[0]))
				return strings.Contains(r, ".TokenType==html.CommentToken") && strings.Contains(nospace(str(inner.Cond)), nospace(str(as.Lhs[0])))
			}
			p := g.Path(flow.Search{From: []*flow.Node{head}, IncludeFrom: true, Goal: func(q *flow.Node) bool { return q == goal },
				Assume: map[string]bool{"o.KeepComments": true, "t.Hash == Colgroup": false}, Track: true, TrackFields: true,
				Avoid: func(q *flow.Node) bool {
					if veto(q) || vetoAssign(q) {
						return true
					}
					a := q.Ast()
					return a != nil && (a.Pos() < ifs.Pos() || a.End() > ifs.End())
				}})
			c.R.Check(p == nil, rule, fmt.Sprintf("html.Minifier.Minify/document tag dropped#%d only where no kept comment follows", n), c.pos(br), "with KeepComments the drop is behind a look-ahead for a comment",
				"an html, head or body tag is dropped without looking whether a comment follows that will be written: the comment is parsed into a different element than in the input (`<body><!--c--><p>x` → the comment moves into head): "+pathStr(c, g, p))
			return true
		})
		return true
	})
	c.R.Floor(rule, "drops of a document tag", n, 1)
}

// R03.21: a ruby part's end tag is omitted only in front of a start tag that closes that part.
func (c *Ctx) r0321(pk *packages.Package, fd *ast.FuncDecl) {
	const rule = "R03.21"
	c.R.Rule(rule, "HTML §13.2.6.4.7: the start tags rb and rtc close every open ruby part (rb, rt, rtc, rp), the start tags rt and rp generate implied end tags `except for rtc elements`. The condition under which html.(*Minifier).Minify omits the end tag of a ruby part is evaluated for all sixteen pairs (element, following start tag) with the hash constants as values: it may hold only where the following start tag closes the element (`<rtc>a</rtc><rt>b</rt>` without `</rtc>` is parsed with the rt inside the rtc)")
	info := pk.TypesInfo
	parts := []string{"Rb", "Rt", "Rtc", "Rp"}
	val := map[string]int64{}
	for _, p := range parts {
		k, ok := pk.Types.Scope().Lookup(p).(*types.Const)
		if !ok {
			c.R.Unres(rule, "html hash constant "+p, c.pos(fd), "constant not found")
			return
		}
		v, _ := constant.Int64Val(k.Val())
		val[p] = v
	}
	mentionsAll := func(e ast.Expr) bool {
		seen := map[string]bool{}
		ast.Inspect(e, func(z ast.Node) bool {
			if id, ok := z.(*ast.Ident); ok {
				if _, isK := info.Uses[id].(*types.Const); isK {
					seen[id.Name] = true
				}
			}
			return true
		})
		for _, p := range parts {
			if !seen[p] {
				return false
			}
		}
		return true
	}
	hashOperand := func(e ast.Expr) string {
		out := ""
		ast.Inspect(e, func(z ast.Node) bool {
			if be, ok := z.(*ast.BinaryExpr); ok && (be.Op == token.EQL || be.Op == token.NEQ) {
				if sel, ok := ast.Unparen(be.X).(*ast.SelectorExpr); ok && sel.Sel.Name == "Hash" && out == "" {
					out = nospace(str(sel.X))
				}
			}
			return true
		})
		return out
	}
	n := 0
	ast.Inspect(fd.Body, func(x ast.Node) bool {
		outer, ok := x.(*ast.IfStmt)
		if !ok || !mentionsAll(outer.Cond) {
			return true
		}
		// the inner if that sets the omission flag
		var inner *ast.IfStmt
		ast.Inspect(outer.Body, func(z ast.Node) bool {
			ifs, ok := z.(*ast.IfStmt)
			if !ok || inner != nil {
				return true
			}
			for _, st := range ifs.Body.List {
				if as, ok := st.(*ast.AssignStmt); ok && len(as.Rhs) == 1 && nospace(str(as.Rhs[0])) == "true" {
					inner = ifs
				}
			}
			return true
		})
		if inner == nil {
			return true
		}
		n++
		tok, next := hashOperand(outer.Cond), hashOperand(inner.Cond)
		if tok == "" || next == "" || tok == next {
			c.R.Unres(rule, "html.Minifier.Minify/ruby end tag omission", c.pos(outer), "the element and the following token could not be told apart in the conditions")
			return false
		}
		var startTag int64 = -1
		ast.Inspect(inner.Cond, func(z ast.Node) bool {
			if sel, ok := z.(*ast.SelectorExpr); ok && sel.Sel.Name == "StartTagToken" {
				if v, isK := intConst(info, sel); isK {
					startTag = v
				}
			}
			return true
		})
		if startTag < 0 {
			c.R.Unres(rule, "html.Minifier.Minify/ruby end tag omission", c.pos(inner), "no test for a following start tag")
			return false
		}
		var bad []string
		for _, el := range parts {
			for _, nx := range parts {
				env := map[string]int64{tok + ".Hash": val[el], next + ".Hash": val[nx], next + ".TokenType": startTag}
				vo, ok1 := evalIntExpr(info, outer.Cond, env)
				vi, ok2 := evalIntExpr(info, inner.Cond, env)
				if !ok1 || !ok2 {
					c.R.Unres(rule, "html.Minifier.Minify/ruby end tag omission", c.pos(inner), "the conditions could not be evaluated for "+el+" followed by "+nx)
					return false
				}
				if vo != 0 && vi != 0 && !ref.HTMLRubyClosers[strings.ToLower(nx)][strings.ToLower(el)] {
					bad = append(bad, "</"+strings.ToLower(el)+"> in front of <"+strings.ToLower(nx)+">")
				}
			}
		}
		c.R.Check(len(bad) == 0, rule, "html.Minifier.Minify/ruby end tag omitted only in front of a start tag that closes the element", c.pos(inner), "16 pairs evaluated",
			"the end tag is omitted although the start tag that follows does not close the element ("+strings.Join(bad, ", ")+"): `<ruby>x<rtc>a</rtc><rt>b</rt></ruby>` → `<ruby>x<rtc>a<rt>b</ruby>`, in which the rt is a child of the rtc")
		return false
	})
	c.R.Floor(rule, "ruby end tag omissions", n, 1)
}

// R03.22: state about an open part of a table is kept per table.
func (c *Ctx) r0322(pk *packages.Package, fd *ast.FuncDecl) {
	const rule = "R03.22"
	c.R.Rule(rule, "tables nest: a cell may hold a whole table. A boolean of html.(*Minifier).Minify that is set on the start tag of an element that can have a table among its descendants (thead, tbody, tfoot, tr, td, th, caption) and cleared on a table tag describes the innermost table only for as long as no nested table begins or ends — its `</table>` clears what the outer table still needs (a seeded feature omitted `<tbody>` after `…<table>…</table></th></tr></thead>` and the body rows were parsed into the thead). No such boolean exists; state of that kind needs a level per table (inColgroup is set on colgroup, whose content model is col only)")
	info := pk.TypesInfo
	g := c.graph(pk, fd)
	mayHoldTable := map[string]bool{"Thead": true, "Tbody": true, "Tfoot": true, "Tr": true, "Td": true, "Th": true, "Caption": true}
	hashesIn := func(e ast.Node) map[string]bool {
		out := map[string]bool{}
		ast.Inspect(e, func(z ast.Node) bool {
			if id, ok := z.(*ast.Ident); ok {
				if _, isK := info.Uses[id].(*types.Const); isK {
					out[id.Name] = true
				}
			}
			return true
		})
		return out
	}
	type use struct {
		clearedOnTable []string
		setOn          map[string]bool
	}
	flags := map[types.Object]*use{}
	for _, y := range g.Nodes {
		as, ok := y.Stmt.(*ast.AssignStmt)
		if !ok || y.Kind != flow.KStmt || len(as.Lhs) != 1 || len(as.Rhs) != 1 || as.Tok != token.ASSIGN {
			continue
		}
		id, ok := as.Lhs[0].(*ast.Ident)
		if !ok {
			continue
		}
		o, ok := info.Uses[id].(*types.Var)
		if !ok || !isBoolType(o.Type()) || o.Parent() == pk.Types.Scope() {
			continue
		}
		u := flags[o]
		if u == nil {
			u = &use{setOn: map[string]bool{}}
			flags[o] = u
		}
		under := map[string]bool{}
		for _, f := range g.DomFacts(y) {
			if f.Value && f.Test.Kind == flow.KCond {
				for h := range hashesIn(f.Test.Expr) {
					under[h] = true
				}
			}
		}
		// a disjunction of elements gives no single dominating outcome: the conditions of the if statements in whose
		// then-branch the assignment stands
		for x := c.P.Parent(as); x != nil; x = c.P.Parent(x) {
			if ifs, ok := x.(*ast.IfStmt); ok && ifs.Body.Pos() <= as.Pos() && as.End() <= ifs.Body.End() {
				for h := range hashesIn(ifs.Cond) {
					under[h] = true
				}
			}
			if _, ok := x.(*ast.CaseClause); ok {
				break
			}
		}
		rhs := nospace(str(as.Rhs[0]))
		if rhs == "false" && under["Table"] {
			u.clearedOnTable = append(u.clearedOnTable, c.pos(as))
		} else if rhs != "false" {
			for h := range under {
				if mayHoldTable[h] {
					u.setOn[h] = true
				}
			}
		}
	}
	n := 0
	var bad []string
	for o, u := range flags {
		if len(u.clearedOnTable) == 0 {
			continue
		}
		n++
		if len(u.setOn) > 0 {
			var on []string
			for h := range u.setOn {
				on = append(on, strings.ToLower(h))
			}
			sort.Strings(on)
			bad = append(bad, fmt.Sprintf("%s (set on %s, cleared on a table tag at %s)", o.Name(), strings.Join(on, "/"), strings.Join(u.clearedOnTable, ", ")))
		}
	}
	sort.Strings(bad)
	c.R.Check(len(bad) == 0, rule, "html.Minifier.Minify/state of an open table part is not a single boolean", c.pos(fd), fmt.Sprintf("%d booleans are cleared on a table tag, none is set on an element that can hold a table", n),
		"a boolean records an open part of a table across tokens and is cleared by any table tag: "+strings.Join(bad, "; ")+" — the end tag of a table nested in a cell clears what the outer table still needs, and a decision that reads it (an omitted `<tbody>`) is taken for the wrong table")
	c.R.Floor(rule, "booleans cleared on a table tag", n, 1)
}

// R03.23: the end tag of a colgroup stays in front of what would otherwise join it.
func (c *Ctx) r0323(pk *packages.Package, fd *ast.FuncDecl) {
	const rule = "R03.23"
	c.R.Rule(rule, "HTML §13.2.6.4.12 `in column group`: while a colgroup is open a col start tag is inserted into it, and a colgroup start tag closes it only to open the next. `<colgroup></colgroup><col>` are two column groups (the second is implied by the col); without the end tag the col joins the first. Where html.(*Minifier).Minify decides to keep an attribute-less colgroup end tag from the token that follows (an assignment of a comparison of that token's Hash with Colgroup), the value is evaluated with the hash constants: it holds for a following colgroup start tag, for a following col start tag and for a following template start tag (the `in column group` mode processes a template with the rules of `in head`, i.e. inserts it into the open colgroup, while after the end tag it is a child of the table)")
	info := pk.TypesInfo
	val := map[string]int64{}
	for _, p := range []string{"Col", "Colgroup", "Template", "Tr"} {
		k, ok := pk.Types.Scope().Lookup(p).(*types.Const)
		if !ok {
			c.R.Unres(rule, "html hash constant "+p, c.pos(fd), "constant not found")
			return
		}
		v, _ := constant.Int64Val(k.Val())
		val[p] = v
	}
	n := 0
	ast.Inspect(fd.Body, func(x ast.Node) bool {
		as, ok := x.(*ast.AssignStmt)
		if !ok || len(as.Lhs) != 1 || len(as.Rhs) != 1 {
			return true
		}
		if t := info.TypeOf(as.Lhs[0]); t == nil || !isBoolType(t) {
			return true
		}
		rhs := as.Rhs[0]
		// a comparison `X.Hash == Colgroup` (not `!=`: that is the start tag's verdict) on a token other than the current one
		next := ""
		var startTag int64 = -1
		ast.Inspect(rhs, func(z ast.Node) bool {
			switch v := z.(type) {
			case *ast.BinaryExpr:
				if v.Op == token.EQL {
					if sel, ok := ast.Unparen(v.X).(*ast.SelectorExpr); ok && sel.Sel.Name == "Hash" {
						if id, ok := ast.Unparen(v.Y).(*ast.Ident); ok && id.Name == "Colgroup" {
							next = nospace(str(sel.X))
						}
					}
				}
			case *ast.SelectorExpr:
				if v.Sel.Name == "StartTagToken" {
					if k, isK := intConst(info, v); isK {
						startTag = k
					}
				}
			}
			return true
		})
		if next == "" || next == "t" || startTag < 0 {
			return true
		}
		n++
		var bad []string
		for _, el := range []string{"Colgroup", "Col", "Template"} {
			v, ok := evalIntExpr(info, rhs, map[string]int64{next + ".Hash": val[el], next + ".TokenType": startTag})
			if !ok {
				c.R.Unres(rule, fmt.Sprintf("html.Minifier.Minify/colgroup end tag kept#%d", n), c.pos(as), "the value could not be evaluated for a following "+strings.ToLower(el))
				return true
			}
			if v == 0 {
				bad = append(bad, "<"+strings.ToLower(el)+">")
			}
		}
		c.R.Check(len(bad) == 0, rule, fmt.Sprintf("html.Minifier.Minify/colgroup end tag kept#%d in front of colgroup and col", n), c.pos(as), "evaluated for both start tags",
			"the end tag of a colgroup is dropped in front of "+strings.Join(bad, ", ")+": `<table><colgroup></colgroup><col></table>` becomes `<table><colgroup><col></table>`, in which the col is a child of the first column group (and `<table><colgroup></colgroup><template>` puts the template into the colgroup instead of the table)")
		return true
	})
	c.R.Floor(rule, "verdicts on a colgroup end tag", n, 1)
}

// R03.25: a reference to a character that the parser reads differently when it stands literally stays a reference.
func (c *Ctx) r0325(pk *packages.Package) {
	const rule = "R03.25"
	c.R.Rule(rule, "HTML §13.2.3.5 normalises newlines in the input stream: a literal U+000D becomes U+000A, whereas the character reference `&#13;` gives U+000D. parse.ReplaceEntities and parse.ReplaceMultipleWhitespaceAndEntities decode numeric references to the byte and write it literally unless their third argument, the reverse map, has an entry for it. Every call of the two functions in package html hands over a reverse map (a package-level map literal, evaluated statically) with an entry for every byte of ref.HTMLLiteralReadDifferently")
	info := pk.TypesInfo
	n := 0
	for _, f := range pk.Syntax {
		for _, d := range f.Decls {
			fd, ok := d.(*ast.FuncDecl)
			if !ok || fd.Body == nil {
				continue
			}
			for _, call := range findCalls(info, fd.Body, true, load.ParseMod+".ReplaceEntities", load.ParseMod+".ReplaceMultipleWhitespaceAndEntities") {
				if len(call.Args) != 3 {
					continue
				}
				n++
				construct := fmt.Sprintf("html.%s/%s(%s, …)#%d hands over a reverse map for the bytes the parser normalises", load.FuncName(fd), calleeShort(info, call), nospace(str(call.Args[0])), n)
				id, _ := ast.Unparen(call.Args[2]).(*ast.Ident)
				if id == nil || isNilExpr(call.Args[2]) {
					c.R.Bad(rule, construct, c.pos(call), "no reverse map ("+str(call.Args[2])+"): `&#13;` is written as a literal carriage return, which the parser turns into a line feed — `<p title=\"a&#13;b\">` has the value a, U+000D, b before and a, U+000A, b after")
					continue
				}
				v, _, err := c.Ev.PackageVar(pk, id.Name)
				m, isMap := v.(*eval.Map)
				if err != nil || !isMap {
					c.R.Unres(rule, construct, c.pos(call), "the reverse map "+id.Name+" cannot be evaluated statically")
					continue
				}
				var missing []string
				for _, b := range ref.HTMLLiteralReadDifferently {
					has := false
					for _, e := range m.Entries {
						if k, ok := e.Key.(int64); ok && k == int64(b) {
							has = true
						}
					}
					if !has {
						missing = append(missing, fmt.Sprintf("%q", rune(b)))
					}
				}
				c.R.Check(len(missing) == 0, rule, construct, c.pos(call), "html."+id.Name+" has an entry for every such byte",
					"html."+id.Name+" has no entry for "+strings.Join(missing, ", ")+": `&#13;` is written as a literal carriage return, which the parser turns into a line feed — `<p>a&#13;b` has the text a, U+000D, b before and a, U+000A, b after")
			}
		}
	}
	c.R.Floor(rule, "calls that decode character references in package html", n, 3)
}

func calleeShort(info *types.Info, call *ast.CallExpr) string {
	n := calleeName(info, call)
	if i := strings.LastIndex(n, "."); i >= 0 {
		return n[i+1:]
	}
	return n
}

// R03.26: a comment that is dropped behind the pre start tag does not hand its newline to the parser's first-newline rule.
func (c *Ctx) r0326(pk *packages.Package, fd *ast.FuncDecl) {
	const rule = "R03.26"
	c.R.Rule(rule, "HTML §13.2.6.4.7: a start tag pre (listing, textarea) makes the parser ignore a U+000A that comes next. In `<pre><!--c-->\\nfoo</pre>` the newline follows the comment and is part of the text; when the comment is dropped it follows the start tag and is lost. In html.(*Minifier).Minify, case html.CommentToken, every path through the case that writes nothing (no call that takes the writer) passes a test of a flag that is assigned where the Pre start tag is handled (the branch `t.Hash == Pre`), or of a local copied from such a flag; the search tracks the constants assigned to boolean locals")
	info := pk.TypesInfo
	g := c.graph(pk, fd)
	// the flags of the pre start tag
	flags := map[types.Object]bool{}
	ast.Inspect(fd.Body, func(z ast.Node) bool {
		ifs, ok := z.(*ast.IfStmt)
		if !ok {
			return true
		}
		be, ok := ast.Unparen(ifs.Cond).(*ast.BinaryExpr)
		if !ok || be.Op != token.EQL || !(usesObj(info, be.Y, load.Mod+"/html.Pre") || usesObj(info, be.X, load.Mod+"/html.Pre")) {
			return true
		}
		for _, st := range ifs.Body.List {
			if as, ok := st.(*ast.AssignStmt); ok {
				for _, l := range as.Lhs {
					if id, ok := l.(*ast.Ident); ok && info.Uses[id] != nil && isBoolType(info.TypeOf(id)) {
						flags[info.Uses[id]] = true
					}
				}
			}
		}
		return true
	})
	// copies: x := flag
	for changed := true; changed; {
		changed = false
		ast.Inspect(fd.Body, func(z ast.Node) bool {
			as, ok := z.(*ast.AssignStmt)
			if !ok || len(as.Lhs) != len(as.Rhs) {
				return true
			}
			for i, l := range as.Lhs {
				lid, ok := l.(*ast.Ident)
				rid, ok2 := ast.Unparen(as.Rhs[i]).(*ast.Ident)
				if !ok || !ok2 || !flags[info.Uses[rid]] {
					continue
				}
				o := info.Defs[lid]
				if o == nil {
					o = info.Uses[lid]
				}
				if o != nil && !flags[o] {
					flags[o] = true
					changed = true
				}
			}
			return true
		})
	}
	var clause *ast.CaseClause
	ast.Inspect(fd.Body, func(z ast.Node) bool {
		cc, ok := z.(*ast.CaseClause)
		if ok && clause == nil && len(cc.List) == 1 && usesObj(info, cc.List[0], load.ParseMod+"/html.CommentToken") {
			clause = cc
		}
		return clause == nil
	})
	if clause == nil || len(clause.Body) == 0 {
		c.R.Unres(rule, "html.Minifier.Minify/case html.CommentToken", c.pos(fd), "case not found")
		return
	}
	var wobj types.Object
	for _, f := range fd.Type.Params.List {
		for _, nm := range f.Names {
			if types.TypeString(info.TypeOf(f.Type), nil) == "io.Writer" {
				wobj = info.Defs[nm]
			}
		}
	}
	inClause := func(a ast.Node) bool { return a != nil && clause.Pos() <= a.Pos() && a.End() <= clause.End() }
	var from *flow.Node
	for _, y := range g.Nodes {
		a := y.Ast()
		if !inClause(a) || a.Pos() < clause.Body[0].Pos() || (y.Kind != flow.KStmt && y.Kind != flow.KCond) {
			continue
		}
		if from == nil || a.Pos() < from.Ast().Pos() {
			from = y
		}
	}
	if from == nil || wobj == nil {
		c.R.Unres(rule, "html.Minifier.Minify/case html.CommentToken", c.pos(clause), "entry of the case or the writer parameter not found")
		return
	}
	writes := func(q *flow.Node) bool {
		a := q.Ast()
		if a == nil || q.Kind != flow.KStmt && q.Kind != flow.KCond {
			return false
		}
		hit := false
		ast.Inspect(a, func(z ast.Node) bool {
			if ce, ok := z.(*ast.CallExpr); ok && mentionsObject(info, ce, wobj) {
				hit = true
			}
			return !hit
		})
		return hit
	}
	asks := func(q *flow.Node) bool {
		if q.Kind != flow.KCond {
			return false
		}
		var whole ast.Node = q.Expr
		for x := c.P.Parent(q.Expr); x != nil; x = c.P.Parent(x) {
			if ifs, ok := x.(*ast.IfStmt); ok {
				if ifs.Cond.Pos() <= q.Expr.Pos() && q.Expr.End() <= ifs.Cond.End() {
					whole = ifs.Cond
				}
				break
			}
			if _, ok := x.(ast.Stmt); ok {
				break
			}
		}
		for o := range flags {
			if mentionsObject(info, whole, o) {
				return true
			}
		}
		return false
	}
	p := g.Path(flow.Search{From: []*flow.Node{from}, IncludeFrom: true, Track: true,
		Goal:  func(q *flow.Node) bool { a := q.Ast(); return q.Kind == flow.KExit || a != nil && !inClause(a) },
		Avoid: func(q *flow.Node) bool { return writes(q) || asks(q) }})
	var names []string
	for o := range flags {
		names = append(names, o.Name())
	}
	sort.Strings(names)
	c.R.Check(p == nil && len(flags) > 0, rule, "html.Minifier.Minify/case html.CommentToken/a dropped comment asks whether it follows the pre start tag", c.pos(clause), "every path that writes nothing tests one of "+strings.Join(names, ", "),
		"a comment is dropped without a look at the pre start tag in front of it: "+pathStr(c, g, p)+" — `<pre><!--c-->\\nfoo</pre>` → `<pre>\\nfoo</pre>`, whose first newline the parser ignores (the text loses a line break)")
}

// R03.27: only attributes that have a default value are dropped for having it.
func (c *Ctx) r0327(pk *packages.Package, fd *ast.FuncDecl) {
	const rule = "R03.27"
	c.R.Rule(rule, "html.(*Minifier).Minify drops an attribute whose value is its default (`method=get`, `type=text` on input …): the condition with `!o.KeepDefaultAttrVals` whose body continues with the next attribute. Every attribute named in that condition (a comparison of attr.Hash with a hash constant) is in ref.HTMLAttrsWithDefault — the attributes for which HTML defines a missing-value default that equals leaving the attribute out. formmethod, formenctype, formaction … have none: on a submit button they override what the form says, `<form method=post><button formmethod=get>` without the attribute posts")
	info := pk.TypesInfo
	n := 0
	ast.Inspect(fd.Body, func(z ast.Node) bool {
		ifs, ok := z.(*ast.IfStmt)
		if !ok || !strings.Contains(nospace(str(ifs.Cond)), "!o.KeepDefaultAttrVals") || len(ifs.Body.List) == 0 {
			return true
		}
		if bs, ok := ifs.Body.List[len(ifs.Body.List)-1].(*ast.BranchStmt); !ok || bs.Tok != token.CONTINUE {
			return true
		}
		ast.Inspect(ifs.Cond, func(q ast.Node) bool {
			be, ok := q.(*ast.BinaryExpr)
			if !ok || be.Op != token.EQL {
				return true
			}
			for _, pr := range [][2]ast.Expr{{be.X, be.Y}, {be.Y, be.X}} {
				if nospace(str(pr[0])) != "attr.Hash" {
					continue
				}
				id, ok := ast.Unparen(pr[1]).(*ast.Ident)
				if !ok {
					continue
				}
				k, isConst := info.Uses[id].(*types.Const)
				if !isConst || k.Pkg() != pk.Types {
					continue
				}
				n++
				name := strings.ToLower(strings.ReplaceAll(k.Name(), "_", "-"))
				c.R.Check(ref.HTMLAttrsWithDefault[name], rule, "html.Minifier.Minify/default value of "+name+" may be dropped", c.pos(be), name+" has a missing-value default",
					"the attribute "+name+" is dropped when it has a certain value, but HTML defines no default for it that equals leaving it out: `<form method=post><button formmethod=get formaction=/search>` loses formmethod and posts")
			}
			return true
		})
		return true
	})
	c.R.Floor(rule, "attributes with a default value comparison", n, 7)
}

// R03.28: where package html asks whether a byte of the input is a line feed, a carriage return gets the same answer.
func (c *Ctx) r0328(pk *packages.Package) {
	const rule = "R03.28"
	c.R.Rule(rule, "HTML §13.2.3.5 normalises newlines before tokenisation: U+000D U+000A and a lone U+000D reach the tree builder as U+000A, so whatever the parser does with a line feed (it drops the one that follows a pre, listing or textarea start tag) it does with a carriage return of the input. The minifier reads the bytes before that normalisation. Every boolean expression in package html that compares a byte expression E with '\\n' has the same value for E = '\\r' as for E = '\\n', whatever the other atoms are (truth table over the remaining atoms; comparisons of E with other constants are evaluated)")
	info := pk.TypesInfo
	n := 0
	seen := map[ast.Expr]bool{}
	for _, fd := range load.FuncDecls(pk) {
		ast.Inspect(fd.Body, func(z ast.Node) bool {
			be, ok := z.(*ast.BinaryExpr)
			if !ok || (be.Op != token.EQL && be.Op != token.NEQ) {
				return true
			}
			k, isK := intConst(info, be.Y)
			if _, xConst := intConst(info, be.X); !isK || xConst || k != '\n' {
				return true
			}
			if t, isB := info.TypeOf(be.X).Underlying().(*types.Basic); !isB || (t.Kind() != types.Byte && t.Kind() != types.Uint8 && t.Kind() != types.Rune && t.Kind() != types.Int32) {
				return true
			}
			// the maximal boolean expression around the comparison
			var whole ast.Expr = be
			for x := c.P.Parent(whole); x != nil; x = c.P.Parent(x) {
				switch v := x.(type) {
				case *ast.ParenExpr:
					whole = v
					continue
				case *ast.UnaryExpr:
					if v.Op == token.NOT {
						whole = v
						continue
					}
				case *ast.BinaryExpr:
					if v.Op == token.LAND || v.Op == token.LOR {
						whole = v
						continue
					}
				}
				break
			}
			if seen[whole] {
				return true
			}
			seen[whole] = true
			n++
			subject := nospace(str(be.X))
			var atoms []string
			boolAtoms(whole, &atoms, map[string]bool{})
			// atoms that compare the same subject with a constant are decided by the byte; the others are free
			type cmp struct {
				neq bool
				k   int64
			}
			fixed := map[string]cmp{}
			var free []string
			var collect func(e ast.Expr)
			collect = func(e ast.Expr) {
				e = ast.Unparen(e)
				switch x := e.(type) {
				case *ast.UnaryExpr:
					if x.Op == token.NOT {
						collect(x.X)
						return
					}
				case *ast.BinaryExpr:
					if x.Op == token.LAND || x.Op == token.LOR {
						collect(x.X)
						collect(x.Y)
						return
					}
					if x.Op == token.EQL || x.Op == token.NEQ {
						if kk, ok := intConst(info, x.Y); ok && nospace(str(x.X)) == subject {
							fixed[str(e)] = cmp{x.Op == token.NEQ, kk}
						}
					}
				}
			}
			collect(whole)
			for _, a := range atoms {
				if _, ok := fixed[a]; !ok {
					free = append(free, a)
				}
			}
			construct := fmt.Sprintf("html.%s/%s compared with a line feed#%d: a carriage return is treated alike", load.FuncName(fd), subject, n)
			if len(free) > 14 {
				c.R.Unres(rule, construct, c.pos(be), "more than 14 free atoms in the condition")
				return true
			}
			differ := ""
			for m := 0; m < 1<<len(free) && differ == ""; m++ {
				val := func(b int64) map[string]bool {
					v := map[string]bool{}
					for i, a := range free {
						v[a] = m&(1<<i) != 0
					}
					for a, f := range fixed {
						v[a] = (f.k == b) != f.neq
					}
					return v
				}
				if evalBool(whole, val('\n')) != evalBool(whole, val('\r')) {
					var on []string
					for i, a := range free {
						if m&(1<<i) != 0 {
							on = append(on, a)
						}
					}
					differ = "with " + strings.Join(on, ", ") + " true and the other atoms false"
					if len(on) == 0 {
						differ = "with every other atom false"
					}
				}
			}
			c.R.Check(differ == "", rule, construct, c.pos(be), fmt.Sprintf("same value for '\\r' as for '\\n' under all %d valuations of the other atoms", 1<<len(free)),
				"the condition `"+nospace(str(whole))+"` answers differently for a carriage return than for a line feed ("+differ+"): the parser turns CR and CRLF into LF before it looks at them — `<pre><!--c-->\\r\\nx</pre>` loses the line break at the start of the pre content when the comment is dropped, which `<pre><!--c-->\\nx</pre>` keeps")
			return true
		})
	}
	c.R.Floor(rule, "conditions in package html that look for a line feed", n, 1)
}
