package rules

import (
	"fmt"
	"go/ast"
	"go/token"
	"go/types"
	"strings"

	"golang.org/x/tools/go/packages"

	"verif/checker/internal/flow"
	"verif/checker/internal/load"
)

var formatPkgs = []string{"css", "html", "js", "json", "svg", "xml"}

func init() {
	mutant(&Mutant{Name: "c14-copy-error-overwritten-by-close", Property: "C14", File: "minify.go",
		Old: "\t} else if _, err := io.Copy(in, r); err != nil {\n\t\treturn err\n\t}\n", New: "\t} else {\n\t\t_, err := io.Copy(in, r)\n\t\tif err = in.Close(); err != nil {\n\t\t\treturn err\n\t\t}\n\t}\n",
		Rule: "R14.8", Construct: "error of io.Copy(in,r) is used before err is assigned again"})
	register(&Property{
		ID:    "C14",
		Level: "other",
		Explain: "(R14.4) outside the probing minifiers no write to an io.Writer parameter loses its error; Decides on the CFG of every method implementing minify.Minifier in the six format packages that success (`return nil`) is reported only after the final probe `w.Write(nil)` on the output writer whose error is tested and returned, and only when the lexer/parser stopped with io.EOF " +
			"(for JS: after js.Parse's error was returned); every other exit returns an error expression (R14.1, R14.2). Through the wrappers the error reaches the caller: the pipe protocol of Writer/Reader/responseWriter (wg.Add before go, deferred Done and pipe close, error stored, Close = close pipe → wait → read error; Reader closes the pipe with the error) is checked as ordering rules (R14.3). " +
			"Not covered: that the dependency's lexers surface a reader error through Err() (read: parse.NewInput stores the io.ReadAll error; trusted).",
		Run: runC14,
	})
	mutant(&Mutant{Name: "c14-writer-wrapper-buffers-the-destination", Property: "C14", File: "minify.go",
		Old: "\t\tif err := m.Minify(mediatype, w, pr); err != nil {\n\t\t\tz.err = err\n\t\t}\n", New: "\t\tbw := bufio.NewWriter(w)\n\t\tdefer bw.Flush()\n\t\tif err := m.Minify(mediatype, bw, pr); err != nil {\n\t\t\tz.err = err\n\t\t}\n",
		Old2: "import (\n", New2: "import (\n\t\"bufio\"\n",
		Rule: "R14.7", Construct: "keeps the error of its flush"})
	mutant(&Mutant{Name: "c14-cmd-input-copy-error-shadowed", Property: "C14", File: "minify.go",
		Old: "\t} else if _, err := io.Copy(in, r); err != nil {\n\t\treturn err\n\t}\n", New: "\t} else if _, err := io.Copy(in, r); err == nil {\n\t\t_ = in.Sync()\n\t}\n",
		Rule: "R14.5", Construct: "cmdMinifier.Minify/read of the input"})
	mutant(&Mutant{Name: "c14-json-empty-input-fast-path", Property: "C14", File: "json/json.go",
		Old: "\tp := json.NewParser(z)\n", New: "\tif z.Len() == 0 {\n\t\t_, err := w.Write(nil)\n\t\treturn err\n\t}\n\tp := json.NewParser(z)\n",
		Rule: "R14.1", Construct: "return of the probe's result"})
	mutant(&Mutant{Name: "c14-xml-buffered-writer-deferred-flush", Property: "C14", File: "xml/xml.go",
		Old: "\tomitSpace := true // on true the next text token must not start with a space\n", New: "\tomitSpace := true // on true the next text token must not start with a space\n\tbw := bufio.NewWriter(w)\n\tdefer bw.Flush()\n",
		Old2: "import (\n\t\"io\"\n", New2: "import (\n\t\"bufio\"\n\t\"io\"\n",
		Rule: "R14.6", Construct: "no lossy buffering"})
	mutant(&Mutant{Name: "c14-cmd-copy-error-dropped", Property: "C14", File: "minify.go",
		Old: "\t\tif _, werr := io.Copy(w, out); werr != nil && err == nil {\n\t\t\terr = werr\n\t\t}\n", New: "\t\tio.Copy(w, out)\n",
		Rule: "R14.4", Construct: "cmdMinifier.Minify"})
	mutant(&Mutant{Name: "c14-func-adapter-swallows-write", Property: "C14", File: "minify.go",
		Old: "\treturn f(m, w, r, params)\n}", New: "\tif params == nil {\n\t\tw.Write(nil)\n\t}\n\treturn f(m, w, r, params)\n}",
		Rule: "R14.4", Construct: "MinifierFunc.Minify"})
	mutant(&Mutant{Name: "c14-json-no-probe", Property: "C14", File: "json/json.go",
		Old: "\t\t\tif _, err := w.Write(nil); err != nil {\n\t\t\t\treturn err\n\t\t\t}\n", New: "",
		Rule: "R14.1", Construct: "json.Minifier.Minify/return nil"})
	mutant(&Mutant{Name: "c14-xml-probe-ignored", Property: "C14", File: "xml/xml.go",
		Old: "\t\t\tif _, err := w.Write(nil); err != nil {\n\t\t\t\treturn err\n\t\t\t}\n", New: "\t\t\tw.Write(nil)\n",
		Rule: "R14.1", Construct: "xml.Minifier.Minify/return nil"})
	mutant(&Mutant{Name: "c14-svg-eof-swapped", Property: "C14", File: "svg/svg.go",
		Old: "\t\t\tif l.Err() == io.EOF {\n\t\t\t\treturn nil\n\t\t\t}\n\t\t\treturn l.Err()\n", New: "\t\t\tif l.Err() != io.EOF {\n\t\t\t\treturn nil\n\t\t\t}\n\t\t\treturn l.Err()\n",
		Rule: "R14.1", Construct: "svg.Minifier.Minify/return nil"})
	mutant(&Mutant{Name: "c14-js-parse-error-dropped", Property: "C14", File: "js/js.go",
		Old: "\tif err != nil {\n\t\treturn err\n\t}\n\n\tm := &jsMinifier{", New: "\tif err != nil && err != io.EOF {\n\t\treturn nil\n\t}\n\n\tm := &jsMinifier{",
		Rule: "R14.1", Construct: "js.Minifier.Minify/return nil"})
	mutant(&Mutant{Name: "c14-writer-close-order", Property: "C14", File: "minify.go",
		Old: "\terr := z.WriteCloser.Close()\n\tz.wg.Wait()\n", New: "\tz.wg.Wait()\n\terr := z.WriteCloser.Close()\n",
		Rule: "R14.3", Construct: "writer.Close"})
	mutant(&Mutant{Name: "c14-writer-err-lost", Property: "C14", File: "minify.go",
		Old: "\t\tif err := m.Minify(mediatype, w, pr); err != nil {\n\t\t\tz.err = err\n\t\t}\n", New: "\t\tm.Minify(mediatype, w, pr)\n",
		Rule: "R14.3", Construct: "M.Writer/goroutine"})
	mutant(&Mutant{Name: "c14-reader-close-no-error", Property: "C14", File: "minify.go",
		Old: "\t\t\tpw.CloseWithError(err)\n", New: "\t\t\tpw.Close()\n",
		Rule: "R14.3", Construct: "M.Reader/goroutine"})
}

func runC14(c *Ctx) {
	c.r141()
	c.pipeProtocol("R14.3")
	c.r144()
	c.r145()
	c.r146()
	c.r147()
	c.r148()
	c.r149()
}

// minifierMethods returns the Minify methods of type Minifier in the format packages.
func (c *Ctx) minifierMethods(rule string) map[string]*ast.FuncDecl {
	out := map[string]*ast.FuncDecl{}
	for _, rel := range formatPkgs {
		pk := c.pkg(rule, rel)
		if pk == nil {
			continue
		}
		if fd := c.fn(rule, pk, "Minifier.Minify"); fd != nil {
			out[rel] = fd
		}
	}
	return out
}

func paramOfType(info *types.Info, fd *ast.FuncDecl, typ string) types.Object {
	for _, f := range fd.Type.Params.List {
		if types.TypeString(info.TypeOf(f.Type), nil) == typ {
			for _, n := range f.Names {
				if n.Name != "_" {
					return info.Defs[n]
				}
			}
		}
	}
	return nil
}

func isNilExpr(e ast.Expr) bool {
	id, ok := ast.Unparen(e).(*ast.Ident)
	return ok && id.Name == "nil"
}

func retStmt(n *flow.Node) *ast.ReturnStmt {
	if n.Kind != flow.KStmt {
		return nil
	}
	r, _ := n.Stmt.(*ast.ReturnStmt)
	return r
}

// errTest reports whether node y is the outcome node meaning "errVar is nil" (nilOutcome) or "errVar is non-nil".
func errOutcome(info *types.Info, y *flow.Node, errObj types.Object, wantNil bool) bool {
	if (y.Kind != flow.KTrue && y.Kind != flow.KFalse) || y.Of.Kind != flow.KCond {
		return false
	}
	b, ok := ast.Unparen(y.Of.Expr).(*ast.BinaryExpr)
	if !ok || (b.Op != token.EQL && b.Op != token.NEQ) {
		return false
	}
	var id *ast.Ident
	if isNilExpr(b.Y) {
		id, _ = ast.Unparen(b.X).(*ast.Ident)
	} else if isNilExpr(b.X) {
		id, _ = ast.Unparen(b.Y).(*ast.Ident)
	}
	if id == nil || info.Uses[id] != errObj {
		return false
	}
	isNil := (b.Op == token.EQL) == (y.Kind == flow.KTrue)
	return isNil == wantNil
}

// assignedErr returns the object of the error variable receiving the last result of the call in stmt.
func assignedErr(info *types.Info, n *flow.Node, call *ast.CallExpr) types.Object {
	as, ok := n.Stmt.(*ast.AssignStmt)
	if n.Kind != flow.KStmt || !ok || len(as.Rhs) != 1 || ast.Unparen(as.Rhs[0]) != ast.Expr(call) {
		return nil
	}
	id, ok := as.Lhs[len(as.Lhs)-1].(*ast.Ident)
	if !ok || id.Name == "_" {
		return nil
	}
	if o := info.Defs[id]; o != nil {
		return o
	}
	return info.Uses[id]
}

func (c *Ctx) r141() {
	const rule = "R14.1"
	c.R.Rule(rule, "for every (*Minifier).Minify of css/html/js/json/svg/xml: each `return nil` is reached only after a call w.Write(nil) on the io.Writer parameter whose error result is bound, tested against nil, and returned on the non-nil outcome; and only under <lexer|parser>.Err() == io.EOF — or, where the function has no Err() (js), only after the error of js.Parse was tested and returned (R14.2); every other return yields a non-nil-literal error expression")
	probes := 0
	for rel, fd := range c.minifierMethods(rule) {
		pk := c.P.Pkg(rel)
		info := pk.TypesInfo
		g := c.graph(pk, fd)
		fname := rel + ".Minifier.Minify"
		w := paramOfType(info, fd, "io.Writer")
		if w == nil {
			c.R.Unres(rule, fname+"/writer param", c.pos(fd), "no io.Writer parameter")
			continue
		}
		// probe nodes
		type probe struct {
			n   *flow.Node
			err types.Object
		}
		var ps []probe
		for _, n := range g.Nodes {
			a := n.Ast()
			if a == nil || n.Kind != flow.KStmt {
				continue
			}
			flowInspectCalls(a, func(call *ast.CallExpr) {
				sel, ok := call.Fun.(*ast.SelectorExpr)
				if !ok || sel.Sel.Name != "Write" || len(call.Args) != 1 || !isNilExpr(call.Args[0]) {
					return
				}
				if id, ok := ast.Unparen(sel.X).(*ast.Ident); !ok || info.Uses[id] != w {
					return
				}
				if e := assignedErr(info, n, call); e != nil {
					ps = append(ps, probe{n, e})
				}
			})
		}
		probes += len(ps)
		isProbe := func(y *flow.Node) bool {
			for _, p := range ps {
				if p.n == y {
					return true
				}
			}
			return false
		}
		hasErrCall := flow.Contains(fd.Body, func(x ast.Node) bool {
			call, ok := x.(*ast.CallExpr)
			if !ok {
				return false
			}
			sel, ok := call.Fun.(*ast.SelectorExpr)
			return ok && sel.Sel.Name == "Err" && len(call.Args) == 0
		})
		k := 0
		for _, n := range g.Nodes {
			r := retStmt(n)
			if r == nil || len(r.Results) != 1 {
				continue
			}
			if !isNilExpr(r.Results[0]) {
				// `return err` with err bound by the probe itself is a success return whenever the probe succeeded
				id, isId := ast.Unparen(r.Results[0]).(*ast.Ident)
				isProbeErr := false
				if isId {
					for _, p := range ps {
						if info.Uses[id] == p.err {
							// not inside the probe's own failure branch
							inFail := false
							for _, f := range g.DomFacts(n) {
								for _, sc := range f.Test.Succs {
									if (sc.Kind == flow.KTrue) == f.Value && errOutcome(info, sc, p.err, false) {
										inFail = true
									}
								}
							}
							if !inFail && g.Dominates(p.n, n) {
								isProbeErr = true
							}
						}
					}
				}
				if !isProbeErr {
					continue
				}
				if hasErrCall {
					eof := false
					for _, f := range g.DomFacts(n) {
						if f.Test.Kind == flow.KCond && f.Value && strings.Contains(str(f.Test.Expr), "Err()") && strings.Contains(str(f.Test.Expr), "io.EOF") {
							eof = true
						}
					}
					kp := len(ps)
					c.R.Check(eof, rule, fmt.Sprintf("%s/return of the probe's result #%d", fname, kp), c.pos(r), "under Err() == io.EOF", "the result of w.Write(nil) is returned as the result of the whole call — nil when the writer is fine — without asking the lexer/parser whether it stopped at io.EOF: a reader error (which leaves an empty input behind) is reported as success")
				}
				continue
			}
			k++
			construct := fmt.Sprintf("%s/return nil#%d", fname, k)
			// (i) probe before, tested
			if p := g.MustPassBefore(n, isProbe, flow.Search{}); p != nil {
				c.R.Bad(rule, construct, c.pos(r), "success is reported on a path that never probes the writer with w.Write(nil): a failing writer (every earlier w.Write result is discarded) goes unnoticed: "+pathStr(c, g, p))
				continue
			}
			bad := ""
			for _, p := range ps {
				p := p
				tested := func(y *flow.Node) bool { return errOutcome(info, y, p.err, true) }
				if path := g.Path(flow.Search{From: []*flow.Node{p.n}, Goal: func(y *flow.Node) bool { return y == n }, Avoid: tested}); path != nil {
					bad = "the error of w.Write(nil) is not tested before success is reported: " + pathStr(c, g, path)
				}
				// non-nil outcome returns that error
				for _, y := range g.Nodes {
					if errOutcome(info, y, p.err, false) && g.Path(flow.Search{From: []*flow.Node{p.n}, Goal: func(z *flow.Node) bool { return z == y }}) != nil {
						retErr := func(z *flow.Node) bool {
							rr := retStmt(z)
							if rr == nil || len(rr.Results) != 1 {
								return false
							}
							id, ok := ast.Unparen(rr.Results[0]).(*ast.Ident)
							return ok && info.Uses[id] == p.err
						}
						if path := g.Path(flow.Search{From: []*flow.Node{y}, Goal: func(z *flow.Node) bool { return z.Kind == flow.KExit || z == n }, Avoid: retErr}); path != nil {
							bad = "a failing probe does not return its error: " + pathStr(c, g, path)
						}
					}
				}
			}
			if bad != "" {
				c.R.Bad(rule, construct, c.pos(r), bad)
				continue
			}
			// (ii) EOF clause
			if hasErrCall {
				eof := false
				for _, f := range g.DomFacts(n) {
					if f.Test.Kind != flow.KCond {
						continue
					}
					b, ok := ast.Unparen(f.Test.Expr).(*ast.BinaryExpr)
					if !ok {
						continue
					}
					isErrCall := func(e ast.Expr) bool {
						call, ok := ast.Unparen(e).(*ast.CallExpr)
						if !ok {
							return false
						}
						sel, ok := call.Fun.(*ast.SelectorExpr)
						return ok && sel.Sel.Name == "Err"
					}
					if (isErrCall(b.X) && usesObj(info, b.Y, "io.EOF") || isErrCall(b.Y) && usesObj(info, b.X, "io.EOF")) && (b.Op == token.EQL) == f.Value && (b.Op == token.EQL || b.Op == token.NEQ) {
						eof = true
					}
				}
				if !eof {
					c.R.Bad(rule, construct, c.pos(r), "success is not conditional on the lexer/parser having stopped with io.EOF: a read or syntax error would be reported as success (silent truncation)")
					continue
				}
				c.R.OK(rule, construct, c.pos(r), "after tested w.Write(nil) and under Err() == io.EOF")
			} else {
				// R14.2: js.Parse error returned
				okParse := false
				for _, x := range g.Nodes {
					if x.Kind != flow.KStmt || x.Ast() == nil {
						continue
					}
					for _, call := range findCalls(info, x.Ast(), false, pjs+".Parse") {
						e := assignedErr(info, x, call)
						if e == nil {
							continue
						}
						tested := func(y *flow.Node) bool { return errOutcome(info, y, e, true) }
						path := g.Path(flow.Search{From: []*flow.Node{x}, Goal: func(y *flow.Node) bool { return y == n }, Avoid: tested})
						// and non-nil outcome returns e
						retOK := true
						for _, y := range g.Nodes {
							if errOutcome(info, y, e, false) {
								retErr := func(z *flow.Node) bool {
									rr := retStmt(z)
									if rr == nil || len(rr.Results) != 1 {
										return false
									}
									id, ok := ast.Unparen(rr.Results[0]).(*ast.Ident)
									return ok && info.Uses[id] == e
								}
								if g.Path(flow.Search{From: []*flow.Node{y}, Goal: func(z *flow.Node) bool { return z.Kind == flow.KExit }, Avoid: retErr}) != nil {
									retOK = false
								}
							}
						}
						okParse = path == nil && retOK && g.Dominates(x, n)
					}
				}
				c.R.Check(okParse, rule, construct, c.pos(r), "after tested w.Write(nil); the parser's error was returned unchanged earlier (R14.2)", "the function has no Err() test and the error of js.Parse is not tested and returned before success is reported")
			}
		}
		c.R.Floor(rule, fname+" success returns", k, 1)
		// other returns
		for _, n := range g.Nodes {
			r := retStmt(n)
			if r == nil || len(r.Results) != 1 || isNilExpr(r.Results[0]) {
				continue
			}
			t := info.TypeOf(r.Results[0])
			c.R.Check(t != nil && types.TypeString(t, nil) == "error", rule, fmt.Sprintf("%s/return %s", fname, str(r.Results[0])), c.pos(r), "error-typed result", "non-error result")
		}
	}
	c.R.Floor(rule, "probe writes w.Write(nil)", probes, 6)
}

func flowInspectCalls(a ast.Node, f func(*ast.CallExpr)) {
	ast.Inspect(a, func(x ast.Node) bool {
		if x == nil {
			return false
		}
		if _, ok := x.(*ast.FuncLit); ok {
			return false
		}
		if call, ok := x.(*ast.CallExpr); ok {
			f(call)
		}
		return true
	})
}

// ---------------------------------------------------------------------------
// pipe protocol of Writer / Reader / responseWriter (shared by C12 R12.3 and C14 R14.3)

func (c *Ctx) pipeProtocol(rule string) {
	c.R.Rule(rule, "M.Writer and responseWriter.Write: wg.Add(1) dominates the go statement; the goroutine defers wg.Done() and pr.Close() and stores a non-nil minifier result into z.err. writer.Close: WriteCloser.Close() → wg.Wait() → read of z.err in that order on every path that is not the closed early return, and the result is z.err when non-nil. M.Reader: every path of the goroutine ends in pw.Close() or pw.CloseWithError(err), the latter exactly on the err != nil outcome with that err")
	pk := c.pkg(rule, "")
	if pk == nil {
		return
	}
	info := pk.TypesInfo
	const writerT = load.Mod + ".writer"
	for _, name := range []string{"M.Writer", "responseWriter.Write"} {
		fd := c.fn(rule, pk, name)
		if fd == nil {
			continue
		}
		g := c.graph(pk, fd)
		gos := 0
		for _, n := range g.Nodes {
			gs, ok := n.Stmt.(*ast.GoStmt)
			if n.Kind != flow.KStmt || !ok {
				continue
			}
			gos++
			construct := "minify." + name + "/goroutine"
			lit, ok := gs.Call.Fun.(*ast.FuncLit)
			if !ok {
				c.R.Unres(rule, construct, c.pos(gs), "go statement does not start a function literal")
				continue
			}
			var bad []string
			isAdd := func(y *flow.Node) bool {
				a := y.Ast()
				return a != nil && y.Kind == flow.KStmt && len(findCalls(info, a, false, "sync.(WaitGroup).Add")) > 0
			}
			if p := g.MustPassBefore(n, isAdd, flow.Search{}); p != nil {
				bad = append(bad, "wg.Add is not called on every path before the goroutine starts: Close could return before the minifier ran")
			}
			lg := c.graph(pk, lit)
			hasDefer := func(callee string, recvSuffix string) bool {
				for _, d := range lg.Defers {
					if calleeName(info, d.Call) == callee {
						return true
					}
				}
				return false
			}
			if !hasDefer("sync.(WaitGroup).Done", "") {
				bad = append(bad, "the goroutine does not defer wg.Done(): Close blocks forever when the minifier panics or returns early")
			}
			if !hasDefer("io.(PipeReader).Close", "") {
				bad = append(bad, "the goroutine does not defer pr.Close(): a minifier that stops reading early leaves the writer blocked in Write")
			}
			// the minifier's error is stored in z.err on the non-nil outcome
			stored := false
			for _, x := range lg.Nodes {
				if rhs, ok := assignsTo(x, func(l ast.Expr) bool { return isField(info, l, writerT, "err") }); ok {
					if id, isId := ast.Unparen(rhs).(*ast.Ident); isId {
						e := info.Uses[id]
						for _, f := range lg.DomFacts(x) {
							if f.Test.Kind == flow.KCond {
								for _, s := range f.Test.Succs {
									if errOutcome(info, s, e, false) && (s.Kind == flow.KTrue) == f.Value {
										stored = true
									}
								}
							}
						}
					}
				}
			}
			if !stored {
				bad = append(bad, "the minifier's error is not stored into writer.err: Close reports success although minification failed")
			}
			c.R.Check(len(bad) == 0, rule, construct, c.pos(gs), "Add before go; deferred Done and pipe close; error stored", strings.Join(bad, "; "))
		}
		c.R.Floor(rule, name+" goroutines", gos, 1)
	}
	// writer.Close ordering
	if fd := c.fn(rule, pk, "writer.Close"); fd != nil {
		g := c.graph(pk, fd)
		construct := "minify.writer.Close/order"
		var closeN, waitN *flow.Node
		for _, n := range g.Nodes {
			a := n.Ast()
			if a == nil || n.Kind != flow.KStmt {
				continue
			}
			flowInspectCalls(a, func(call *ast.CallExpr) {
				if calleeName(info, call) == "sync.(WaitGroup).Wait" {
					waitN = n
				}
				if sel, ok := call.Fun.(*ast.SelectorExpr); ok && sel.Sel.Name == "Close" && isField(info, sel.X, writerT, "WriteCloser") {
					closeN = n
				}
			})
		}
		var bad []string
		if closeN == nil || waitN == nil {
			bad = append(bad, "Close does not both close the pipe writer and wait for the goroutine")
		} else {
			if !g.Dominates(closeN, waitN) {
				bad = append(bad, "wg.Wait() can run before the pipe writer is closed: the minifier never sees EOF and Close deadlocks")
			}
			// every read of z.err is dominated by Wait
			for _, n := range g.Nodes {
				a := n.Ast()
				if a == nil {
					continue
				}
				reads := flow.Contains(a, func(x ast.Node) bool {
					e, ok := x.(ast.Expr)
					return ok && isField(info, e, writerT, "err")
				})
				if reads && !g.Dominates(waitN, n) {
					bad = append(bad, "writer.err is read at "+c.pos(a)+" before wg.Wait(): races with the goroutine and can miss the error")
				}
			}
			// all non-early exits pass Wait: returns not dominated by wait must be under z.closed
			for _, n := range g.Nodes {
				if r := retStmt(n); r != nil && !g.Dominates(waitN, n) {
					early := false
					for _, f := range g.DomFacts(n) {
						if f.Value && f.Test.Kind == flow.KCond && isField(info, f.Test.Expr, writerT, "closed") {
							early = true
						}
					}
					if !early {
						bad = append(bad, "a return at "+c.pos(r)+" skips the wait without being the already-closed early return")
					}
				}
			}
			// result is z.err when non-nil
			retErr := false
			for _, n := range g.Nodes {
				if r := retStmt(n); r != nil && len(r.Results) == 1 && isField(info, r.Results[0], writerT, "err") {
					retErr = true
				}
			}
			if !retErr {
				bad = append(bad, "Close never returns writer.err")
			}
		}
		c.R.Check(len(bad) == 0, rule, construct, c.pos(fd), "close pipe → wait → read err", strings.Join(bad, "; "))
	}
	// Reader goroutine
	if fd := c.fn(rule, pk, "M.Reader"); fd != nil {
		g := c.graph(pk, fd)
		found := false
		for _, n := range g.Nodes {
			gs, ok := n.Stmt.(*ast.GoStmt)
			if n.Kind != flow.KStmt || !ok {
				continue
			}
			lit, ok := gs.Call.Fun.(*ast.FuncLit)
			if !ok {
				continue
			}
			found = true
			construct := "minify.M.Reader/goroutine"
			lg := c.graph(pk, lit)
			closes := func(y *flow.Node) bool {
				a := y.Ast()
				return a != nil && y.Kind == flow.KStmt && len(findCalls(info, a, false, "io.(PipeWriter).Close", "io.(PipeWriter).CloseWithError")) > 0
			}
			var bad []string
			if p := lg.Path(flow.Search{From: []*flow.Node{lg.Entry}, IncludeFrom: true, Goal: func(y *flow.Node) bool { return y.Kind == flow.KExit }, Avoid: closes}); p != nil {
				bad = append(bad, "a path of the goroutine ends without closing the pipe writer: the consumer blocks in Read forever")
			}
			// error outcome closes with that error; success outcome plain Close
			for _, x := range lg.Nodes {
				a := x.Ast()
				if a == nil || x.Kind != flow.KStmt {
					continue
				}
				for _, call := range findCalls(info, a, false, "io.(PipeWriter).Close") {
					_ = call
					for _, f := range lg.DomFacts(x) {
						for _, s := range f.Test.Succs {
							if (s.Kind == flow.KTrue) == f.Value && isErrNonNilOutcome(info, s) {
								bad = append(bad, "on the error outcome the pipe is closed without the error: the reader sees a clean EOF after truncated output")
							}
						}
					}
				}
				for _, call := range findCalls(info, a, false, "io.(PipeWriter).CloseWithError") {
					id, isId := ast.Unparen(call.Args[0]).(*ast.Ident)
					okDom := false
					if isId {
						e := info.Uses[id]
						for _, f := range lg.DomFacts(x) {
							for _, s := range f.Test.Succs {
								if (s.Kind == flow.KTrue) == f.Value && errOutcome(info, s, e, false) {
									okDom = true
								}
							}
						}
					}
					if !okDom {
						bad = append(bad, "CloseWithError is not given the minifier's non-nil error")
					}
				}
			}
			hasCWE := len(findCalls(info, lit.Body, false, "io.(PipeWriter).CloseWithError")) > 0
			if !hasCWE {
				bad = append(bad, "the minifier's error is never passed to the pipe (no CloseWithError)")
			}
			c.R.Check(len(bad) == 0, rule, construct, c.pos(gs), "pipe closed on all paths, with the error on failure", strings.Join(bad, "; "))
		}
		if !found {
			c.R.Unres(rule, "minify.M.Reader/goroutine", c.pos(fd), "goroutine not found")
		}
	}
}

// isErrNonNilOutcome: outcome node of `X != nil` true / `X == nil` false for an error-typed identifier.
func isErrNonNilOutcome(info *types.Info, y *flow.Node) bool {
	if (y.Kind != flow.KTrue && y.Kind != flow.KFalse) || y.Of.Kind != flow.KCond {
		return false
	}
	b, ok := ast.Unparen(y.Of.Expr).(*ast.BinaryExpr)
	if !ok || (b.Op != token.EQL && b.Op != token.NEQ) {
		return false
	}
	var id *ast.Ident
	if isNilExpr(b.Y) {
		id, _ = ast.Unparen(b.X).(*ast.Ident)
	} else if isNilExpr(b.X) {
		id, _ = ast.Unparen(b.Y).(*ast.Ident)
	}
	if id == nil || info.TypeOf(id) == nil || types.TypeString(info.TypeOf(id), nil) != "error" {
		return false
	}
	return (b.Op == token.NEQ) == (y.Kind == flow.KTrue)
}

var _ = packages.NeedName

// R14.4: outside the ignore-then-probe minifiers, no write to the caller's writer loses its error.
func (c *Ctx) r144() {
	const rule = "R14.4"
	c.R.Rule(rule, "library packages: in every function with an io.Writer parameter other than the six (*Minifier).Minify methods and helpers that are only called from them with their own writer (whose discarded writes are covered by the final probe, R14.1), each call that writes to that parameter — w.Write, io.Copy / io.CopyN / io.CopyBuffer / io.WriteString with it as destination, fmt.Fprint* — has its error result bound to a variable (not an expression statement, not `defer`/`go`, not `_`): a failing writer must surface from the call that was given it")
	probed := map[*ast.FuncDecl]bool{}
	for _, fd := range c.minifierMethods(rule) {
		probed[fd] = true
	}
	// helpers of a probing minifier: functions whose every call site lies in a probing function and
	// receives that function's own writer parameter are covered by the caller's final probe
	for changed := true; changed; {
		changed = false
		for _, rel := range formatPkgs {
			pk := c.P.Pkg(rel)
			if pk == nil {
				continue
			}
			info := pk.TypesInfo
			for _, fd := range load.FuncDecls(pk) {
				if fd.Body == nil || probed[fd] || paramOfType(info, fd, "io.Writer") == nil {
					continue
				}
				wIdx := -1
				k := 0
				for _, f := range fd.Type.Params.List {
					for range f.Names {
						if types.TypeString(info.TypeOf(f.Type), nil) == "io.Writer" && wIdx < 0 {
							wIdx = k
						}
						k++
					}
				}
				self := info.Defs[fd.Name]
				sites, covered := 0, 0
				for _, caller := range load.FuncDecls(pk) {
					if caller.Body == nil {
						continue
					}
					cw := paramOfType(info, caller, "io.Writer")
					ast.Inspect(caller.Body, func(x ast.Node) bool {
						call, ok := x.(*ast.CallExpr)
						if !ok || callee(info, call) != self {
							return true
						}
						sites++
						if probed[caller] && cw != nil && wIdx >= 0 && wIdx < len(call.Args) {
							if id, isId := ast.Unparen(call.Args[wIdx]).(*ast.Ident); isId && info.Uses[id] == cw {
								covered++
							}
						}
						return true
					})
				}
				if sites > 0 && sites == covered {
					probed[fd] = true
					changed = true
				}
			}
		}
	}
	writerFuncs := map[string]int{ // callee -> index of the destination argument
		"io.Copy": 0, "io.CopyN": 0, "io.CopyBuffer": 0, "io.WriteString": 0,
		"fmt.Fprint": 0, "fmt.Fprintf": 0, "fmt.Fprintln": 0,
	}
	nFuncs, nWrites := 0, 0
	for _, rel := range libPkgs {
		pk := c.P.Pkg(rel)
		if pk == nil {
			continue
		}
		info := pk.TypesInfo
		for _, fd := range load.FuncDecls(pk) {
			if fd.Body == nil || probed[fd] {
				continue
			}
			wObj := paramOfType(info, fd, "io.Writer")
			if wObj == nil {
				continue
			}
			nFuncs++
			fname := pk.Name + "." + load.FuncName(fd)
			isW := func(e ast.Expr) bool {
				id, ok := ast.Unparen(e).(*ast.Ident)
				return ok && info.Uses[id] == wObj
			}
			var bad []string
			writes := 0
			var visit func(n ast.Node, discarded string)
			checkCall := func(call *ast.CallExpr, discarded string) {
				isWrite := false
				if sel, ok := call.Fun.(*ast.SelectorExpr); ok && sel.Sel.Name == "Write" && isW(sel.X) {
					isWrite = true
				}
				if idx, ok := writerFuncs[calleeName(info, call)]; ok && idx < len(call.Args) && isW(call.Args[idx]) {
					isWrite = true
				}
				if !isWrite {
					return
				}
				writes++
				if discarded != "" {
					bad = append(bad, fmt.Sprintf("%s (%s) at %s", str(call), discarded, c.pos(call)))
				}
			}
			visit = func(n ast.Node, discarded string) {
				ast.Inspect(n, func(x ast.Node) bool {
					switch s := x.(type) {
					case *ast.ExprStmt:
						if call, ok := ast.Unparen(s.X).(*ast.CallExpr); ok {
							checkCall(call, "result dropped")
							for _, a := range call.Args {
								visit(a, "")
							}
							return false
						}
					case *ast.DeferStmt:
						checkCall(s.Call, "deferred, result dropped")
						if fl, ok := s.Call.Fun.(*ast.FuncLit); ok {
							visit(fl.Body, "")
						}
						return false
					case *ast.GoStmt:
						checkCall(s.Call, "go statement, result dropped")
						if fl, ok := s.Call.Fun.(*ast.FuncLit); ok {
							visit(fl.Body, "")
						}
						return false
					case *ast.AssignStmt:
						if len(s.Rhs) == 1 {
							if call, ok := ast.Unparen(s.Rhs[0]).(*ast.CallExpr); ok {
								d := ""
								if id, isId := s.Lhs[len(s.Lhs)-1].(*ast.Ident); isId && id.Name == "_" {
									d = "error assigned to _"
								}
								checkCall(call, d)
								return false
							}
						}
					case *ast.CallExpr:
						checkCall(s, "")
					}
					return true
				})
			}
			visit(fd.Body, "")
			nWrites += writes
			if writes == 0 {
				continue
			}
			c.R.Check(len(bad) == 0, rule, fname+"/writes to the io.Writer parameter keep their error", c.pos(fd), fmt.Sprintf("%d write(s), every error bound", writes), "the error of a write to the caller's writer is lost: "+strings.Join(bad, "; "))
		}
	}
	c.R.Note("R14.4: %d functions with an io.Writer parameter outside the probing minifiers, %d direct writes", nFuncs, nWrites)
	c.R.Floor(rule, "functions with an io.Writer parameter", nFuncs, 5)
}

// R14.5: a failed read of the caller's reader fails the call.
func (c *Ctx) r145() {
	const rule = "R14.5"
	c.R.Rule(rule, "library packages and cmd/minify: for every call that consumes an io.Reader parameter of the enclosing function and returns an error — io.Copy(dst, r), io.CopyN, io.ReadAll(r), io.ReadFull, r.Read — the error is bound to a variable e, and from the call no `return` whose results do not mention e (nor the end of the function) is reachable without passing an outcome that establishes e == nil. A result bound to a shadowing variable, or tested with the wrong polarity, lets a reader failure pass as success with truncated input")
	readers := map[string]int{"io.Copy": 1, "io.CopyN": 1, "io.CopyBuffer": 1, "io.ReadAll": 0, "io.ReadFull": 0, "io.ReadAtLeast": 0}
	n := 0
	rels := append([]string{"cmd/minify"}, libPkgs...)
	for _, rel := range rels {
		pk := c.P.Pkg(rel)
		if pk == nil {
			continue
		}
		info := pk.TypesInfo
		for _, fd := range load.FuncDecls(pk) {
			if fd.Body == nil {
				continue
			}
			// reader-typed parameters and locals assigned from opening an input
			isReader := func(e ast.Expr) bool {
				id, ok := ast.Unparen(e).(*ast.Ident)
				if !ok {
					return false
				}
				v, isVar := info.Uses[id].(*types.Var)
				if !isVar {
					return false
				}
				ts := types.TypeString(v.Type(), nil)
				return ts == "io.Reader" || ts == "io.ReadCloser"
			}
			g := c.graph(pk, fd)
			fname := pk.Name + "." + load.FuncName(fd)
			k := 0
			for _, y := range g.Nodes {
				a := y.Ast()
				if a == nil || y.Kind != flow.KStmt {
					continue
				}
				var call *ast.CallExpr
				flowInspectCalls(a, func(cl *ast.CallExpr) {
					if idx, ok := readers[calleeName(info, cl)]; ok && idx < len(cl.Args) && isReader(cl.Args[idx]) {
						call = cl
					}
					if sel, ok := cl.Fun.(*ast.SelectorExpr); ok && sel.Sel.Name == "Read" && isReader(sel.X) {
						call = cl
					}
				})
				if call == nil {
					continue
				}
				n++
				k++
				construct := fmt.Sprintf("%s/read of the input #%d (%s)", fname, k, str(call.Fun))
				e := assignedErr(info, y, call)
				if e == nil {
					// returned directly?
					if r, isRet := y.Stmt.(*ast.ReturnStmt); isRet && len(r.Results) > 0 {
						c.R.OK(rule, construct, c.pos(call), "result returned directly")
						continue
					}
					c.R.Bad(rule, construct, c.pos(call), "the error of reading the input is not bound to a variable: a failing reader goes unnoticed")
					continue
				}
				mentions := func(r *ast.ReturnStmt) bool {
					return flow.Contains(r, func(q ast.Node) bool {
						id, ok := q.(*ast.Ident)
						return ok && info.Uses[id] == e
					})
				}
				// outcomes establishing e != nil
				var nonNil []*flow.Node
				for _, q := range g.Nodes {
					if errOutcome(info, q, e, false) {
						nonNil = append(nonNil, q)
					}
				}
				failureReturn := func(q *flow.Node) bool {
					r := retStmt(q)
					if r == nil {
						return false
					}
					if mentions(r) {
						return true
					}
					for _, o := range nonNil {
						if g.Dominates(o, q) {
							return true // a return inside the error branch (e.g. `return false` after logging)
						}
					}
					return false
				}
				p := g.Path(flow.Search{From: []*flow.Node{y}, Goal: func(q *flow.Node) bool {
					if q.Kind == flow.KExit {
						return true
					}
					return retStmt(q) != nil && !failureReturn(q)
				}, Avoid: func(q *flow.Node) bool {
					if errOutcome(info, q, e, true) {
						return true // e is known to be nil beyond this outcome
					}
					return failureReturn(q)
				}})
				c.R.Check(p == nil, rule, construct, c.pos(call), "every continuation either knows "+c.P.NameOf(e)+" == nil or returns it", "after the read the function can go on and return without "+c.P.NameOf(e)+" although it may be non-nil (shadowed or mis-tested error): "+pathStr(c, g, p))
			}
		}
	}
	c.R.Floor(rule, "reads of an input reader", n, 3)
}

// R14.6: nothing buffers between the minifier and the writer that is probed.
func (c *Ctx) r146() {
	const rule = "R14.6"
	c.R.Rule(rule, "the six (*Minifier).Minify methods report a failing writer through the final probe w.Write(nil) on their io.Writer parameter; that only works while every output byte is handed to that same writer before the probe. If the parameter is wrapped in a buffering writer (bufio.NewWriter / NewWriterSize over it), every Flush of the wrapper is a plain (not deferred) call whose error is bound to a variable, and a probe or return of that error follows — a deferred or discarded Flush runs after the probe and its error is lost (the writer accepts the probe, fails on the flushed data, and Minify returns nil)")
	n := 0
	for rel, fd := range c.minifierMethods(rule) {
		pk := c.P.Pkg(rel)
		info := pk.TypesInfo
		w := paramOfType(info, fd, "io.Writer")
		if w == nil {
			continue
		}
		n++
		var wrappers []types.Object
		var bad []string
		ast.Inspect(fd.Body, func(x ast.Node) bool {
			as, ok := x.(*ast.AssignStmt)
			if !ok || len(as.Rhs) != 1 || len(as.Lhs) != 1 {
				return true
			}
			call, isCall := ast.Unparen(as.Rhs[0]).(*ast.CallExpr)
			if !isCall {
				return true
			}
			cn := calleeName(info, call)
			if (cn == "bufio.NewWriter" || cn == "bufio.NewWriterSize") && len(call.Args) >= 1 {
				if id, isId := ast.Unparen(call.Args[0]).(*ast.Ident); isId && info.Uses[id] == w {
					if lid, isL := as.Lhs[0].(*ast.Ident); isL {
						o := info.Defs[lid]
						if o == nil {
							o = info.Uses[lid]
						}
						wrappers = append(wrappers, o)
					}
				}
			}
			return true
		})
		for _, wo := range wrappers {
			flushes := 0
			ast.Inspect(fd.Body, func(x ast.Node) bool {
				isFlush := func(call *ast.CallExpr) bool {
					sel, ok := call.Fun.(*ast.SelectorExpr)
					if !ok || sel.Sel.Name != "Flush" {
						return false
					}
					id, isId := ast.Unparen(sel.X).(*ast.Ident)
					return isId && info.Uses[id] == wo
				}
				switch st := x.(type) {
				case *ast.DeferStmt:
					if isFlush(st.Call) {
						flushes++
						bad = append(bad, "deferred "+str(st.Call)+" at "+c.pos(st)+" runs after the probe and its error is dropped")
					}
				case *ast.ExprStmt:
					if call, ok := st.X.(*ast.CallExpr); ok && isFlush(call) {
						flushes++
						bad = append(bad, str(call)+" at "+c.pos(st)+" drops its error")
					}
				case *ast.AssignStmt:
					if len(st.Rhs) == 1 {
						if call, ok := ast.Unparen(st.Rhs[0]).(*ast.CallExpr); ok && isFlush(call) {
							flushes++
							if id, isId := st.Lhs[len(st.Lhs)-1].(*ast.Ident); isId && id.Name == "_" {
								bad = append(bad, str(call)+" at "+c.pos(st)+" assigns its error to _")
							}
						}
					}
				case *ast.IfStmt:
					// if err := bw.Flush(); err != nil { return err } is fine (AssignStmt in Init is visited separately)
				}
				return true
			})
			if flushes == 0 {
				bad = append(bad, c.P.NameOf(wo)+" buffers the output and is never flushed")
			}
		}
		c.R.Check(len(bad) == 0, rule, rel+".Minifier.Minify/no lossy buffering in front of the probed writer", c.pos(fd), fmt.Sprintf("%d buffering wrapper(s) over the writer parameter", len(wrappers)), strings.Join(bad, "; "))
	}
	c.R.Floor(rule, "Minify methods", n, 6)
}

// R14.7: no buffering writer in the library swallows the error of its last flush.
func (c *Ctx) r147() {
	const rule = "R14.7"
	c.R.Rule(rule, "the same as R14.6 for every other function of the library (the entry points M.Writer, M.Reader, the middleware, the command minifier): a bufio.NewWriter / NewWriterSize over a writer that the function did not create itself sits between the minifier's final probe `w.Write(nil)` and the real destination — bufio answers the probe from its buffer. Every Flush of such a wrapper is a plain call whose error is bound to a variable; a deferred or discarded Flush, or none at all, loses the failure of the destination (output below 4096 bytes: everything is lost and Close returns nil). The rule has no instance on the pinned tree (the library does not buffer); its self-test mutant introduces one")
	n := 0
	for _, rel := range libPkgs {
		pk := c.P.Pkg(rel)
		if pk == nil {
			continue
		}
		info := pk.TypesInfo
		for _, fd := range load.FuncDecls(pk) {
			if fd.Body == nil {
				continue
			}
			// the six Minify methods are judged by R14.6
			if fd.Recv != nil && fd.Name.Name == "Minify" && rel != "" {
				continue
			}
			ast.Inspect(fd.Body, func(x ast.Node) bool {
				as, ok := x.(*ast.AssignStmt)
				if !ok || len(as.Rhs) != 1 || len(as.Lhs) != 1 {
					return true
				}
				call, isCall := ast.Unparen(as.Rhs[0]).(*ast.CallExpr)
				if !isCall {
					return true
				}
				cn := calleeName(info, call)
				if cn != "bufio.NewWriter" && cn != "bufio.NewWriterSize" {
					return true
				}
				lid, isL := as.Lhs[0].(*ast.Ident)
				if !isL {
					return true
				}
				wo := info.ObjectOf(lid)
				n++
				var bad []string
				flushes := 0
				ast.Inspect(fd.Body, func(z ast.Node) bool {
					isFlush := func(ce *ast.CallExpr) bool {
						sel, ok := ce.Fun.(*ast.SelectorExpr)
						if !ok || sel.Sel.Name != "Flush" {
							return false
						}
						id, isId := ast.Unparen(sel.X).(*ast.Ident)
						return isId && info.Uses[id] == wo
					}
					switch st := z.(type) {
					case *ast.DeferStmt:
						if isFlush(st.Call) {
							flushes++
							bad = append(bad, "deferred "+str(st.Call)+" at "+c.pos(st)+": its error is dropped")
						}
					case *ast.ExprStmt:
						if ce, ok := st.X.(*ast.CallExpr); ok && isFlush(ce) {
							flushes++
							bad = append(bad, str(ce)+" at "+c.pos(st)+" drops its error")
						}
					case *ast.AssignStmt:
						if len(st.Rhs) == 1 {
							if ce, ok := ast.Unparen(st.Rhs[0]).(*ast.CallExpr); ok && isFlush(ce) {
								flushes++
								if len(st.Lhs) == 1 && str(st.Lhs[0]) == "_" {
									bad = append(bad, str(ce)+" at "+c.pos(st)+" assigns its error to _")
								}
							}
						}
					}
					return true
				})
				if flushes == 0 {
					bad = append(bad, "the wrapper is never flushed")
				}
				c.R.Check(len(bad) == 0, rule, fmt.Sprintf("%s.%s/buffering writer %s keeps the error of its flush", pk.Name, load.FuncName(fd), lid.Name), c.pos(as), "every Flush error is bound", "a buffering writer stands in front of the destination and "+strings.Join(bad, "; ")+": the minifier's probe write is answered by the buffer, the destination fails when the buffer is flushed, and nobody sees that error — M.Writer's Close returns nil for output that never arrived")
				return true
			})
		}
	}
	c.R.Note("R14.7: %d buffering writers in library functions outside the Minify methods", n)
}

// R14.8: an error is looked at before the variable that holds it is assigned again.
func (c *Ctx) r148() {
	const rule = "R14.8"
	c.R.Rule(rule, "in the functions of the library that move data between the caller's reader / writer and something else (io.Copy, io.ReadAll, Read, Write, Close, Flush, Sync bound to an error variable), no path leads from the assignment of the error to another assignment of the same variable without a use of it in between (a test, a return, an argument). `_, err := io.Copy(in, r); if err = in.Close(); err != nil` reports only the Close: a reader that fails after k bytes yields a truncated input that is processed as if it were complete, and Minify returns nil")
	ioCall := func(info *types.Info, ce *ast.CallExpr) bool {
		n := calleeName(info, ce)
		switch {
		case n == "io.Copy", n == "io.CopyN", n == "io.CopyBuffer", n == "io.ReadAll", n == "io.ReadFull", n == "io.WriteString":
			return true
		}
		for _, suf := range []string{").Read", ").Write", ").Close", ").Flush", ").Sync", ").ReadFrom", ").WriteTo"} {
			if strings.HasSuffix(n, suf) {
				return true
			}
		}
		return false
	}
	n := 0
	for _, rel := range libPkgs {
		pk := c.P.Pkg(rel)
		if pk == nil {
			continue
		}
		info := pk.TypesInfo
		for _, fd := range load.FuncDecls(pk) {
			if fd.Body == nil {
				continue
			}
			// candidate assignments
			type site struct {
				as  *ast.AssignStmt
				obj types.Object
			}
			var sites []site
			ast.Inspect(fd.Body, func(x ast.Node) bool {
				if _, ok := x.(*ast.FuncLit); ok {
					return false
				}
				as, ok := x.(*ast.AssignStmt)
				if !ok || len(as.Rhs) != 1 {
					return true
				}
				ce, ok := ast.Unparen(as.Rhs[0]).(*ast.CallExpr)
				if !ok || !ioCall(info, ce) {
					return true
				}
				for _, l := range as.Lhs {
					id, ok := l.(*ast.Ident)
					if !ok || id.Name == "_" {
						continue
					}
					o := info.Defs[id]
					if o == nil {
						o = info.Uses[id]
					}
					if o != nil && isErrorType(o.Type()) {
						sites = append(sites, site{as, o})
					}
				}
				return true
			})
			if len(sites) == 0 {
				continue
			}
			g := c.graph(pk, fd)
			reads := func(q *flow.Node, obj types.Object) bool {
				a := q.Ast()
				if a == nil {
					return false
				}
				hit := false
				var lhs map[*ast.Ident]bool
				if as, ok := a.(*ast.AssignStmt); ok {
					lhs = map[*ast.Ident]bool{}
					for _, l := range as.Lhs {
						if id, ok := l.(*ast.Ident); ok {
							lhs[id] = true
						}
					}
				}
				ast.Inspect(a, func(z ast.Node) bool {
					if _, ok := z.(*ast.FuncLit); ok {
						hit = true // captured: may be read later
						return false
					}
					if id, ok := z.(*ast.Ident); ok && !lhs[id] && info.Uses[id] == obj {
						hit = true
					}
					return true
				})
				return hit
			}
			writes := func(q *flow.Node, obj types.Object) bool {
				as, ok := q.Stmt.(*ast.AssignStmt)
				if !ok || q.Kind != flow.KStmt {
					return false
				}
				for _, l := range as.Lhs {
					if id, ok := l.(*ast.Ident); ok && (info.Uses[id] == obj || info.Defs[id] == obj) {
						return true
					}
				}
				return false
			}
			for _, s := range sites {
				from := g.NodeOf(s.as)
				if from == nil {
					continue
				}
				// named results are read by every return
				n++
				p := g.Path(flow.Search{From: []*flow.Node{from}, Goal: func(q *flow.Node) bool { return q != from && writes(q, s.obj) && !reads(q, s.obj) },
					Avoid: func(q *flow.Node) bool {
						if q == from {
							return false
						}
						if reads(q, s.obj) {
							return true
						}
						if rs := retStmt(q); rs != nil && len(rs.Results) == 0 {
							return true // bare return reads named results
						}
						return false
					}})
				c.R.Check(p == nil, rule, fmt.Sprintf("%s.%s/error of %s is used before %s is assigned again", pk.Name, load.FuncName(fd), nospace(str(s.as.Rhs[0])), s.obj.Name()), c.pos(s.as), "tested, returned or passed on first",
					"the error of "+str(s.as.Rhs[0])+" is overwritten before anything looks at it: the failure is lost and the function goes on with incomplete data: "+pathStr(c, g, p))
			}
		}
	}
	c.R.Floor(rule, "errors of reader / writer operations bound to a variable", n, 3)
}

func isErrorType(t types.Type) bool {
	return t != nil && types.Identical(t, types.Universe.Lookup("error").Type())
}

// R14.9: the command minifier probes its writer too.
func (c *Ctx) r149() {
	const rule = "R14.9"
	c.R.Rule(rule, "a minifier registered with AddCmd runs an external command and copies its output to the writer; a command that prints nothing — an empty input, a tool that writes elsewhere — leads to no Write at all, and a writer that has failed is not noticed (R14.1 holds for the six built-in minifiers through their final `w.Write(nil)`). cmdMinifier.Minify contains a probe `w.Write(nil)` on its io.Writer parameter whose error is assigned, and the last return statement of the function returns that variable")
	pk := c.pkg(rule, "")
	if pk == nil {
		return
	}
	info := pk.TypesInfo
	fd := c.fn(rule, pk, "cmdMinifier.Minify")
	if fd == nil {
		return
	}
	w := paramOfType(info, fd, "io.Writer")
	if w == nil {
		c.R.Unres(rule, "minify.cmdMinifier.Minify/writer param", c.pos(fd), "no io.Writer parameter")
		return
	}
	var last *ast.ReturnStmt
	for _, st := range fd.Body.List {
		if rs, ok := st.(*ast.ReturnStmt); ok {
			last = rs
		}
	}
	var probed types.Object
	ast.Inspect(fd.Body, func(z ast.Node) bool {
		as, ok := z.(*ast.AssignStmt)
		if !ok || len(as.Rhs) != 1 || len(as.Lhs) != 2 {
			return true
		}
		call, ok := ast.Unparen(as.Rhs[0]).(*ast.CallExpr)
		if !ok || len(call.Args) != 1 || !isNilExpr(call.Args[0]) {
			return true
		}
		sel, ok := call.Fun.(*ast.SelectorExpr)
		if !ok || sel.Sel.Name != "Write" {
			return true
		}
		if id, ok := ast.Unparen(sel.X).(*ast.Ident); !ok || info.Uses[id] != w {
			return true
		}
		if eid, ok := as.Lhs[1].(*ast.Ident); ok && eid.Name != "_" {
			probed = info.Uses[eid]
			if probed == nil {
				probed = info.Defs[eid]
			}
		}
		return true
	})
	good := false
	if last != nil && len(last.Results) == 1 && probed != nil {
		if id, ok := ast.Unparen(last.Results[0]).(*ast.Ident); ok && info.Uses[id] == probed {
			good = true
		}
	}
	c.R.Check(good, rule, "minify.cmdMinifier.Minify/the writer is probed before success is reported", c.pos(fd), "w.Write(nil) assigned to the error that is returned",
		"the command minifier reports success without having written anything when the command printed nothing: a failing writer goes unnoticed (`AddCmd(\"a/out\", exec.Command(\"true\"))` with a writer that always fails returns nil)")
}
