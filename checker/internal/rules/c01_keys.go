package rules

import (
	"fmt"
	"go/ast"
	"go/constant"
	"go/token"
	"go/types"
	"sort"
	"strings"

	"golang.org/x/tools/go/packages"
	"golang.org/x/tools/go/types/typeutil"

	"verif/checker/internal/flow"
	"verif/checker/internal/load"
	"verif/checker/internal/ref"
)

// calleeDecl returns the declaration of a statically resolved callee that lives in the module.
func (c *Ctx) calleeDecl(info *types.Info, call *ast.CallExpr) (*packages.Package, *ast.FuncDecl) {
	f, _ := callee(info, call).(*types.Func)
	if f == nil || f.Pkg() == nil {
		return nil, nil
	}
	for _, p := range c.P.Roots {
		if p.Types != f.Pkg() {
			continue
		}
		for _, d := range load.FuncDecls(p) {
			if p.TypesInfo.Defs[d.Name] == f {
				return p, d
			}
		}
	}
	return nil, nil
}

// constsIn collects the character, string and integer constants that occur in a node (through package-level
// []byte("…") variables as well).
func (c *Ctx) constsIn(pk *packages.Package, n ast.Node) (chars map[rune]bool, strs map[string]bool, ints map[int64]bool) {
	chars, strs, ints = map[rune]bool{}, map[string]bool{}, map[int64]bool{}
	info := pk.TypesInfo
	ast.Inspect(n, func(x ast.Node) bool {
		e, ok := x.(ast.Expr)
		if !ok {
			return true
		}
		if tv, ok := info.Types[e]; ok && tv.Value != nil {
			switch tv.Value.Kind() {
			case constant.String:
				strs[constant.StringVal(tv.Value)] = true
			case constant.Int:
				if v, ok := constant.Int64Val(tv.Value); ok {
					ints[v] = true
					if b, isB := tv.Type.Underlying().(*types.Basic); isB && (b.Kind() == types.UntypedRune || b.Kind() == types.Int32 || b.Kind() == types.Uint8) {
						chars[rune(v)] = true
					}
				}
			}
		}
		if bl, ok := e.(*ast.BasicLit); ok && bl.Kind == token.CHAR {
			if tv, ok := info.Types[e]; ok && tv.Value != nil {
				if v, ok := constant.Int64Val(tv.Value); ok {
					chars[rune(v)] = true
				}
			}
		}
		if id, ok := e.(*ast.Ident); ok {
			if v, isVar := info.Uses[id].(*types.Var); isVar && v.Pkg() == pk.Types && v.Parent() == pk.Types.Scope() {
				if s, ok := c.byteVarText(pk, v); ok {
					strs[s] = true
				}
			}
		}
		return true
	})
	return
}

// byteVarText returns the text of a package-level `x = []byte("…")` variable.
func (c *Ctx) byteVarText(pk *packages.Package, v *types.Var) (string, bool) {
	for _, f := range pk.Syntax {
		for _, d := range f.Decls {
			gd, ok := d.(*ast.GenDecl)
			if !ok {
				continue
			}
			for _, sp := range gd.Specs {
				vs, ok := sp.(*ast.ValueSpec)
				if !ok {
					continue
				}
				for i, nm := range vs.Names {
					if pk.TypesInfo.Defs[nm] != v || i >= len(vs.Values) {
						continue
					}
					if ce, ok := vs.Values[i].(*ast.CallExpr); ok && len(ce.Args) == 1 {
						if tv, ok := pk.TypesInfo.Types[ce.Args[0]]; ok && tv.Value != nil && tv.Value.Kind() == constant.String {
							return constant.StringVal(tv.Value), true
						}
					}
				}
			}
		}
	}
	return "", false
}

// caseHead returns the true outcome of `case <label>` in the type switch of a function graph.
func caseHead(g *flow.Graph, label string) *flow.Node {
	for _, y := range g.Nodes {
		if y.Kind == flow.KTrue && y.Of != nil && y.Of.Kind == flow.KTypeCase && str(y.Of.Expr) == label {
			return y
		}
	}
	return nil
}

// R01.30: a string key is replaced by a number only if the number is written back as that string.
func (c *Ctx) r0130(pk *packages.Package) {
	const rule = "R01.30"
	c.R.Rule(rule, "a[\"1.5\"] and a[1.5] name the same property because ToString(1.5) is \"1.5\"; a[\"1.0\"], a[\"1.\"], a[\".5\"], a[\"12345678901234567890\"] and a[\"9007199254740993\"] (16 digits, above 2^53) do not survive the round trip (\"1\", \"1\", \"0.5\", \"12345678901234567000\") and must stay strings. In jsMinifier.minifyExpr, case *js.IndexExpr, the write of minify.Number(<string contents>) is dominated by the true outcome of js.AsDecimalLiteral and of a second predicate of the module over the same bytes whose body looks at the dot ('.'), at a trailing zero ('0') and rejects every string longer than 15 bytes (a comparison of len(…) with a constant: 15 digits are written back exactly, 16-digit integers only below 2^53)")
	info := pk.TypesInfo
	fd := c.fn(rule, pk, "jsMinifier.minifyExpr")
	if fd == nil {
		return
	}
	g := c.graph(pk, fd)
	n := 0
	for _, y := range g.Nodes {
		a := y.Ast()
		if a == nil || y.Kind != flow.KStmt || c.caseLabel(a) != "case *js.IndexExpr" {
			continue
		}
		for _, call := range findCalls(info, a, false, load.Mod+".Number") {
			if len(call.Args) < 1 {
				continue
			}
			n++
			arg := nospace(str(call.Args[0]))
			good, seen := false, []string{}
			for _, f := range g.DomFacts(y) {
				if !f.Value || f.Test.Kind != flow.KCond {
					continue
				}
				ast.Inspect(f.Test.Expr, func(z ast.Node) bool {
					ce, ok := z.(*ast.CallExpr)
					if !ok || len(ce.Args) != 1 || nospace(str(ce.Args[0])) != arg {
						return true
					}
					p, d := c.calleeDecl(info, ce)
					if d == nil || d.Body == nil {
						return true
					}
					seen = append(seen, load.FuncName(d))
					chars, _, _ := c.constsIn(p, d.Body)
					// the longest string the predicate accepts: 15 digits are written back exactly (10^15 < 2^53, DBL_DIG = 15),
					// of the 16-digit integers only those below 2^53
					bound := false
					ast.Inspect(d.Body, func(q ast.Node) bool {
						be, ok := q.(*ast.BinaryExpr)
						if !ok {
							return true
						}
						isLen := func(e ast.Expr) bool {
							lc, ok := ast.Unparen(e).(*ast.CallExpr)
							return ok && str(lc.Fun) == "len" && len(lc.Args) == 1
						}
						var longest int64 = -1
						if kv, isK := intConst(p.TypesInfo, be.Y); isK && isLen(be.X) {
							switch be.Op {
							case token.GTR:
								longest = kv
							case token.GEQ:
								longest = kv - 1
							}
						} else if kv, isK := intConst(p.TypesInfo, be.X); isK && isLen(be.Y) {
							switch be.Op {
							case token.LSS:
								longest = kv
							case token.LEQ:
								longest = kv - 1
							}
						}
						if 0 < longest && longest <= 15 {
							bound = true
						}
						return true
					})
					if chars['.'] && chars['0'] && bound {
						good = true
					}
					return true
				})
			}
			c.R.Check(good, rule, fmt.Sprintf("js.jsMinifier.minifyExpr/case *js.IndexExpr/numeric key#%d only for canonical numeric strings", n), c.pos(call), "behind a predicate on "+arg+" that rejects a leading or trailing dot, trailing zeros and long digit strings",
				"the string key is rewritten to a number without a test that the number is written back as the same string (module predicates on the way: "+strings.Join(seen, ", ")+"): `a[\"1.0\"]` becomes `a[1]`, another property")
		}
	}
	c.R.Floor(rule, "numeric rewrites of string keys in the IndexExpr case", n, 1)
}

// R01.31: no optional call is merged into a plain one.
func (c *Ctx) r0131(pk *packages.Package) {
	const rule = "R01.31"
	c.R.Rule(rule, "`c?f?.(1):f?.(2)` yields undefined when f is null; `f(c?1:2)` throws. In jsMinifier.optimizeCondExpr every js.CallExpr that is constructed around the conditional expression itself (the merge `a?f(x):f(y)` → `f(a?x:y)`) is dominated, for each of the two calls it merges (the variables bound by the type assertions on expr.X and expr.Y), by the false outcome of a test of that call's Optional field")
	info := pk.TypesInfo
	fd := c.fn(rule, pk, "jsMinifier.optimizeCondExpr")
	if fd == nil {
		return
	}
	g := c.graph(pk, fd)
	// variables bound by x.(*js.CallExpr)
	callVars := map[types.Object]string{}
	ast.Inspect(fd.Body, func(x ast.Node) bool {
		as, ok := x.(*ast.AssignStmt)
		if !ok || len(as.Rhs) != 1 || len(as.Lhs) < 1 {
			return true
		}
		ta, ok := as.Rhs[0].(*ast.TypeAssertExpr)
		if !ok || ta.Type == nil || !strings.HasSuffix(nospace(str(ta.Type)), "js.CallExpr") {
			return true
		}
		if id, ok := as.Lhs[0].(*ast.Ident); ok {
			if o := info.Defs[id]; o != nil {
				callVars[o] = nospace(str(ta.X))
			}
		}
		return true
	})
	n := 0
	for _, y := range g.Nodes {
		a := y.Ast()
		if a == nil || y.Kind != flow.KStmt {
			continue
		}
		ast.Inspect(a, func(x ast.Node) bool {
			cl, ok := x.(*ast.CompositeLit)
			if !ok || !strings.HasSuffix(nospace(str(cl.Type)), "js.CallExpr") {
				return true
			}
			// merges: the callee comes from one of the bound calls and the argument list mentions the conditional itself
			var used []types.Object
			ast.Inspect(cl, func(z ast.Node) bool {
				if id, ok := z.(*ast.Ident); ok {
					if o := info.Uses[id]; o != nil {
						if _, isCall := callVars[o]; isCall {
							used = append(used, o)
						}
					}
				}
				return true
			})
			if len(used) == 0 {
				return true
			}
			n++
			// every call variable of the function that is tested together (same condition chain) must be non-optional
			need := map[types.Object]bool{}
			for o, src := range callVars {
				if src == "expr.X" || src == "expr.Y" {
					need[o] = true
				}
			}
			for _, f := range g.DomFacts(y) {
				if f.Value || f.Test.Kind != flow.KCond {
					continue
				}
				if se, ok := ast.Unparen(f.Test.Expr).(*ast.SelectorExpr); ok && se.Sel.Name == "Optional" {
					if id, ok := se.X.(*ast.Ident); ok {
						delete(need, info.Uses[id])
					}
				}
			}
			var missing []string
			for o := range need {
				missing = append(missing, o.Name())
			}
			c.R.Check(len(missing) == 0, rule, fmt.Sprintf("js.jsMinifier.optimizeCondExpr/merged call#%d only for plain calls", n), c.pos(cl), "both calls tested for Optional == false",
				"the two calls of a conditional are merged into one plain call without a test that neither is an optional call (no test of .Optional for "+strings.Join(missing, ", ")+"): `c?f?.(1):f?.(2)` becomes `f(c?1:2)`, which throws when f is null")
			return true
		})
	}
	c.R.Floor(rule, "call merges in optimizeCondExpr", n, 1)
}

// R01.32: {__proto__: __proto__} is not a shorthand.
func (c *Ctx) r0132(pk *packages.Package) {
	const rule = "R01.32"
	c.R.Rule(rule, "ECMA-262 §13.2.5.5: `__proto__: v` in an object literal sets the prototype, the shorthand `{__proto__}` defines an own property of that name. In jsMinifier.minifyProperty every path to the print of the value that writes no property name (the shorthand: not through minifyPropertyName, not a spread, not a nameless property) passes the false outcome of a test against the constant `__proto__`")
	info := pk.TypesInfo
	fd := c.fn(rule, pk, "jsMinifier.minifyProperty")
	if fd == nil {
		return
	}
	g := c.graph(pk, fd)
	var goal *flow.Node
	for _, y := range g.Nodes {
		a := y.Ast()
		if a == nil || y.Kind != flow.KStmt {
			continue
		}
		for _, call := range findCalls(info, a, false, load.Mod+"/js.(jsMinifier).minifyExpr") {
			if len(call.Args) > 0 && strings.HasSuffix(nospace(str(call.Args[0])), ".Value") && goal == nil {
				goal = y
			}
		}
	}
	if goal == nil {
		c.R.Unres(rule, "js.jsMinifier.minifyProperty/print of the value", c.pos(fd), "call of minifyExpr on the property value not found")
		return
	}
	avoid := func(q *flow.Node) bool {
		if a := q.Ast(); a != nil && q.Kind == flow.KStmt && len(findCalls(info, a, false, load.Mod+"/js.(jsMinifier).minifyPropertyName")) > 0 {
			return true
		}
		if (q.Kind == flow.KTrue || q.Kind == flow.KFalse) && q.Of != nil && q.Of.Kind == flow.KCond {
			s := nospace(str(q.Of.Expr))
			if q.Kind == flow.KTrue && strings.HasSuffix(s, ".Spread") {
				return true
			}
			if q.Kind == flow.KFalse && strings.HasSuffix(s, ".Name!=nil") {
				return true
			}
			if q.Kind == flow.KFalse {
				_, strs, _ := c.constsIn(pk, q.Of.Expr)
				if strs["__proto__"] {
					return true
				}
			}
		}
		return false
	}
	p := g.Path(flow.Search{From: []*flow.Node{g.Entry}, Goal: func(q *flow.Node) bool { return q == goal }, Avoid: avoid})
	c.R.Check(p == nil, rule, "js.jsMinifier.minifyProperty/shorthand excludes __proto__", c.pos(goal.Ast()), "the shorthand path tests the name against __proto__",
		"a property whose value is a variable of the same name is printed as a shorthand without a test for `__proto__`: `{__proto__:__proto__}` (sets the prototype) becomes `{__proto__}` (an own property): "+pathStr(c, g, p))
}

// R01.33: a literal that may underflow to zero is not taken for truthy.
func (c *Ctx) r0133(pk *packages.Package) {
	const rule = "R01.33"
	c.R.Rule(rule, "`1e-400` is 0. In js.isFalsy the verdict `truthy` for a numeric literal — a return of (negated, true) inside the loop over the literal's characters — is separated from the head of the loop, for either spelling of the exponent marker, by a test that looks for a negative exponent (a condition with the constant `e-` resp. `E-`, or '-'); judging by the mantissa alone folds `1e-400?a():b()` to `a()`")
	fd := c.fn(rule, pk, "isFalsy")
	if fd == nil {
		return
	}
	g := c.graph(pk, fd)
	n := 0
	for _, y := range g.Nodes {
		rs := retStmt(y)
		if rs == nil || len(rs.Results) != 2 || nospace(str(rs.Results[0])) != "negated" || nospace(str(rs.Results[1])) != "true" {
			continue
		}
		// inside a range loop over the literal's data
		inLoop := false
		for x := c.P.Parent(rs); x != nil; x = c.P.Parent(x) {
			if _, ok := x.(*ast.RangeStmt); ok {
				inLoop = true
			}
			if _, ok := x.(*ast.FuncDecl); ok {
				break
			}
		}
		if !inLoop {
			continue
		}
		n++
		// the loop whose body holds the return
		var loop *ast.RangeStmt
		for x := c.P.Parent(rs); x != nil; x = c.P.Parent(x) {
			if l, ok := x.(*ast.RangeStmt); ok {
				loop = l
				break
			}
		}
		var head *flow.Node
		for _, q := range g.Nodes {
			if q.Kind == flow.KRange && q.Stmt == ast.Stmt(loop) {
				head = q
			}
		}
		if head == nil {
			c.R.Unres(rule, fmt.Sprintf("js.isFalsy/numeric literal truthy#%d", n), c.pos(rs), "loop head not found in the flow graph")
			continue
		}
		// an outcome that has looked at the exponent sign, or that knows the literal to have a radix prefix (no exponent);
		// the exponent marker is written in either case (`1e-400`, `1E-400`): one search per spelling
		for _, marker := range []string{"e-", "E-"} {
			marker := marker
			considered := func(q *flow.Node) bool {
				if (q.Kind != flow.KTrue && q.Kind != flow.KFalse) || q.Of == nil || q.Of.Kind != flow.KCond {
					return false
				}
				chars, strs, _ := c.constsIn(pk, q.Of.Expr)
				if chars['-'] || strs[marker] || strs["-"] {
					return true
				}
				if id, ok := ast.Unparen(q.Of.Expr).(*ast.Ident); ok && q.Kind == flow.KTrue {
					if d := c.singleDef(pk, id); d != nil && strings.Contains(str(d), "HexadecimalToken") && !strings.Contains(str(d), "DecimalToken") {
						return true
					}
				}
				return false
			}
			p := g.Path(flow.Search{From: []*flow.Node{head}, Goal: func(q *flow.Node) bool { return q == y }, Avoid: considered})
			c.R.Check(p == nil, rule, fmt.Sprintf("js.isFalsy/numeric literal truthy#%d only without a negative exponent written %s", n, marker), c.pos(rs), "behind a test for a negative exponent (or for a radix prefix)",
				"a numeric literal with a non-zero digit in its mantissa is taken for truthy without looking for the exponent `"+marker+"`: `1"+marker+"400` is 0, so `1"+marker+"400?a():b()` must not become `a()`: "+pathStr(c, g, p))
		}
	}
	c.R.Floor(rule, "truthy verdicts inside the digit loop of isFalsy", n, 1)
}

// R09.21: `static` is separated from a field name that starts with a letter or a digit.
func (c *Ctx) r0921(pk *packages.Package) {
	const rule = "R09.21"
	c.R.Rule(rule, "in jsMinifier.minifyClassDecl, from the write of `static` for a field to the print of its name (minifyPropertyName) every path either writes a space or has established that the name starts with a character that cannot continue an identifier: the name is computed (`[`), a string (quote) or a private name (`#`) — the true outcome of IsComputed(), or an outcome that fixes Literal.TokenType to js.StringToken / js.PrivateIdentifierToken. A space only for js.IdentifierToken prints `class A{static 1=2}` as `static1=2`, a field named static1")
	info := pk.TypesInfo
	fd := c.fn(rule, pk, "jsMinifier.minifyClassDecl")
	if fd == nil {
		return
	}
	g := c.graph(pk, fd)
	var froms []*flow.Node
	var goal []*flow.Node
	for _, y := range g.Nodes {
		a := y.Ast()
		if a == nil || y.Kind != flow.KStmt {
			continue
		}
		for _, call := range findCalls(info, a, false, jsWrite) {
			if len(call.Args) == 1 {
				if s, ok := c.exprBytesText(pk, call.Args[0]); ok && s == "static" {
					froms = append(froms, y)
				}
			}
		}
		if len(findCalls(info, a, false, load.Mod+"/js.(jsMinifier).minifyPropertyName")) > 0 {
			goal = append(goal, y)
		}
	}
	n := 0
	for _, from := range froms {
		// only the field branch: a static write from which minifyPropertyName is reachable without passing another static write
		isGoal := func(q *flow.Node) bool {
			for _, x := range goal {
				if x == q {
					return true
				}
			}
			return false
		}
		if g.Path(flow.Search{From: []*flow.Node{from}, Goal: isGoal, Avoid: func(q *flow.Node) bool {
			if q.Kind == flow.KRange {
				return true // the next class member
			}
			for _, f := range froms {
				if f == q && q != from {
					return true
				}
			}
			return false
		}}) == nil {
			continue
		}
		n++
		safe := func(q *flow.Node) bool {
			if a := q.Ast(); a != nil && q.Kind == flow.KStmt {
				for _, call := range findCalls(info, a, false, jsWrite) {
					if len(call.Args) == 1 {
						if s, ok := c.exprBytesText(pk, call.Args[0]); ok && s == " " {
							return true
						}
					}
				}
			}
			if (q.Kind == flow.KTrue || q.Kind == flow.KFalse) && q.Of != nil && q.Of.Kind == flow.KCond {
				s := nospace(str(q.Of.Expr))
				if q.Kind == flow.KTrue && strings.HasSuffix(s, ".IsComputed()") {
					return true
				}
				for _, tt := range []string{"js.StringToken", "js.PrivateIdentifierToken"} {
					if q.Kind == flow.KTrue && strings.HasSuffix(s, ".TokenType=="+tt) || q.Kind == flow.KFalse && strings.HasSuffix(s, ".TokenType!="+tt) {
						return true
					}
				}
			}
			return false
		}
		p := g.Path(flow.Search{From: []*flow.Node{from}, Goal: isGoal, Avoid: func(q *flow.Node) bool { return q.Kind == flow.KRange || safe(q) }})
		c.R.Check(p == nil, rule, fmt.Sprintf("js.jsMinifier.minifyClassDecl/static field#%d name is separated from the keyword", n), c.pos(from.Ast()), "a space, or a name that starts with `[`, a quote or `#`",
			"the field name is printed directly after `static` on a path that neither writes a space nor knows the name to be computed, a string or private: a numeric name joins the keyword (`static 1=2` → `static1=2`): "+pathStr(c, g, p))
	}
	c.R.Floor(rule, "writes of `static` in front of a field name", n, 1)
}

// exprBytesText resolves an expression to the text of a package-level []byte("…") variable.
func (c *Ctx) exprBytesText(pk *packages.Package, e ast.Expr) (string, bool) {
	id, ok := ast.Unparen(e).(*ast.Ident)
	if !ok {
		return "", false
	}
	v, ok := pk.TypesInfo.Uses[id].(*types.Var)
	if !ok || v.Parent() != pk.Types.Scope() {
		return "", false
	}
	return c.byteVarText(pk, v)
}

// R01.35: a block is not unwrapped around a function declaration.
func (c *Ctx) r0135(pk *packages.Package) {
	const rule = "R01.35"
	c.R.Rule(rule, "a function declaration is not a statement: `if(a)function f(){}` is accepted in sloppy mode only (Annex B.3.4, and not for async functions or generators) and is a syntax error in strict mode, classes and modules; in strict mode a function declared in a block is local to it. In js.optimizeStmt every return that unwraps a block with one statement — `return optimizeStmt(blockStmt.List[0])` — is dominated by the false outcome of a type assertion of that statement to *js.FuncDecl")
	info := pk.TypesInfo
	fd := c.fn(rule, pk, "optimizeStmt")
	if fd == nil {
		return
	}
	g := c.graph(pk, fd)
	n := 0
	for _, y := range g.Nodes {
		rs := retStmt(y)
		if rs == nil || len(rs.Results) != 1 {
			continue
		}
		ce, ok := ast.Unparen(rs.Results[0]).(*ast.CallExpr)
		if !ok || len(ce.Args) != 1 {
			continue
		}
		ie, ok := ast.Unparen(ce.Args[0]).(*ast.IndexExpr)
		if !ok || !strings.HasSuffix(nospace(str(ie.X)), ".List") {
			continue
		}
		n++
		elem := nospace(str(ie))
		good := false
		for _, f := range g.DomFacts(y) {
			if f.Value || f.Test.Kind != flow.KCond {
				continue
			}
			id, ok := ast.Unparen(f.Test.Expr).(*ast.Ident)
			if !ok {
				continue
			}
			if d := c.singleDef(pk, id); d != nil {
				if ta, ok := ast.Unparen(d).(*ast.TypeAssertExpr); ok && ta.Type != nil && strings.HasSuffix(nospace(str(ta.Type)), "js.FuncDecl") && nospace(str(ta.X)) == elem {
					good = true
				}
			}
		}
		_ = info
		c.R.Check(good, rule, fmt.Sprintf("js.optimizeStmt/unwrapped single statement#%d is not a function declaration", n), c.pos(rs), "behind the failed assertion "+elem+".(*js.FuncDecl)",
			"the only statement of a block replaces the block without a test that it is not a function declaration: `if(a){function f(){}}` becomes `if(a)function f(){}`, a syntax error in strict mode (and for async functions everywhere), and `{function f(){}}` loses the scope of f")
	}
	c.R.Floor(rule, "returns that unwrap a one-statement block", n, 1)
}

// R09.22: a string whose escapes decode to `$` or `{` does not become a template literal.
func (c *Ctx) r0922(pk *packages.Package) {
	const rule = "R09.22"
	c.R.Rule(rule, "js.minifyString counts, per escape syntax (\\\\x, \\\\u00.., \\\\u{..}, legacy octal), the escapes that decode to a quote or a backtick in order to choose the cheapest delimiter. A template literal also gives meaning to `${`: an escape that decodes to `$` (24, octal 44) or `{` (7b, octal 173) must rule the backtick out, since replaceEscapes decodes it (`'\\\\n\\\\n\\\\n$\\\\x7B'` → a template with an unterminated substitution). Sibling agreement: every if-chain of minifyString that recognises the backtick's code (`6`,`0` / `1`,`4`,`0`) has an arm whose condition compares with the digits of both codes and whose body clears the boolean parameter that allows templates")
	info := pk.TypesInfo
	fd := c.fn(rule, pk, "minifyString")
	if fd == nil {
		return
	}
	// the boolean parameter
	var allow types.Object
	for _, f := range fd.Type.Params.List {
		if b, ok := info.TypeOf(f.Type).Underlying().(*types.Basic); ok && b.Kind() == types.Bool && len(f.Names) == 1 {
			allow = info.Defs[f.Names[0]]
		}
	}
	if allow == nil {
		c.R.Unres(rule, "js.minifyString/template switch", c.pos(fd), "no boolean parameter found")
		return
	}
	n := 0
	seen := map[*ast.IfStmt]bool{}
	ast.Inspect(fd.Body, func(x ast.Node) bool {
		ifs, ok := x.(*ast.IfStmt)
		if !ok || seen[ifs] {
			return true
		}
		// the arms of this chain
		type arm struct {
			cond ast.Expr
			body *ast.BlockStmt
		}
		var arms []arm
		for cur := ifs; cur != nil; {
			seen[cur] = true
			arms = append(arms, arm{cur.Cond, cur.Body})
			cur = elseIf(cur)
		}
		// does an arm of this chain (not a nested chain) count a backtick found through an escape?
		octal, hexlike := false, false
		for _, a := range arms {
			counts := false
			for _, st := range a.body.List {
				if inc, ok := st.(*ast.IncDecStmt); ok && strings.Contains(strings.ToLower(nospace(str(inc.X))), "backtick") {
					counts = true
				}
			}
			if !counts {
				continue
			}
			chars, _, _ := c.constsIn(pk, a.cond)
			if chars['`'] {
				continue // the literal character, not an escape
			}
			if chars['1'] && chars['4'] && chars['0'] {
				octal = true
			} else if chars['6'] && chars['0'] {
				hexlike = true
			}
		}
		if !octal && !hexlike {
			return true
		}
		n++
		good := false
		for _, a := range arms {
			clears := false
			for _, st := range a.body.List {
				if as, ok := st.(*ast.AssignStmt); ok && len(as.Lhs) == 1 && len(as.Rhs) == 1 {
					if id, ok := as.Lhs[0].(*ast.Ident); ok && info.Uses[id] == allow && nospace(str(as.Rhs[0])) == "false" {
						clears = true
					}
				}
			}
			if !clears {
				continue
			}
			chars, _, _ := c.constsIn(pk, a.cond)
			if hexlike && chars['2'] && chars['4'] && chars['7'] && (chars['b'] || chars['B']) {
				good = true
			}
			if octal && chars['4'] && chars['1'] && chars['7'] && chars['3'] {
				good = true
			}
		}
		c.R.Check(good, rule, fmt.Sprintf("js.minifyString/escape syntax#%d rules the template out for `$` and `{`", n), c.pos(ifs), "an arm for the codes of `$` and `{` clears the template switch",
			"this escape syntax is scanned for quotes and the backtick but not for `$` (24 / octal 44) and `{` (7b / octal 173): a string with such an escape can become a template literal in which the decoded characters form `${`")
		return true
	})
	c.R.Floor(rule, "escape syntaxes scanned for the backtick", n, 4)
}

// R09.23: an `export default` expression does not start with the function or class keyword.
func (c *Ctx) r0923(pk *packages.Package) {
	const rule = "R09.23"
	c.R.Rule(rule, "ECMA-262 §16.2.3: after `export default` the tokens `function`, `async function` and `class` start a declaration. In jsMinifier.minifyStmt, case *js.ExportStmt, every print of the exported expression (minifyExpr(stmt.Decl, …)) that is not the declaration form itself — reached under a successful assertion of stmt.Decl to *js.FuncDecl / *js.ClassDecl — is reached through a test by a predicate of the module that walks to the leftmost operand (its body mentions *js.FuncDecl, *js.ClassDecl and *js.CallExpr); the printer drops the parentheses of `export default (function(){})()` otherwise and the output is a syntax error")
	info := pk.TypesInfo
	fd := c.fn(rule, pk, "jsMinifier.minifyStmt")
	if fd == nil {
		return
	}
	g := c.graph(pk, fd)
	head := caseHead(g, "*js.ExportStmt")
	if head == nil {
		c.R.Unres(rule, "js.jsMinifier.minifyStmt/case *js.ExportStmt", c.pos(fd), "case not found")
		return
	}
	leftmost := func(ce *ast.CallExpr) bool {
		_, d := c.calleeDecl(info, ce)
		if d == nil || d.Body == nil {
			return false
		}
		s := nospace(c.src(d.Body))
		return strings.Contains(s, "*js.FuncDecl") && strings.Contains(s, "*js.ClassDecl") && strings.Contains(s, "*js.CallExpr")
	}
	avoid := func(q *flow.Node) bool {
		if (q.Kind != flow.KTrue && q.Kind != flow.KFalse) || q.Of == nil || q.Of.Kind != flow.KCond {
			return false
		}
		// either outcome of the leftmost predicate
		hit := false
		ast.Inspect(q.Of.Expr, func(z ast.Node) bool {
			if ce, ok := z.(*ast.CallExpr); ok && leftmost(ce) {
				hit = true
			}
			return true
		})
		if hit {
			return true
		}
		// the declaration forms
		if id, ok := ast.Unparen(q.Of.Expr).(*ast.Ident); ok && q.Kind == flow.KTrue {
			if d := c.singleDef(pk, id); d != nil {
				if ta, ok := ast.Unparen(d).(*ast.TypeAssertExpr); ok && ta.Type != nil {
					t := nospace(str(ta.Type))
					if strings.HasSuffix(t, "js.FuncDecl") || strings.HasSuffix(t, "js.ClassDecl") {
						return true
					}
				}
			}
		}
		// the non-default export prints declarations as statements
		if q.Kind == flow.KFalse && strings.HasSuffix(nospace(str(q.Of.Expr)), ".Default") {
			return true
		}
		return false
	}
	n := 0
	for _, y := range g.Nodes {
		a := y.Ast()
		if a == nil || y.Kind != flow.KStmt || c.caseLabel(a) != "case *js.ExportStmt" {
			continue
		}
		for _, call := range findCalls(info, a, false, load.Mod+"/js.(jsMinifier).minifyExpr") {
			if len(call.Args) < 1 || !strings.HasSuffix(nospace(str(call.Args[0])), ".Decl") {
				continue
			}
			n++
			p := g.Path(flow.Search{From: []*flow.Node{head}, Goal: func(q *flow.Node) bool { return q == y }, Avoid: avoid})
			c.R.Check(p == nil, rule, fmt.Sprintf("js.jsMinifier.minifyStmt/case *js.ExportStmt/default expression#%d is tested for a leading function or class", n), c.pos(call), "behind the leftmost-operand predicate (or the declaration form)",
				"the exported expression is printed without a test whether it starts with `function` or `class`: `export default (function(){})()` loses its parentheses and is read as a declaration followed by `()`: "+pathStr(c, g, p))
		}
	}
	c.R.Floor(rule, "prints of the default export", n, 1)
}

// R01.38: an operand that goes into a constructed binary expression as it is has the level the operator needs.
func (c *Ctx) r0138(pk *packages.Package) {
	const rule = "R01.38"
	c.R.Rule(rule, "R09.18 covers operands wrapped in groupExpr. Where a rewrite of package js puts a branch of a conditional expression (expr.X / expr.Y of a *js.CondExpr — positions in which an assignment, an arrow function or another conditional stands without parentheses) into a new js.BinaryExpr{T, …} unwrapped, every path to the construction passes a test that gives the operand the level T needs: the true outcome of `binaryLeftPrecMap[T] <= exprPrec(operand)` (binaryRightPrecMap for the right operand), or of `exprPrec(operand) < C` with C at most js.OpAssign (below the assignment level only a parenthesised comma expression remains, which keeps its parentheses). `<= js.OpAssign` lets `a?b?1:2:a` become `a&&b?1:2`, which is `(a&&b)?1:2`")
	info := pk.TypesInfo
	var opAssign int64 = -1
	for _, imp := range pk.Types.Imports() {
		if imp.Path() == pjs {
			if k, ok := imp.Scope().Lookup("OpAssign").(*types.Const); ok {
				if v, ok := constant.Int64Val(k.Val()); ok {
					opAssign = v
				}
			}
		}
	}
	if opAssign < 0 {
		c.R.Unres(rule, "js.OpAssign", "-", "constant not found in parse/js")
		return
	}
	n := 0
	for _, fd := range load.FuncDecls(pk) {
		if fd.Body == nil {
			continue
		}
		var g *flow.Graph
		ast.Inspect(fd.Body, func(x ast.Node) bool {
			cl, ok := x.(*ast.CompositeLit)
			if !ok || cl.Type == nil || namedTypeName(info.TypeOf(cl.Type)) != pjs+".BinaryExpr" || len(cl.Elts) != 3 {
				return true
			}
			var elts [3]ast.Expr
			for i, e := range cl.Elts {
				if kv, ok := e.(*ast.KeyValueExpr); ok {
					switch str(kv.Key) {
					case "Op":
						elts[0] = kv.Value
					case "X":
						elts[1] = kv.Value
					case "Y":
						elts[2] = kv.Value
					}
				} else {
					elts[i] = e
				}
			}
			if elts[0] == nil {
				return true
			}
			optv, ok := info.Types[elts[0]]
			if !ok || optv.Value == nil {
				return true
			}
			opText := nospace(str(elts[0]))
			for side := 1; side <= 2; side++ {
				se, ok := ast.Unparen(elts[side]).(*ast.SelectorExpr)
				if !ok || (se.Sel.Name != "X" && se.Sel.Name != "Y") {
					continue
				}
				if namedTypeName(info.TypeOf(se.X)) != pjs+".CondExpr" {
					continue
				}
				n++
				if g == nil {
					g = c.graph(pk, fd)
				}
				y := g.NodeOf(cl)
				operand := nospace(str(se))
				table := map[int]string{1: "binaryLeftPrecMap", 2: "binaryRightPrecMap"}[side]
				isPrecOf := func(e ast.Expr) bool {
					ce, ok := ast.Unparen(e).(*ast.CallExpr)
					return ok && strings.HasSuffix(calleeName(info, ce), "/js.exprPrec") && len(ce.Args) == 1 && nospace(str(ce.Args[0])) == operand
				}
				good := func(q *flow.Node) bool {
					if q.Kind != flow.KTrue || q.Of == nil || q.Of.Kind != flow.KCond {
						return false
					}
					be, ok := ast.Unparen(q.Of.Expr).(*ast.BinaryExpr)
					if !ok {
						return false
					}
					// normalise to  lo OP hi  with OP in {<, <=}
					lo, hi, strict := be.X, be.Y, false
					switch be.Op {
					case token.LSS:
						strict = true
					case token.LEQ:
					case token.GTR:
						lo, hi, strict = be.Y, be.X, true
					case token.GEQ:
						lo, hi = be.Y, be.X
					default:
						return false
					}
					if isPrecOf(lo) {
						// exprPrec(operand) < C
						if v, isK := intConst(info, hi); isK {
							return strict && v <= opAssign || !strict && v < opAssign
						}
						return false
					}
					if isPrecOf(hi) {
						// TABLE[T] <= exprPrec(operand)
						ie, ok := ast.Unparen(lo).(*ast.IndexExpr)
						return ok && nospace(str(ie.X)) == table && nospace(str(ie.Index)) == opText
					}
					return false
				}
				if y == nil {
					c.R.Unres(rule, fmt.Sprintf("js.%s/unwrapped operand#%d", load.FuncName(fd), n), c.pos(cl), "construction not found in the flow graph")
					continue
				}
				p := g.Path(flow.Search{From: []*flow.Node{g.Entry}, Goal: func(q *flow.Node) bool { return q == y }, Avoid: good})
				c.R.Check(p == nil, rule, fmt.Sprintf("js.%s/%s goes unwrapped into %s only at the operator's level#%d", load.FuncName(fd), operand, opText, n), c.pos(cl), "tested against "+table+"["+opText+"] or below js.OpAssign",
					"the branch "+operand+" of the conditional becomes an operand of "+opText+" without parentheses and without a test that its level suffices: a nested conditional, an assignment or an arrow function there is re-associated (`a?b?1:2:a` → `a&&b?1:2`) or no longer parses (`a&&b=c`): "+pathStr(c, g, p))
			}
			return true
		})
	}
	c.R.Floor(rule, "branches of a conditional used unwrapped as operands", n, 2)
}

// R01.39: the separating space is decided by the parser's own predicate.
func (c *Ctx) r0139(pk *packages.Package) {
	const rule = "R01.39"
	c.R.Rule(rule, "jsMinifier.write puts a space between a keyword or name and what follows when that starts with a character that continues an identifier. The authority on that is the lexer that will read the output, js.IsIdentifierContinue (it includes `\\\\`, the start of a Unicode escape: `return \\\\u0061bc` must not become `return\\\\u0061bc`). The condition of the space in write calls js.IsIdentifierContinue on the written bytes directly, or through a function that only forwards to it; a predicate of its own (an ASCII fast path) cannot be compared with the lexer here and is reported as undecided")
	info := pk.TypesInfo
	fd := c.fn(rule, pk, "jsMinifier.write")
	if fd == nil {
		return
	}
	var param types.Object
	if len(fd.Type.Params.List) > 0 && len(fd.Type.Params.List[0].Names) > 0 {
		param = info.Defs[fd.Type.Params.List[0].Names[0]]
	}
	const want = pjs + ".IsIdentifierContinue"
	forwards := func(d *ast.FuncDecl, p *packages.Package) bool {
		if d == nil || d.Body == nil || len(d.Body.List) != 1 {
			return false
		}
		rs, ok := d.Body.List[0].(*ast.ReturnStmt)
		if !ok || len(rs.Results) != 1 {
			return false
		}
		ce, ok := ast.Unparen(rs.Results[0]).(*ast.CallExpr)
		return ok && calleeName(p.TypesInfo, ce) == want
	}
	n := 0
	ast.Inspect(fd.Body, func(x ast.Node) bool {
		ifs, ok := x.(*ast.IfStmt)
		if !ok {
			return true
		}
		// the if statement whose body writes the space
		writesSpace := false
		for _, ce := range allCalls(ifs.Body) {
			if len(ce.Args) == 1 {
				if s, ok := c.exprBytesText(pk, ce.Args[0]); ok && s == " " {
					writesSpace = true
				}
			}
		}
		if !writesSpace {
			return true
		}
		n++
		var direct, foreign []string
		for _, ce := range allCalls(ifs.Cond) {
			onParam := false
			for _, a := range ce.Args {
				if id, ok := ast.Unparen(a).(*ast.Ident); ok && info.Uses[id] == param {
					onParam = true
				}
			}
			if !onParam {
				continue
			}
			nm := calleeName(info, ce)
			if nm == want {
				direct = append(direct, nm)
				continue
			}
			if p, d := c.calleeDecl(info, ce); d != nil && forwards(d, p) {
				direct = append(direct, nm)
				continue
			}
			foreign = append(foreign, nm[strings.LastIndex(nm, ".")+1:])
		}
		construct := fmt.Sprintf("js.jsMinifier.write/space#%d is decided by js.IsIdentifierContinue", n)
		switch {
		case len(foreign) > 0:
			c.R.Unres(rule, construct, c.pos(ifs), "the space depends on "+strings.Join(foreign, ", ")+", a predicate of the minifier's own: whether it accepts every byte the lexer takes for an identifier part (letters, digits, `_`, `$`, `\\\\`, non-ASCII letters) is not decided here")
		case len(direct) == 0:
			c.R.Bad(rule, construct, c.pos(ifs), "the condition of the separating space does not consult js.IsIdentifierContinue on the bytes written")
		default:
			c.R.OK(rule, construct, c.pos(ifs), "calls js.IsIdentifierContinue on the written bytes")
		}
		return true
	})
	c.R.Floor(rule, "space decisions in write", n, 1)
}

// R01.40: inside the callee of `new`, the object of a member access is printed at member level.
func (c *Ctx) r0140(pk *packages.Package) {
	const rule = "R01.40"
	c.R.Rule(rule, "ECMA-262 §13.3: the callee of `new` is a MemberExpression, whose object cannot be a call — `new (f()).b` constructs `f().b`, `new f().b` reads `.b` of `new f()`. The printers of the three member suffixes (cases *js.DotExpr, *js.IndexExpr, *js.TemplateExpr of jsMinifier.minifyExpr) print their object either at js.OpCall or at js.OpMember; the choice is evaluated here for every level the case can be asked to print at (and an object that is not a parenthesised optional chain): from js.OpNew upwards it is js.OpMember, so that a call keeps its parentheses")
	info := pk.TypesInfo
	fd := c.fn(rule, pk, "jsMinifier.minifyExpr")
	if fd == nil {
		return
	}
	levels := map[string]int64{}
	var opNew, opCall, opMember int64 = -1, -1, -1
	for _, imp := range pk.Types.Imports() {
		if imp.Path() != pjs {
			continue
		}
		for _, nm := range imp.Scope().Names() {
			if k, ok := imp.Scope().Lookup(nm).(*types.Const); ok && strings.HasPrefix(nm, "Op") && namedTypeName(k.Type()) == pjs+".OpPrec" {
				if v, ok := constant.Int64Val(k.Val()); ok {
					levels[nm] = v
				}
			}
		}
	}
	opNew, opCall, opMember = levels["OpNew"], levels["OpCall"], levels["OpMember"]
	if opNew <= 0 || opCall <= 0 || opMember <= 0 {
		c.R.Unres(rule, "js.OpPrec", "-", "precedence constants not found in parse/js")
		return
	}
	var eval func(e ast.Expr, prec int64) (int64, bool)
	eval = func(e ast.Expr, prec int64) (int64, bool) {
		e = ast.Unparen(e)
		if v, isK := intConst(info, e); isK {
			return v, true
		}
		b2i := func(b bool) int64 {
			if b {
				return 1
			}
			return 0
		}
		switch x := e.(type) {
		case *ast.Ident:
			if x.Name == "prec" {
				return prec, true
			}
		case *ast.UnaryExpr:
			if x.Op == token.NOT {
				if v, ok := eval(x.X, prec); ok {
					return b2i(v == 0), true
				}
			}
		case *ast.CallExpr:
			if strings.HasSuffix(calleeName(info, x), "/js.isOptionalGroup") {
				return 0, true // stipulated: the object is not a parenthesised optional chain
			}
		case *ast.BinaryExpr:
			l, ok1 := eval(x.X, prec)
			if !ok1 {
				return 0, false
			}
			switch x.Op {
			case token.LOR:
				if l != 0 {
					return 1, true
				}
				return eval(x.Y, prec)
			case token.LAND:
				if l == 0 {
					return 0, true
				}
				return eval(x.Y, prec)
			}
			r, ok2 := eval(x.Y, prec)
			if !ok2 {
				return 0, false
			}
			switch x.Op {
			case token.LSS:
				return b2i(l < r), true
			case token.LEQ:
				return b2i(l <= r), true
			case token.GTR:
				return b2i(l > r), true
			case token.GEQ:
				return b2i(l >= r), true
			case token.EQL:
				return b2i(l == r), true
			case token.NEQ:
				return b2i(l != r), true
			}
		}
		return 0, false
	}
	n := 0
	ast.Inspect(fd.Body, func(x ast.Node) bool {
		cc, ok := x.(*ast.CaseClause)
		if !ok || len(cc.List) != 1 {
			return true
		}
		label := nospace(str(cc.List[0]))
		if label != "*js.DotExpr" && label != "*js.IndexExpr" && label != "*js.TemplateExpr" {
			return true
		}
		ast.Inspect(cc, func(z ast.Node) bool {
			ifs, ok := z.(*ast.IfStmt)
			if !ok || ifs.Else == nil {
				return true
			}
			eb, ok := ifs.Else.(*ast.BlockStmt)
			if !ok {
				return true
			}
			lvl := func(b *ast.BlockStmt) (int64, bool) {
				if len(b.List) != 1 {
					return 0, false
				}
				es, ok := b.List[0].(*ast.ExprStmt)
				if !ok {
					return 0, false
				}
				ce, ok := es.X.(*ast.CallExpr)
				if !ok || !strings.HasSuffix(calleeName(info, ce), "/js.(jsMinifier).minifyExpr") || len(ce.Args) != 2 {
					return 0, false
				}
				a0 := nospace(str(ce.Args[0]))
				if a0 != "expr.X" && a0 != "expr.Tag" {
					return 0, false
				}
				return intConst(info, ce.Args[1])
			}
			lt, ok1 := lvl(ifs.Body)
			le, ok2 := lvl(eb)
			if !ok1 || !ok2 || lt == le {
				return true
			}
			n++
			var bad []string
			undecided := false
			for nm, v := range levels {
				if v < opNew {
					continue
				}
				r, ok := eval(ifs.Cond, v)
				if !ok {
					undecided = true
					break
				}
				got := le
				if r != 0 {
					got = lt
				}
				if got < opMember {
					bad = append(bad, nm)
				}
			}
			sort.Strings(bad)
			construct := fmt.Sprintf("js.jsMinifier.minifyExpr/case %s/object level inside the callee of new", label)
			switch {
			case undecided:
				c.R.Unres(rule, construct, c.pos(ifs), "the choice between the two levels is not a function of prec alone")
			case len(bad) > 0:
				c.R.Bad(rule, construct, c.pos(ifs), "asked to print at "+strings.Join(bad, ", ")+" the object of the member access is printed at js.OpCall: a call there loses its parentheses and `new (f()).b` becomes `new f().b`, which constructs f instead of f().b")
			default:
				c.R.OK(rule, construct, c.pos(ifs), "js.OpMember for every level from js.OpNew upwards")
			}
			return true
		})
		return true
	})
	c.R.Floor(rule, "member suffix printers that choose between two levels for their object", n, 3)
}

// elseIf returns the if statement of an `else if`, also when it is written as `else { if … }`.
func elseIf(ifs *ast.IfStmt) *ast.IfStmt {
	switch e := ifs.Else.(type) {
	case *ast.IfStmt:
		return e
	case *ast.BlockStmt:
		if len(e.List) == 1 {
			if inner, ok := e.List[0].(*ast.IfStmt); ok {
				return inner
			}
		}
	}
	return nil
}

// R01.41: string literals are joined only where the join does not extend an escape.
func (c *Ctx) r0141(pk *packages.Package) {
	const rule = "R01.41"
	c.R.Rule(rule, "js.mergeBinaryExpr joins the contents of adjacent string literals byte by byte. An octal escape at the end of the left literal (`\\\\0`, `\\\\1`, `\\\\12`) takes a digit that starts the right one as part of itself: `\"a\\\\0\"+\"1\"` (a, NUL, 1) joined is `\"a\\\\01\"` (a, U+0001). Every extension of the list of literals to be joined inside the collecting loop (`strings = append(strings, lit)`) is dominated by the false outcome of a predicate of the module that is given the new literal's data and looks for a backslash and the octal digits ('\\\\\\\\', '7')")
	info := pk.TypesInfo
	fd := c.fn(rule, pk, "mergeBinaryExpr")
	if fd == nil {
		return
	}
	g := c.graph(pk, fd)
	n := 0
	for _, y := range g.Nodes {
		as, ok := y.Stmt.(*ast.AssignStmt)
		if !ok || y.Kind != flow.KStmt || len(as.Lhs) != 1 || len(as.Rhs) != 1 {
			continue
		}
		ce, ok := ast.Unparen(as.Rhs[0]).(*ast.CallExpr)
		if !ok || len(ce.Args) != 2 {
			continue
		}
		if id, ok := ce.Fun.(*ast.Ident); !ok || info.Uses[id] != types.Universe.Lookup("append") {
			continue
		}
		if nospace(str(ce.Args[0])) != nospace(str(as.Lhs[0])) || namedTypeName(derefType(info.TypeOf(ce.Args[1]))) != pjs+".LiteralExpr" {
			continue
		}
		// only extensions inside a loop nested in the outer loop (the first literal starts the list)
		depth := 0
		for x := c.P.Parent(as); x != nil; x = c.P.Parent(x) {
			if _, ok := x.(*ast.ForStmt); ok {
				depth++
			}
			if _, ok := x.(*ast.FuncDecl); ok {
				break
			}
		}
		if depth < 2 {
			continue
		}
		n++
		lit := nospace(str(ce.Args[1]))
		good := false
		for _, f := range g.DomFacts(y) {
			if f.Value || f.Test.Kind != flow.KCond {
				continue
			}
			ast.Inspect(f.Test.Expr, func(z ast.Node) bool {
				pc, ok := z.(*ast.CallExpr)
				if !ok {
					return true
				}
				onLit := false
				for _, a := range pc.Args {
					if strings.HasPrefix(nospace(str(a)), lit+".") {
						onLit = true
					}
				}
				if !onLit {
					return true
				}
				if p, d := c.calleeDecl(info, pc); d != nil && d.Body != nil {
					chars, _, _ := c.constsIn(p, d.Body)
					if chars['\\'] && chars['7'] {
						good = true
					}
				}
				return true
			})
		}
		c.R.Check(good, rule, fmt.Sprintf("js.mergeBinaryExpr/literal#%d joins the list only if it does not end in an open octal escape", n), c.pos(as), "behind a boundary predicate on "+lit+".Data",
			"a string literal is added to the literals that are joined without a test of the boundary: an octal escape at its end absorbs a digit that starts the next literal (`\"a\\0\"+\"1\"` → `\"a\\01\"`)")
	}
	c.R.Floor(rule, "extensions of the list of literals to join", n, 2)
}

func derefType(t types.Type) types.Type {
	if p, ok := t.(*types.Pointer); ok {
		return p.Elem()
	}
	return t
}

// R09.24: what an escape decodes to is escaped again where the new delimiter gives it a meaning.
func (c *Ctx) r0924(pk *packages.Package) {
	const rule = "R09.24"
	c.R.Rule(rule, "js.replaceEscapes decodes escapes (\\\\x24, \\\\u0024, \\\\44) and puts a backslash in front of the result where it would end the literal (the decoded byte is the quote). Inside a template literal `${` starts a substitution, so a decoded `$` or `{` needs the backslash as well: `` `\\\\x24{a}` `` must not become `` `${a}` ``. Sibling agreement: every if statement of replaceEscapes that compares the decoded value with `quote` and re-escapes (stores a backslash) also names '$' and '{' in its condition")
	info := pk.TypesInfo
	fd := c.fn(rule, pk, "replaceEscapes")
	if fd == nil {
		return
	}
	var quote types.Object
	for _, f := range fd.Type.Params.List {
		for _, nm := range f.Names {
			if nm.Name == "quote" || (quote == nil && isByteType(info.TypeOf(f.Type))) {
				quote = info.Defs[nm]
			}
		}
	}
	n := 0
	ast.Inspect(fd.Body, func(x ast.Node) bool {
		ifs, ok := x.(*ast.IfStmt)
		if !ok {
			return true
		}
		// compares with quote by ==
		cmp := false
		ast.Inspect(ifs.Cond, func(z ast.Node) bool {
			if be, ok := z.(*ast.BinaryExpr); ok && be.Op == token.EQL {
				for _, pr := range [][2]ast.Expr{{be.X, be.Y}, {be.Y, be.X}} {
					if id, ok := ast.Unparen(pr[0]).(*ast.Ident); ok && info.Uses[id] == quote {
						if _, isK := intConst(info, pr[1]); !isK {
							cmp = true // a value is compared with the delimiter (not: the delimiter with a constant)
						}
					}
				}
			}
			return true
		})
		if !cmp {
			return true
		}
		// the body stores a backslash (directly in this body, not in a nested if of another test)
		stores := false
		ast.Inspect(ifs.Body, func(z ast.Node) bool {
			if inner, ok := z.(*ast.IfStmt); ok && inner != ifs {
				return false
			}
			if as, ok := z.(*ast.AssignStmt); ok && len(as.Rhs) == 1 {
				if v, isK := intConst(info, as.Rhs[0]); isK && v == '\\' {
					stores = true
				}
			}
			if ce, ok := z.(*ast.CallExpr); ok {
				for _, a := range ce.Args {
					if v, isK := intConst(info, a); isK && v == '\\' {
						stores = true
					}
				}
			}
			return true
		})
		if !stores {
			return true
		}
		n++
		chars, _, _ := c.constsIn(pk, ifs.Cond)
		c.R.Check(chars['$'] && chars['{'], rule, fmt.Sprintf("js.replaceEscapes/re-escape#%d covers `$` and `{` for template literals", n), c.pos(ifs), "the condition names '$' and '{'",
			"a decoded character is escaped again when it equals the delimiter, but not when it is `$` or `{` inside a template literal: `` `\\x24{a}` `` is printed as `` `${a}` ``, a substitution")
		return true
	})
	c.R.Floor(rule, "re-escaping tests in replaceEscapes", n, 3)
}

func isByteType(t types.Type) bool {
	b, ok := t.Underlying().(*types.Basic)
	return ok && b.Kind() == types.Uint8
}

// R09.25: `\0` is written only where no digit follows.
func (c *Ctx) r0925(pk *packages.Package) {
	const rule = "R09.25"
	c.R.Rule(rule, "`\\\\0` followed by a digit is a legacy octal escape (and a syntax error in strict mode and in templates): `\"\\\\0005\"` is NUL followed by 5, `\"\\\\05\"` is U+0005. In js.replaceEscapes every store of the character '0' behind a backslash (the rewrite of a NUL escape to `\\\\0`) is reached only through a test of the byte that follows the escape against the digits (a condition with a digit constant between '7' and '9' on an index of the buffer, or the end of the buffer)")
	info := pk.TypesInfo
	fd := c.fn(rule, pk, "replaceEscapes")
	if fd == nil {
		return
	}
	g := c.graph(pk, fd)
	n := 0
	for _, y := range g.Nodes {
		as, ok := y.Stmt.(*ast.AssignStmt)
		if !ok || y.Kind != flow.KStmt || len(as.Lhs) != 1 || len(as.Rhs) != 1 {
			continue
		}
		if v, isK := intConst(info, as.Rhs[0]); !isK || v != '0' {
			continue
		}
		if _, isIx := as.Lhs[0].(*ast.IndexExpr); !isIx {
			continue
		}
		// `\x00` is spelled with an x in front: not the short form
		if blk, ok := c.P.Parent(as).(*ast.BlockStmt); ok {
			hasX := false
			for _, st := range blk.List {
				if a2, ok := st.(*ast.AssignStmt); ok && len(a2.Rhs) == 1 {
					if v, isK := intConst(info, a2.Rhs[0]); isK && v == 'x' {
						hasX = true
					}
				}
			}
			if hasX {
				continue
			}
		}
		n++
		followTest := func(q *flow.Node) bool {
			if (q.Kind != flow.KTrue && q.Kind != flow.KFalse) || q.Of == nil || q.Of.Kind != flow.KCond {
				return false
			}
			e := q.Of.Expr
			// only tests made in the knowledge that the escape denotes NUL (dominated by `v == 0`): the tests that parse
			// the digits of the escape look the same
			knows := false
			for _, f := range g.DomFacts(q.Of) {
				if be, ok := ast.Unparen(f.Test.Expr).(*ast.BinaryExpr); ok && f.Test.Kind == flow.KCond && be.Op == token.EQL && f.Value {
					if v, isK := intConst(info, be.Y); isK && v == 0 {
						knows = true
					}
				}
			}
			if !knows {
				return false
			}
			if strings.Contains(nospace(str(e)), "len(") {
				return true
			}
			chars, _, _ := c.constsIn(pk, e)
			hasIndex := false
			ast.Inspect(e, func(z ast.Node) bool {
				if _, ok := z.(*ast.IndexExpr); ok {
					hasIndex = true
				}
				return true
			})
			return hasIndex && (chars['9'] || chars['8'] || chars['7'] || chars['0'])
		}
		// from the test that the escape denotes NUL (num == 0 / the escape's digits) — approximated by the head of the
		// enclosing branch of the escape syntax: the nearest dominating outcome whose condition names the escape letter or a digit range
		var head *flow.Node
		for _, f := range g.DomFacts(y) {
			if f.Test.Kind != flow.KCond {
				continue
			}
			chars, _, _ := c.constsIn(pk, f.Test.Expr)
			if chars['u'] || chars['x'] || chars['7'] && chars['0'] {
				for _, q := range g.Nodes {
					if (q.Kind == flow.KTrue && f.Value || q.Kind == flow.KFalse && !f.Value) && q.Of == f.Test {
						head = q
					}
				}
			}
		}
		if head == nil {
			c.R.Unres(rule, fmt.Sprintf("js.replaceEscapes/NUL written as \\0#%d", n), c.pos(as), "the branch of the escape syntax was not found")
			continue
		}
		y := y
		hd := head
		p := g.Path(flow.Search{From: []*flow.Node{head}, Goal: func(q *flow.Node) bool { return q == y }, Avoid: func(q *flow.Node) bool { return followTest(q) || !g.Dominates(hd, q) }, Track: true})
		c.R.Check(p == nil, rule, fmt.Sprintf("js.replaceEscapes/NUL written as \\0#%d only where no digit follows", n), c.pos(as), "behind a test of the following byte", "a NUL escape is shortened to `\\0` without looking at the byte that follows it: `\"\\0005\"` becomes `\"\\05\"`, another character: "+pathStr(c, g, p))
	}
	c.R.Floor(rule, "rewrites of a NUL escape to \\0", n, 2)
}

// R01.44: a call is replaced by an operator expression only when its arguments are what is written.
func (c *Ctx) r0144(pk *packages.Package) {
	const rule = "R01.44"
	c.R.Rule(rule, "the rewrites of builtin calls in jsMinifier.minifyExpr (case *js.CallExpr: Math.pow → **, Number(true) → 1 …) read the k-th argument as the k-th operand. With a spread argument (`Math.pow(a,...b)`) the k-th argument expression is not the k-th argument, and an optional call (`Math.pow?.(a,b)`) is not a call of the builtin for certain. Every `break` of the case that ends such a rewrite is dominated by the false outcome of a test of the arguments' Rest flag — directly, or through a boolean that is set under a test of `.Rest`")
	info := pk.TypesInfo
	fd := c.fn(rule, pk, "jsMinifier.minifyExpr")
	if fd == nil {
		return
	}
	g := c.graph(pk, fd)
	// booleans that stand for "some argument is a spread": assigned true under a condition that mentions .Rest, or from an expression with .Rest
	flags := map[types.Object]bool{}
	ast.Inspect(fd.Body, func(x ast.Node) bool {
		ifs, ok := x.(*ast.IfStmt)
		if !ok || !strings.Contains(nospace(str(ifs.Cond)), ".Rest") {
			return true
		}
		for _, st := range ifs.Body.List {
			if as, ok := st.(*ast.AssignStmt); ok && len(as.Lhs) == 1 && len(as.Rhs) == 1 && nospace(str(as.Rhs[0])) == "true" {
				if id, ok := as.Lhs[0].(*ast.Ident); ok {
					if o := info.Uses[id]; o != nil {
						flags[o] = true
					}
				}
			}
		}
		return true
	})
	n := 0
	for _, y := range g.Nodes {
		br, ok := y.Stmt.(*ast.BranchStmt)
		if !ok || y.Kind != flow.KStmt || br.Tok != token.BREAK || c.caseLabel(br) != "case *js.CallExpr" {
			continue
		}
		n++
		good := false
		for _, f := range g.DomFacts(y) {
			if f.Value || f.Test.Kind != flow.KCond {
				continue
			}
			e := ast.Unparen(f.Test.Expr)
			if strings.Contains(nospace(str(e)), ".Rest") {
				good = true
			}
			if id, ok := e.(*ast.Ident); ok && flags[info.Uses[id]] {
				good = true
			}
		}
		c.R.Check(good, rule, fmt.Sprintf("js.jsMinifier.minifyExpr/case *js.CallExpr/rewrite#%d only for calls without spread arguments", n), c.pos(br), "behind a test of the arguments' Rest flag", "a builtin call is replaced by an operator expression built from its argument expressions without a test that none of them is a spread: `Math.pow(a,...b)` becomes `a**b`")
	}
	c.R.Floor(rule, "rewrites of builtin calls", n, 5)
}

// R01.45: a `!` in front of a statement that starts with function, class or let[ only where the value is discarded.
func (c *Ctx) r0145(pk *packages.Package) {
	const rule = "R01.45"
	c.R.Rule(rule, "an expression statement must not start with `function`, `class` or `let[`; jsMinifier.minifyExpr writes a `!` in front of such an operand (m.write(notBytes) under m.expectExpr == expectExprStmt). That changes the operand's value, which is harmless only when the operand is the whole statement (prec == js.OpExpr): in `(class{})?a():b()` it inverts the test, in `(class{}).x=1` the output does not parse. For every such write the tests that dominate it — with local booleans replaced by their definitions — contradict `m.expectExpr == expectExprStmt && prec != js.OpExpr`")
	info := pk.TypesInfo
	fd := c.fn(rule, pk, "jsMinifier.minifyExpr")
	if fd == nil {
		return
	}
	var prec types.Object
	if fd.Type.Params != nil {
		for _, f := range fd.Type.Params.List {
			for _, nm := range f.Names {
				if t := info.TypeOf(f.Type); t != nil && strings.HasSuffix(t.String(), "js.OpPrec") {
					prec = info.Defs[nm]
				}
			}
		}
	}
	if prec == nil {
		c.R.Unres(rule, "js.jsMinifier.minifyExpr/precedence parameter", c.pos(fd), "no parameter of type js.OpPrec")
		return
	}
	isPrec := func(e ast.Expr) bool {
		id, ok := ast.Unparen(e).(*ast.Ident)
		return ok && info.Uses[id] == prec
	}
	isConst := func(e ast.Expr, name string) bool {
		switch v := ast.Unparen(e).(type) {
		case *ast.Ident:
			_, ok := info.Uses[v].(*types.Const)
			return ok && v.Name == name
		case *ast.SelectorExpr:
			_, ok := info.Uses[v.Sel].(*types.Const)
			return ok && v.Sel.Name == name
		}
		return false
	}
	isField := func(e ast.Expr, name string) bool {
		s, ok := ast.Unparen(e).(*ast.SelectorExpr)
		return ok && s.Sel.Name == name
	}
	// three-valued evaluation under: m.expectExpr == expectExprStmt, prec != js.OpExpr
	var eval func(e ast.Expr, depth int) int // 1 true, 0 false, -1 unknown
	eval = func(e ast.Expr, depth int) int {
		e = ast.Unparen(e)
		switch v := e.(type) {
		case *ast.Ident:
			if depth < 4 {
				if d := c.singleDef(pk, v); d != nil {
					return eval(d, depth+1)
				}
			}
		case *ast.UnaryExpr:
			if v.Op == token.NOT {
				if r := eval(v.X, depth); r >= 0 {
					return 1 - r
				}
			}
		case *ast.BinaryExpr:
			switch v.Op {
			case token.LAND:
				a, b := eval(v.X, depth), eval(v.Y, depth)
				if a == 0 || b == 0 {
					return 0
				}
				if a == 1 && b == 1 {
					return 1
				}
			case token.LOR:
				a, b := eval(v.X, depth), eval(v.Y, depth)
				if a == 1 || b == 1 {
					return 1
				}
				if a == 0 && b == 0 {
					return 0
				}
			case token.EQL, token.NEQ:
				r := -1
				if isPrec(v.X) && isConst(v.Y, "OpExpr") || isPrec(v.Y) && isConst(v.X, "OpExpr") {
					r = 0 // prec == js.OpExpr is false
				} else if isField(v.X, "expectExpr") && isConst(v.Y, "expectExprStmt") || isField(v.Y, "expectExpr") && isConst(v.X, "expectExprStmt") {
					r = 1
				}
				if r >= 0 {
					if v.Op == token.NEQ {
						return 1 - r
					}
					return r
				}
			}
		}
		return -1
	}
	mentionsStmt := func(e ast.Expr, depth int) bool { return false }
	var ms func(e ast.Expr, depth int) bool
	ms = func(e ast.Expr, depth int) bool {
		hit := false
		ast.Inspect(e, func(z ast.Node) bool {
			if id, ok := z.(*ast.Ident); ok {
				if id.Name == "expectExprStmt" {
					if _, ok := info.Uses[id].(*types.Const); ok {
						hit = true
					}
				} else if depth < 4 {
					if _, ok := info.Uses[id].(*types.Var); ok {
						if d := c.singleDef(pk, id); d != nil && ms(d, depth+1) {
							hit = true
						}
					}
				}
			}
			return !hit
		})
		return hit
	}
	mentionsStmt = ms
	g := c.graph(pk, fd)
	n := 0
	for _, y := range g.Nodes {
		a := y.Ast()
		if a == nil || y.Kind != flow.KStmt {
			continue
		}
		if _, ok := a.(*ast.ExprStmt); !ok {
			continue
		}
		for _, call := range findCalls(info, a, false, load.Mod+"/js.(jsMinifier).write") {
			if len(call.Args) != 1 {
				continue
			}
			id, ok := ast.Unparen(call.Args[0]).(*ast.Ident)
			if !ok {
				continue
			}
			v, ok := info.Uses[id].(*types.Var)
			if !ok || v.Parent() != pk.Types.Scope() {
				continue
			}
			if txt, ok := c.byteVarText(pk, v); !ok || txt != "!" {
				continue
			}
			facts := g.DomFacts(y)
			under := false
			for _, f := range facts {
				if f.Test.Kind == flow.KCond && mentionsStmt(f.Test.Expr, 0) {
					under = true
				}
			}
			if !under {
				continue // the operator itself
			}
			n++
			contradicted := false
			for _, f := range facts {
				if f.Test.Kind != flow.KCond {
					continue
				}
				r := eval(f.Test.Expr, 0)
				if r >= 0 && (r == 1) != f.Value {
					contradicted = true
				}
			}
			c.R.Check(contradicted, rule, fmt.Sprintf("js.jsMinifier.minifyExpr/%s/`!` in front of the statement only where its value is discarded", c.caseLabel(a)), c.pos(call), "the dominating tests exclude prec != js.OpExpr",
				"a `!` is written in front of an operand of a larger expression statement: the operand's value is negated (`(class{})?a():b()` calls b) or the statement no longer parses (`(class{}).x=1`)")
		}
	}
	c.R.Floor(rule, "negations written in front of a statement", n, 3)
}

// R01.46: a block is merged into its parent scope only when its declarations do not capture the parent's names.
func (c *Ctx) r0146(pk *packages.Package) {
	const rule = "R01.46"
	c.R.Rule(rule, "optimizeStmtList dissolves the else block of `if(a){return}else{…}` into the enclosing statement list and moves the block's let/const/class declarations into the parent scope (js.Scope.Unscope of the parser). A reference of the parent scope to an outer variable of the same name then resolves to the moved declaration (`if(a){throw 1}else{let x=2;g(x)}h(x)` gave `let x=2;g(x),h(x)`), and where names are not renamed a second declaration of one name in one scope does not parse. Every call of Unscope in package js is dominated by the false outcome of a predicate of the module over the block's scope that (a) ranges over the scope's Declared and the parent's Undeclared variables and compares names, (b) ranges over a second Declared list (the parent's, for the global scope whose names are kept), and (c) the decision consults whether names are kept (KeepVarNames / the renamer's flag)")
	info := pk.TypesInfo
	n := 0
	var fds []*ast.FuncDecl
	for _, f := range pk.Syntax {
		for _, d := range f.Decls {
			if fd, ok := d.(*ast.FuncDecl); ok && fd.Body != nil {
				fds = append(fds, fd)
			}
		}
	}
	for _, fd := range fds {
		var calls []*ast.CallExpr
		ast.Inspect(fd.Body, func(x ast.Node) bool {
			if ce, ok := x.(*ast.CallExpr); ok {
				if f := typeutil.StaticCallee(info, ce); f != nil && f.Name() == "Unscope" && f.Pkg() != nil && strings.HasSuffix(f.Pkg().Path(), "parse/v2/js") {
					calls = append(calls, ce)
				}
			}
			return true
		})
		if len(calls) == 0 {
			continue
		}
		g := c.graph(pk, fd)
		for _, call := range calls {
			n++
			y := g.NodeOf(call)
			key := fmt.Sprintf("js.%s/Unscope#%d", fd.Name.Name, n)
			if y == nil {
				c.R.Unres(rule, key, c.pos(call), "call not in the flow graph")
				continue
			}
			var preds []*ast.FuncDecl
			kept := false
			for _, f := range g.DomFacts(y) {
				if f.Test.Kind != flow.KCond {
					continue
				}
				e, val := ast.Unparen(f.Test.Expr), f.Value
				for {
					u, ok := e.(*ast.UnaryExpr)
					if !ok || u.Op != token.NOT {
						break
					}
					e, val = ast.Unparen(u.X), !val
				}
				s := nospace(str(e))
				if strings.Contains(s, "KeepVarNames") || strings.Contains(s, ".rename") {
					kept = true
				}
				if ce, ok := e.(*ast.CallExpr); ok && !val {
					if _, d := c.calleeDecl(info, ce); d != nil && d.Body != nil {
						preds = append(preds, d)
					}
				}
			}
			var pred *ast.FuncDecl
			decl, undecl, cmp := 0, 0, false
			for _, d := range preds {
				dn, un, cm := 0, 0, false
				ast.Inspect(d.Body, func(x ast.Node) bool {
					switch v := x.(type) {
					case *ast.RangeStmt:
						if s, ok := ast.Unparen(v.X).(*ast.SelectorExpr); ok {
							switch s.Sel.Name {
							case "Declared":
								dn++
							case "Undeclared":
								un++
							}
						}
					case *ast.CallExpr:
						if fn := typeutil.StaticCallee(info, v); fn != nil && fn.Pkg() != nil && fn.Pkg().Path() == "bytes" && fn.Name() == "Equal" {
							cm = true
						}
					case *ast.SelectorExpr:
						if v.Sel.Name == "KeepVarNames" || v.Sel.Name == "rename" {
							kept = true
						}
					}
					return true
				})
				if cm && dn >= 1 && (pred == nil || dn+un > decl+undecl) {
					pred, decl, undecl, cmp = d, dn, un, cm
				}
			}
			c.R.Check(pred != nil && decl >= 1 && undecl >= 1 && cmp, rule, key+"/(a) no declaration has the name of an outer variable the parent uses", c.pos(call), "behind a predicate that compares the block's declarations with the parent's undeclared variables",
				"the block's declarations are moved into the parent scope without a test against the names the parent uses for outer variables: `if(a){throw 1}else{let x=2;g(x)}h(x)` becomes `if(a)throw 1;let x=2;g(x),h(x)`")
			c.R.Check(pred != nil && decl >= 2 && cmp, rule, key+"/(b) no declaration has the name of a declaration of a scope whose names are kept", c.pos(call), "the predicate also ranges over the parent's declarations",
				"the block's declarations are moved into the global scope without a test against its declarations, which are not renamed: `let x=1;if(a){throw 1}else{let x=2;g(x)}` declares x twice")
			c.R.Check(kept, rule, key+"/(c) kept names are taken into account", c.pos(call), "the decision consults the KeepVarNames option",
				"with KeepVarNames no variable is renamed, and the block's declarations are moved into a function scope without a test against its declarations: `function f(a){let x=1;if(a){return x}else{let x=2;g(x)}h(x)}` declares x twice")
		}
	}
	c.R.Floor(rule, "calls of Scope.Unscope", n, 1)
}

// R01.47: only an unlabelled jump at the end of a list is superfluous.
func (c *Ctx) r0147(pk *packages.Package) {
	const rule = "R01.47"
	c.R.Rule(rule, "optimizeStmtList drops a jump that ends a statement list when control gets to the same place without it (`continue` at the end of a loop body). A labelled jump names an enclosing statement and leaves more than the innermost one: `outer:for(…){switch(i){default:f();break outer}g()}` must keep its `break outer`. Every removal of a statement in optimizeStmtList (a decrement of the write index) that is dominated by a successful assertion of the statement to *js.BranchStmt is dominated by the true outcome of a test of its Label against nil")
	info := pk.TypesInfo
	fd := c.fn(rule, pk, "optimizeStmtList")
	if fd == nil {
		return
	}
	g := c.graph(pk, fd)
	n := 0
	for _, y := range g.Nodes {
		ids, ok := y.Stmt.(*ast.IncDecStmt)
		if !ok || y.Kind != flow.KStmt || ids.Tok != token.DEC {
			continue
		}
		branch, label := false, false
		for _, f := range g.DomFacts(y) {
			if !f.Value || f.Test.Kind != flow.KCond {
				continue
			}
			e := ast.Unparen(f.Test.Expr)
			if id, ok := e.(*ast.Ident); ok {
				if d := c.singleDef(pk, id); d != nil {
					if ta, ok := ast.Unparen(d).(*ast.TypeAssertExpr); ok && ta.Type != nil && strings.HasSuffix(nospace(str(ta.Type)), "js.BranchStmt") {
						branch = true
					}
				}
			}
			if be, ok := e.(*ast.BinaryExpr); ok && be.Op == token.EQL {
				for _, pair := range [][2]ast.Expr{{be.X, be.Y}, {be.Y, be.X}} {
					sel, isSel := ast.Unparen(pair[0]).(*ast.SelectorExpr)
					nid, isNil := ast.Unparen(pair[1]).(*ast.Ident)
					if isSel && isNil && sel.Sel.Name == "Label" && nid.Name == "nil" && info.Uses[nid] == types.Universe.Lookup("nil") {
						label = true
					}
				}
			}
		}
		if !branch {
			continue
		}
		n++
		c.R.Check(label, rule, fmt.Sprintf("js.optimizeStmtList/jump removed at the end of a list#%d has no label", n), c.pos(ids), "behind Label == nil",
			"a break or continue at the end of a statement list is removed whatever its label: `outer:for(;;){switch(i){default:f();break outer}g()}` loses the `break outer` and runs g()")
	}
	c.R.Floor(rule, "removals of a trailing jump", n, 1)
}

// R01.48 (= R09.26): parentheses around an optional chain that is continued stay.
func (c *Ctx) r0148(pk *packages.Package, rule string) {
	c.R.Rule(rule, "an optional chain ends at a closing parenthesis: `(a?.b)()` calls the value of the chain (and throws when it is undefined), `a?.b()` is one chain that short-circuits as a whole; `new a?.b` and a tagged template on a chain are syntax errors. The member, call and template printers ask isOptionalGroup for their operand; but jsMinifier.minifyExpr, case *js.GroupExpr, replaces a parenthesised conditional by the result of optimizeCondExpr, which can be such a chain (`(a==null?undefined:a.b)()`), after the parent has asked. Where the case assigns the group's content from optimizeCondExpr, every path from that assignment to the print of the content without parentheses passes a test that consults an optional-chain predicate (a function of the package that reads the links' Optional flag)")
	info := pk.TypesInfo
	fd := c.fn(rule, pk, "jsMinifier.minifyExpr")
	if fd == nil {
		return
	}
	g := c.graph(pk, fd)
	head := caseHead(g, "*js.GroupExpr")
	if head == nil {
		c.R.Unres(rule, "js.jsMinifier.minifyExpr/case *js.GroupExpr", c.pos(fd), "case not found")
		return
	}
	// the predicate: a function of the package whose body reads a field named Optional
	isPred := func(ce *ast.CallExpr) bool {
		_, d := c.calleeDecl(info, ce)
		if d == nil || d.Body == nil {
			return false
		}
		hit := false
		ast.Inspect(d.Body, func(z ast.Node) bool {
			if sel, ok := z.(*ast.SelectorExpr); ok && sel.Sel.Name == "Optional" {
				hit = true
			}
			return !hit
		})
		return hit
	}
	rewrites := false
	var rewriteNodes []*flow.Node
	n := 0
	var prec types.Object
	if fd.Type.Params != nil {
		for _, f := range fd.Type.Params.List {
			for _, nm := range f.Names {
				if t := info.TypeOf(f.Type); t != nil && strings.HasSuffix(t.String(), "js.OpPrec") {
					prec = info.Defs[nm]
				}
			}
		}
	}
	for _, y := range g.Nodes {
		a := y.Ast()
		if a == nil || y.Kind != flow.KStmt || c.caseLabel(a) != "case *js.GroupExpr" {
			continue
		}
		if as, ok := a.(*ast.AssignStmt); ok {
			for _, r := range as.Rhs {
				if ce, ok := ast.Unparen(r).(*ast.CallExpr); ok && strings.HasSuffix(calleeName(info, ce), ".optimizeCondExpr") {
					rewrites = true
					rewriteNodes = append(rewriteNodes, y)
				}
			}
		}
	}
	if !rewrites {
		c.R.Exists(rule, "js.jsMinifier.minifyExpr/case *js.GroupExpr/no rewrite of the content", c.pos(fd), "the case does not replace the group's content")
		return
	}
	consults := func(q *flow.Node) bool {
		if q.Kind != flow.KCond {
			return false
		}
		var whole ast.Node = q.Expr
		for x := c.P.Parent(q.Expr); x != nil; x = c.P.Parent(x) {
			if ifs, ok := x.(*ast.IfStmt); ok {
				if ifs.Cond.Pos() <= q.Expr.Pos() && q.Expr.End() <= ifs.Cond.End() {
					whole = ifs.Cond // the test may be one operand of a split && / ||
				}
				break
			}
			if _, ok := x.(ast.Stmt); ok {
				break
			}
		}
		hit := false
		ast.Inspect(whole, func(z ast.Node) bool {
			if ce, ok := z.(*ast.CallExpr); ok && isPred(ce) {
				hit = true
			}
			return !hit
		})
		return hit
	}
	for _, y := range g.Nodes {
		a := y.Ast()
		if a == nil || y.Kind != flow.KStmt || c.caseLabel(a) != "case *js.GroupExpr" {
			continue
		}
		for _, call := range findCalls(info, a, false, load.Mod+"/js.(jsMinifier).minifyExpr") {
			if len(call.Args) != 2 {
				continue
			}
			id, ok := ast.Unparen(call.Args[1]).(*ast.Ident)
			if !ok || info.Uses[id] != prec {
				continue // printed inside its own parentheses at a constant level
			}
			n++
			y := y
			p := g.Path(flow.Search{From: rewriteNodes, Goal: func(q *flow.Node) bool { return q == y }, Avoid: consults})
			c.R.Check(p == nil, rule, fmt.Sprintf("js.jsMinifier.minifyExpr/case *js.GroupExpr/content printed without parentheses#%d only after asking for an optional chain", n), c.pos(call), "every path from the rewrite to the print passes a test that consults the optional-chain predicate",
				"the parentheses of a group are dropped by comparing levels only, after its conditional may have become an optional chain: `(a==null?undefined:a.b)()` → `a?.b()` (no TypeError for a null a), `new (a==null?undefined:a.b)` → `new a?.b` (SyntaxError): "+pathStr(c, g, p))
		}
	}
	c.R.Floor(rule, "prints of a group's content without parentheses", n, 1)
	// the predicate the member, call and template printers ask looks at every link (known finding K18: the outermost only)
	if og := load.Func(pk, "isOptionalGroup"); og == nil || og.Body == nil {
		c.R.Unres(rule, "js.isOptionalGroup/every link of the chain is looked at", c.pos(fd), "isOptionalGroup not found")
	} else {
		walks := func(d *ast.FuncDecl) bool {
			loop := false
			ast.Inspect(d.Body, func(z ast.Node) bool {
				switch z.(type) {
				case *ast.ForStmt, *ast.RangeStmt:
					loop = true
				}
				return !loop
			})
			return loop
		}
		deep := walks(og)
		ast.Inspect(og.Body, func(z ast.Node) bool {
			if ce, ok := z.(*ast.CallExpr); ok {
				if _, d := c.calleeDecl(info, ce); d != nil && d.Body != nil && (d == og || isPred(ce) && walks(d)) {
					deep = true // recursion, or a helper that walks the chain
				}
			}
			return true
		})
		c.R.Check(deep, rule, "js.isOptionalGroup/every link of the chain is looked at", c.pos(og), "the predicate walks the chain",
			"isOptionalGroup looks at the outermost link of the parenthesised chain only: for `(a?.b.c).d` and `(a?.b.c)()` it answers no, the parentheses are dropped, and the member or call becomes part of the optional chain (`a?.b.c.d` is undefined for a null a, the input throws)")
	}
}

// R01.49: only a directive is printed as a statement that is a string and nothing else.
func (c *Ctx) r0149(pk *packages.Package) {
	const rule = "R01.49"
	c.R.Rule(rule, "a statement at the start of a function body or script that consists of a string literal token and nothing else is a directive (ECMA-262 §11.2.1): `\"use strict\"` changes the meaning of the whole function. `(\"use strict\");` and `\"use \"+\"strict\";` are ordinary expression statements; printed without the parentheses, or with the strings joined, they become directives. (a) jsMinifier.minifyStmt, case *js.ExprStmt, tests the statement's value for a parenthesised string (a StringToken test) and writes an opening parenthesis under it; (b) the string printer of jsMinifier.minifyExpr (case *js.LiteralExpr) looks at whether it prints a whole statement (a test of m.expectExpr) before it writes a string — a string that mergeBinaryExpr assembled is printed by it like a directive; (c) where optimizeStmtList removes empty statements it looks at the statement behind them — a string statement that becomes the first of the list would turn into a directive (`;\"use strict\";`)")
	info := pk.TypesInfo
	// (a)
	if fd := c.fn(rule, pk, "jsMinifier.minifyStmt"); fd != nil {
		g := c.graph(pk, fd)
		good := false
		for _, y := range g.Nodes {
			a := y.Ast()
			if a == nil || y.Kind != flow.KStmt || c.caseLabel(a) != "case *js.ExprStmt" {
				continue
			}
			for _, call := range findCalls(info, a, false, load.Mod+"/js.(jsMinifier).write") {
				if len(call.Args) != 1 {
					continue
				}
				id, ok := ast.Unparen(call.Args[0]).(*ast.Ident)
				if !ok {
					continue
				}
				v, ok := info.Uses[id].(*types.Var)
				if !ok {
					continue
				}
				if txt, ok := c.byteVarText(pk, v); !ok || txt != "(" {
					continue
				}
				for _, f := range g.DomFacts(y) {
					if f.Value && f.Test.Kind == flow.KCond && strings.Contains(nospace(str(f.Test.Expr)), "js.StringToken") {
						good = true
					}
				}
			}
		}
		c.R.Check(good, rule, "js.jsMinifier.minifyStmt/case *js.ExprStmt/(a) a parenthesised string keeps its parentheses", c.pos(fd), "an opening parenthesis is written under a StringToken test of the statement's value",
			"an expression statement that is a parenthesised string literal is printed without the parentheses: `function f(){(\"use strict\");return this}` becomes `function f(){\"use strict\";return this}`, a strict function")
	}
	// (c) empty statements in front of a string statement
	if fd := c.fn(rule, pk, "optimizeStmtList"); fd != nil {
		n := 0
		ast.Inspect(fd.Body, func(z ast.Node) bool {
			ifs, ok := z.(*ast.IfStmt)
			if !ok || ifs.Init == nil {
				return true
			}
			as, ok := ifs.Init.(*ast.AssignStmt)
			if !ok || len(as.Rhs) != 1 {
				return true
			}
			ta, ok := ast.Unparen(as.Rhs[0]).(*ast.TypeAssertExpr)
			if !ok || ta.Type == nil || !strings.HasSuffix(nospace(str(ta.Type)), "js.EmptyStmt") {
				return true
			}
			// the branch that removes the empty statements: it reslices the list
			removes := false
			for _, st := range ifs.Body.List {
				if a2, ok := st.(*ast.AssignStmt); ok && len(a2.Rhs) == 1 {
					if ce, ok := ast.Unparen(a2.Rhs[0]).(*ast.CallExpr); ok && str(ce.Fun) == "append" {
						removes = true
					}
				}
			}
			if !removes {
				return true
			}
			n++
			c.R.Check(strings.Contains(nospace(c.src(ifs.Body)), "js.StringToken"), rule, fmt.Sprintf("js.optimizeStmtList/(c) empty statements removed#%d with a look at a string statement behind them", n), c.pos(ifs), "the branch tests the statement that follows for a string literal",
				"empty statements are removed without a look at what follows: `;\"use strict\";function f(){return this}` becomes `\"use strict\";function f(){return this}`, the string is the first statement now and a directive")
			return false
		})
		c.R.Floor(rule, "removals of empty statements", n, 1)
	}
	// (b)
	if fd := c.fn(rule, pk, "jsMinifier.minifyExpr"); fd != nil {
		g := c.graph(pk, fd)
		n := 0
		for _, y := range g.Nodes {
			a := y.Ast()
			if a == nil || y.Kind != flow.KStmt || c.caseLabel(a) != "case *js.LiteralExpr" {
				continue
			}
			uses := false
			ast.Inspect(a, func(z ast.Node) bool {
				if ce, ok := z.(*ast.CallExpr); ok && strings.HasSuffix(calleeName(info, ce), ".minifyString") {
					uses = true
				}
				return true
			})
			if !uses {
				continue
			}
			n++
			good := false
			for _, f := range g.DomFacts(y) {
				if f.Test.Kind == flow.KCond && strings.Contains(nospace(str(f.Test.Expr)), ".expectExpr") {
					good = true
				}
			}
			// or a test on the way that follows the string's computation
			if !good {
				ast.Inspect(a, func(z ast.Node) bool { return true })
				for x := c.P.Parent(a); x != nil; x = c.P.Parent(x) {
					if bl, ok := x.(*ast.BlockStmt); ok {
						for _, st := range bl.List {
							if ifs, ok := st.(*ast.IfStmt); ok && strings.Contains(nospace(str(ifs.Cond)), ".expectExpr") {
								good = true
							}
						}
						break
					}
				}
			}
			c.R.Check(good, rule, fmt.Sprintf("js.jsMinifier.minifyExpr/case *js.LiteralExpr/(b) string#%d written as a whole statement only for a directive", n), c.pos(a), "the string printer looks at m.expectExpr",
				"the string printer does not know whether it prints a whole statement: `function f(){\"use \"+\"strict\";var a=this;return a}` becomes `function f(){\"use strict\";var e=this;return e}`, a strict function")
		}
		c.R.Floor(rule, "writes of a string literal", n, 1)
	}
}

// R01.50: a lone lexical declaration is dropped with its block only when it binds plain names.
func (c *Ctx) r0150(pk *packages.Package) {
	const rule = "R01.50"
	c.R.Rule(rule, "optimizeStmt removes a block whose only statement is a let/const declaration and keeps the initialisers that have side effects. A destructuring declaration does more than evaluate its initialiser: `{let {a}=b}` throws for a null b and runs getters, `{let [a]=b}` runs b's iterator. In the branch that builds the replacement from the declaration's items (it reads their Default), the items' Binding is asserted to *js.Var, and the variable's Uses count is consulted (a closure inside an initialiser can refer to the variable: `{let h=reg(()=>log(h))}`)")
	fd := c.fn(rule, pk, "optimizeStmt")
	if fd == nil {
		return
	}
	n := 0
	ast.Inspect(fd.Body, func(x ast.Node) bool {
		rs, ok := x.(*ast.RangeStmt)
		if !ok || !strings.HasSuffix(nospace(str(rs.X)), ".List") {
			return true
		}
		readsDefault, collects := false, false
		ast.Inspect(rs.Body, func(z ast.Node) bool {
			if sel, ok := z.(*ast.SelectorExpr); ok && sel.Sel.Name == "Default" {
				readsDefault = true
			}
			if ce, ok := z.(*ast.CallExpr); ok && str(ce.Fun) == "append" {
				collects = true
			}
			return true
		})
		if !readsDefault || !collects {
			return true
		}
		n++
		asserts := false
		ast.Inspect(rs.Body, func(z ast.Node) bool {
			if ta, ok := z.(*ast.TypeAssertExpr); ok && ta.Type != nil && strings.HasSuffix(nospace(str(ta.X)), ".Binding") && strings.HasSuffix(nospace(str(ta.Type)), "js.Var") {
				asserts = true
			}
			return true
		})
		c.R.Check(asserts, rule, fmt.Sprintf("js.optimizeStmt/lone declaration#%d replaced by its initialisers only for plain names", n), c.pos(rs), "the items' Binding is asserted to *js.Var",
			"a lone let/const declaration is replaced by its initialisers whatever it binds: `{let {a}=b}` becomes `b` — no TypeError for a null b, no getter is run")
		// … and only when nothing uses the variable: a closure in an initializer may
		usesChecked := false
		ast.Inspect(rs.Body, func(z ast.Node) bool {
			if sel, ok := z.(*ast.SelectorExpr); ok && sel.Sel.Name == "Uses" {
				usesChecked = true
			}
			return true
		})
		c.R.Check(usesChecked, rule, fmt.Sprintf("js.optimizeStmt/lone declaration#%d replaced by its initialisers only when the variable is unused", n), c.pos(rs), "the variable's Uses count is consulted",
			"a lone let/const declaration is dropped without a look at the uses of its variable: `{let h=reg(()=>log(h))}` becomes `reg(()=>log(h))`, whose h is a global")
		return true
	})
	c.R.Floor(rule, "replacements of a lone declaration", n, 1)
}

// R01.51 (= R02.15): whether a name is a global is asked of the variable a use is linked to.
func (c *Ctx) r0151(pk *packages.Package, rule string) {
	c.R.Rule(rule, "the parser gives a use of an outer function's variable inside an inner function its own *js.Var (Decl = NoDecl) and links it to the declared variable (Var.Link). Rewrites that are only valid for the builtins — isNaN(x) → x!=x, Math.abs, Number(…), `undefined` — test `Decl == js.NoDecl`; on the unresolved use that test also holds for `function f(isNaN){return function(){return isNaN(x)}}`, whose isNaN is the parameter. Every comparison of a Var's Decl with js.NoDecl in package js is made on a resolved variable: the operand is the result of a function of the package that follows the links, or a loop `for v.Link != nil` over the same variable precedes the comparison")
	info := pk.TypesInfo
	follows := func(d *ast.FuncDecl) bool {
		if d == nil || d.Body == nil {
			return false
		}
		hit := false
		ast.Inspect(d.Body, func(z ast.Node) bool {
			if fs, ok := z.(*ast.ForStmt); ok && fs.Cond != nil && strings.Contains(nospace(str(fs.Cond)), ".Link!=nil") {
				hit = true
			}
			return !hit
		})
		return hit
	}
	n := 0
	for _, fd := range load.FuncDecls(pk) {
		if fd.Body == nil {
			continue
		}
		// loops that resolve a variable in place
		type loop struct {
			obj types.Object
			pos token.Pos
		}
		var loops []loop
		ast.Inspect(fd.Body, func(z ast.Node) bool {
			if fs, ok := z.(*ast.ForStmt); ok && fs.Cond != nil {
				if be, ok := ast.Unparen(fs.Cond).(*ast.BinaryExpr); ok && be.Op == token.NEQ {
					if sel, ok := ast.Unparen(be.X).(*ast.SelectorExpr); ok && sel.Sel.Name == "Link" {
						if id, ok := ast.Unparen(sel.X).(*ast.Ident); ok {
							loops = append(loops, loop{info.Uses[id], fs.Pos()})
						}
					}
				}
			}
			return true
		})
		ast.Inspect(fd.Body, func(z ast.Node) bool {
			be, ok := z.(*ast.BinaryExpr)
			if !ok || (be.Op != token.EQL && be.Op != token.NEQ) {
				return true
			}
			for _, pair := range [][2]ast.Expr{{be.X, be.Y}, {be.Y, be.X}} {
				sel, ok := ast.Unparen(pair[0]).(*ast.SelectorExpr)
				if !ok || sel.Sel.Name != "Decl" {
					continue
				}
				k, ok := ast.Unparen(pair[1]).(*ast.SelectorExpr)
				if !ok || k.Sel.Name != "NoDecl" {
					continue
				}
				n++
				good := false
				switch x := ast.Unparen(sel.X).(type) {
				case *ast.CallExpr:
					if _, d := c.calleeDecl(info, x); follows(d) {
						good = true
					}
				case *ast.Ident:
					for _, l := range loops {
						if l.obj == info.Uses[x] && l.pos < be.Pos() {
							good = true
						}
					}
					if d := c.singleDef(pk, x); d != nil {
						if ce, ok := ast.Unparen(d).(*ast.CallExpr); ok {
							if _, dd := c.calleeDecl(info, ce); follows(dd) {
								good = true
							}
						}
					}
				}
				c.R.Check(good, rule, fmt.Sprintf("js.%s/declaration test#%d on the linked variable", load.FuncName(fd), n), c.pos(be), "the links are followed first",
					"`"+str(be)+"` is asked of the variable as it stands at the use: a use inside an inner function of a variable the outer function declares has Decl NoDecl and a Link — `function f(isNaN){return function(){return isNaN(x)}}` is printed as `…return x!=x`")
			}
			return true
		})
	}
	c.R.Floor(rule, "comparisons of a declaration type with NoDecl", n, 6)
}

// R01.53: the initialiser of a var declaration is not discarded.
func (c *Ctx) r0153(pk *packages.Package) {
	const rule = "R01.53"
	c.R.Rule(rule, "`var a=undefined` is an assignment that runs every time control reaches it — in the second iteration of a loop, or where a is a parameter, it resets a value; `let a=undefined` is `let a`. No assignment in package js clears the Default of a binding element (`X.Default = nil`) unless it is dominated by a test that the declaration is a let declaration (a comparison of a TokenType with js.LetToken)")
	info := pk.TypesInfo
	n, bad := 0, 0
	for _, fd := range load.FuncDecls(pk) {
		if fd.Body == nil {
			continue
		}
		var g *flow.Graph
		ast.Inspect(fd.Body, func(z ast.Node) bool {
			as, ok := z.(*ast.AssignStmt)
			if !ok || len(as.Lhs) != len(as.Rhs) {
				return true
			}
			for i, l := range as.Lhs {
				sel, ok := l.(*ast.SelectorExpr)
				if !ok || sel.Sel.Name != "Default" || !isNilExpr(as.Rhs[i]) {
					continue
				}
				if t := info.TypeOf(sel.X); t == nil || !strings.HasSuffix(derefType(t).String(), "js.BindingElement") {
					continue
				}
				n++
				if g == nil {
					g = c.graph(pk, fd)
				}
				good := false
				if y := g.NodeOf(as); y != nil {
					for _, f := range g.DomFacts(y) {
						if f.Test.Kind != flow.KCond {
							continue
						}
						s := nospace(str(f.Test.Expr))
						if strings.Contains(s, "TokenType==js.LetToken") && f.Value || strings.Contains(s, "TokenType!=js.LetToken") && !f.Value {
							good = true
						}
					}
				}
				if !good {
					bad++
				}
				c.R.Check(good, rule, fmt.Sprintf("js.%s/initialiser discarded#%d only from a let declaration", load.FuncName(fd), n), c.pos(as), "behind TokenType == js.LetToken",
					"the initialiser of a binding is discarded without a test that the declaration is a let: `for(…){var a=undefined;…;a=i}` prints `var a`, and a keeps the value of the previous iteration")
			}
			return true
		})
	}
	c.R.Exists(rule, "js/assignments that discard an initialiser", "-", fmt.Sprintf("%d found, %d of them outside a let declaration", n, bad))
}

// R01.54: the expression of the preceding statement moves only into a head that is evaluated first, once, in the list's scope.
func (c *Ctx) r0154(pk *packages.Package) {
	const rule = "R01.54"
	c.R.Rule(rule, "optimizeStmtList merges an expression statement into the statement behind it (`a;return b` → `return a,b`, `a;if(b)…` → `if(a,b)…`, `a;while(b)…` → `for(a;b;)…`). That keeps the evaluation only where the receiving slot is evaluated first, exactly once, and in the scope of the list: ref.JSHeadEvaluatedFirst lists those slots by node type and field (ECMA-262 §14: the discriminant of switch, the object of with, the test of if, the init of for, the operand of return and throw). The test of while / do-while and the update of for are evaluated repeatedly; the object of for-in / for-of is evaluated in a scope in which the names of a let / const head are in their temporal dead zone (§14.7.5.6 ForIn/OfHeadEvaluation) — `f(b);for(let k in c)` → `for(let k in f(b),c)` throws when the renamer gives k the name of b. Every assignment in optimizeStmtList whose right-hand side mentions the Value of the preceding *js.ExprStmt stores into a listed slot")
	info := pk.TypesInfo
	fd := c.fn(rule, pk, "optimizeStmtList")
	if fd == nil {
		return
	}
	// the locals that hold the preceding expression statement: v, ok := list[i-1].(*js.ExprStmt)
	prev := map[types.Object]bool{}
	ast.Inspect(fd.Body, func(z ast.Node) bool {
		as, ok := z.(*ast.AssignStmt)
		if !ok || as.Tok != token.DEFINE || len(as.Rhs) != 1 || len(as.Lhs) == 0 {
			return true
		}
		ta, ok := ast.Unparen(as.Rhs[0]).(*ast.TypeAssertExpr)
		if !ok || ta.Type == nil || !strings.HasSuffix(str(ta.Type), "js.ExprStmt") {
			return true
		}
		ie, ok := ast.Unparen(ta.X).(*ast.IndexExpr)
		if !ok {
			return true
		}
		if be, ok := ast.Unparen(ie.Index).(*ast.BinaryExpr); ok && be.Op == token.SUB {
			if id, ok := as.Lhs[0].(*ast.Ident); ok && info.Defs[id] != nil {
				prev[info.Defs[id]] = true
			}
		}
		return true
	})
	mentions := func(e ast.Node) bool {
		hit := false
		ast.Inspect(e, func(z ast.Node) bool {
			if sel, ok := z.(*ast.SelectorExpr); ok && sel.Sel.Name == "Value" {
				if id, ok := ast.Unparen(sel.X).(*ast.Ident); ok && prev[info.Uses[id]] {
					hit = true
				}
			}
			return !hit
		})
		return hit
	}
	short := func(t types.Type) string {
		n := namedTypeName(derefType(t))
		if i := strings.LastIndex(n, "."); i >= 0 {
			n = n[i+1:]
		}
		return n
	}
	n := 0
	seen := map[string]int{}
	ast.Inspect(fd.Body, func(z ast.Node) bool {
		as, ok := z.(*ast.AssignStmt)
		if !ok {
			return true
		}
		for i, r := range as.Rhs {
			if !mentions(r) || i >= len(as.Lhs) {
				continue
			}
			var slots []string
			if sel, ok := ast.Unparen(as.Lhs[i]).(*ast.SelectorExpr); ok {
				slots = append(slots, short(info.TypeOf(sel.X))+"."+sel.Sel.Name)
			} else {
				// a node built around the expression: the field of the composite literal that receives it
				ast.Inspect(r, func(y ast.Node) bool {
					cl, ok := y.(*ast.CompositeLit)
					if !ok {
						return true
					}
					for _, el := range cl.Elts {
						if kv, ok := el.(*ast.KeyValueExpr); ok && mentions(kv.Value) {
							slots = append(slots, short(info.TypeOf(cl))+"."+str(kv.Key))
						}
					}
					return true
				})
				if len(slots) == 0 {
					slots = append(slots, nospace(str(as.Lhs[i])))
				}
			}
			for _, slot := range slots {
				n++
				seen[slot]++
				_, ok := ref.JSHeadEvaluatedFirst[slot]
				c.R.Check(ok, rule, fmt.Sprintf("js.optimizeStmtList/preceding expression moved into %s#%d", slot, seen[slot]), c.pos(as), slot+" is evaluated first, once, in the scope of the list ("+ref.JSHeadEvaluatedFirst[slot]+")",
					"the expression of the preceding statement is moved into "+slot+", which is not a slot that is evaluated first, exactly once and in the scope of the statement list: for the object of a for-in / for-of with a let or const head the names of the head are in their temporal dead zone (`f(b);for(let k in c)h(k)` → `for(let k in f(b),c)h(k)`, where the renamer may give k the name of b: ReferenceError); the test of a loop is evaluated on every iteration")
			}
		}
		return true
	})
	c.R.Floor(rule, "moves of the preceding expression statement", n, 8)
}

// R01.55: the truth of a negated numeric literal is decided by the predicate that decides it everywhere else.
func (c *Ctx) r0155(pk *packages.Package) {
	const rule = "R01.55"
	c.R.Rule(rule, "`!123` is printed as `!1` and `!0.0` as `!0`. Whether a numeric literal is zero is not visible from its digits alone: `1e-400` underflows to 0, so `!1e-400` is true. js.isFalsy knows that (it gives no verdict for a literal with a negative exponent). In jsMinifier.minifyExpr, case *js.UnaryExpr, every write of zeroBytes / oneBytes that stands for a negated numeric literal (it is dominated by a test of the literal's TokenType against js.DecimalToken) is dominated by the verdict of js.isFalsy / js.isTruthy (sibling agreement: one predicate decides the truth of literals)")
	info := pk.TypesInfo
	fd := c.fn(rule, pk, "jsMinifier.minifyExpr")
	if fd == nil {
		return
	}
	g := c.graph(pk, fd)
	n := 0
	for _, y := range g.Nodes {
		a := y.Ast()
		if a == nil || y.Kind != flow.KStmt || c.caseLabel(a) != "case *js.UnaryExpr" {
			continue
		}
		writes := ""
		for _, call := range findCalls(info, a, false, load.Mod+"/js.(jsMinifier).write") {
			if len(call.Args) == 1 {
				if s := nospace(str(call.Args[0])); s == "zeroBytes" || s == "oneBytes" {
					writes = s
				}
			}
		}
		if writes == "" {
			continue
		}
		numeric, verdict := false, false
		for _, f := range g.DomFacts(y) {
			if f.Test.Kind != flow.KCond {
				continue
			}
			if id, ok := ast.Unparen(f.Test.Expr).(*ast.Ident); ok && f.Value {
				if d := c.singleDef(pk, id); d != nil {
					if ce, ok := ast.Unparen(d).(*ast.CallExpr); ok {
						if cn := calleeName(info, ce); strings.HasSuffix(cn, "/js.isFalsy") || strings.HasSuffix(cn, "/js.isTruthy") {
							verdict = true
						}
					}
				}
			}
		}
		// the branch of the numeric literals: an enclosing if whose condition compares with js.DecimalToken and whose body holds the write
		for x := c.P.Parent(a); x != nil; x = c.P.Parent(x) {
			if ifs, ok := x.(*ast.IfStmt); ok && ifs.Body.Pos() <= a.Pos() && a.End() <= ifs.Body.End() && mentionsObj(info, ifs.Cond, pjs+".DecimalToken") {
				numeric = true
			}
			if _, ok := x.(*ast.CaseClause); ok {
				break
			}
		}
		if !numeric {
			continue
		}
		n++
		c.R.Check(verdict, rule, fmt.Sprintf("js.jsMinifier.minifyExpr/case *js.UnaryExpr/%s written for a negated number#%d behind the verdict of isFalsy", writes, n), c.pos(a), "dominated by the ok result of js.isFalsy / js.isTruthy",
			"the truth of the numeric literal is decided on the spot (from the rounded digits): `x=!1e-400` → `x=!1` (true → false), while isFalsy gives no verdict for a literal that may underflow")
	}
	c.R.Floor(rule, "writes for a negated numeric literal", n, 2)
}

// R01.56: a list of a syntax node is only ever sorted with a stable sort.
func (c *Ctx) r0156(pk *packages.Package) {
	const rule = "R01.56"
	c.R.Rule(rule, "the lists of a syntax node (the declarators of a var statement, the elements of a list) are in evaluation order. minifyVarDecl moves the declarators without an initialiser to the front with a comparator under which all declarators with an initialiser are equal: their order, the order in which the initialisers run, survives only because the sort is stable. In package js every sort whose operand is a field of a node type of parse/v2/js is a stable one (sort.SliceStable, sort.Stable, slices.SortStableFunc); sort.Slice is unstable above 12 elements")
	info := pk.TypesInfo
	n := 0
	for _, fd := range load.FuncDecls(pk) {
		if fd.Body == nil {
			continue
		}
		ast.Inspect(fd.Body, func(z ast.Node) bool {
			call, ok := z.(*ast.CallExpr)
			if !ok || len(call.Args) == 0 {
				return true
			}
			cn := calleeName(info, call)
			stable := cn == "sort.SliceStable" || cn == "sort.Stable" || cn == "slices.SortStableFunc"
			unstable := cn == "sort.Slice" || cn == "sort.Sort" || cn == "slices.SortFunc" || cn == "slices.Sort"
			if !stable && !unstable {
				return true
			}
			// the operand, through a conversion to a sort.Interface type
			op := ast.Unparen(call.Args[0])
			if conv, ok := op.(*ast.CallExpr); ok && len(conv.Args) == 1 {
				if tv, ok := info.Types[conv.Fun]; ok && tv.IsType() {
					op = ast.Unparen(conv.Args[0])
				}
			}
			sel, ok := op.(*ast.SelectorExpr)
			if !ok {
				return true
			}
			t := info.TypeOf(sel.X)
			if t == nil || !strings.HasPrefix(namedTypeName(derefType(t)), pjs+".") {
				return true
			}
			nt := namedTypeName(derefType(t))
			if strings.HasSuffix(nt, ".Scope") {
				return true // the variables of a scope are not in evaluation order
			}
			n++
			c.R.Check(stable, rule, fmt.Sprintf("js.%s/sort of %s#%d is stable", load.FuncName(fd), nospace(str(op)), n), c.pos(call), cn,
				fmt.Sprintf("%s is sorted with %s, which does not keep equal elements in their order: with more than 12 declarators the initialisers of `var a=f(1),b=f(2),…,u,v=f(13)` run in another order", str(op), cn))
			return true
		})
	}
	c.R.Floor(rule, "sorts of node lists", n, 1)
}
