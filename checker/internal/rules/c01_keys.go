package rules

import (
	"fmt"
	"go/ast"
	"go/constant"
	"go/types"
	"strings"

	"golang.org/x/tools/go/packages"

	"verif/checker/internal/flow"
	"verif/checker/internal/load"
)

// calleeDecl returns the declaration of a statically resolved callee that lives in the module.
func (c *Ctx) calleeDecl(info *types.Info, call *ast.CallExpr) (*packages.Package, *ast.FuncDecl) {
	f, _ := callee(info, call).(*types.Func)
	if f == nil || f.Pkg() == nil {
		return nil, nil
	}
	for _, p := range c.P.Roots {
		if p.Types != f.Pkg() {
			continue
		}
		for _, d := range load.FuncDecls(p) {
			if p.TypesInfo.Defs[d.Name] == f {
				return p, d
			}
		}
	}
	return nil, nil
}

// constsIn collects the character, string and integer constants that occur in a node (through package-level
// []byte("…") variables as well).
func (c *Ctx) constsIn(pk *packages.Package, n ast.Node) (chars map[rune]bool, strs map[string]bool, ints map[int64]bool) {
	chars, strs, ints = map[rune]bool{}, map[string]bool{}, map[int64]bool{}
	info := pk.TypesInfo
	ast.Inspect(n, func(x ast.Node) bool {
		e, ok := x.(ast.Expr)
		if !ok {
			return true
		}
		if tv, ok := info.Types[e]; ok && tv.Value != nil {
			switch tv.Value.Kind() {
			case constant.String:
				strs[constant.StringVal(tv.Value)] = true
			case constant.Int:
				if v, ok := constant.Int64Val(tv.Value); ok {
					ints[v] = true
					if b, isB := tv.Type.Underlying().(*types.Basic); isB && (b.Kind() == types.UntypedRune || b.Kind() == types.Int32 || b.Kind() == types.Uint8) {
						chars[rune(v)] = true
					}
				}
			}
		}
		if id, ok := e.(*ast.Ident); ok {
			if v, isVar := info.Uses[id].(*types.Var); isVar && v.Pkg() == pk.Types && v.Parent() == pk.Types.Scope() {
				if s, ok := c.byteVarText(pk, v); ok {
					strs[s] = true
				}
			}
		}
		return true
	})
	return
}

// byteVarText returns the text of a package-level `x = []byte("…")` variable.
func (c *Ctx) byteVarText(pk *packages.Package, v *types.Var) (string, bool) {
	for _, f := range pk.Syntax {
		for _, d := range f.Decls {
			gd, ok := d.(*ast.GenDecl)
			if !ok {
				continue
			}
			for _, sp := range gd.Specs {
				vs, ok := sp.(*ast.ValueSpec)
				if !ok {
					continue
				}
				for i, nm := range vs.Names {
					if pk.TypesInfo.Defs[nm] != v || i >= len(vs.Values) {
						continue
					}
					if ce, ok := vs.Values[i].(*ast.CallExpr); ok && len(ce.Args) == 1 {
						if tv, ok := pk.TypesInfo.Types[ce.Args[0]]; ok && tv.Value != nil && tv.Value.Kind() == constant.String {
							return constant.StringVal(tv.Value), true
						}
					}
				}
			}
		}
	}
	return "", false
}

// caseHead returns the true outcome of `case <label>` in the type switch of a function graph.
func caseHead(g *flow.Graph, label string) *flow.Node {
	for _, y := range g.Nodes {
		if y.Kind == flow.KTrue && y.Of != nil && y.Of.Kind == flow.KTypeCase && str(y.Of.Expr) == label {
			return y
		}
	}
	return nil
}

// R01.30: a string key is replaced by a number only if the number is written back as that string.
func (c *Ctx) r0130(pk *packages.Package) {
	const rule = "R01.30"
	c.R.Rule(rule, "a[\"1.5\"] and a[1.5] name the same property because ToString(1.5) is \"1.5\"; a[\"1.0\"], a[\"1.\"], a[\".5\"] and a[\"12345678901234567890\"] do not survive the round trip (\"1\", \"1\", \"0.5\", \"12345678901234567000\") and must stay strings. In jsMinifier.minifyExpr, case *js.IndexExpr, the write of minify.Number(<string contents>) is dominated by the true outcome of js.AsDecimalLiteral and of a second predicate of the module over the same bytes whose body looks at the dot ('.'), at a trailing zero ('0') and bounds the length (an integer constant between 15 and 17: the digits a double keeps)")
	info := pk.TypesInfo
	fd := c.fn(rule, pk, "jsMinifier.minifyExpr")
	if fd == nil {
		return
	}
	g := c.graph(pk, fd)
	n := 0
	for _, y := range g.Nodes {
		a := y.Ast()
		if a == nil || y.Kind != flow.KStmt || c.caseLabel(a) != "case *js.IndexExpr" {
			continue
		}
		for _, call := range findCalls(info, a, false, load.Mod+".Number") {
			if len(call.Args) < 1 {
				continue
			}
			n++
			arg := nospace(str(call.Args[0]))
			good, seen := false, []string{}
			for _, f := range g.DomFacts(y) {
				if !f.Value || f.Test.Kind != flow.KCond {
					continue
				}
				ast.Inspect(f.Test.Expr, func(z ast.Node) bool {
					ce, ok := z.(*ast.CallExpr)
					if !ok || len(ce.Args) != 1 || nospace(str(ce.Args[0])) != arg {
						return true
					}
					p, d := c.calleeDecl(info, ce)
					if d == nil || d.Body == nil {
						return true
					}
					seen = append(seen, load.FuncName(d))
					chars, _, ints := c.constsIn(p, d.Body)
					bound := false
					for k := range ints {
						if 15 <= k && k <= 17 {
							bound = true
						}
					}
					if chars['.'] && chars['0'] && bound {
						good = true
					}
					return true
				})
			}
			c.R.Check(good, rule, fmt.Sprintf("js.jsMinifier.minifyExpr/case *js.IndexExpr/numeric key#%d only for canonical numeric strings", n), c.pos(call), "behind a predicate on "+arg+" that rejects a leading or trailing dot, trailing zeros and long digit strings",
				"the string key is rewritten to a number without a test that the number is written back as the same string (module predicates on the way: "+strings.Join(seen, ", ")+"): `a[\"1.0\"]` becomes `a[1]`, another property")
		}
	}
	c.R.Floor(rule, "numeric rewrites of string keys in the IndexExpr case", n, 1)
}

// R01.31: no optional call is merged into a plain one.
func (c *Ctx) r0131(pk *packages.Package) {
	const rule = "R01.31"
	c.R.Rule(rule, "`c?f?.(1):f?.(2)` yields undefined when f is null; `f(c?1:2)` throws. In jsMinifier.optimizeCondExpr every js.CallExpr that is constructed around the conditional expression itself (the merge `a?f(x):f(y)` → `f(a?x:y)`) is dominated, for each of the two calls it merges (the variables bound by the type assertions on expr.X and expr.Y), by the false outcome of a test of that call's Optional field")
	info := pk.TypesInfo
	fd := c.fn(rule, pk, "jsMinifier.optimizeCondExpr")
	if fd == nil {
		return
	}
	g := c.graph(pk, fd)
	// variables bound by x.(*js.CallExpr)
	callVars := map[types.Object]string{}
	ast.Inspect(fd.Body, func(x ast.Node) bool {
		as, ok := x.(*ast.AssignStmt)
		if !ok || len(as.Rhs) != 1 || len(as.Lhs) < 1 {
			return true
		}
		ta, ok := as.Rhs[0].(*ast.TypeAssertExpr)
		if !ok || ta.Type == nil || !strings.HasSuffix(nospace(str(ta.Type)), "js.CallExpr") {
			return true
		}
		if id, ok := as.Lhs[0].(*ast.Ident); ok {
			if o := info.Defs[id]; o != nil {
				callVars[o] = nospace(str(ta.X))
			}
		}
		return true
	})
	n := 0
	for _, y := range g.Nodes {
		a := y.Ast()
		if a == nil || y.Kind != flow.KStmt {
			continue
		}
		ast.Inspect(a, func(x ast.Node) bool {
			cl, ok := x.(*ast.CompositeLit)
			if !ok || !strings.HasSuffix(nospace(str(cl.Type)), "js.CallExpr") {
				return true
			}
			// merges: the callee comes from one of the bound calls and the argument list mentions the conditional itself
			var used []types.Object
			ast.Inspect(cl, func(z ast.Node) bool {
				if id, ok := z.(*ast.Ident); ok {
					if o := info.Uses[id]; o != nil {
						if _, isCall := callVars[o]; isCall {
							used = append(used, o)
						}
					}
				}
				return true
			})
			if len(used) == 0 {
				return true
			}
			n++
			// every call variable of the function that is tested together (same condition chain) must be non-optional
			need := map[types.Object]bool{}
			for o, src := range callVars {
				if src == "expr.X" || src == "expr.Y" {
					need[o] = true
				}
			}
			for _, f := range g.DomFacts(y) {
				if f.Value || f.Test.Kind != flow.KCond {
					continue
				}
				if se, ok := ast.Unparen(f.Test.Expr).(*ast.SelectorExpr); ok && se.Sel.Name == "Optional" {
					if id, ok := se.X.(*ast.Ident); ok {
						delete(need, info.Uses[id])
					}
				}
			}
			var missing []string
			for o := range need {
				missing = append(missing, o.Name())
			}
			c.R.Check(len(missing) == 0, rule, fmt.Sprintf("js.jsMinifier.optimizeCondExpr/merged call#%d only for plain calls", n), c.pos(cl), "both calls tested for Optional == false",
				"the two calls of a conditional are merged into one plain call without a test that neither is an optional call (no test of .Optional for "+strings.Join(missing, ", ")+"): `c?f?.(1):f?.(2)` becomes `f(c?1:2)`, which throws when f is null")
			return true
		})
	}
	c.R.Floor(rule, "call merges in optimizeCondExpr", n, 1)
}

// R01.32: {__proto__: __proto__} is not a shorthand.
func (c *Ctx) r0132(pk *packages.Package) {
	const rule = "R01.32"
	c.R.Rule(rule, "ECMA-262 §13.2.5.5: `__proto__: v` in an object literal sets the prototype, the shorthand `{__proto__}` defines an own property of that name. In jsMinifier.minifyProperty every path to the print of the value that writes no property name (the shorthand: not through minifyPropertyName, not a spread, not a nameless property) passes the false outcome of a test against the constant `__proto__`")
	info := pk.TypesInfo
	fd := c.fn(rule, pk, "jsMinifier.minifyProperty")
	if fd == nil {
		return
	}
	g := c.graph(pk, fd)
	var goal *flow.Node
	for _, y := range g.Nodes {
		a := y.Ast()
		if a == nil || y.Kind != flow.KStmt {
			continue
		}
		for _, call := range findCalls(info, a, false, load.Mod+"/js.(jsMinifier).minifyExpr") {
			if len(call.Args) > 0 && strings.HasSuffix(nospace(str(call.Args[0])), ".Value") && goal == nil {
				goal = y
			}
		}
	}
	if goal == nil {
		c.R.Unres(rule, "js.jsMinifier.minifyProperty/print of the value", c.pos(fd), "call of minifyExpr on the property value not found")
		return
	}
	avoid := func(q *flow.Node) bool {
		if a := q.Ast(); a != nil && q.Kind == flow.KStmt && len(findCalls(info, a, false, load.Mod+"/js.(jsMinifier).minifyPropertyName")) > 0 {
			return true
		}
		if (q.Kind == flow.KTrue || q.Kind == flow.KFalse) && q.Of != nil && q.Of.Kind == flow.KCond {
			s := nospace(str(q.Of.Expr))
			if q.Kind == flow.KTrue && strings.HasSuffix(s, ".Spread") {
				return true
			}
			if q.Kind == flow.KFalse && strings.HasSuffix(s, ".Name!=nil") {
				return true
			}
			if q.Kind == flow.KFalse {
				_, strs, _ := c.constsIn(pk, q.Of.Expr)
				if strs["__proto__"] {
					return true
				}
			}
		}
		return false
	}
	p := g.Path(flow.Search{From: []*flow.Node{g.Entry}, Goal: func(q *flow.Node) bool { return q == goal }, Avoid: avoid})
	c.R.Check(p == nil, rule, "js.jsMinifier.minifyProperty/shorthand excludes __proto__", c.pos(goal.Ast()), "the shorthand path tests the name against __proto__",
		"a property whose value is a variable of the same name is printed as a shorthand without a test for `__proto__`: `{__proto__:__proto__}` (sets the prototype) becomes `{__proto__}` (an own property): "+pathStr(c, g, p))
}

// R01.33: a literal that may underflow to zero is not taken for truthy.
func (c *Ctx) r0133(pk *packages.Package) {
	const rule = "R01.33"
	c.R.Rule(rule, "`1e-400` is 0. In js.isFalsy the verdict `truthy` for a numeric literal — a return of (negated, true) inside the loop over the literal's characters — is dominated by a test that looks for a negative exponent (a condition with the constant `e-`, `E-` or '-'); judging by the mantissa alone folds `1e-400?a():b()` to `a()`")
	fd := c.fn(rule, pk, "isFalsy")
	if fd == nil {
		return
	}
	g := c.graph(pk, fd)
	n := 0
	for _, y := range g.Nodes {
		rs := retStmt(y)
		if rs == nil || len(rs.Results) != 2 || nospace(str(rs.Results[0])) != "negated" || nospace(str(rs.Results[1])) != "true" {
			continue
		}
		// inside a range loop over the literal's data
		inLoop := false
		for x := c.P.Parent(rs); x != nil; x = c.P.Parent(x) {
			if _, ok := x.(*ast.RangeStmt); ok {
				inLoop = true
			}
			if _, ok := x.(*ast.FuncDecl); ok {
				break
			}
		}
		if !inLoop {
			continue
		}
		n++
		// the loop whose body holds the return
		var loop *ast.RangeStmt
		for x := c.P.Parent(rs); x != nil; x = c.P.Parent(x) {
			if l, ok := x.(*ast.RangeStmt); ok {
				loop = l
				break
			}
		}
		var head *flow.Node
		for _, q := range g.Nodes {
			if q.Kind == flow.KRange && q.Stmt == ast.Stmt(loop) {
				head = q
			}
		}
		if head == nil {
			c.R.Unres(rule, fmt.Sprintf("js.isFalsy/numeric literal truthy#%d", n), c.pos(rs), "loop head not found in the flow graph")
			continue
		}
		// an outcome that has looked at the exponent sign, or that knows the literal to have a radix prefix (no exponent)
		considered := func(q *flow.Node) bool {
			if (q.Kind != flow.KTrue && q.Kind != flow.KFalse) || q.Of == nil || q.Of.Kind != flow.KCond {
				return false
			}
			chars, strs, _ := c.constsIn(pk, q.Of.Expr)
			if chars['-'] || strs["e-"] || strs["E-"] || strs["-"] {
				return true
			}
			if id, ok := ast.Unparen(q.Of.Expr).(*ast.Ident); ok && q.Kind == flow.KTrue {
				if d := c.singleDef(pk, id); d != nil && strings.Contains(str(d), "HexadecimalToken") && !strings.Contains(str(d), "DecimalToken") {
					return true
				}
			}
			return false
		}
		p := g.Path(flow.Search{From: []*flow.Node{head}, Goal: func(q *flow.Node) bool { return q == y }, Avoid: considered})
		c.R.Check(p == nil, rule, fmt.Sprintf("js.isFalsy/numeric literal truthy#%d only without a negative exponent", n), c.pos(rs), "behind a test for a negative exponent (or for a radix prefix)",
			"a numeric literal with a non-zero digit in its mantissa is taken for truthy without looking at the exponent: `1e-400` is 0, so `1e-400?a():b()` must not become `a()`: "+pathStr(c, g, p))
	}
	c.R.Floor(rule, "truthy verdicts inside the digit loop of isFalsy", n, 1)
}

// R09.21: `static` is separated from a field name that starts with a letter or a digit.
func (c *Ctx) r0921(pk *packages.Package) {
	const rule = "R09.21"
	c.R.Rule(rule, "in jsMinifier.minifyClassDecl, from the write of `static` for a field to the print of its name (minifyPropertyName) every path either writes a space or has established that the name starts with a character that cannot continue an identifier: the name is computed (`[`), a string (quote) or a private name (`#`) — the true outcome of IsComputed(), or an outcome that fixes Literal.TokenType to js.StringToken / js.PrivateIdentifierToken. A space only for js.IdentifierToken prints `class A{static 1=2}` as `static1=2`, a field named static1")
	info := pk.TypesInfo
	fd := c.fn(rule, pk, "jsMinifier.minifyClassDecl")
	if fd == nil {
		return
	}
	g := c.graph(pk, fd)
	var froms []*flow.Node
	var goal []*flow.Node
	for _, y := range g.Nodes {
		a := y.Ast()
		if a == nil || y.Kind != flow.KStmt {
			continue
		}
		for _, call := range findCalls(info, a, false, jsWrite) {
			if len(call.Args) == 1 {
				if s, ok := c.exprBytesText(pk, call.Args[0]); ok && s == "static" {
					froms = append(froms, y)
				}
			}
		}
		if len(findCalls(info, a, false, load.Mod+"/js.(jsMinifier).minifyPropertyName")) > 0 {
			goal = append(goal, y)
		}
	}
	n := 0
	for _, from := range froms {
		// only the field branch: a static write from which minifyPropertyName is reachable without passing another static write
		isGoal := func(q *flow.Node) bool {
			for _, x := range goal {
				if x == q {
					return true
				}
			}
			return false
		}
		if g.Path(flow.Search{From: []*flow.Node{from}, Goal: isGoal, Avoid: func(q *flow.Node) bool {
			if q.Kind == flow.KRange {
				return true // the next class member
			}
			for _, f := range froms {
				if f == q && q != from {
					return true
				}
			}
			return false
		}}) == nil {
			continue
		}
		n++
		safe := func(q *flow.Node) bool {
			if a := q.Ast(); a != nil && q.Kind == flow.KStmt {
				for _, call := range findCalls(info, a, false, jsWrite) {
					if len(call.Args) == 1 {
						if s, ok := c.exprBytesText(pk, call.Args[0]); ok && s == " " {
							return true
						}
					}
				}
			}
			if (q.Kind == flow.KTrue || q.Kind == flow.KFalse) && q.Of != nil && q.Of.Kind == flow.KCond {
				s := nospace(str(q.Of.Expr))
				if q.Kind == flow.KTrue && strings.HasSuffix(s, ".IsComputed()") {
					return true
				}
				for _, tt := range []string{"js.StringToken", "js.PrivateIdentifierToken"} {
					if q.Kind == flow.KTrue && strings.HasSuffix(s, ".TokenType=="+tt) || q.Kind == flow.KFalse && strings.HasSuffix(s, ".TokenType!="+tt) {
						return true
					}
				}
			}
			return false
		}
		p := g.Path(flow.Search{From: []*flow.Node{from}, Goal: isGoal, Avoid: func(q *flow.Node) bool { return q.Kind == flow.KRange || safe(q) }})
		c.R.Check(p == nil, rule, fmt.Sprintf("js.jsMinifier.minifyClassDecl/static field#%d name is separated from the keyword", n), c.pos(from.Ast()), "a space, or a name that starts with `[`, a quote or `#`",
			"the field name is printed directly after `static` on a path that neither writes a space nor knows the name to be computed, a string or private: a numeric name joins the keyword (`static 1=2` → `static1=2`): "+pathStr(c, g, p))
	}
	c.R.Floor(rule, "writes of `static` in front of a field name", n, 1)
}

// exprBytesText resolves an expression to the text of a package-level []byte("…") variable.
func (c *Ctx) exprBytesText(pk *packages.Package, e ast.Expr) (string, bool) {
	id, ok := ast.Unparen(e).(*ast.Ident)
	if !ok {
		return "", false
	}
	v, ok := pk.TypesInfo.Uses[id].(*types.Var)
	if !ok || v.Parent() != pk.Types.Scope() {
		return "", false
	}
	return c.byteVarText(pk, v)
}
