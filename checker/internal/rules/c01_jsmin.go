package rules

import (
	"fmt"
	"go/ast"
	"go/token"
	"go/types"
	"sort"
	"strings"

	"golang.org/x/tools/go/packages"

	"verif/checker/internal/eval"
	"verif/checker/internal/flow"
	"verif/checker/internal/load"
	"verif/checker/internal/ref"
)

const (
	pjs     = load.ParseMod + "/js"
	jsMinT  = load.Mod + "/js.jsMinifier"
	jsRenT  = load.Mod + "/js.renamer"
	jsWrite = load.Mod + "/js.(jsMinifier).write"
)

func init() {
	mutant(&Mutant{Name: "c01-builtin-rewritten-with-spread-arguments", Property: "C01", File: "js/js.go",
		Old: "} else if dot, ok := expr.X.(*js.DotExpr); ok && !spread && !dot.Optional {", New: "} else if dot, ok := expr.X.(*js.DotExpr); ok && !dot.Optional {",
		Rule: "R01.44", Construct: "only for calls without spread arguments"})
	mutant(&Mutant{Name: "c01-octal-escape-extended-by-merge", Property: "C01", File: "js/util.go",
		Old: "if lit, ok := left.X.(*js.LiteralExpr); ok && lit.TokenType == js.StringToken && !endsInOctalEscape(lit.Data, strings[len(strings)-1].Data) {", New: "if lit, ok := left.X.(*js.LiteralExpr); ok && lit.TokenType == js.StringToken {",
		Rule: "R01.41", Construct: "joins the list only if it does not end in an open octal escape"})
	mutant(&Mutant{Name: "c01-call-unparenthesised-in-new-callee", Property: "C01", File: "js/js.go",
		Old: "if js.OpNew <= prec || isOptionalGroup(expr.X) {", New: "if js.OpMember <= prec || isOptionalGroup(expr.X) {",
		Rule: "R01.40", Construct: "case *js.DotExpr/object level inside the callee of new"})
	mutant(&Mutant{Name: "c01-conditional-branch-unwrapped-at-assignment-level", Property: "C01", File: "js/util.go",
		Old: "(exprPrec(expr.X) < js.OpAssign || binaryRightPrecMap[js.AndToken] <= exprPrec(expr.X)) {", New: "(exprPrec(expr.X) <= js.OpAssign || binaryRightPrecMap[js.AndToken] <= exprPrec(expr.X)) {",
		Rule: "R01.38", Construct: "expr.X goes unwrapped into js.AndToken"})
	mutant(&Mutant{Name: "c01-space-decided-by-ascii-test", Property: "C01", File: "js/js.go",
		Old: "if m.needsSpace && js.IsIdentifierContinue(b) || m.spaceBefore == b[0] {", New: "if m.needsSpace && ('a' <= b[0] && b[0] <= 'z' || js.IsIdentifierStart(b)) || m.spaceBefore == b[0] {",
		Rule: "R01.39", Construct: "is decided by js.IsIdentifierContinue"})
	mutant(&Mutant{Name: "c01-block-unwrapped-around-function", Property: "C01", File: "js/stmtlist.go",
		Old: "} else if _, ok := blockStmt.List[0].(*js.FuncDecl); ok {", New: "} else if _, ok := blockStmt.List[0].(*js.FuncDecl); ok && false {",
		Rule: "R01.35", Construct: "is not a function declaration"})
	mutant(&Mutant{Name: "c01-export-default-leading-function", Property: "C01", File: "js/js.go",
		Old: "if !isHoistable && !isClass && startsWithFuncOrClass(stmt.Decl) {", New: "if !isHoistable && !isClass && len(m.prev) == 0 {",
		Rule: "R01.37", Construct: "is tested for a leading function or class"})
	mutant(&Mutant{Name: "c01-string-key-becomes-any-number", Property: "C01", File: "js/js.go",
		Old: "isNum && isCanonicalNumber(lit.Data[1:len(lit.Data)-1]) {", New: "isNum {",
		Rule: "R01.30", Construct: "only for canonical numeric strings"})
	mutant(&Mutant{Name: "c01-string-key-after-integer-gets-one-dot", Property: "C01", File: "js/js.go",
		Old: "\t\t\t\t\tif m.prevIsInteger() {\n\t\t\t\t\t\t// prevent previous integer\n\t\t\t\t\t\tm.write(dotBytes)\n\t\t\t\t\t}\n", New: "",
		Rule: "R01.29", Construct: "string key written as a name#1 behind the trailing-digit test"})
	mutant(&Mutant{Name: "c01-optional-calls-merged", Property: "C01", File: "js/util.go",
		Old: "isCallX && isCallY && !callX.Optional && !callY.Optional && ", New: "isCallX && isCallY && !callX.Optional && ",
		Rule: "R01.31", Construct: "only for plain calls"})
	mutant(&Mutant{Name: "c01-proto-shorthand", Property: "C01", File: "js/js.go",
		Old: " || bytes.Equal(v.Name(), protoBytes)) {", New: ") {",
		Rule: "R01.32", Construct: "shorthand excludes __proto__"})
	mutant(&Mutant{Name: "c01-underflowing-literal-truthy", Property: "C01", File: "js/util.go",
		Old: "\t\t\t\t\tif !hasPrefix && (bytes.Contains(d, []byte(\"e-\")) || bytes.Contains(d, []byte(\"E-\"))) {\n\t\t\t\t\t\treturn false, false // may underflow to zero\n\t\t\t\t\t}\n", New: "",
		Rule: "R01.33", Construct: "only without a negative exponent"})
	mutant(&Mutant{Name: "c01-static-numeric-field-joined", Property: "C01", File: "js/js.go",
		Old: "item.Name.Literal.TokenType != js.StringToken && item.Name.Literal.TokenType != js.PrivateIdentifierToken {", New: "item.Name.Literal.TokenType == js.IdentifierToken {",
		Rule: "R01.34", Construct: "name is separated from the keyword"})
	register(&Property{
		ID:    "C01",
		Level: "other",
		Explain: "Program equivalence is not decidable statically; the check decides structural necessary conditions of it on the JS minifier's source (R01.1-R01.12; R01.8-R01.12 were added after independently seeded changes were missed or defects were reported, see DESIGN.md §9): " +
			"(R01.1) every printer/collector type switch over the parser's IStmt/IExpr/IBinding interfaces has a case for every implementing node type, and endsInIf covers every statement kind that ends in a nested statement; " +
			"(R01.2) the five operator precedence tables agree with the grammar levels extracted from the parser's own source and with ECMA-262; " +
			"(R01.3) every save of a printer context flag (inFor, groupedStmt, renamer.rename) is restored on all paths; " +
			"(R01.4) hasSideEffects recurses into every evaluated operand slot of each node type or answers true; " +
			"(R01.5) a variable is only treated as the global undefined/NaN/Infinity/Math/Number/isNaN when its Decl is NoDecl; " +
			"(R01.6) length tests on string literal data are consistent with the lexer invariant that the data includes both quotes; " +
			"(R01.7) the regular-expression escape tables keep the backslash of every escape that is significant in the ES2022 Pattern grammar. " +
			"(R01.8) every AST slot is printed at least at its grammar level; (R01.9) BigInt literals keep their suffix and bypass minify.Number; (R01.10) string merging only reads operands of additions; (R01.11) function bodies are printed with inFor isolated; (R01.12) parameters with effectful defaults are not dropped. " +
			"Not covered: the meaning preservation of each algebraic rewrite, ASI, literal rewriting.",
		Run: runC01,
	})
}

func runC01(c *Ctx) {
	pk := c.pkg("R01", "js")
	if pk == nil {
		return
	}
	c.r011(pk)
	c.r012(pk)
	c.r013(pk, "R01.3", nil)
	c.r014(pk)
	c.r015(pk)
	c.r016(pk)
	c.r017(pk)
	c.r018(pk)
	c.r019(pk, "R01.9")
	c.r0110(pk)
	c.r0111(pk)
	c.r0112(pk)
	c.r0113(pk)
	c.r0114(pk)
	c.r0115(pk)
	c.r0116(pk)
	c.r0117(pk)
	c.r0118(pk)
	c.r0119(pk)
	c.r0120(pk)
	c.r0121(pk)
	c.r0122(pk)
	c.r0124(pk)
	c.r0125(pk)
	c.r0126(pk)
	c.r0127(pk)
	c.r0128(pk)
	// a hoisted `var` whose name collides with a lexical binding of an intermediate block is an early error: the
	// script no longer loads (same rule as R02.5)
	c.alsoUnder(map[string]string{"R02.5": "R01.23"}, nil, func() { c.r025(pk) })
	c.alsoUnder(map[string]string{"R09.4": "R01.29"}, nil, func() { c.r094(pk) })
	c.r0130(pk)
	c.r0131(pk)
	c.r0132(pk)
	c.r0133(pk)
	c.alsoUnder(map[string]string{"R09.21": "R01.34"}, nil, func() { c.r0921(pk) })
	c.r0135(pk)
	c.r0138(pk)
	c.r0139(pk)
	c.r0140(pk)
	c.r0141(pk)
	c.r0144(pk)
	c.r0145(pk)
	c.r0146(pk)
	c.r0147(pk)
	c.r0148(pk, "R01.48")
	c.r0149(pk)
	c.r0150(pk)
	c.r0151(pk, "R01.51")
	c.alsoUnder(map[string]string{"R13.1": "R01.52"}, func(construct string) bool { return strings.Contains(construct, "js.") || strings.HasPrefix(construct, "floor/") }, func() { c.r131() })
	c.r0153(pk)
	c.r0154(pk)
	c.r0155(pk)
	c.r0156(pk)
	c.r0157(pk)
	c.alsoUnder(map[string]string{"R09.22": "R01.36", "R09.23": "R01.37", "R09.24": "R01.42", "R09.25": "R01.43"}, nil, func() { c.r0922(pk); c.r0923(pk); c.r0924(pk); c.r0925(pk) })
}

// R01.13: traversals of binding patterns reach every nested binding.
func (c *Ctx) r0113(pk *packages.Package) {
	const rule = "R01.13"
	c.R.Rule(rule, "every type switch of package js over js.IBinding (the collector bindingVars, the printer minifyBinding) forwards, in each clause of a pattern type, every nested binding slot of that type — fields of type js.IBinding reached through value structs and slices (BindingArray.List[].Binding, BindingArray.Rest, BindingObject.List[].Value.Binding) — to a recursive call (directly, or through a helper that receives the enclosing element and forwards its .Binding), and uses every *js.Var slot (BindingObject.Rest). A slot that is only type-asserted to one implementation hides the names bound by a nested pattern: `var [b,...[c,d]]=x` then loses the declarations of c and d when declarations are merged")
	info := pk.TypesInfo
	ibind := c.P.Dep(pjs).Types.Scope().Lookup("IBinding")
	if ibind == nil {
		c.R.Unres(rule, "parse/js.IBinding", "-", "interface not found")
		return
	}
	n := 0
	for _, ts := range c.jsTypeSwitches(pk) {
		if ts.iface != "IBinding" {
			continue
		}
		self := info.Defs[ts.fd.Name]
		for _, tname := range sortedKeys(keysOfCC(ts.cases)) {
			if tname == "Var" {
				continue // a name, not a pattern (its Link field chains renamed declarations)
			}
			cc := ts.cases[tname]
			tn := c.P.Dep(pjs).Types.Scope().Lookup(tname)
			var slots []string
			c.evaluatedSlots(tn.Type(), ibind.Type(), "", 0, &slots)
			// *js.Var fields are binding names too
			if st, ok := tn.Type().Underlying().(*types.Struct); ok {
				for i := 0; i < st.NumFields(); i++ {
					if isNamed(st.Field(i).Type(), pjs, "Var") {
						if _, isPtr := st.Field(i).Type().(*types.Pointer); isPtr {
							slots = append(slots, st.Field(i).Name()+"*")
						}
					}
				}
			}
			if len(slots) == 0 {
				continue
			}
			n++
			construct := fmt.Sprintf("js.%s/case *js.%s", load.FuncName(ts.fd), tname)
			covered := map[string]bool{}
			if len(cc.List) == 1 {
				covered = c.forwardedSlots(pk, cc, info.Implicits[cc], self, 0)
			}
			var missing []string
			for _, sl := range slots {
				if !covered[sl] {
					missing = append(missing, sl)
				}
			}
			c.R.Check(len(missing) == 0, rule, construct, c.pos(cc), "forwards "+strings.Join(slots, ", "),
				fmt.Sprintf("binding slot(s) %s of *js.%s never reach the recursive traversal as a whole (type-asserting a slot to one implementation does not count): names bound by a nested pattern in that position are invisible to %s", strings.Join(missing, ", "), tname, load.FuncName(ts.fd)))
		}
	}
	c.R.Floor(rule, "pattern clauses of IBinding traversals", n, 4)
}

// forwardedSlots: slot paths (relative to root) passed as an argument to target inside body — directly,
// or by handing an enclosing struct to a package function that forwards a field of it (one level).
// `F*` marks a *js.Var field F that is used as a call argument (F or F.Data).
func (c *Ctx) forwardedSlots(pk *packages.Package, body ast.Node, root types.Object, target types.Object, depth int) map[string]bool {
	info := pk.TypesInfo
	alias := map[types.Object]string{}
	if root != nil {
		alias[root] = ""
	}
	ast.Inspect(body, func(x ast.Node) bool {
		if rs, ok := x.(*ast.RangeStmt); ok {
			if p, ok := c.slotPath(info, rs.X, alias); ok {
				if id, ok := rs.Value.(*ast.Ident); ok {
					alias[info.Defs[id]] = p + "[]"
				}
			}
		}
		return true
	})
	out := map[string]bool{}
	join := func(p, q string) string {
		if p == "" {
			return q
		}
		if q == "" {
			return p
		}
		return p + "." + q
	}
	ast.Inspect(body, func(x ast.Node) bool {
		call, ok := x.(*ast.CallExpr)
		if !ok {
			return true
		}
		co := callee(info, call)
		for i, a := range call.Args {
			p, ok := c.slotPath(info, a, alias)
			if !ok {
				continue
			}
			out[p+"*"] = true // used as an argument (Var slots); also X.Data below
			if co == target {
				out[p] = true
				continue
			}
			fo, _ := co.(*types.Func)
			if fo == nil || fo.Pkg() != pk.Types || depth > 0 {
				continue
			}
			fd := c.P.DeclOf(fo)
			if fd == nil || fd.Body == nil {
				continue
			}
			var params []types.Object
			for _, f := range fd.Type.Params.List {
				for _, nm := range f.Names {
					params = append(params, info.Defs[nm])
				}
			}
			if i >= len(params) {
				continue
			}
			for q := range c.forwardedSlots(pk, fd.Body, params[i], target, depth+1) {
				if !strings.HasSuffix(q, "*") {
					out[join(p, q)] = true
				}
			}
		}
		return true
	})
	// X.Data used as an argument counts as a use of the *js.Var slot X
	ast.Inspect(body, func(x ast.Node) bool {
		call, ok := x.(*ast.CallExpr)
		if !ok {
			return true
		}
		for _, a := range call.Args {
			if sel, ok := ast.Unparen(a).(*ast.SelectorExpr); ok && sel.Sel.Name == "Data" {
				if p, ok := c.slotPath(info, sel.X, alias); ok {
					out[p+"*"] = true
				}
			}
		}
		return true
	})
	return out
}

// R01.10: the string-merge only reads operands of nodes it has checked to be additions.
func (c *Ctx) r0110(pk *packages.Package) {
	const rule = "R01.10"
	c.R.Rule(rule, "in mergeBinaryExpr (which fuses adjacent string operands of a chain of `+`), every read of an operand V.X / V.Y of a *js.BinaryExpr variable V as a string literal (type assertion to *js.LiteralExpr) is dominated by the true outcome of V.Op == js.AddToken for that same V (loop conditions count): the belief `this node is an addition` is stated for expr and left and must hold for every node whose operands are merged — otherwise `a-\"1\"+\"2\"` becomes `a+\"12\"`")
	info := pk.TypesInfo
	fd := c.fn(rule, pk, "mergeBinaryExpr")
	if fd == nil {
		return
	}
	g := c.graph(pk, fd)
	n := 0
	for _, y := range g.Nodes {
		a := y.Ast()
		if a == nil || y.Kind == flow.KRange || y.Kind == flow.KSelect {
			continue
		}
		ast.Inspect(a, func(x ast.Node) bool {
			ta, ok := x.(*ast.TypeAssertExpr)
			if !ok || ta.Type == nil || namedTypeName(info.TypeOf(ta.Type)) != pjs+".LiteralExpr" {
				return true
			}
			sel, ok := ast.Unparen(ta.X).(*ast.SelectorExpr)
			if !ok || (sel.Sel.Name != "X" && sel.Sel.Name != "Y") || namedTypeName(info.TypeOf(sel.X)) != pjs+".BinaryExpr" {
				return true
			}
			n++
			v := str(sel.X)
			guarded := false
			for _, f := range g.DomFacts(y) {
				if f.Value && f.Test.Kind == flow.KCond && nospace(str(f.Test.Expr)) == v+".Op==js.AddToken" {
					guarded = true
				}
			}
			c.R.Check(guarded, rule, fmt.Sprintf("js.mergeBinaryExpr/%s read as string operand#%d", str(ta.X), n), c.pos(ta), "dominated by "+v+".Op == js.AddToken",
				"the operand of "+v+" is merged into the string although "+v+".Op was never checked to be `+`: a subtraction (or any other operator) in the chain is silently replaced by concatenation")
			return true
		})
	}
	c.R.Floor(rule, "string operand reads", n, 3)
}

// R01.11: function bodies are printed with the for-init flag isolated.
func (c *Ctx) r0111(pk *packages.Package) {
	const rule = "R01.11"
	c.R.Rule(rule, "a `for` statement printed inside a nested function body ends with m.inFor = false; every printing of a function body block (minifyBlockStmt(&decl.Body) in minifyFuncDecl / minifyMethodDecl / minifyArrowFunc) must therefore run with m.inFor saved, cleared and restored — either around that call inside the function, or in every expression-printer case that calls the function (cases of minifyExpr; the MethodDecl case is reached only through the ObjectExpr and ClassDecl cases, which must save it; calls from the statement printer and from minifyClassDecl are outside any for-init). Otherwise the remainder of an enclosing for-init prints `in` without its parentheses: `for(var a=()=>{for(;;);},b=(c in d);;)`")
	info := pk.TypesInfo
	ex := c.fn(rule, pk, "jsMinifier.minifyExpr")
	if ex == nil {
		return
	}
	eg := c.graph(pk, ex)
	caseSaves := func(label string) bool {
		for _, y := range eg.Nodes {
			a := y.Ast()
			if a == nil || y.Kind != flow.KStmt || c.caseLabel(a) != label {
				continue
			}
			if as, ok := y.Stmt.(*ast.AssignStmt); ok && as.Tok == token.DEFINE {
				for _, r := range as.Rhs {
					if isField(info, r, jsMinT, "inFor") {
						return true
					}
				}
			}
		}
		return false
	}
	for _, fname := range []string{"jsMinifier.minifyFuncDecl", "jsMinifier.minifyMethodDecl", "jsMinifier.minifyArrowFunc"} {
		fd := c.fn(rule, pk, fname)
		if fd == nil {
			continue
		}
		g := c.graph(pk, fd)
		construct := "js." + fname + "/function body printed with inFor isolated"
		var body *flow.Node
		for _, y := range g.Nodes {
			if a := y.Ast(); a != nil && y.Kind == flow.KStmt {
				for _, call := range findCalls(info, a, false, jsBlockStmt) {
					if strings.HasSuffix(selPath(call.Args[0]), ".Body") {
						body = y
					}
				}
			}
		}
		if body == nil {
			c.R.Unres(rule, construct, c.pos(fd), "minifyBlockStmt(&decl.Body) not found")
			continue
		}
		// (a) cleared inside the function on every path to the body
		cleared := func(y *flow.Node) bool {
			rhs, ok := assignsTo(y, func(l ast.Expr) bool { return isField(info, l, jsMinT, "inFor") })
			return ok && str(rhs) == "false"
		}
		if g.MustPassBefore(body, cleared, flow.Search{}) == nil {
			c.R.OK(rule, construct, c.pos(body.Ast()), "m.inFor cleared before the body inside the function (restore: R01.3)")
			continue
		}
		// (b) every call site isolates
		obj := info.Defs[fd.Name]
		var bad []string
		sites := 0
		for _, caller := range load.FuncDecls(pk) {
			ast.Inspect(caller.Body, func(x ast.Node) bool {
				call, ok := x.(*ast.CallExpr)
				if !ok || callee(info, call) != obj {
					return true
				}
				sites++
				cn := load.FuncName(caller)
				switch cn {
				case "jsMinifier.minifyStmt", "jsMinifier.minifyClassDecl":
					return true // statement context / class members: not inside a for-init expression
				case "jsMinifier.minifyExpr":
					label := c.caseLabel(call)
					if label == "case *js.MethodDecl" {
						if !caseSaves("case *js.ObjectExpr") || !caseSaves("case *js.ClassDecl") {
							bad = append(bad, "methods are printed from the ObjectExpr / ClassDecl cases, which do not both save m.inFor")
						}
						return true
					}
					if !caseSaves(label) {
						bad = append(bad, "the "+label+" of minifyExpr calls it without saving m.inFor")
					}
				default:
					bad = append(bad, "called from "+cn+" without isolation")
				}
				return true
			})
		}
		c.R.Check(len(bad) == 0 && sites > 0, rule, construct, c.pos(body.Ast()), fmt.Sprintf("all %d call sites isolate m.inFor", sites), strings.Join(bad, "; "))
	}
}

// R01.12: a parameter with an effectful default is not dropped.
func (c *Ctx) r0112(pk *packages.Package) {
	const rule = "R01.12"
	c.R.Rule(rule, "in jsMinifier.minifyParams the loop that drops unused trailing parameters continues to the next parameter only through an outcome showing that the parameter's Default is nil or has no side effects (a test on <param>.Default): dropping `b=g()` from `function f(a,b=g()){}` deletes the call g() made whenever f is called with one argument")
	info := pk.TypesInfo
	fd := c.fn(rule, pk, "jsMinifier.minifyParams")
	if fd == nil {
		return
	}
	g := c.graph(pk, fd)
	// the decrement j-- of the removal loop
	var dec *flow.Node
	for _, y := range g.Nodes {
		if s, ok := y.Stmt.(*ast.IncDecStmt); ok && y.Kind == flow.KStmt && s.Tok == token.DEC {
			dec = y
		}
	}
	construct := "js.jsMinifier.minifyParams/unused parameter removal respects defaults"
	if dec == nil {
		c.R.Unres(rule, construct, c.pos(fd), "removal loop (decrement) not found")
		return
	}
	defaultOK := func(y *flow.Node) bool {
		if (y.Kind != flow.KTrue && y.Kind != flow.KFalse) || y.Of.Kind != flow.KCond {
			return false
		}
		e := ast.Unparen(y.Of.Expr)
		if b, ok := e.(*ast.BinaryExpr); ok && isNilExpr(b.Y) {
			if _, f := fieldOf(info, b.X); f == "Default" {
				return (b.Op == token.EQL) == (y.Kind == flow.KTrue)
			}
		}
		if call := isCall(info, e, load.Mod+"/js.hasSideEffects"); call != nil && y.Kind == flow.KFalse {
			if _, f := fieldOf(info, call.Args[0]); f == "Default" {
				return true
			}
		}
		return false
	}
	p := g.MustPassBefore(dec, defaultOK, flow.Search{})
	c.R.Check(p == nil, rule, construct, c.pos(dec.Stmt), "continues only for parameters without an effectful default", "an unused trailing parameter is dropped without looking at its default value expression: "+pathStr(c, g, p))
}

// R01.9 / R09.3: BigInt literals keep their suffix and never go through minify.Number.
func (c *Ctx) r019(pk *packages.Package, rule string) {
	c.R.Rule(rule, "in every JS number printer that splits off the BigInt suffix (a call of removeUnderscoresAndSuffix binding a boolean): under the stipulation that the boolean is true, minify.Number — which may switch to exponent notation or drop digits, both invalid/meaning-changing for a BigInt — is unreachable, and every return yields append(…, 'n'), i.e. the literal stays a BigInt")
	info := pk.TypesInfo
	n := 0
	for _, fd := range load.FuncDecls(pk) {
		g := c.graph(pk, fd)
		var split *flow.Node
		flag := ""
		for _, y := range g.Nodes {
			if y.Kind != flow.KStmt || y.Ast() == nil {
				continue
			}
			if as, ok := y.Stmt.(*ast.AssignStmt); ok && len(as.Lhs) == 2 && len(as.Rhs) == 1 && isCall(info, as.Rhs[0], load.Mod+"/js.removeUnderscoresAndSuffix") != nil {
				split, flag = y, str(as.Lhs[1])
			}
		}
		if split == nil {
			continue
		}
		n++
		fname := load.FuncName(fd)
		c.R.Func("js." + fname)
		assume := map[string]bool{flag: true}
		var bad []string
		for _, y := range g.Nodes {
			a := y.Ast()
			if a == nil || y.Kind == flow.KRange || y.Kind == flow.KSelect {
				continue
			}
			if len(findCalls(info, a, false, load.Mod+".Number")) > 0 {
				if p := g.Path(flow.Search{From: []*flow.Node{split}, Goal: func(z *flow.Node) bool { return z == y }, Assume: assume}); p != nil {
					bad = append(bad, "minify.Number at "+c.pos(a)+" is reachable for a BigInt literal (its digits may be rewritten to exponent form, `0x3e8n` → `1e3n`, which is not a BigInt literal)")
				}
			}
			if r := retStmt(y); r != nil && len(r.Results) == 1 {
				okRet := false
				if call, isC := ast.Unparen(r.Results[0]).(*ast.CallExpr); isC && str(call.Fun) == "append" && len(call.Args) == 2 && str(call.Args[1]) == "'n'" {
					okRet = true
				}
				if !okRet {
					if p := g.Path(flow.Search{From: []*flow.Node{split}, Goal: func(z *flow.Node) bool { return z == y }, Assume: assume}); p != nil {
						bad = append(bad, "the return at "+c.pos(r)+" yields "+str(r.Results[0])+" without the `n` suffix although the literal is a BigInt: the BigInt silently becomes a Number (type and, beyond 2^53, value change)")
					}
				}
			}
		}
		c.R.Check(len(bad) == 0, rule, "js."+fname+"/BigInt suffix preserved", c.pos(split.Stmt), "BigInt literals bypass minify.Number and keep `n` on every return", strings.Join(bad, "; "))
	}
	c.R.Floor(rule, "number printers splitting the BigInt suffix", n, 4)
}

// R01.8: every AST slot is printed at (least at) the grammar level of that slot.
func (c *Ctx) r018(pk *packages.Package) {
	const rule = "R01.8"
	c.R.Rule(rule, "every call m.minifyExpr(E, P) in package js whose argument E is a field of a parse/v2/js AST node (stmt.Value, item.Value, expr.Cond, a range variable over CommaExpr.List, …) and whose P is a constant js.OpPrec passes P ≥ the grammar level ECMA-262 has in that slot (frozen table ref.JSSlotMinPrec: Expression, AssignmentExpression, ShortCircuitExpression, LeftHandSideExpression, …). A lower level makes the printer drop parentheses the slot needs (`[(a,b)]` → `[a,b]`, `f((a,b))` → `f(a,b)`). Calls whose level is computed (operator tables, the caller's prec) are covered by R01.2")
	info := pk.TypesInfo
	op := c.opPrec()
	n := 0
	for _, fd := range load.FuncDecls(pk) {
		fname := load.FuncName(fd)
		// range variables over X.List of IExpr
		rangeSlot := map[types.Object]string{}
		ast.Inspect(fd.Body, func(x ast.Node) bool {
			if rs, ok := x.(*ast.RangeStmt); ok && rs.Value != nil {
				if id, ok := rs.Value.(*ast.Ident); ok {
					if t, f := fieldOf(info, rs.X); t != "" && strings.HasPrefix(t, pjs+".") {
						if sl, ok := info.TypeOf(rs.X).Underlying().(*types.Slice); ok && namedTypeName(sl.Elem()) == pjs+".IExpr" {
							rangeSlot[info.Defs[id]] = strings.TrimPrefix(t, pjs+".") + "." + f
						}
					}
				}
			}
			return true
		})
		for _, call := range findCalls(info, fd.Body, true, load.Mod+"/js.(jsMinifier).minifyExpr") {
			if len(call.Args) != 2 {
				continue
			}
			slot := ""
			if t, f := fieldOf(info, call.Args[0]); t != "" && strings.HasPrefix(t, pjs+".") {
				slot = strings.TrimPrefix(t, pjs+".") + "." + f
			} else if id, ok := ast.Unparen(call.Args[0]).(*ast.Ident); ok {
				slot = rangeSlot[info.Uses[id]]
			}
			if slot == "" {
				continue
			}
			p, isConst := intConst(info, call.Args[1])
			if !isConst {
				continue // computed level: operator tables (R01.2) or the caller's context
			}
			n++
			c.R.Func("js." + fname)
			construct := fmt.Sprintf("js.%s/%s/minifyExpr(%s) level", fname, c.caseLabel(call), slot)
			want, known := ref.JSSlotMinPrec[slot]
			if !known {
				c.R.Unres(rule, construct, c.pos(call), "AST slot "+slot+" is not in the frozen grammar table (ref.JSSlotMinPrec): a new node type needs its grammar level recorded")
				continue
			}
			c.R.Check(p >= op[want], rule, construct, c.pos(call), fmt.Sprintf("printed at %s ≥ %s", str(call.Args[1]), want),
				fmt.Sprintf("%s is printed at level %s, but the grammar has %s in that position: an operand of lower precedence (e.g. a comma or assignment expression) loses the parentheses it needs and the program changes meaning", slot, str(call.Args[1]), want))
		}
	}
	c.R.Floor(rule, "constant-level printer call sites", n, 35)
}

// ---------------------------------------------------------------------------
// shared: the parser's AST interfaces and their implementers

func (c *Ctx) jsIface(name string) *types.Interface {
	dep := c.P.Dep(pjs)
	if dep == nil {
		return nil
	}
	o := dep.Types.Scope().Lookup(name)
	if o == nil {
		return nil
	}
	i, _ := o.Type().Underlying().(*types.Interface)
	return i
}

// implementers returns the names of struct types T of parse/v2/js for which *T implements the interface.
func (c *Ctx) implementers(iface *types.Interface) []string {
	dep := c.P.Dep(pjs)
	var out []string
	for _, name := range dep.Types.Scope().Names() {
		tn, ok := dep.Types.Scope().Lookup(name).(*types.TypeName)
		if !ok || tn.IsAlias() {
			continue
		}
		if _, isStruct := tn.Type().Underlying().(*types.Struct); !isStruct {
			continue
		}
		if types.Implements(types.NewPointer(tn.Type()), iface) {
			out = append(out, name)
		}
	}
	sort.Strings(out)
	return out
}

type typeSwitchInfo struct {
	fd      *ast.FuncDecl
	sw      *ast.TypeSwitchStmt
	iface   string // IStmt | IExpr | IBinding
	cases   map[string]*ast.CaseClause
	deflt   *ast.CaseClause
	writes  bool
	results *types.Tuple
}

// jsTypeSwitches finds every type switch in package js whose tag has one of the parser's AST interface types.
func (c *Ctx) jsTypeSwitches(pk *packages.Package) []*typeSwitchInfo {
	var out []*typeSwitchInfo
	for _, fd := range load.FuncDecls(pk) {
		ast.Inspect(fd.Body, func(n ast.Node) bool {
			sw, ok := n.(*ast.TypeSwitchStmt)
			if !ok {
				return true
			}
			var x ast.Expr
			switch a := sw.Assign.(type) {
			case *ast.AssignStmt:
				x = a.Rhs[0].(*ast.TypeAssertExpr).X
			case *ast.ExprStmt:
				x = a.X.(*ast.TypeAssertExpr).X
			}
			tn := namedTypeName(pk.TypesInfo.TypeOf(x))
			var iface string
			for _, i := range []string{"IStmt", "IExpr", "IBinding"} {
				if tn == pjs+"."+i {
					iface = i
				}
			}
			if iface == "" {
				return true
			}
			ts := &typeSwitchInfo{fd: fd, sw: sw, iface: iface, cases: map[string]*ast.CaseClause{}}
			if o, ok := pk.TypesInfo.Defs[fd.Name].(*types.Func); ok {
				ts.results = o.Type().(*types.Signature).Results()
			}
			for _, cl := range sw.Body.List {
				cc := cl.(*ast.CaseClause)
				if cc.List == nil {
					ts.deflt = cc
					continue
				}
				for _, te := range cc.List {
					t := pk.TypesInfo.TypeOf(te)
					if p, ok := t.(*types.Pointer); ok {
						if nt, ok := p.Elem().(*types.Named); ok && nt.Obj().Pkg() != nil && nt.Obj().Pkg().Path() == pjs {
							ts.cases[nt.Obj().Name()] = cc
						}
					}
				}
			}
			ts.writes = len(findCalls(pk.TypesInfo, sw.Body, false, jsWrite)) > 0
			out = append(out, ts)
			return true
		})
	}
	return out
}

// R01.1
func (c *Ctx) r011(pk *packages.Package) {
	const rule = "R01.1"
	c.R.Rule(rule, "every type switch of package js over js.IStmt / js.IExpr / js.IBinding that prints (calls jsMinifier.write in its cases) or collects (returns a slice) has a case for every struct type of parse/v2/js whose pointer implements the interface (exception: js.AST, never a statement); conservative predicates must keep their conservative default (hasSideEffects: true, exprPrec: js.OpExpr); endsInIf must have a recursing case for every statement kind that ends in a nested statement")
	exceptions := map[string]string{"AST": "implements IStmt only by embedding BlockStmt; the parser never produces it as a statement"}
	impl := map[string][]string{}
	for _, i := range []string{"IStmt", "IExpr", "IBinding"} {
		iface := c.jsIface(i)
		if iface == nil {
			c.R.Unres(rule, "parse/js."+i, "-", "interface not found in the loaded dependency")
			return
		}
		impl[i] = c.implementers(iface)
	}
	c.R.Note("implementers: IStmt=%d IExpr=%d IBinding=%d", len(impl["IStmt"]), len(impl["IExpr"]), len(impl["IBinding"]))
	printers := 0
	for _, ts := range c.jsTypeSwitches(pk) {
		fname := load.FuncName(ts.fd)
		c.R.Func("js." + fname)
		isCollector := ts.results != nil && ts.results.Len() == 1 && isSlice(ts.results.At(0).Type())
		if ts.writes || (isCollector && ts.deflt == nil) {
			printers++
			for _, t := range impl[ts.iface] {
				construct := fmt.Sprintf("js.%s/switch %s/case *js.%s", fname, ts.iface, t)
				if why, ok := exceptions[t]; ok {
					c.R.Exists(rule, construct, c.pos(ts.sw), "exception: "+why)
					continue
				}
				if cc, ok := ts.cases[t]; ok {
					c.R.OK(rule, construct, c.pos(cc), "case present")
				} else {
					c.R.Bad(rule, construct, c.pos(ts.sw), fmt.Sprintf("no case for *js.%s: a %s node reaching %s is silently dropped", t, t, fname))
				}
			}
			continue
		}
		// predicates with a frozen conservative default
		switch fname {
		case "hasSideEffects":
			c.checkFinalReturn(rule, pk, ts, func(e ast.Expr) bool { return str(e) == "true" }, "true (assume an effect)")
		case "exprPrec":
			c.checkFinalReturn(rule, pk, ts, func(e ast.Expr) bool { return usesObj(pk.TypesInfo, e, pjs+".OpExpr") }, "js.OpExpr (lowest precedence: always parenthesise)")
		case "endsInIf":
			c.checkEndsInIf(rule, pk, ts)
		default:
			c.R.Exists(rule, "js."+fname+"/switch "+ts.iface, c.pos(ts.sw), "predicate type switch, not subject to exhaustiveness")
		}
	}
	c.R.Floor(rule, "printer/collector type switches", printers, 4)
}

func isSlice(t types.Type) bool { _, ok := t.Underlying().(*types.Slice); return ok }

// checkFinalReturn: the statement after the switch (the value for unlisted node types) returns the conservative constant.
func (c *Ctx) checkFinalReturn(rule string, pk *packages.Package, ts *typeSwitchInfo, ok func(ast.Expr) bool, want string) {
	construct := "js." + load.FuncName(ts.fd) + "/default"
	if ts.deflt != nil {
		// every return in the default clause
		good := true
		n := 0
		ast.Inspect(ts.deflt, func(x ast.Node) bool {
			if r, isRet := x.(*ast.ReturnStmt); isRet && len(r.Results) == 1 {
				n++
				if !ok(r.Results[0]) {
					good = false
				}
			}
			return true
		})
		c.R.Check(good && n > 0, rule, construct, c.pos(ts.deflt), "default clause returns "+want, "default clause does not return the conservative value "+want)
		return
	}
	list := ts.fd.Body.List
	last, isRet := list[len(list)-1].(*ast.ReturnStmt)
	c.R.Check(isRet && len(last.Results) == 1 && ok(last.Results[0]), rule, construct, c.pos(ts.fd.Body.List[len(list)-1]),
		"node types without a case yield "+want, "the value for node types without a case is not the conservative "+want)
}

func (c *Ctx) checkEndsInIf(rule string, pk *packages.Package, ts *typeSwitchInfo) {
	// statement kinds whose last constituent is a nested statement (ECMA-262 §14): field that holds it
	need := map[string]string{"IfStmt": "Else", "ForStmt": "Body", "ForInStmt": "Body", "ForOfStmt": "Body", "WhileStmt": "Body", "WithStmt": "Body", "LabelledStmt": "Value", "BlockStmt": "List"}
	for _, t := range sortedKeysS(need) {
		construct := "js.endsInIf/case *js." + t
		cc, ok := ts.cases[t]
		if !ok {
			c.R.Bad(rule, construct, c.pos(ts.sw), "a "+t+" ending in an else-less if is reported as not ending in if: `if(a){"+t+"… if(b)c}else d` loses its braces and the else re-attaches")
			continue
		}
		field := need[t]
		rec := false
		for _, call := range findCalls(pk.TypesInfo, cc, false, load.Mod+"/js.endsInIf") {
			if strings.Contains(str(call.Args[0]), "."+field) {
				rec = true
			}
		}
		c.R.Check(rec, rule, construct, c.pos(cc), "recurses into ."+field, "case does not recurse into the trailing statement ."+field)
	}
}

func sortedKeysS(m map[string]string) []string {
	k := map[string]bool{}
	for s := range m {
		k[s] = true
	}
	return sortedKeys(k)
}

// ---------------------------------------------------------------------------
// R01.2 precedence tables

type precMaps struct {
	left, right, op, unary, unaryOp map[string]int64
	pos                             map[string]ast.Node
}

func (c *Ctx) constMap(rule string, pk *packages.Package, name string) (map[string]int64, map[string]ast.Expr) {
	v, _, err := c.Ev.PackageVar(pk, name)
	if err != nil {
		c.R.Unres(rule, "js."+name, "-", err.Error())
		return nil, nil
	}
	m, ok := v.(*eval.Map)
	if !ok {
		c.R.Unres(rule, "js."+name, "-", "not a map literal")
		return nil, nil
	}
	out := map[string]int64{}
	pos := map[string]ast.Expr{}
	for _, e := range m.Entries {
		k := tokenName(e.KeyX)
		val, _ := e.Value.(int64)
		if _, dup := out[k]; dup {
			c.R.Bad(rule, "js."+name+"["+k+"]", c.pos(e.KeyX), "duplicate key")
		}
		out[k] = val
		pos[k] = e.KeyX
	}
	return out, pos
}

func tokenName(e ast.Expr) string {
	if s, ok := e.(*ast.SelectorExpr); ok {
		return s.Sel.Name
	}
	return str(e)
}

// opPrecConsts reads js.OpPrec constants from the dependency.
func (c *Ctx) opPrec() map[string]int64 {
	dep := c.P.Dep(pjs)
	out := map[string]int64{}
	t := dep.Types.Scope().Lookup("OpPrec")
	for _, n := range dep.Types.Scope().Names() {
		if k, ok := dep.Types.Scope().Lookup(n).(*types.Const); ok && t != nil && types.Identical(k.Type(), t.Type()) {
			v, _ := constInt(k)
			out[n] = v
		}
	}
	return out
}

func (c *Ctx) r012(pk *packages.Package) {
	const rule = "R01.2"
	c.R.Rule(rule, "the precedence tables binaryLeftPrecMap / binaryRightPrecMap / binaryOpPrecMap have the same key set ⊇ every token the parser builds a BinaryExpr with ∪ {CommaToken}; per operator: op level = grammar level, left threshold ≥ the minimum level of a left operand, right threshold ≥ the level the parser parses the right operand at (for the associative && and || ≥ own level suffices); unaryPrecMap / unaryOpPrecMap cover every unary operator token; the grammar levels are extracted from parse/v2/js.(*Parser).parseExpressionSuffix and must equal the frozen ECMA-262 table")
	op := c.opPrec()
	if len(op) < 15 {
		c.R.Unres(rule, "parse/js.OpPrec", "-", "precedence constants not found")
		return
	}
	// monotone order of levels as ECMA-262 requires
	order := []string{"OpExpr", "OpAssign", "OpCoalesce", "OpOr", "OpAnd", "OpBitOr", "OpBitXor", "OpBitAnd", "OpEquals", "OpCompare", "OpShift", "OpAdd", "OpMul", "OpExp", "OpUnary", "OpUpdate", "OpLHS", "OpCall", "OpNew", "OpMember", "OpPrimary"}
	for i := 1; i < len(order); i++ {
		if _, ok := op[order[i]]; !ok || op[order[i-1]] >= op[order[i]] {
			c.R.Unres(rule, "parse/js.OpPrec order", "-", "OpPrec constants are not ordered as the frozen ECMA-262 level list assumes ("+order[i-1]+" < "+order[i]+")")
			return
		}
	}
	parserTab := c.parserBinaryTable(rule)
	if parserTab == nil {
		return
	}
	// (a) == (b)
	for _, tok := range sortedKeys(keysOf(ref.JSBinaryOps)) {
		want := ref.JSBinaryOps[tok]
		got, ok := parserTab[tok]
		construct := "parse/js.parseExpressionSuffix/" + tok
		if !ok {
			c.R.Unres(rule, construct, "-", "the parser's expression switch has no BinaryExpr clause for this ECMA-262 operator; the reader side of the agreement could not be confirmed")
			continue
		}
		if op[want.Own] != got.own || op[want.MinLeft] != got.minLeft || op[want.Right] != got.right {
			c.R.Unres(rule, construct, "-", fmt.Sprintf("parser levels (own=%d minLeft=%d right=%d) differ from the frozen ECMA-262 entry (%s, %s, %s)", got.own, got.minLeft, got.right, want.Own, want.MinLeft, want.Right))
			continue
		}
		c.R.OK(rule, construct, "-", fmt.Sprintf("own=%s left≥%s right=%s", want.Own, want.MinLeft, want.Right))
	}
	for tok := range parserTab {
		if _, ok := ref.JSBinaryOps[tok]; !ok {
			c.R.Unres(rule, "parse/js.parseExpressionSuffix/"+tok, "-", "parser builds a BinaryExpr for a token that the frozen ECMA-262 table does not list")
		}
	}
	left, lpos := c.constMap(rule, pk, "binaryLeftPrecMap")
	right, _ := c.constMap(rule, pk, "binaryRightPrecMap")
	own, _ := c.constMap(rule, pk, "binaryOpPrecMap")
	if left == nil || right == nil || own == nil {
		return
	}
	all := map[string]bool{"CommaToken": true}
	for k := range parserTab {
		all[k] = true
	}
	for k := range left {
		all[k] = true
	}
	for k := range right {
		all[k] = true
	}
	for k := range own {
		all[k] = true
	}
	assoc := map[string]bool{"AndToken": true, "OrToken": true}
	n := 0
	for _, tok := range sortedKeys(all) {
		n++
		construct := "js.binaryPrecMaps[" + tok + "]"
		var pos string = "-"
		if p, ok := lpos[tok]; ok {
			pos = c.pos(p)
		}
		_, inL := left[tok]
		_, inR := right[tok]
		_, inO := own[tok]
		if !inL || !inR || !inO {
			c.R.Bad(rule, construct, pos, fmt.Sprintf("the parser builds BinaryExpr nodes with %s but the token is missing from the minifier's precedence maps (left:%v right:%v op:%v); a missing key reads as level 0, so operands lose required parentheses and hasSideEffects calls the operator pure", tok, inL, inR, inO))
			continue
		}
		var g parserOp
		if tok == "CommaToken" {
			g = parserOp{own: op["OpExpr"], minLeft: op["OpExpr"], right: op["OpAssign"]}
		} else if pg, ok := parserTab[tok]; ok {
			g = pg
		} else {
			c.R.Exists(rule, construct, pos, "extra key not produced by the parser")
			continue
		}
		var bad []string
		if own[tok] != g.own {
			bad = append(bad, fmt.Sprintf("binaryOpPrecMap=%d, grammar level %d", own[tok], g.own))
		}
		if left[tok] < g.minLeft {
			bad = append(bad, fmt.Sprintf("binaryLeftPrecMap=%d below the grammar's left operand level %d: a needed parenthesis around a left operand is dropped", left[tok], g.minLeft))
		}
		wantRight := g.right
		if assoc[tok] {
			wantRight = g.own
		}
		if right[tok] < wantRight {
			bad = append(bad, fmt.Sprintf("binaryRightPrecMap=%d below the grammar's right operand level %d: a-(b-c) style parentheses are dropped", right[tok], wantRight))
		}
		c.R.Check(len(bad) == 0, rule, construct, pos, fmt.Sprintf("own=%d left=%d right=%d", own[tok], left[tok], right[tok]), strings.Join(bad, "; "))
	}
	c.R.Floor(rule, "binary operator tokens", n, 40)

	// unary maps
	un, upos := c.constMap(rule, pk, "unaryPrecMap")
	unOp, _ := c.constMap(rule, pk, "unaryOpPrecMap")
	if un == nil || unOp == nil {
		return
	}
	for _, tok := range sortedKeys(keysOf(ref.JSUnaryOps)) {
		want := ref.JSUnaryOps[tok]
		construct := "js.unaryPrecMaps[" + tok + "]"
		pos := "-"
		if p, ok := upos[tok]; ok {
			pos = c.pos(p)
		}
		a, okA := un[tok]
		b, okB := unOp[tok]
		switch {
		case !okA || !okB:
			c.R.Bad(rule, construct, pos, "unary operator missing from unaryPrecMap/unaryOpPrecMap (reads as level 0)")
		case b != op[want.Own]:
			c.R.Bad(rule, construct, pos, fmt.Sprintf("unaryOpPrecMap=%d, ECMA-262 level %s=%d", b, want.Own, op[want.Own]))
		case a < op[want.Operand]:
			c.R.Bad(rule, construct, pos, fmt.Sprintf("unaryPrecMap=%d below the operand level %s=%d", a, want.Operand, op[want.Operand]))
		default:
			c.R.OK(rule, construct, pos, fmt.Sprintf("op=%s operand≥%s", want.Own, want.Operand))
		}
	}
}

func keysOf[V any](m map[string]V) map[string]bool {
	out := map[string]bool{}
	for k := range m {
		out[k] = true
	}
	return out
}

func constInt(k *types.Const) (int64, bool) {
	return constantInt64(k)
}

type parserOp struct{ own, minLeft, right int64 }

// parserBinaryTable extracts (own level, minimum left level, right level) per binary operator token from
// the switch in parse/v2/js.(*Parser).parseExpressionSuffix: clauses of the form
//
//	case T1, T2: if prec >= L { return left } ; if precLeft < M { fail } ; p.next() ; left = &BinaryExpr{tt, left, p.parseExpression(R)} ; precLeft = L'
func (c *Ctx) parserBinaryTable(rule string) map[string]parserOp {
	dep := c.P.Dep(pjs)
	if dep == nil {
		c.R.Unres(rule, "parse/js", "-", "dependency syntax not loaded")
		return nil
	}
	fd := load.Func(dep, "Parser.parseExpressionSuffix")
	if fd == nil {
		c.R.Unres(rule, "parse/js.Parser.parseExpressionSuffix", "-", "function not found")
		return nil
	}
	info := dep.TypesInfo
	out := map[string]parserOp{}
	ast.Inspect(fd.Body, func(n ast.Node) bool {
		cc, ok := n.(*ast.CaseClause)
		if !ok || cc.List == nil {
			return true
		}
		// does the clause build a BinaryExpr?
		var lit *ast.CompositeLit
		ast.Inspect(cc, func(x ast.Node) bool {
			if cl, ok := x.(*ast.CompositeLit); ok {
				if namedTypeName(info.TypeOf(cl)) == pjs+".BinaryExpr" {
					lit = cl
				}
			}
			return true
		})
		if lit == nil {
			return true
		}
		var po parserOp
		po.own, po.minLeft, po.right = -1, -1, -1
		// right level: argument of parseExpression inside the literal
		for _, call := range findCalls(info, lit, false, pjs+".(Parser).parseExpression") {
			if v, ok := intConst(info, call.Args[0]); ok {
				po.right = v
			}
		}
		// own level and minLeft from if conditions in the clause
		ast.Inspect(cc, func(x ast.Node) bool {
			ifs, ok := x.(*ast.IfStmt)
			if !ok {
				return true
			}
			ast.Inspect(ifs.Cond, func(y ast.Node) bool {
				b, ok := y.(*ast.BinaryExpr)
				if !ok {
					return true
				}
				lx, rx := str(b.X), str(b.Y)
				// `OpX < prec` / `prec > OpX` => returns before building when own level < prec  => own level = OpX
				if v, ok := intConst(info, b.X); ok && rx == "prec" && (b.Op == token.LSS) {
					po.own = v
				}
				if v, ok := intConst(info, b.Y); ok && lx == "prec" && (b.Op == token.GTR) {
					po.own = v
				}
				if v, ok := intConst(info, b.Y); ok && lx == "precLeft" && b.Op == token.LSS {
					po.minLeft = v
				}
				if v, ok := intConst(info, b.Y); ok && lx == "precLeft" && b.Op == token.LEQ {
					po.minLeft = v + 1
				}
				return true
			})
			return true
		})
		for _, te := range cc.List {
			out[tokenName(te)] = po
		}
		return true
	})
	if len(out) < 30 {
		c.R.Unres(rule, "parse/js.Parser.parseExpressionSuffix", c.pos(fd), fmt.Sprintf("only %d binary operator clauses recognised; the parser's shape changed", len(out)))
		return nil
	}
	return out
}

func intConst(info *types.Info, e ast.Expr) (int64, bool) {
	tv, ok := info.Types[e]
	if !ok || tv.Value == nil {
		return 0, false
	}
	return constantValInt64(tv)
}

// ---------------------------------------------------------------------------
// R01.3 save / restore of printer context flags

func (c *Ctx) r013(pk *packages.Package, rule string, only map[string]bool) {
	c.R.Rule(rule, "every save `p := X.F` of a printer context flag F ∈ {jsMinifier.inFor, jsMinifier.groupedStmt, renamer.rename} is followed, on every path from the first later assignment to X.F to a function exit (including break out of the switch case), by the restore `X.F = p`; and in minifyStmt every `m.inFor = true` is followed on all paths by `m.inFor = false` before the loop body is printed")
	info := pk.TypesInfo
	isFlag := func(e ast.Expr) string {
		t, f := fieldOf(info, e)
		if only != nil && !only[f] {
			return ""
		}
		switch {
		case t == jsMinT && (f == "inFor" || f == "groupedStmt"):
			return f
		case t == jsRenT && f == "rename":
			return f
		}
		return ""
	}
	saves := 0
	for _, fd := range load.FuncDecls(pk) {
		g := c.graph(pk, fd)
		fname := load.FuncName(fd)
		for _, n := range g.Nodes {
			if n.Kind != flow.KStmt {
				continue
			}
			as, ok := n.Stmt.(*ast.AssignStmt)
			if !ok || as.Tok != token.DEFINE || len(as.Lhs) != len(as.Rhs) {
				continue
			}
			for i, rhs := range as.Rhs {
				flag := isFlag(rhs)
				if flag == "" {
					continue
				}
				saved, ok := as.Lhs[i].(*ast.Ident)
				if !ok {
					continue
				}
				saves++
				c.R.Func("js." + fname)
				savedObj := info.Defs[saved]
				flagPath := selPath(rhs)
				construct := fmt.Sprintf("js.%s/save %s := %s#%d", fname, saved.Name, flagPath, countBefore(g, n, saved.Name, flagPath))
				isRestore := func(x *flow.Node) bool {
					r, ok := assignsTo(x, func(l ast.Expr) bool { return selPath(l) == flagPath && isFlag(l) == flag })
					if !ok {
						return false
					}
					id, ok := ast.Unparen(r).(*ast.Ident)
					return ok && info.Uses[id] == savedObj
				}
				isClobber := func(x *flow.Node) bool {
					if isRestore(x) {
						return false
					}
					_, ok := assignsTo(x, func(l ast.Expr) bool { return selPath(l) == flagPath && isFlag(l) == flag })
					return ok
				}
				// every path from the save to exit that passes a clobber must pass a restore afterwards
				var clobbers []*flow.Node
				for _, x := range g.Nodes {
					// only modifications inside the save's own region: reachable from the save before its restore
					if isClobber(x) && g.Path(flow.Search{From: []*flow.Node{n}, Goal: func(y *flow.Node) bool { return y == x }, Avoid: isRestore}) != nil {
						clobbers = append(clobbers, x)
					}
				}
				if len(clobbers) == 0 {
					c.R.Exists(rule, construct, c.pos(n.Stmt), "flag not modified after the save in this function (callee-side changes are restored by their own saves)")
					continue
				}
				bad := false
				for _, cl := range clobbers {
					if p := g.MustPassAfter(cl, isRestore, flow.Search{Track: true}); p != nil {
						bad = true
						c.R.Bad(rule, construct, c.pos(cl.Stmt), fmt.Sprintf("%s is changed at %s and a path to the function exit never restores it from %s: %s", flagPath, c.pos(cl.Stmt), saved.Name, pathStr(c, g, p)))
						break
					}
				}
				// after the last restore no further clobber without restore: covered since each clobber is checked
				if !bad {
					c.R.OK(rule, construct, c.pos(n.Stmt), fmt.Sprintf("%d modification(s), each followed by the restore on all paths", len(clobbers)))
				}
			}
		}
	}
	if only == nil {
		c.R.Floor(rule, "save sites", saves, 15)
	} else {
		c.R.Floor(rule, "save sites", saves, 3)
		return
	}

	// inFor = true ... inFor = false in minifyStmt
	if fd := c.fn(rule, pk, "jsMinifier.minifyStmt"); fd != nil {
		g := c.graph(pk, fd)
		sets := 0
		for _, n := range g.Nodes {
			r, ok := assignsTo(n, func(l ast.Expr) bool { return isFlag(l) == "inFor" })
			if !ok || str(r) != "true" {
				continue
			}
			sets++
			construct := fmt.Sprintf("js.jsMinifier.minifyStmt/inFor=true#%d", sets)
			isReset := func(x *flow.Node) bool {
				r, ok := assignsTo(x, func(l ast.Expr) bool { return isFlag(l) == "inFor" })
				return ok && str(r) == "false"
			}
			isBody := func(x *flow.Node) bool {
				if x.Kind == flow.KExit {
					return true
				}
				a := x.Ast()
				return a != nil && len(findCalls(info, a, false, load.Mod+"/js.(jsMinifier).minifyBlockAsStmt", load.Mod+"/js.(jsMinifier).minifyStmt", load.Mod+"/js.(jsMinifier).minifyBlockStmt")) > 0
			}
			p := g.Path(flow.Search{From: []*flow.Node{n}, Goal: isBody, Avoid: isReset})
			c.R.Check(p == nil, rule, construct, c.pos(n.Stmt), "reset to false before the loop body on all paths", "a path reaches the loop body / exit with inFor still true: `in` operators in the body would be parenthesised or, worse, state leaks to the caller")
		}
		c.R.Floor(rule, "inFor=true sites", sets, 3)
	}
}

func countBefore(g *flow.Graph, n *flow.Node, saved, path string) int {
	k := 0
	for _, x := range g.Nodes {
		if x == n {
			break
		}
		if x.Kind == flow.KStmt {
			if as, ok := x.Stmt.(*ast.AssignStmt); ok && as.Tok == token.DEFINE {
				for i, l := range as.Lhs {
					if id, ok := l.(*ast.Ident); ok && id.Name == saved && i < len(as.Rhs) && selPath(as.Rhs[i]) == path {
						k++
					}
				}
			}
		}
	}
	return k + 1
}

// ---------------------------------------------------------------------------
// R01.4 hasSideEffects is structurally recursive

// evaluatedSlots lists the operand slots (paths of fields of interface type IExpr, or *BlockStmt
// bodies that run immediately) of a node struct type. Deferred parts are skipped.
func (c *Ctx) evaluatedSlots(t types.Type, iexpr types.Type, prefix string, depth int, out *[]string) {
	if depth > 6 {
		return
	}
	st, ok := deref(t).Underlying().(*types.Struct)
	if !ok {
		return
	}
	owner := ""
	if n, ok := deref(t).(*types.Named); ok {
		owner = n.Obj().Name()
	}
	for i := 0; i < st.NumFields(); i++ {
		f := st.Field(i)
		if ref.JSDeferredFields[owner+"."+f.Name()] != "" {
			continue
		}
		path := prefix + f.Name()
		if f.Embedded() {
			path = prefix // promoted
			c.evaluatedSlots(f.Type(), iexpr, prefix, depth+1, out)
			continue
		}
		ft := f.Type()
		switch {
		case types.Identical(ft, iexpr):
			*out = append(*out, path)
		case isNamed(ft, pjs, "BlockStmt"):
			*out = append(*out, path+"{block}")
		default:
			switch u := ft.Underlying().(type) {
			case *types.Slice:
				if types.Identical(u.Elem(), iexpr) {
					*out = append(*out, path+"[]")
				} else if isPkgStruct(u.Elem(), pjs) {
					c.evaluatedSlots(u.Elem(), iexpr, path+"[].", depth+1, out)
				}
			case *types.Pointer:
				if isPkgStruct(u.Elem(), pjs) && !implementsAny(c, ft) {
					c.evaluatedSlots(u.Elem(), iexpr, path+".", depth+1, out)
				} else if isNamed(u.Elem(), pjs, "MethodDecl") {
					c.evaluatedSlots(u.Elem(), iexpr, path+".", depth+1, out)
				}
			case *types.Struct:
				if isPkgStruct(ft, pjs) {
					c.evaluatedSlots(ft, iexpr, path+".", depth+1, out)
				}
			}
		}
	}
}

func isNamed(t types.Type, pkg, name string) bool {
	n, ok := deref(t).(*types.Named)
	return ok && n.Obj().Pkg() != nil && n.Obj().Pkg().Path() == pkg && n.Obj().Name() == name
}

func isPkgStruct(t types.Type, pkg string) bool {
	n, ok := deref(t).(*types.Named)
	if !ok || n.Obj().Pkg() == nil || n.Obj().Pkg().Path() != pkg {
		return false
	}
	_, isStruct := n.Underlying().(*types.Struct)
	return isStruct
}

// implementsAny: pointer-to-node types such as *Var, *BlockStmt that are themselves AST nodes
// (binding names, bodies) are not walked into as operand containers.
func implementsAny(c *Ctx, t types.Type) bool {
	for _, i := range []string{"IExpr", "IStmt", "IBinding"} {
		if iface := c.jsIface(i); iface != nil && types.Implements(t, iface) {
			return true
		}
	}
	return false
}

func (c *Ctx) r014(pk *packages.Package) {
	const rule = "R01.4"
	c.R.Rule(rule, "in hasSideEffects every case clause either cannot return false, or passes every evaluated operand slot of its node type (fields of type js.IExpr, through value structs and slices; immediately executed blocks; minus the bodies/parameters that ECMA-262 defers: FuncDecl, ArrowFunc, MethodDecl) to a recursive hasSideEffects call")
	fd := c.fn(rule, pk, "hasSideEffects")
	if fd == nil {
		return
	}
	info := pk.TypesInfo
	var ts *typeSwitchInfo
	for _, t := range c.jsTypeSwitches(pk) {
		if t.fd == fd {
			ts = t
		}
	}
	if ts == nil {
		c.R.Unres(rule, "js.hasSideEffects/switch", c.pos(fd), "type switch over js.IExpr not found")
		return
	}
	iexprObj := c.P.Dep(pjs).Types.Scope().Lookup("IExpr")
	clauses := 0
	seen := map[*ast.CaseClause]bool{}
	for _, tname := range sortedKeys(keysOfCC(ts.cases)) {
		cc := ts.cases[tname]
		clauses++
		construct := "js.hasSideEffects/case *js." + tname
		tn := c.P.Dep(pjs).Types.Scope().Lookup(tname)
		var slots []string
		c.evaluatedSlots(tn.Type(), iexprObj.Type(), "", 0, &slots)
		// can the clause return false?
		canFalse := false
		ast.Inspect(cc, func(x ast.Node) bool {
			if r, ok := x.(*ast.ReturnStmt); ok && len(r.Results) == 1 && str(r.Results[0]) != "true" {
				canFalse = true
			}
			return true
		})
		if !canFalse {
			c.R.OK(rule, construct, c.pos(cc), "clause never answers false")
			continue
		}
		if len(slots) == 0 {
			c.R.OK(rule, construct, c.pos(cc), "node type has no evaluated operand slots")
			continue
		}
		// multi-type clauses: the symbol has interface type, no field access possible => cannot recurse
		covered := map[string]bool{}
		if len(cc.List) == 1 {
			covered = c.recursedSlots(info, cc, ts)
		}
		var missing []string
		for _, s := range slots {
			if !covered[s] {
				missing = append(missing, s)
			}
		}
		_ = seen
		c.R.Check(len(missing) == 0, rule, construct, c.pos(cc),
			"recurses into "+strings.Join(slots, ", "),
			fmt.Sprintf("may answer false without looking at operand slot(s) %s of *js.%s: an operand with a side effect is declared pure, and `void x`, empty-if and dead-code removal delete it", strings.Join(missing, ", "), tname))
	}
	c.R.Floor(rule, "hasSideEffects case types", clauses, 15)
}

func keysOfCC(m map[string]*ast.CaseClause) map[string]bool {
	out := map[string]bool{}
	for k := range m {
		out[k] = true
	}
	return out
}

// recursedSlots returns the operand slot paths passed to a recursive call inside the clause.
func (c *Ctx) recursedSlots(info *types.Info, cc *ast.CaseClause, ts *typeSwitchInfo) map[string]bool {
	root := info.Implicits[cc]
	alias := map[types.Object]string{}
	if root != nil {
		alias[root] = ""
	}
	// range aliases
	ast.Inspect(cc, func(x ast.Node) bool {
		rs, ok := x.(*ast.RangeStmt)
		if !ok {
			return true
		}
		if p, ok := c.slotPath(info, rs.X, alias); ok {
			if id, ok := rs.Value.(*ast.Ident); ok {
				alias[info.Defs[id]] = p + "[]"
			}
		}
		return true
	})
	out := map[string]bool{}
	// an immediately executed block (static block) cannot be passed to an expression predicate:
	// it is covered by a nil test on its path (the clause then answers for its presence)
	ast.Inspect(cc, func(x ast.Node) bool {
		if b, ok := x.(*ast.BinaryExpr); ok && b.Op == token.NEQ && str(b.Y) == "nil" {
			if p, ok := c.slotPath(info, b.X, alias); ok {
				out[p+"{block}"] = true
			}
		}
		return true
	})
	self := load.Mod + "/js." + ts.fd.Name.Name
	for _, call := range findCalls(info, cc, false, self) {
		if p, ok := c.slotPath(info, call.Args[0], alias); ok {
			out[p] = true
		}
	}
	return out
}

// slotPath renders expr.X / item.Value as a slot path relative to the clause symbol.
func (c *Ctx) slotPath(info *types.Info, e ast.Expr, alias map[types.Object]string) (string, bool) {
	switch x := ast.Unparen(e).(type) {
	case *ast.Ident:
		p, ok := alias[info.Uses[x]]
		return p, ok
	case *ast.SelectorExpr:
		p, ok := c.slotPath(info, x.X, alias)
		if !ok {
			return "", false
		}
		if p == "" || strings.HasSuffix(p, ".") {
			return p + x.Sel.Name, true
		}
		return p + "." + x.Sel.Name, true
	case *ast.StarExpr:
		return c.slotPath(info, x.X, alias)
	}
	return "", false
}

// ---------------------------------------------------------------------------
// R01.5 global names only when undeclared

func (c *Ctx) r015(pk *packages.Package) {
	const rule = "R01.5"
	c.R.Rule(rule, "every comparison bytes.Equal(v.Data | v.Name() | <local copy of v.Data>, G) in package js with v a *js.Var and G ∈ {undefined, Infinity, NaN, isNaN, Number, Math} is only acted upon together with a test of v.Decl against js.NoDecl on the same variable (dominating the true outcome, or tested immediately after it)")
	info := pk.TypesInfo
	globals := map[string]bool{"undefined": true, "Infinity": true, "NaN": true, "isNaN": true, "Number": true, "Math": true}
	sites := 0
	for _, fd := range load.FuncDecls(pk) {
		g := c.graph(pk, fd)
		fname := load.FuncName(fd)
		for _, n := range g.Nodes {
			if n.Kind != flow.KCond {
				continue
			}
			call := isCall(info, ast.Unparen(n.Expr), "bytes.Equal")
			neg := false
			if call == nil {
				continue
			}
			_ = neg
			gname := ""
			var varExpr ast.Expr
			for i, a := range call.Args {
				if id := rootIdent(a); id != nil {
					if v, ok := info.Uses[id].(*types.Var); ok && v.Parent() == pk.Types.Scope() {
						if val, err := c.Ev.Expr(pk, a); err == nil {
							if b, ok := val.([]byte); ok && globals[string(b)] {
								gname = string(b)
								varExpr = call.Args[1-i]
							}
						}
					}
				}
			}
			if gname == "" {
				continue
			}
			vobj := c.varOfNameExpr(info, g, varExpr)
			if vobj == nil {
				c.R.Unres(rule, fmt.Sprintf("js.%s/Equal(%s,%s)", fname, str(varExpr), gname), c.pos(n.Expr), "cannot resolve which *js.Var is compared")
				continue
			}
			sites++
			c.R.Func("js." + fname)
			construct := fmt.Sprintf("js.%s/%s is global %s", fname, vobj.Name(), gname)
			isDeclTest := func(t *flow.Node) bool {
				if t.Kind != flow.KCond {
					return false
				}
				b, ok := ast.Unparen(t.Expr).(*ast.BinaryExpr)
				if !ok || (b.Op != token.EQL && b.Op != token.NEQ) {
					return false
				}
				for i, side := range []ast.Expr{b.X, b.Y} {
					other := []ast.Expr{b.Y, b.X}[i]
					if ty, f := fieldOf(info, side); ty == pjs+".Var" && f == "Decl" {
						id := rootIdent(side)
						// the declaration may be asked of the variable the use is linked to: f(v).Decl with f from *js.Var to *js.Var
						if sel, ok := ast.Unparen(side).(*ast.SelectorExpr); ok {
							if ce, ok := ast.Unparen(sel.X).(*ast.CallExpr); ok && len(ce.Args) == 1 {
								if t := info.TypeOf(ce); t != nil && strings.HasSuffix(t.String(), pjs+".Var") {
									id = rootIdent(ce.Args[0])
								}
							}
						}
						if id != nil && info.Uses[id] == vobj && usesObj(info, other, pjs+".NoDecl") {
							return true
						}
					}
				}
				return false
			}
			// dominated by a Decl test outcome?
			dominated := false
			for _, f := range g.DomFacts(n) {
				if isDeclTest(f.Test) {
					b := ast.Unparen(f.Test.Expr).(*ast.BinaryExpr)
					if (b.Op == token.EQL) == f.Value {
						dominated = true
					}
				}
			}
			if dominated {
				c.R.OK(rule, construct, c.pos(n.Expr), "dominated by "+vobj.Name()+".Decl == js.NoDecl")
				continue
			}
			// tested immediately after the true outcome: every path from true(n) hits a Decl test before any statement
			var tn *flow.Node
			for _, s := range n.Succs {
				if s.Kind == flow.KTrue {
					tn = s
				}
			}
			p := g.Path(flow.Search{From: []*flow.Node{tn}, Goal: func(x *flow.Node) bool { return x.Kind == flow.KStmt || x.Kind == flow.KExit }, Avoid: isDeclTest})
			c.R.Check(p == nil, rule, construct, c.pos(n.Expr), "followed by a test of "+vobj.Name()+".Decl",
				fmt.Sprintf("`%s` is treated as the global %s without checking %s.Decl == js.NoDecl: a parameter or local of that name is rewritten as if it were the global", vobj.Name(), gname, vobj.Name()))
		}
	}
	c.R.Floor(rule, "global-name comparison sites", sites, 9)
}

func rootIdent(e ast.Expr) *ast.Ident {
	for {
		switch x := ast.Unparen(e).(type) {
		case *ast.Ident:
			return x
		case *ast.SelectorExpr:
			e = x.X
		case *ast.CallExpr:
			e = x.Fun
		case *ast.StarExpr:
			e = x.X
		case *ast.IndexExpr:
			e = x.X
		case *ast.SliceExpr:
			e = x.X
		default:
			return nil
		}
	}
}

// varOfNameExpr resolves v.Data, v.Name() or a local defined once as `:= v.Data` to the object v.
func (c *Ctx) varOfNameExpr(info *types.Info, g *flow.Graph, e ast.Expr) types.Object {
	e = ast.Unparen(e)
	switch x := e.(type) {
	case *ast.SelectorExpr:
		if ty, f := fieldOf(info, x); ty == pjs+".Var" && f == "Data" {
			if id := rootIdent(x.X); id != nil {
				return info.Uses[id]
			}
		}
	case *ast.CallExpr:
		if calleeName(info, x) == pjs+".(Var).Name" {
			if id := rootIdent(x.Fun.(*ast.SelectorExpr).X); id != nil {
				return info.Uses[id]
			}
		}
	case *ast.Ident:
		obj := info.Uses[x]
		var def ast.Expr
		n := 0
		for _, nd := range g.Nodes {
			if nd.Kind != flow.KStmt {
				continue
			}
			if as, ok := nd.Stmt.(*ast.AssignStmt); ok {
				for i, l := range as.Lhs {
					if id, ok := l.(*ast.Ident); ok && (info.Defs[id] == obj || info.Uses[id] == obj) && len(as.Lhs) == len(as.Rhs) {
						n++
						def = as.Rhs[i]
					}
				}
			}
		}
		if n == 1 && def != nil {
			if _, isId := ast.Unparen(def).(*ast.Ident); !isId {
				return c.varOfNameExpr(info, g, def)
			}
		}
	}
	return nil
}

// ---------------------------------------------------------------------------
// R01.6 string literal length beliefs

func (c *Ctx) r016(pk *packages.Package) {
	const rule = "R01.6"
	c.R.Rule(rule, "lexer invariant: the Data of a js.StringToken literal includes both quotes, so len(Data) ≥ 2. Every comparison len(x.Data) ⋈ c that is conjoined with / dominated by x.TokenType == js.StringToken on the same literal must be neither unsatisfiable nor a tautology under the invariant (a dead test contradicts the belief held by the other sites)")
	info := pk.TypesInfo
	sites := 0
	for _, fd := range load.FuncDecls(pk) {
		fname := load.FuncName(fd)
		// conjunction chains: collect, per && chain, the string-token tests and the len tests
		ast.Inspect(fd.Body, func(n ast.Node) bool {
			b, ok := n.(*ast.BinaryExpr)
			if !ok || b.Op != token.LAND {
				return true
			}
			// only top of a chain
			if p, ok := c.P.Parent(b).(*ast.BinaryExpr); ok && p.Op == token.LAND {
				return true
			}
			if p, ok := c.P.Parent(b).(*ast.ParenExpr); ok {
				if pp, ok := c.P.Parent(p).(*ast.BinaryExpr); ok && pp.Op == token.LAND {
					return true
				}
			}
			var conj []ast.Expr
			var flat func(e ast.Expr)
			flat = func(e ast.Expr) {
				e = ast.Unparen(e)
				if bb, ok := e.(*ast.BinaryExpr); ok && bb.Op == token.LAND {
					flat(bb.X)
					flat(bb.Y)
					return
				}
				conj = append(conj, e)
			}
			flat(b)
			c.checkLenBeliefs(rule, pk, fname, conj, nil, &sites)
			return true
		})
		// dominated form: if x.TokenType == StringToken { ... len(x.Data) == c ... }
		g := c.graph(pk, fd)
		for _, n := range g.Nodes {
			if n.Kind != flow.KCond {
				continue
			}
			if _, _, _, ok := lenDataCmp(info, n.Expr); !ok {
				continue
			}
			var doms []ast.Expr
			for _, f := range g.DomFacts(n) {
				if f.Value && f.Test.Kind == flow.KCond {
					doms = append(doms, f.Test.Expr)
				}
				if f.Value && f.Test.Kind == flow.KCase {
					doms = append(doms, &ast.BinaryExpr{X: f.Test.Tag, Op: token.EQL, Y: f.Test.Expr})
				}
			}
			c.checkLenBeliefs(rule, pk, fname, []ast.Expr{n.Expr}, doms, &sites)
		}
		_ = info
	}
	c.R.Floor(rule, "len(Data) tests on string literals", sites, 3)
}

// lenDataCmp matches len(x.Data) op c / c op len(x.Data) with x.Data a field of js.LiteralExpr; returns root object, normalised op, c.
func lenDataCmp(info *types.Info, e ast.Expr) (types.Object, token.Token, int64, bool) {
	b, ok := ast.Unparen(e).(*ast.BinaryExpr)
	if !ok {
		return nil, 0, 0, false
	}
	try := func(l, r ast.Expr, op token.Token) (types.Object, token.Token, int64, bool) {
		call, ok := ast.Unparen(l).(*ast.CallExpr)
		if !ok || str(call.Fun) != "len" || len(call.Args) != 1 {
			return nil, 0, 0, false
		}
		if ty, f := fieldOf(info, call.Args[0]); ty != pjs+".LiteralExpr" || f != "Data" {
			return nil, 0, 0, false
		}
		v, ok := intConst(info, r)
		if !ok {
			return nil, 0, 0, false
		}
		id := rootIdent(call.Args[0])
		if id == nil {
			return nil, 0, 0, false
		}
		return info.Uses[id], op, v, true
	}
	if o, op, v, ok := try(b.X, b.Y, b.Op); ok {
		return o, op, v, true
	}
	flip := map[token.Token]token.Token{token.LSS: token.GTR, token.GTR: token.LSS, token.LEQ: token.GEQ, token.GEQ: token.LEQ, token.EQL: token.EQL, token.NEQ: token.NEQ}
	if f, ok := flip[b.Op]; ok {
		return try(b.Y, b.X, f)
	}
	return nil, 0, 0, false
}

func (c *Ctx) checkLenBeliefs(rule string, pk *packages.Package, fname string, conj, doms []ast.Expr, sites *int) {
	info := pk.TypesInfo
	isStringTest := func(e ast.Expr, obj types.Object) bool {
		b, ok := ast.Unparen(e).(*ast.BinaryExpr)
		if !ok || b.Op != token.EQL {
			return false
		}
		for i, side := range []ast.Expr{b.X, b.Y} {
			other := []ast.Expr{b.Y, b.X}[i]
			if !usesObj(info, other, pjs+".StringToken") {
				continue
			}
			if ty, f := fieldOf(info, side); ty == pjs+".LiteralExpr" && f == "TokenType" {
				if id := rootIdent(side); id != nil && info.Uses[id] == obj {
					return true
				}
			}
			// local alias tt := lit.TokenType
			if id, ok := ast.Unparen(side).(*ast.Ident); ok {
				if def := c.singleDef(pk, id); def != nil {
					if ty, f := fieldOf(info, def); ty == pjs+".LiteralExpr" && f == "TokenType" {
						if rid := rootIdent(def); rid != nil && info.Uses[rid] == obj {
							return true
						}
					}
				}
			}
		}
		return false
	}
	for _, e := range conj {
		obj, op, v, ok := lenDataCmp(info, e)
		if !ok {
			continue
		}
		guarded := false
		for _, o := range append(append([]ast.Expr{}, conj...), doms...) {
			if o != e && isStringTest(o, obj) {
				guarded = true
			}
		}
		if !guarded {
			continue
		}
		*sites++
		c.R.Func("js." + fname)
		construct := fmt.Sprintf("js.%s/len(%s.Data) %s %d under StringToken", fname, obj.Name(), op, v)
		// evaluate over the invariant domain len ∈ [2, 2+K]
		sat, taut := false, true
		for l := int64(2); l <= v+3 || l <= 5; l++ {
			var r bool
			switch op {
			case token.EQL:
				r = l == v
			case token.NEQ:
				r = l != v
			case token.LSS:
				r = l < v
			case token.LEQ:
				r = l <= v
			case token.GTR:
				r = l > v
			case token.GEQ:
				r = l >= v
			}
			if r {
				sat = true
			} else {
				taut = false
			}
		}
		switch {
		case !sat:
			c.R.Bad(rule, construct, c.pos(e), "can never hold for a string literal (its data includes the two quotes, length ≥ 2): the branch meant for this case is dead — e.g. the empty string \"\" is not recognised")
		case taut:
			c.R.Bad(rule, construct, c.pos(e), "always holds for a string literal (length ≥ 2): the test is vacuous")
		default:
			c.R.OK(rule, construct, c.pos(e), "satisfiable and not a tautology for lengths ≥ 2")
		}
	}
}

// singleDef returns the RHS of the only definition `id := rhs` of a local in its function.
func (c *Ctx) singleDef(pk *packages.Package, id *ast.Ident) ast.Expr {
	obj := pk.TypesInfo.Uses[id]
	if obj == nil {
		return nil
	}
	fd := c.P.EnclosingFunc(id)
	if fd == nil {
		return nil
	}
	var def ast.Expr
	n := 0
	ast.Inspect(fd.Body, func(x ast.Node) bool {
		switch s := x.(type) {
		case *ast.AssignStmt:
			for i, l := range s.Lhs {
				if lid, ok := l.(*ast.Ident); ok && (pk.TypesInfo.Defs[lid] == obj || pk.TypesInfo.Uses[lid] == obj) {
					n++
					if len(s.Lhs) == len(s.Rhs) {
						def = s.Rhs[i]
					} else if len(s.Rhs) == 1 {
						def = s.Rhs[0] // multi-value call / comma-ok
					}
				}
			}
		case *ast.ValueSpec:
			for i, lid := range s.Names {
				if pk.TypesInfo.Defs[lid] == obj {
					n++
					if i < len(s.Values) {
						def = s.Values[i]
					}
				}
			}
		}
		return true
	})
	if n == 1 {
		return def
	}
	return nil
}

// ---------------------------------------------------------------------------
// R01.7 regexp escape tables

func (c *Ctx) r017(pk *packages.Package) {
	const rule = "R01.7"
	c.R.Rule(rule, "regexpEscapeTable / regexpClassEscapeTable (true = the backslash must be kept): outside a class every SyntaxCharacter, '/', and every letter/digit that starts a ControlEscape, CharacterClassEscape, assertion, c/x/u/k/p escape or back-reference is true; inside a class the ClassEscape letters, digits, '\\\\', ']' are true (ES2022 Pattern grammar, §22.2.1)")
	for _, t := range []struct {
		name string
		must string
	}{
		{"regexpEscapeTable", ref.RegexpMustKeepOutside},
		{"regexpClassEscapeTable", ref.RegexpMustKeepInClass},
	} {
		v, _, err := c.Ev.PackageVar(pk, t.name)
		if err != nil {
			c.R.Unres(rule, "js."+t.name, "-", err.Error())
			continue
		}
		l, ok := v.(*eval.List)
		if !ok || len(l.Elems) != 256 {
			c.R.Unres(rule, "js."+t.name, "-", "not a [256]bool literal")
			continue
		}
		for i := 0; i < len(t.must); i++ {
			ch := t.must[i]
			b, _ := l.Elems[ch].(bool)
			c.R.Check(b, rule, fmt.Sprintf("js.%s[%q]", t.name, ch), "-", "backslash kept", fmt.Sprintf("`\\%c` would lose its backslash and the pattern would match something else", ch))
		}
	}
}

func init() {
	mutant(&Mutant{Name: "c01-drop-debugger-case", Property: "C01", File: "js/js.go",
		Old: "\tcase *js.DebuggerStmt:\n\t\tm.write(debuggerBytes)\n\t\tm.requireSemicolon()\n", New: "",
		Rule: "R01.1", Construct: "minifyStmt/switch IStmt/case *js.DebuggerStmt"})
	mutant(&Mutant{Name: "c01-sub-right-prec", Property: "C01", File: "js/util.go",
		Old: "\tjs.SubToken:        js.OpMul,\n", New: "\tjs.SubToken:        js.OpAdd,\n",
		Rule: "R01.2", Construct: "binaryPrecMaps[SubToken]"})
	mutant(&Mutant{Name: "c01-drop-exp-key", Property: "C01", File: "js/util.go",
		Old: "\tjs.ExpToken:        js.OpUpdate,\n", New: "",
		Rule: "R01.2", Construct: "binaryPrecMaps[ExpToken]"})
	mutant(&Mutant{Name: "c01-lost-infor-restore", Property: "C01", File: "js/js.go",
		Old: "\t\tm.write(closeBracketBytes)\n\t\tm.inFor = parentInFor\n\tcase *js.ObjectExpr:", New: "\t\tm.write(closeBracketBytes)\n\t\t_ = parentInFor\n\tcase *js.ObjectExpr:",
		Rule: "R01.3", Construct: "minifyExpr/save parentInFor := m.inFor"})
	mutant(&Mutant{Name: "c01-lost-rename-restore", Property: "C01", File: "js/js.go",
		Old: "\tm.minifyParams(decl.Params, !decl.Set)\n\tm.minifyBlockStmt(&decl.Body)\n\tm.renamer.rename = parentRename\n", New: "\tm.minifyParams(decl.Params, !decl.Set)\n\tm.minifyBlockStmt(&decl.Body)\n\t_ = parentRename\n",
		Rule: "R01.3", Construct: "minifyMethodDecl/save parentRename"})
	mutant(&Mutant{Name: "c01-cond-no-recursion", Property: "C01", File: "js/util.go",
		Old: "return hasSideEffects(expr.Cond) || hasSideEffects(expr.X) || hasSideEffects(expr.Y)", New: "return hasSideEffects(expr.Cond) || hasSideEffects(expr.X)",
		Rule: "R01.4", Construct: "case *js.CondExpr"})
	mutant(&Mutant{Name: "c01-call-args-at-comma-level", Property: "C01", File: "js/js.go",
		Old: "\t\tif item.Rest {\n\t\t\tm.write(ellipsisBytes)\n\t\t}\n\t\tm.minifyExpr(item.Value, js.OpAssign)", New: "\t\tif item.Rest {\n\t\t\tm.write(ellipsisBytes)\n\t\t}\n\t\tm.minifyExpr(item.Value, js.OpExpr)",
		Rule: "R01.8", Construct: "minifyExpr(Arg.Value)"})
	mutant(&Mutant{Name: "c01-merge-unchecked-operator", Property: "C01", File: "js/util.go",
		Old: "ok && newLeft.Op == js.AddToken {", New: "ok {",
		Rule: "R01.10", Construct: "newLeft.Y read as string operand"})
	mutant(&Mutant{Name: "c01-params-ignore-default", Property: "C01", File: "js/js.go",
		Old: " || params.List[j-1].Default != nil && hasSideEffects(params.List[j-1].Default) {", New: " {",
		Rule: "R01.12", Construct: "unused parameter removal"})
	mutant(&Mutant{Name: "c01-math-without-decl", Property: "C01", File: "js/js.go",
		Old: "ok && v.Decl == js.NoDecl && bytes.Equal(v.Data, MathBytes)", New: "ok && bytes.Equal(v.Data, MathBytes)",
		Rule: "R01.5", Construct: "v is global Math"})
	mutant(&Mutant{Name: "c01-empty-string-len", Property: "C01", File: "js/js.go",
		Old: "if len(lit.Data) == 2 {\n\t\t\t\t\t\t// !\"\"", New: "if len(lit.Data) == 1 {\n\t\t\t\t\t\t// !\"\"",
		Rule: "R01.6", Construct: "len(lit.Data) == 1"})
	mutant(&Mutant{Name: "c01-regexp-x-escape", Property: "C01", File: "js/util.go",
		Old: "\ttrue, false, false, true, true, true, false, false, // x, {, |, }\n", New: "\tfalse, false, false, true, true, true, false, false, // x, {, |, }\n",
		Rule: "R01.7", Construct: "regexpEscapeTable['x']"})
	mutant(&Mutant{Name: "c01-group-elision-special-pair", Property: "C01", File: "js/js.go",
		Old: "\t\tif prec <= precInside {\n\t\t\tm.minifyExpr(expr.X, prec)", New: "\t\tif prec <= precInside || precInside == js.OpCoalesce && prec == js.OpBitOr {\n\t\t\tm.minifyExpr(expr.X, prec)",
		Rule: "R01.14", Construct: "parenthesis decision"})
	mutant(&Mutant{Name: "c01-group-elision-off-by-one", Property: "C01", File: "js/util.go",
		Old: "if _, ok := i.(*js.GroupExpr); !ok && precInside < prec {", New: "if _, ok := i.(*js.GroupExpr); !ok && precInside+1 < prec {",
		Rule: "R01.14", Construct: "groupExpr/parenthesis decision"})
	mutant(&Mutant{Name: "c01-comma-ungroup-fixed-level", Property: "C01", File: "js/js.go",
		Old: "ok && precLeft <= exprPrec(comma.List[len(comma.List)-1]) {", New: "ok && js.OpAnd <= exprPrec(comma.List[len(comma.List)-1]) {",
		Rule: "R01.14", Construct: "comma un-grouping in BinaryExpr.X"})
	mutant(&Mutant{Name: "c01-coalesce-lowering-for-every-operator", Property: "C01", File: "js/js.go",
		Old: "\t\tif expr.Op == js.NullishToken {\n\t\t\t// a??b??c needs no parentheses", New: "\t\tif expr.Op == js.NullishToken || expr.Op == js.BitOrToken {\n\t\t\t// a??b??c needs no parentheses",
		Rule: "R01.14", Construct: "precLeft = js.OpCoalesce"})
	mutant(&Mutant{Name: "c01-right-operand-at-left-level", Property: "C01", File: "js/js.go",
		Old: "\t\tprecRight := binaryRightPrecMap[expr.Op]\n", New: "\t\tprecRight := binaryLeftPrecMap[expr.Op]\n",
		Rule: "R01.14", Construct: "precRight = "})
	mutant(&Mutant{Name: "c01-call-drops-optional-group", Property: "C01", File: "js/js.go",
		Old: "\t\tif isOptionalGroup(expr.X) {\n\t\t\tm.minifyExpr(expr.X, js.OpMember)\n\t\t} else {\n\t\t\tm.minifyExpr(expr.X, js.OpCall)\n\t\t}\n\t\tparentInFor := m.inFor", New: "\t\tm.minifyExpr(expr.X, js.OpCall)\n\t\tparentInFor := m.inFor",
		Rule: "R01.15", Construct: "case *js.CallExpr"})
	mutant(&Mutant{Name: "c01-optional-group-test-misses-index", Property: "C01", File: "js/util.go",
		Old: "\t\tcase *js.IndexExpr:\n\t\t\treturn expr.Optional\n\t\tcase *js.CallExpr:\n\t\t\treturn expr.Optional\n\t\tcase *js.TemplateExpr:", New: "\t\tcase *js.CallExpr:\n\t\t\treturn expr.Optional\n\t\tcase *js.TemplateExpr:",
		Rule: "R01.15", Construct: "keeps an optional group"})
	mutant(&Mutant{Name: "c01-cond-branches-clear-infor", Property: "C01", File: "js/js.go",
		Old: "\t\tm.write(questionBytes)\n\t\tm.minifyExpr(expr.X, js.OpAssign)\n\t\tm.write(colonBytes)\n\t\tm.minifyExpr(expr.Y, js.OpAssign)\n", New: "\t\tm.write(questionBytes)\n\t\tparentInFor := m.inFor\n\t\tm.inFor = false\n\t\tm.minifyExpr(expr.X, js.OpAssign)\n\t\tm.write(colonBytes)\n\t\tm.minifyExpr(expr.Y, js.OpAssign)\n\t\tm.inFor = parentInFor\n",
		Rule: "R01.16", Construct: "minifyExpr/cleared region"})
	mutant(&Mutant{Name: "c01-equal-expr-accepts-member-chains", Property: "C01", File: "js/util.go",
		Old: "\t\t\treturn bytes.Equal(left.Name(), right.Name())\n\t\t}\n\t}\n", New: "\t\t\treturn bytes.Equal(left.Name(), right.Name())\n\t\t}\n\t} else if left, ok := a.(*js.DotExpr); ok {\n\t\tif right, ok := b.(*js.DotExpr); ok {\n\t\t\treturn bytes.Equal(left.Y.Data, right.Y.Data) && isEqualExpr(left.X, right.X)\n\t\t}\n\t}\n",
		Rule: "R01.17", Construct: "isEqualExpr"})
	mutant(&Mutant{Name: "c01-assignment-to-parameter-becomes-var", Property: "C01", File: "js/vars.go",
		Old: "\t\tif v, ok := binaryExpr.X.(*js.Var); ok && v.Decl == js.VariableDecl {\n\t\t\taddDefinition(decl, v, binaryExpr.Y, forward)\n\t\t\treturn true", New: "\t\tif v, ok := binaryExpr.X.(*js.Var); ok && (v.Decl == js.VariableDecl || v.Decl == js.ArgumentDecl) {\n\t\t\taddDefinition(decl, v, binaryExpr.Y, forward)\n\t\t\treturn true",
		Rule: "R01.18", Construct: "becomes a declaration"})
	mutant(&Mutant{Name: "c01-pattern-moved-past-initializers", Property: "C01", File: "js/vars.go",
		Old: "interferes := item.Default != nil && prevDefault", New: "_ = prevDefault\n\t\t\t\t\tinterferes := false",
		Rule: "R01.19", Construct: "only in front of uninitialised items"})
	mutant(&Mutant{Name: "c01-hex-digit-e-ends-the-zero-scan", Property: "C01", File: "js/util.go",
		Old: "if !hasPrefix && (c == 'e' || c == 'E') || c == 'n' {", New: "if c == 'e' || c == 'E' || c == 'n' {",
		Rule: "R01.20", Construct: "HexadecimalToken"})
	mutant(&Mutant{Name: "c01-class-declaration-dropped-blindly", Property: "C01", File: "js/stmtlist.go",
		Old: "\t\t\t\tif hasSideEffects(classDecl) {\n\t\t\t\t\treturn blockStmt // extends, computed names and static initializers are evaluated\n\t\t\t\t}\n", New: "\t\t\t\t_ = classDecl\n",
		Rule: "R01.21", Construct: "class declaration dropped"})
	mutant(&Mutant{Name: "c01-optional-chain-for-null-branch", Property: "C01", File: "js/util.go",
		Old: "\t\t} else if isUndefined(left) {\n\t\t\t// convert conditional expression to optional expr", New: "\t\t} else if isUndefinedOrNull(left) {\n\t\t\t// convert conditional expression to optional expr",
		Rule: "R01.24", Construct: "only when the other branch is undefined"})
	mutant(&Mutant{Name: "c01-laststmt-looks-through-labels", Property: "C01", File: "js/util.go",
		Old: "\t\treturn lastStmt(block.List[len(block.List)-1])\n\t}\n", New: "\t\treturn lastStmt(block.List[len(block.List)-1])\n\t} else if labelled, ok := stmt.(*js.LabelledStmt); ok {\n\t\treturn lastStmt(labelled.Value)\n\t}\n",
		Rule: "R01.17", Construct: "lastStmt"})
	mutant(&Mutant{Name: "c01-array-rest-only-identifier", Property: "C01", File: "js/vars.go",
		Old: "\t\tif binding.Rest != nil {\n\t\t\tvs = append(vs, bindingVars(binding.Rest)...)\n\t\t}", New: "\t\tif v, ok := binding.Rest.(*js.Var); ok {\n\t\t\tvs = append(vs, v)\n\t\t}",
		Rule: "R01.13", Construct: "bindingVars/case *js.BindingArray"})
	mutant(&Mutant{Name: "c01-object-pattern-values-skipped", Property: "C01", File: "js/vars.go",
		Old: "\t\t\tif item.Value.Binding != nil {\n\t\t\t\tvs = append(vs, bindingVars(item.Value.Binding)...)\n\t\t\t}", New: "\t\t\tif v, ok := item.Value.Binding.(*js.Var); ok {\n\t\t\t\tvs = append(vs, v)\n\t\t\t}",
		Rule: "R01.13", Construct: "bindingVars/case *js.BindingObject"})
	mutant(&Mutant{Name: "c01-empty-else-hides-dangling-if", Property: "C01", File: "js/util.go",
		Old: "\t\tif isEmptyStmt(stmt.Else) { // an empty else is not written\n", New: "\t\tif stmt.Else == nil {\n",
		Rule: "R01.26", Construct: "missing else judged like the printer"})
	mutant(&Mutant{Name: "c01-same-constant-twice-folds-to-loose-null", Property: "C01", File: "js/util.go",
		Old: "if leftVar != nil && leftVar == rightVar && (left.Op == eqEqOp || right.Op == eqEqOp || leftNull != rightNull) {", New: "if leftVar != nil && leftVar == rightVar && (left.Op == eqEqOp || right.Op == eqEqOp || leftNull || !rightNull) {",
		Rule: "R01.27", Construct: "names both constants"})
	mutant(&Mutant{Name: "c01-math-round-replaced-by-bit-or", Property: "C01", File: "js/js.go",
		Old: "} else if bytes.Equal(dot.Y.Data, []byte(\"trunc\")) {", New: "} else if bytes.Equal(dot.Y.Data, []byte(\"trunc\")) || bytes.Equal(dot.Y.Data, []byte(\"floor\")) {",
		Rule: "R01.28", Construct: "Math.floor replaced only by an identity"})
	mutant(&Mutant{Name: "c01-cond-merge-under-wider-equality", Property: "C01", File: "js/util.go",
		Old: "\t} else if isEqualExpr(finalCond, expr.Y) && (exprPrec(finalCond)", New: "\t} else if (isEqualExpr(finalCond, expr.Y) || isBooleanExpr(expr.Y)) && (exprPrec(finalCond)",
		Rule: "R01.25", Construct: "omits Y only with a licence"})
}
