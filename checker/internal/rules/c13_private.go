package rules

import (
	"fmt"
	"go/token"
	"go/types"
	"sort"
	"strings"

	"golang.org/x/tools/go/ssa"
)

// R13.7: parameter maps handed to minifiers / returned to callers are private to the call.
//
// Backward origin analysis on SSA. The origin of a map value is one of
//
//	fresh   – made in this call (MakeMap, composite literal, result of a function outside the module
//	          other than the sync packages, nil)
//	shared  – loaded from a package-level variable, loaded through a pointer that is itself shared
//	          or is the *M receiver, or obtained from a method of package sync / sync/atomic
//	          (sync.Map.Load, sync.Pool.Get, atomic.Value.Load): memory that outlives the call
//	param   – a parameter: lifted to the actual arguments at every call site inside the module;
//	          for exported functions the external caller's own value is the caller's business
type origin struct {
	kind string // "fresh" | "shared" | "extern-param"
	what string
}

type originCtx struct {
	c     *Ctx
	memo  map[ssa.Value][]origin
	stack map[ssa.Value]bool
}

func (oc *originCtx) of(v ssa.Value, depth int) []origin {
	if v == nil {
		return nil
	}
	if r, ok := oc.memo[v]; ok {
		return r
	}
	if oc.stack[v] || depth > 40 {
		return nil
	}
	oc.stack[v] = true
	defer delete(oc.stack, v)
	out := oc.compute(v, depth)
	oc.memo[v] = out
	return out
}

func inModule(fn *ssa.Function) bool {
	return fn != nil && fn.Pkg != nil && fn.Blocks != nil && strings.HasPrefix(fn.Pkg.Pkg.Path(), "github.com/tdewolff/minify/v2")
}

func isSyncPkg(p *types.Package) bool {
	return p != nil && (p.Path() == "sync" || p.Path() == "sync/atomic")
}

func (oc *originCtx) pos(v ssa.Value) string {
	if in, ok := v.(ssa.Instruction); ok && in.Pos() != token.NoPos {
		return oc.c.P.Pos(in.Pos())
	}
	if v.Pos() != token.NoPos {
		return oc.c.P.Pos(v.Pos())
	}
	return "-"
}

// pointerShared: is memory behind pointer-like value p memory that outlives the call?
func (oc *originCtx) pointerShared(p ssa.Value, depth int) (bool, string) {
	for _, o := range oc.of(p, depth+1) {
		if o.kind == "shared" {
			return true, o.what
		}
	}
	return false, ""
}

func (oc *originCtx) callResult(call *ssa.Call, idx int, depth int) []origin {
	cc := call.Common()
	if cc.IsInvoke() {
		if isSyncPkg(cc.Method.Pkg()) {
			return []origin{{"shared", "result of " + cc.Method.FullName() + " at " + oc.pos(call)}}
		}
		return []origin{{"fresh", "result of interface call " + cc.Method.Name()}}
	}
	if b, ok := cc.Value.(*ssa.Builtin); ok {
		if b.Name() == "append" {
			return oc.of(cc.Args[0], depth+1)
		}
		return []origin{{"fresh", "builtin " + b.Name()}}
	}
	fn := cc.StaticCallee()
	if fn == nil {
		return []origin{{"fresh", "result of a dynamic call"}}
	}
	if fn.Pkg != nil && isSyncPkg(fn.Pkg.Pkg) || fn.Signature.Recv() != nil && isSyncPkg(fn.Signature.Recv().Pkg()) || fn.Object() != nil && isSyncPkg(fn.Object().Pkg()) {
		return []origin{{"shared", "result of " + fn.String() + " at " + oc.pos(call) + " (state kept between calls)"}}
	}
	if !inModule(fn) {
		return []origin{{"fresh", "result of " + fn.String()}}
	}
	var out []origin
	for _, b := range fn.Blocks {
		for _, ins := range b.Instrs {
			ret, ok := ins.(*ssa.Return)
			if !ok || idx >= len(ret.Results) {
				continue
			}
			for _, o := range oc.of(ret.Results[idx], depth+1) {
				if o.kind == "param" {
					// map callee parameter to the actual argument of this call
					var pi int
					fmt.Sscanf(o.what, "%d", &pi)
					if pi < len(cc.Args) {
						out = append(out, oc.of(cc.Args[pi], depth+1)...)
					}
					continue
				}
				out = append(out, o)
			}
		}
	}
	return out
}

func (oc *originCtx) compute(v ssa.Value, depth int) []origin {
	switch x := v.(type) {
	case *ssa.Const:
		return []origin{{"fresh", "nil"}}
	case *ssa.MakeMap, *ssa.MakeSlice, *ssa.MakeChan:
		return []origin{{"fresh", "made at " + oc.pos(v)}}
	case *ssa.Alloc:
		return []origin{{"fresh", "allocated at " + oc.pos(v)}}
	case *ssa.Global:
		return []origin{{"shared", "package-level variable " + x.Pkg.Pkg.Name() + "." + x.Name()}}
	case *ssa.Parameter:
		fn := x.Parent()
		for i, p := range fn.Params {
			if p == x {
				if i == 0 && fn.Signature.Recv() != nil && namedTypeName(fn.Signature.Recv().Type()) == "github.com/tdewolff/minify/v2.M" {
					return []origin{{"shared", "the registry *M (receiver of " + fn.Name() + ")"}}
				}
				return []origin{{"param", fmt.Sprintf("%d %s of %s", i, x.Name(), fnName(fn))}}
			}
		}
	case *ssa.FreeVar:
		return []origin{{"fresh", "captured variable " + x.Name()}}
	case *ssa.Phi:
		var out []origin
		for _, e := range x.Edges {
			out = append(out, oc.of(e, depth+1)...)
		}
		return out
	case *ssa.TypeAssert:
		return oc.of(x.X, depth+1)
	case *ssa.ChangeType:
		return oc.of(x.X, depth+1)
	case *ssa.ChangeInterface:
		return oc.of(x.X, depth+1)
	case *ssa.MakeInterface:
		return oc.of(x.X, depth+1)
	case *ssa.Convert:
		return oc.of(x.X, depth+1)
	case *ssa.Slice:
		return oc.of(x.X, depth+1)
	case *ssa.Field:
		return oc.of(x.X, depth+1)
	case *ssa.Extract:
		if call, ok := x.Tuple.(*ssa.Call); ok {
			return oc.callResult(call, x.Index, depth)
		}
		return oc.of(x.Tuple, depth+1)
	case *ssa.Call:
		return oc.callResult(x, 0, depth)
	case *ssa.Lookup:
		return oc.of(x.X, depth+1)
	case *ssa.Index:
		return oc.of(x.X, depth+1)
	case *ssa.FieldAddr, *ssa.IndexAddr:
		// an address: its memory is shared iff the base is
		var base ssa.Value
		if fa, ok := x.(*ssa.FieldAddr); ok {
			base = fa.X
		} else {
			base = x.(*ssa.IndexAddr).X
		}
		return oc.of(base, depth+1)
	case *ssa.UnOp:
		if x.Op != token.MUL {
			return []origin{{"fresh", "computed"}}
		}
		switch a := x.X.(type) {
		case *ssa.Global:
			return []origin{{"shared", "package-level variable " + a.Pkg.Pkg.Name() + "." + a.Name()}}
		case *ssa.Alloc:
			var out []origin
			for _, r := range *a.Referrers() {
				if st, ok := r.(*ssa.Store); ok && st.Addr == ssa.Value(a) {
					out = append(out, oc.of(st.Val, depth+1)...)
				}
			}
			return out
		case *ssa.FieldAddr:
			// field of a local / fresh struct: the values stored into that field in this function
			if isFreshAlloc(a.X) {
				var out []origin
				for _, r := range *a.X.Referrers() {
					if fa, ok := r.(*ssa.FieldAddr); ok && fa.Field == a.Field {
						for _, rr := range *fa.Referrers() {
							if st, ok := rr.(*ssa.Store); ok && st.Addr == ssa.Value(fa) {
								out = append(out, oc.of(st.Val, depth+1)...)
							}
						}
					}
				}
				if len(out) > 0 {
					return out
				}
			}
			if sh, what := oc.pointerShared(a.X, depth); sh {
				return []origin{{"shared", "field read through " + what}}
			}
			return oc.of(a.X, depth+1)
		default:
			if sh, what := oc.pointerShared(x.X, depth); sh {
				return []origin{{"shared", "read through " + what}}
			}
			return oc.of(x.X, depth+1)
		}
	}
	return []origin{{"fresh", "opaque " + v.Name()}}
}

func isParamsMap(t types.Type) bool {
	m, ok := t.Underlying().(*types.Map)
	if !ok {
		return false
	}
	k, ok1 := m.Key().Underlying().(*types.Basic)
	e, ok2 := m.Elem().Underlying().(*types.Basic)
	return ok1 && ok2 && k.Kind() == types.String && e.Kind() == types.String
}

func (c *Ctx) r137() {
	const rule = "R13.7"
	c.R.Rule(rule, "the parameter map a minifier receives, and every map an exported function of the root package returns, is private to the call: on SSA, walking back from (a) every map[string]string argument of an interface call, of a call through a function value and of (*M).MinifyMimetype in the library packages, and (b) every map-typed result of an exported function of package minify — through φ, type assertions, field/element reads, local cells, module-internal calls (their returns) and parameters (lifted to the actual arguments of every call site in the module) — no origin is a package-level variable, a read through the *M receiver or through a pointer obtained from such memory, or the result of a sync / sync/atomic method (sync.Map.Load, sync.Pool.Get): a minifier or Match caller that edits its params would otherwise change what every later and concurrent call sees")
	prog, _ := c.P.SSA()
	if prog == nil {
		c.R.Unres(rule, "ssa", "-", "SSA program missing")
		return
	}
	oc := &originCtx{c: c, memo: map[ssa.Value][]origin{}, stack: map[ssa.Value]bool{}}
	// callers index for parameter lifting
	callers := map[*ssa.Function][]*ssa.Call{}
	var fns []*ssa.Function
	for _, rel := range libPkgs {
		fns = append(fns, c.ssaFuncsOf(rel)...)
	}
	for _, fn := range fns {
		for _, b := range fn.Blocks {
			for _, ins := range b.Instrs {
				if call, ok := ins.(*ssa.Call); ok {
					if cal := call.Common().StaticCallee(); cal != nil {
						callers[cal] = append(callers[cal], call)
					}
				}
			}
		}
	}
	var resolve func(v ssa.Value, depth int) []origin
	resolve = func(v ssa.Value, depth int) []origin {
		var out []origin
		for _, o := range oc.of(v, 0) {
			if o.kind != "param" {
				out = append(out, o)
				continue
			}
			var pi int
			fmt.Sscanf(o.what, "%d", &pi)
			var fn *ssa.Function
			if p, ok := v.(*ssa.Parameter); ok {
				fn = p.Parent()
			}
			// find the function the parameter belongs to from the description when v is derived
			if fn == nil {
				if in, ok := v.(ssa.Instruction); ok {
					fn = in.Parent()
				}
			}
			if fn == nil || depth > 4 {
				out = append(out, origin{"extern-param", o.what})
				continue
			}
			sites := callers[fn]
			if fn.Object() != nil && fn.Object().Exported() {
				out = append(out, origin{"extern-param", o.what + " (external callers pass their own map)"})
			}
			for _, cs := range sites {
				args := cs.Common().Args
				if pi < len(args) {
					out = append(out, resolve(args[pi], depth+1)...)
				}
			}
		}
		return out
	}
	n := 0
	check := func(fn *ssa.Function, v ssa.Value, construct, pos string) {
		n++
		var shared []string
		seen := map[string]bool{}
		for _, o := range resolve(v, 0) {
			if o.kind == "shared" && !seen[o.what] {
				seen[o.what] = true
				shared = append(shared, o.what)
			}
		}
		sort.Strings(shared)
		c.R.Check(len(shared) == 0, rule, construct, pos, "every origin is made in the call or belongs to the caller", "the map is memory that outlives the call ("+strings.Join(shared, "; ")+"): whoever receives it can change what later and concurrent calls see")
	}
	for _, fn := range fns {
		k := 0
		for _, b := range fn.Blocks {
			for _, ins := range b.Instrs {
				switch x := ins.(type) {
				case *ssa.Call:
					cc := x.Common()
					if _, isB := cc.Value.(*ssa.Builtin); isB {
						continue
					}
					st := cc.StaticCallee()
					isSink := cc.IsInvoke() || st == nil || st.Name() == "MinifyMimetype" && st.Signature.Recv() != nil
					if !isSink {
						continue
					}
					for _, a := range cc.Args {
						if isParamsMap(a.Type()) {
							k++
							check(fn, a, fmt.Sprintf("%s/params handed to a minifier#%d", fnName(fn), k), c.P.Pos(x.Pos()))
						}
					}
				case *ssa.Return:
					if fn.Pkg == nil || fn.Pkg.Pkg.Path() != "github.com/tdewolff/minify/v2" || fn.Object() == nil || !fn.Object().Exported() {
						continue
					}
					for i, r := range x.Results {
						if _, isMap := r.Type().Underlying().(*types.Map); isMap {
							check(fn, r, fmt.Sprintf("%s/result %d", fnName(fn), i), c.P.Pos(x.Pos()))
						}
					}
				}
			}
		}
	}
	c.R.Floor(rule, "params sinks", n, 6)
}
